/-
  C19 — BADA-3 fuel-burn integration keeps mass, thrust and fuel flow consistent.

  All theorems are about the model `AeicModel/Bada.lean` read over ℝ (ideal arithmetic).  The model follows the
  repaired code (branch `b-c19`); the `…_asIs_…` theorems are the negation results for the code as found.
  The drivers are proved for an arbitrary map `burnOf : mass vector ↦ burn-per-metre vector`; the `bada_…`
  theorems instantiate it with the BADA-3 model (`burnVec e P pts`).
-/
import AeicProofs.Lemmas.C19Drivers
import AeicProofs.Lemmas.KernelBridge
import AeicProofs.Lemmas.KernelBridge4

namespace C19
open Aeic Aeic.Bada

/-! ## 1. thrust: total energy, limited above by the maximum thrust, replaced by descent thrust when negative -/

/-- the selection layer of `calculate_thrust` is the thrust of the property statement. -/
theorem thrust_eq_spec (te mx ds : ℝ) : selectThrust te mx ds = thrustSpec te mx ds := by
  unfold selectThrust thrustSpec
  have h : (if mx < te then mx else te) = min te mx := by
    split_ifs with h
    · exact (min_eq_right h.le).symm
    · exact (min_eq_left (not_lt.mp h)).symm
  simp only [smin_real, h]

/-- whenever no descent substitution happens the thrust is within `[0, max thrust]`. -/
theorem thrust_le_max (te mx ds : ℝ) (h : 0 ≤ min te mx) :
    selectThrust te mx ds ≤ mx ∧ 0 ≤ selectThrust te mx ds ∧ selectThrust te mx ds ≤ te := by
  rw [thrust_eq_spec]; unfold thrustSpec
  simp only [smin_real, lit0, if_neg (not_lt.mpr h)]
  exact ⟨min_le_right _ _, h, min_le_left _ _⟩

/-- negative total-energy thrust (or a negative limit) is replaced by the descent thrust. -/
theorem negative_thrust_replaced (te mx ds : ℝ) (h : te < 0 ∨ mx < 0) : selectThrust te mx ds = ds := by
  rw [thrust_eq_spec]; unfold thrustSpec
  have : min te mx < 0 := by
    rcases h with h | h
    · exact lt_of_le_of_lt (min_le_left _ _) h
    · exact lt_of_le_of_lt (min_le_right _ _) h
  simp only [smin_real, lit0, if_pos this]

/-- inside the limits the total-energy thrust is returned unchanged. -/
theorem thrust_unchanged_within_limits (te mx ds : ℝ) (h0 : 0 ≤ te) (h1 : te ≤ mx) :
    selectThrust te mx ds = te := by
  rw [thrust_eq_spec]; unfold thrustSpec
  have hm : min te mx = te := min_eq_left h1
  simp only [smin_real, lit0, hm, if_neg (not_lt.mpr h0)]

/-- if the descent thrust itself respects the limit, the thrust never exceeds the maximum thrust. -/
theorem thrust_le_max_of_descent_le (te mx ds : ℝ) (hds : ds ≤ mx) : selectThrust te mx ds ≤ mx := by
  rw [thrust_eq_spec]; unfold thrustSpec
  simp only [smin_real, lit0]
  split_ifs
  · exact hds
  · exact min_le_right _ _

/-- maximum thrust is the cruise value (`C_Tcr ×` climb) exactly on cruise points. -/
theorem max_thrust_by_phase (e : Engine) (P : Params ℝ) (p : Pt ℝ) :
    (p.cruise = true → maxThrust e P p = maxClimb e P p.alt p.vtas p.temp * P.cTcr) ∧
    (p.cruise = false → maxThrust e P p = maxClimb e P p.alt p.vtas p.temp) := by
  unfold maxThrust maxCruise
  constructor <;> intro h <;> simp [h]

/-- eq. (3.7-4): the temperature correction scales ISA climb thrust by a factor in `[0.6, 1]`. -/
theorem max_climb_temperature_factor (e : Engine) (P : Params ℝ) (h v t : ℝ) :
    maxClimb e P h v t = maxClimbIsa e P h v * tempFactor P h t ∧
    (6 : ℝ) / 10 ≤ tempFactor P h t ∧ tempFactor P h t ≤ 1 := by
  obtain ⟨h0, h4⟩ := clip_bounds ((t - isaTemp h - P.cTc4) * smax (Lit.dec 0 0) P.cTc5)
  refine ⟨rfl, ?_, ?_⟩ <;> unfold tempFactor <;> rw [lit1] <;> linarith

/-- eqs (3.7-1)–(3.7-3): ISA maximum climb thrust of the three engine types (altitude in ft, speed in kt). -/
theorem max_climb_isa_eq_bada3 (P : Params ℝ) (h v : ℝ) :
    let hft := h * Gen.METERS_TO_FEET
    let vk := v * Gen.MPS_TO_KNOTS
    maxClimbIsa .jet P h v = P.cTc1 * (1 - hft / P.cTc2 + P.cTc3 * hft ^ 2) ∧
    maxClimbIsa .turboprop P h v = P.cTc1 / vk * (1 - hft / P.cTc2) + P.cTc3 ∧
    maxClimbIsa .piston P h v = P.cTc1 * (1 - hft / P.cTc2) + P.cTc3 / vk := by
  unfold maxClimbIsa
  simp only [lit1]
  refine ⟨by ring, trivial, trivial⟩

/-- with plausible coefficients (`0 ≤ C_Tdes ≤ C_Tcr ≤ 1`, non-negative climb thrust) the descent thrust is below
    the maximum thrust, so the model's thrust never exceeds the maximum climb / cruise thrust. -/
theorem thrust_never_exceeds_max (e : Engine) (P : Params ℝ) (m : ℝ) (p : Pt ℝ)
    (hmc : 0 ≤ maxClimb e P p.alt p.vtas p.temp)
    (hlo : P.cTdesLow ≤ P.cTcr) (hhi : P.cTdesHigh ≤ P.cTcr) (hcr : P.cTcr ≤ 1) :
    thrust e P m p ≤ maxThrust e P p := by
  unfold thrust
  apply thrust_le_max_of_descent_le
  unfold descentThrust maxThrust descentHigh descentLow maxCruise
  set M := maxClimb e P p.alt p.vtas p.temp
  split_ifs <;> nlinarith

/-- the model's thrust is the property's thrust of (total-energy thrust, phase maximum, altitude-selected descent). -/
theorem thrust_model (e : Engine) (P : Params ℝ) (m : ℝ) (p : Pt ℝ) :
    thrust e P m p = thrustSpec (teThrust P m p) (maxThrust e P p) (descentThrust e P p) :=
  thrust_eq_spec _ _ _

/-- total-energy thrust: drag `½ρV²S(C_D0 + C_D2·C_L²)` with `C_L = 2mg/(ρV²S)` plus `m(g·ḣ/V + V̇)`. -/
theorem total_energy_thrust (P : Params ℝ) (m : ℝ) (p : Pt ℝ) :
    teThrust P m p =
      (let rho := airDensity (isaPressure p.alt) p.temp
       let cl := 2 * m * Gen.g0 / (rho * P.sRef * p.vtas ^ 2)
       1 / 2 * rho * p.vtas ^ 2 * P.sRef * (P.cD0 + P.cD2 * cl ^ 2)
         + m * (Gen.g0 * p.rocd / p.vtas + p.acc)) := by
  unfold teThrust totalEnergyThrust dragForce dragCoeff liftCoeff
  simp only [lit_real]
  push_cast
  ring

/-! ## 2. fuel flow -/

/-- jet / turboprop / piston fuel flow is the BADA-3 equation (kg/s), cruise-corrected on cruise points. -/
theorem fuel_flow_eq_bada3 (e : Engine) (P : Params ℝ) (thr : ℝ) (p : Pt ℝ) :
    fuelFlow e P thr p = fuelFlowSpec e P thr p.vtas p.cruise := by
  unfold fuelFlow selectFuelFlow nominalFuelFlow cruiseFuelFlow fuelFlowSpec sfc
  cases e <;> cases p.cruise <;> simp only [lit_real, Bool.false_eq_true, if_false, if_true] <;> push_cast <;> ring

/-- the cruise correction `C_fcr` is applied on cruise points and only there. -/
theorem cruise_factor_only_in_cruise (e : Engine) (P : Params ℝ) (thr : ℝ) (p : Pt ℝ) :
    (p.cruise = false → fuelFlow e P thr p = nominalFuelFlow e P thr p.vtas) ∧
    (p.cruise = true → fuelFlow e P thr p = nominalFuelFlow e P thr p.vtas * P.cFcr) := by
  unfold fuelFlow selectFuelFlow
  constructor <;> intro h <;> simp only [h] <;> simp
  cases e <;> simp [nominalFuelFlow, cruiseFuelFlow]

/-- as found, the piston model returned `C_f1` (kg/min) as kg/s: sixty times the BADA-3 flow. -/
theorem piston_asIs_sixty_times (P : Params ℝ) (thr v : ℝ) :
    pistonNominalAsIs P = 60 * nominalFuelFlow .piston P thr v ∧
    pistonCruiseAsIs P = 60 * cruiseFuelFlow .piston P thr v := by
  unfold pistonNominalAsIs pistonCruiseAsIs nominalFuelFlow cruiseFuelFlow
  simp only [lit_real]; push_cast
  constructor <;> ring

/-- fuel flow is non-negative for plausible coefficients and non-negative thrust
    (`C_f1, C_fcr ≥ 0`, `C_f2 > 0`, `V ≥ 0`, and `V[kt] ≤ C_f2` for turboprops). -/
theorem fuel_flow_nonneg (e : Engine) (P : Params ℝ) (thr : ℝ) (p : Pt ℝ)
    (h1 : 0 ≤ P.cF1) (h2 : 0 < P.cF2) (hc : 0 ≤ P.cFcr) (hv : 0 ≤ p.vtas) (ht : 0 ≤ thr)
    (htp : e = .turboprop → p.vtas * Gen.MPS_TO_KNOTS ≤ P.cF2) :
    0 ≤ fuelFlow e P thr p := by
  have hk := mps_to_knots_pos
  have hvk : 0 ≤ p.vtas * Gen.MPS_TO_KNOTS := mul_nonneg hv hk.le
  have hs : 0 ≤ sfc e P p.vtas := by
    unfold sfc
    cases e <;> simp only [lit_real] <;> push_cast
    · positivity
    · have : 0 ≤ 1 - p.vtas * Gen.MPS_TO_KNOTS / P.cF2 := by
        rw [sub_nonneg, div_le_one h2]; exact htp rfl
      norm_num
      exact div_nonneg (mul_nonneg (mul_nonneg h1 this) (div_nonneg hvk (by norm_num))) (by norm_num)
    · norm_num
  unfold fuelFlow selectFuelFlow nominalFuelFlow cruiseFuelFlow
  cases e <;> cases p.cruise <;> simp only [lit_real] <;> push_cast <;> simp <;> positivity

/-! ## 3. specific ground range and the integrand of the mass update -/

/-- `ground speed / fuel flow`, and `0` for zero fuel flow. -/
theorem sgr_eq (gs ff : ℝ) : (ff ≠ 0 → sgrOf gs ff = gs / ff) ∧ sgrOf gs 0 = 0 := by
  unfold sgrOf; simp only [lit0]
  constructor
  · intro h
    rcases lt_or_gt_of_ne h with h | h
    · simp [h]
    · simp [h]
  · simp

/-- the integrand is never negative … -/
theorem burn_nonneg (s : ℝ) : 0 ≤ burnPerMetre s := by
  unfold burnPerMetre; simp only [lit0, lit1]
  split_ifs with h
  · exact le_refl _
  · have : 0 < s := by linarith
    positivity

/-- … and for a physical point (positive fuel flow not exceeding 1 kg per metre flown) it is
    `fuel flow / ground speed`, the quantity the property integrates. -/
theorem burn_eq_fuel_flow_over_ground_speed (gs ff : ℝ) (hff : 0 < ff) (hgs : ff ≤ gs) :
    burnPerMetre (sgrOf gs ff) = ff / gs := by
  have hs : sgrOf gs ff = gs / ff := (sgr_eq gs ff).1 hff.ne'
  have h1 : ¬ gs / ff < 1 := by rw [not_lt, le_div_iff₀ hff]; linarith
  unfold burnPerMetre; rw [hs]; simp only [lit0, lit1, if_neg h1]
  field_simp

/-- zero fuel flow burns nothing. -/
theorem burn_zero_flow (gs : ℝ) : burnPerMetre (sgrOf gs 0) = 0 := by
  rw [(sgr_eq gs 0).2]; unfold burnPerMetre; simp

theorem burnVec_nonneg (e : Engine) (P : Params ℝ) (pts : List (Pt ℝ)) (mass : List ℝ) :
    ∀ y ∈ burnVec e P pts mass, 0 ≤ y := by
  intro y hy
  unfold burnVec at hy
  rcases List.mem_map.mp hy with ⟨s, _, rfl⟩
  exact burn_nonneg s

/-! ## 4. the two mass updates -/

/-- forward update: starts at the prescribed mass; the decrease over each step is the trapezoid term. -/
theorem update_forward (m0 : ℝ) (b dx : List ℝ) :
    headD (massFwd m0 b dx) = m0 ∧ diffs (massFwd m0 b dx) = trapTerms b dx :=
  ⟨headD_massFwd dx m0 b, diffs_massFwd dx m0 b⟩

/-- backward update (repaired): ends at the prescribed mass; each step is the trapezoid term of *its own* segment. -/
theorem update_backward (mL : ℝ) (b dx : List ℝ) (h : b.length = dx.length + 1) :
    lastD (massBwd mL b dx) = mL ∧ diffs (massBwd mL b dx) = trapTerms b dx :=
  ⟨lastD_massBwd dx mL b, diffs_massBwd dx mL b h⟩

/-- both updates give a profile that never increases (any non-negative integrand and segment lengths). -/
theorem update_nonincreasing (m : ℝ) (b dx : List ℝ) (hb : ∀ y ∈ b, 0 ≤ y) (hd : ∀ d ∈ dx, 0 ≤ d) :
    (massFwd m b dx).Pairwise (fun a c => c ≤ a) ∧
    (b.length = dx.length + 1 → (massBwd m b dx).Pairwise (fun a c => c ≤ a)) := by
  constructor
  · apply pairwise_of_diffs_nonneg; rw [diffs_massFwd]; exact trapTerms_nonneg b dx hb hd
  · intro h; apply pairwise_of_diffs_nonneg; rw [diffs_massBwd dx m b h]; exact trapTerms_nonneg b dx hb hd

/-- as found, the backward update mis-paired segments and lengths: with burn 1/100, 1/200, 1/400 kg/m and
    segments of 1 km and 3 km the steps are 22.5 kg and 3.75 kg instead of the trapezoids 7.5 kg and 11.25 kg. -/
theorem update_backward_asIs_counterexample :
    diffs (massBwdAsIs 60000 [1 / 100, 1 / 200, 1 / 400] [1000, 3000]) = [(45 : ℝ) / 2, 15 / 4] ∧
    trapTerms [(1 : ℝ) / 100, 1 / 200, 1 / 400] [1000, 3000] = [15 / 2, 45 / 4] := by
  constructor
  · simp only [massBwdAsIs, trapTerms, cumsumFrom, diffs, List.reverse_cons, List.reverse_nil, List.nil_append,
      List.cons_append, List.map_cons, List.map_nil, lit0, lit2]
    norm_num
  · simp only [trapTerms, lit2]; norm_num

/-! ## 5. the iteration drivers -/

section drivers
variable (burnOf : List ℝ → List ℝ) (dx : List ℝ)

/-- constant initial mass: the result starts at the prescribed mass, and it is the forward trapezoid update of the
    burn vector of an earlier iterate: every step decrease is that iterate's trapezoid term. -/
theorem constInitial_profile (n : Nat) (m0 : ℝ) (nIter : Nat) (hn : 0 < n) :
    headD (constInitial burnOf dx n m0 nIter) = m0 ∧
    ∃ prev, diffs (constInitial burnOf dx n m0 nIter) = trapTerms (burnOf prev) dx := by
  have key : headD (constInitial burnOf dx n m0 nIter) = m0 ∧
      ∃ prev, constInitial burnOf dx n m0 nIter = massFwd m0 (burnOf prev) dx := by
    unfold constInitial
    apply constInitLoop_inv burnOf dx (fun m => headD m = m0 ∧ ∃ prev, m = massFwd m0 (burnOf prev) dx)
    · intro m ⟨hm, _⟩
      refine ⟨by rw [headD_fwdStep, hm], m, ?_⟩
      unfold fwdStep; rw [hm]
    · refine ⟨by rw [headD_fwdStep, headD_replicate n m0 hn], List.replicate n m0, ?_⟩
      unfold fwdStep; rw [headD_replicate n m0 hn]
  obtain ⟨h1, prev, h2⟩ := key
  exact ⟨h1, prev, by rw [h2, diffs_massFwd]⟩

/-- constant final mass: the result ends at the prescribed mass and every step decrease is the trapezoid term of
    an earlier iterate's burn vector (profile of `n = |dx| + 1` points, `burnOf` length-preserving). -/
theorem constFinal_profile (n : Nat) (mEnd : ℝ) (nIter : Nat) (hdx : dx.length + 1 = n)
    (hlen : ∀ m : List ℝ, m.length = n → (burnOf m).length = n) :
    lastD (constFinal burnOf dx n mEnd nIter) = mEnd ∧
    ∃ prev, diffs (constFinal burnOf dx n mEnd nIter) = trapTerms (burnOf prev) dx := by
  have hn : 0 < n := by omega
  have key : lastD (constFinal burnOf dx n mEnd nIter) = mEnd ∧
      (constFinal burnOf dx n mEnd nIter).length = n ∧
      ∃ prev, prev.length = n ∧ constFinal burnOf dx n mEnd nIter = massBwd mEnd (burnOf prev) dx := by
    unfold constFinal
    apply constFinalLoop_inv burnOf dx
      (fun m => lastD m = mEnd ∧ m.length = n ∧ ∃ prev, prev.length = n ∧ m = massBwd mEnd (burnOf prev) dx)
    · intro m ⟨hm, hl, _⟩
      refine ⟨by rw [lastD_bwdStep, hm], ?_, m, hl, ?_⟩
      · unfold bwdStep; rw [massBwd_length, hlen m hl]; omega
      · unfold bwdStep; rw [hm]
    · have hr : (List.replicate n mEnd).length = n := List.length_replicate
      refine ⟨by rw [lastD_bwdStep, lastD_replicate n mEnd hn], ?_, List.replicate n mEnd, hr, ?_⟩
      · unfold bwdStep; rw [massBwd_length, hlen _ hr]; omega
      · unfold bwdStep; rw [lastD_replicate n mEnd hn]
  obtain ⟨h1, _, prev, hp, h2⟩ := key
  refine ⟨h1, prev, ?_⟩
  rw [h2, diffs_massBwd dx mEnd (burnOf prev) (by rw [hlen prev hp]; omega)]

/-- a profile produced by either constant-mass driver never increases (non-negative burn and segment lengths). -/
theorem const_drivers_nonincreasing (n : Nat) (m : ℝ) (nIter : Nat)
    (hb : ∀ mass, ∀ y ∈ burnOf mass, 0 ≤ y) (hd : ∀ d ∈ dx, 0 ≤ d) :
    (0 < n → (constInitial burnOf dx n m nIter).Pairwise (fun a c => c ≤ a)) ∧
    (dx.length + 1 = n → (∀ l : List ℝ, l.length = n → (burnOf l).length = n) →
      (constFinal burnOf dx n m nIter).Pairwise (fun a c => c ≤ a)) := by
  constructor
  · intro hn
    obtain ⟨_, prev, h⟩ := constInitial_profile burnOf dx n m nIter hn
    apply pairwise_of_diffs_nonneg; rw [h]; exact trapTerms_nonneg _ dx (hb prev) hd
  · intro hdx hlen
    obtain ⟨_, prev, h⟩ := constFinal_profile burnOf dx n m nIter hdx hlen
    apply pairwise_of_diffs_nonneg; rw [h]; exact trapTerms_nonneg _ dx (hb prev) hd

/-- one pass of the repaired fuel-dependent loop body: take-off mass ≤ MTOW, the profile is the forward trapezoid
    update from it, and it equals the take-off-mass rule applied to the fuel burnt along the *returned* profile. -/
theorem fuelDepStep_spec (rfFrac : Bool) (mtow oew mpl lf rf : ℝ) (mass : List ℝ) :
    let r := fuelDepStep burnOf dx rfFrac mtow oew mpl lf rf mass
    headD r ≤ mtow ∧ diffs r = trapTerms (burnOf mass) dx ∧
    headD r = takeoffMass rfFrac mtow oew mpl lf rf (headD r - lastD r) := by
  intro r
  have hr : r = massFwd (takeoffMass rfFrac mtow oew mpl lf rf
      (headD (massFwd (headD mass) (burnOf mass) dx) - lastD (massFwd (headD mass) (burnOf mass) dx)))
      (burnOf mass) dx := rfl
  refine ⟨?_, ?_, ?_⟩
  · rw [hr, headD_massFwd]; exact takeoffMass_le_mtow _ _ _ _ _ _ _
  · rw [hr, diffs_massFwd]
  · rw [hr, burn_massFwd, headD_massFwd, lastD_massFwd]
    congr 1; ring

/-- fuel-dependent drivers (both reserve rules): the take-off mass never exceeds MTOW — after every pass of the
    loop, hence for the result whenever at least one pass runs or the estimate itself respects MTOW. -/
theorem initial_mass_le_mtow (n : Nat) (rfFrac : Bool) (est mtow oew mpl lf rf : ℝ) (nIter : Nat)
    (h : 0 < nIter ∨ est ≤ mtow) (hn : 0 < n) :
    headD (fuelDependent false burnOf dx n rfFrac est mtow oew mpl lf rf nIter) ≤ mtow := by
  unfold fuelDependent
  simp only [Bool.false_eq_true, if_false]
  rcases h with h | h
  · obtain ⟨k, rfl⟩ : ∃ k, nIter = k + 1 := ⟨nIter - 1, by omega⟩
    obtain ⟨m', hm'⟩ := fuelDepLoop_succ_is_step (fuelDepStep burnOf dx rfFrac mtow oew mpl lf rf) k
      (fwdStep burnOf dx (List.replicate n est)) (lastD (fwdStep burnOf dx (List.replicate n est)))
    rw [hm']; exact (fuelDepStep_spec burnOf dx rfFrac mtow oew mpl lf rf m').1
  · apply fuelDepLoop_inv _ (fun m => headD m ≤ mtow)
    · intro m _; exact (fuelDepStep_spec burnOf dx rfFrac mtow oew mpl lf rf m).1
    · unfold fwdStep; rw [headD_massFwd, headD_replicate n est hn]; exact h

/-- fuel-dependent drivers (repaired): every step decrease of the result is the trapezoid term of an earlier
    iterate's burn vector; after at least one pass the take-off mass is the take-off-mass rule applied to the fuel
    burnt along the returned profile. -/
theorem fuelDependent_profile (n : Nat) (rfFrac : Bool) (est mtow oew mpl lf rf : ℝ) (nIter : Nat) :
    let r := fuelDependent false burnOf dx n rfFrac est mtow oew mpl lf rf nIter
    (∃ prev, diffs r = trapTerms (burnOf prev) dx) ∧
    (0 < nIter → headD r = takeoffMass rfFrac mtow oew mpl lf rf (headD r - lastD r)) := by
  intro r
  have hr : r = fuelDepLoop (fuelDepStep burnOf dx rfFrac mtow oew mpl lf rf) nIter
      (fwdStep burnOf dx (List.replicate n est)) (lastD (fwdStep burnOf dx (List.replicate n est))) := by
    simp only [r, fuelDependent, Bool.false_eq_true, if_false]
  constructor
  · rw [hr]
    apply fuelDepLoop_inv _ (fun m => ∃ prev, diffs m = trapTerms (burnOf prev) dx)
    · intro m _; exact ⟨m, (fuelDepStep_spec burnOf dx rfFrac mtow oew mpl lf rf m).2.1⟩
    · exact ⟨List.replicate n est, by unfold fwdStep; rw [diffs_massFwd]⟩
  · intro h
    obtain ⟨k, rfl⟩ : ∃ k, nIter = k + 1 := ⟨nIter - 1, by omega⟩
    obtain ⟨m', hm'⟩ := fuelDepLoop_succ_is_step (fuelDepStep burnOf dx rfFrac mtow oew mpl lf rf) k
      (fwdStep burnOf dx (List.replicate n est)) (lastD (fwdStep burnOf dx (List.replicate n est)))
    rw [hr, hm']; exact (fuelDepStep_spec burnOf dx rfFrac mtow oew mpl lf rf m').2.2

theorem fuelDependent_nonincreasing (n : Nat) (rfFrac : Bool) (est mtow oew mpl lf rf : ℝ) (nIter : Nat)
    (hb : ∀ mass, ∀ y ∈ burnOf mass, 0 ≤ y) (hd : ∀ d ∈ dx, 0 ≤ d) :
    (fuelDependent false burnOf dx n rfFrac est mtow oew mpl lf rf nIter).Pairwise (fun a c => c ≤ a) := by
  obtain ⟨prev, h⟩ := (fuelDependent_profile burnOf dx n rfFrac est mtow oew mpl lf rf nIter).1
  apply pairwise_of_diffs_nonneg; rw [h]; exact trapTerms_nonneg _ dx (hb prev) hd

/-- as found: overwriting only `mass[0]` makes the first step differ from its trapezoid term by exactly the change
    of the take-off mass in that pass (so the clause holds only if the pass left the take-off mass unchanged). -/
theorem fuelDependent_asIs_first_step (rfFrac : Bool) (mtow oew mpl lf rf : ℝ) (mass : List ℝ) (t0 : ℝ)
    (ts : List ℝ) (ht : trapTerms (burnOf mass) dx = t0 :: ts) :
    diffs (fuelDepStepAsIs burnOf dx rfFrac mtow oew mpl lf rf mass) =
      (t0 + (takeoffMass rfFrac mtow oew mpl lf rf (t0 + ts.sum) - headD mass)) :: ts := by
  unfold fuelDepStepAsIs
  simp only [burn_massFwd, ht, List.sum_cons]
  rw [massFwd_eq, ht]
  simp only [downsTail, List.tail_cons, diffs]
  rw [diffs_downs]
  congr 1; ring

/-- as found: a concrete pass after which the mass *increases* from the first to the second point
    (100 t estimate, rule gives 50.01 t, second point still hangs 10 kg below the old 100 t). -/
theorem fuelDependent_asIs_mass_increases :
    fuelDepStepAsIs (fun _ => [(1 : ℝ) / 100, 1 / 100]) [1000] true 200000 50000 0 0 0 [100000, 99990]
      = [50010, 99990] := by
  simp only [fuelDepStepAsIs, massFwd, takeoffMass, trapTerms, cumsumFrom, headD, lastD, List.headD_cons,
    List.map_cons, List.map_nil, List.tail_cons, List.getLastD_cons, List.getLastD_nil, lit0, lit1, lit2]
  norm_num

end drivers

/-! ## 6. the BADA-3 instance: `burnOf := burnVec e P pts` needs no plausibility hypothesis for monotonicity -/

/-- all four drivers on the BADA-3 model: the mass never increases along the flight, for every parameter set,
    profile, mass, iteration count — only the segment lengths must be non-negative. -/
theorem bada_mass_nonincreasing (e : Engine) (P : Params ℝ) (pts : List (Pt ℝ)) (dx : List ℝ) (m : ℝ) (nIter : Nat)
    (hlen : dx.length + 1 = pts.length) (hd : ∀ d ∈ dx, 0 ≤ d)
    (rfFrac : Bool) (mtow oew mpl lf rf : ℝ) :
    (constInitial (burnVec e P pts) dx pts.length m nIter).Pairwise (fun a c => c ≤ a) ∧
    (constFinal (burnVec e P pts) dx pts.length m nIter).Pairwise (fun a c => c ≤ a) ∧
    (fuelDependent false (burnVec e P pts) dx pts.length rfFrac m mtow oew mpl lf rf nIter).Pairwise
      (fun a c => c ≤ a) := by
  have hb := burnVec_nonneg e P pts
  have h := const_drivers_nonincreasing (burnVec e P pts) dx pts.length m nIter hb hd
  exact ⟨h.1 (by omega), h.2 hlen (burnVec_length e P pts _ rfl),
    fuelDependent_nonincreasing _ dx _ rfFrac m mtow oew mpl lf rf nIter hb hd⟩

/-- all four drivers on the BADA-3 model: prescribed start / end mass, MTOW bound, and every step decrease equal to
    the trapezoid of `burnPerMetre (specific ground range)` at an earlier iterate `prev`. -/
theorem bada_mass_profile (e : Engine) (P : Params ℝ) (pts : List (Pt ℝ)) (dx : List ℝ) (m : ℝ) (nIter : Nat)
    (hlen : dx.length + 1 = pts.length) (rfFrac : Bool) (mtow oew mpl lf rf : ℝ) :
    (let r := constInitial (burnVec e P pts) dx pts.length m nIter
     headD r = m ∧ ∃ prev, diffs r = trapTerms ((sgrVec e P pts prev).map burnPerMetre) dx) ∧
    (let r := constFinal (burnVec e P pts) dx pts.length m nIter
     lastD r = m ∧ ∃ prev, diffs r = trapTerms ((sgrVec e P pts prev).map burnPerMetre) dx) ∧
    (let r := fuelDependent false (burnVec e P pts) dx pts.length rfFrac m mtow oew mpl lf rf nIter
     (0 < nIter ∨ m ≤ mtow → headD r ≤ mtow) ∧
     (∃ prev, diffs r = trapTerms ((sgrVec e P pts prev).map burnPerMetre) dx) ∧
     (0 < nIter → headD r = takeoffMass rfFrac mtow oew mpl lf rf (headD r - lastD r))) := by
  have hn : 0 < pts.length := by omega
  refine ⟨constInitial_profile _ dx _ m nIter hn,
    constFinal_profile _ dx _ m nIter hlen (burnVec_length e P pts _ rfl), ?_, ?_⟩
  · intro h; exact initial_mass_le_mtow _ dx _ rfFrac m mtow oew mpl lf rf nIter h hn
  · exact fuelDependent_profile _ dx _ rfFrac m mtow oew mpl lf rf nIter

/-! ## non-vacuity: the hypotheses above are satisfiable (B738-like numbers) -/

example : ∃ (P : Params ℝ), P.cTdesLow ≤ P.cTcr ∧ P.cTdesHigh ≤ P.cTcr ∧ P.cTcr ≤ 1 ∧ 0 ≤ P.cF1 ∧ 0 < P.cF2 ∧ 0 ≤ P.cFcr :=
  ⟨{ cFcr := 0.92958, cF1 := 0.70057, cF2 := 1068.1, cD0 := 0.025452, cD2 := 0.035815, sRef := 124.65,
     cTc1 := 146590, cTc2 := 53872, cTc3 := 3.0453e-11, cTc4 := 9.6177, cTc5 := 0.0085132, cTcr := 0.95,
     cTdesLow := 0.10847, cTdesHigh := 0.13603, hPDes := 12800 }, by norm_num⟩

example : ∃ (dx b : List ℝ), (∀ d ∈ dx, 0 ≤ d) ∧ (∀ y ∈ b, 0 ≤ y) ∧ b.length = dx.length + 1 :=
  ⟨[1000, 3000], [1 / 100, 1 / 200, 1 / 400], by simp, by simp, rfl⟩

example : ∃ gs ff : ℝ, 0 < ff ∧ ff ≤ gs := ⟨230, 0.8, by norm_num, by norm_num⟩

example : ∃ te mx : ℝ, 0 ≤ min te mx := ⟨60000, 90000, by norm_num⟩

example : selectThrust (-5000 : ℝ) 90000 9000 = 9000 := negative_thrust_replaced _ _ _ (Or.inl (by norm_num))

example : selectThrust (120000 : ℝ) 90000 9000 = 90000 := by
  norm_num [thrust_eq_spec, thrustSpec, smin_real]


/-! ## Source tie: the thrust / fuel-flow statements about the definitions regenerated from `BADA/model.py`
    (`Aeic.Kern.bada_*`, one per concrete engine class; `KernelBridge.badaEnv P` is the attribute environment of a
    `Bada3AircraftParameters` object). -/

/-- `Bada3FuelBurnModel.calculate_thrust` and `calculate_specific_ground_range`, as the source text says them, are the
    model's `thrust` and `sgr` for all three engine classes -/
theorem src_thrust_sgr_is_model (P : Params ℝ) (m : ℝ) (p : Pt ℝ) :
    (Kern.bada_jet_thrust (KernelBridge.badaEnv P) m p.temp p.alt p.vtas p.rocd p.acc p.cruise = thrust .jet P m p ∧
     Kern.bada_turboprop_thrust (KernelBridge.badaEnv P) m p.temp p.alt p.vtas p.rocd p.acc p.cruise = thrust .turboprop P m p ∧
     Kern.bada_piston_thrust (KernelBridge.badaEnv P) m p.temp p.alt p.vtas p.rocd p.acc p.cruise = thrust .piston P m p) ∧
    (Kern.bada_jet_sgr (KernelBridge.badaEnv P) m p.temp p.alt p.vtas p.rocd p.acc p.cruise p.gs = sgr .jet P m p ∧
     Kern.bada_turboprop_sgr (KernelBridge.badaEnv P) m p.temp p.alt p.vtas p.rocd p.acc p.cruise p.gs = sgr .turboprop P m p ∧
     Kern.bada_piston_sgr (KernelBridge.badaEnv P) m p.temp p.alt p.vtas p.rocd p.acc p.cruise p.gs = sgr .piston P m p) :=
  ⟨KernelBridge.bada_thrust P m p.temp p.alt p.vtas p.rocd p.acc p.gs p.cruise,
   KernelBridge.bada_sgr P m p.temp p.alt p.vtas p.rocd p.acc p.gs p.cruise⟩

/-- the thrust the source computes never exceeds the phase maximum (jet; plausible coefficients) -/
theorem src_thrust_never_exceeds_max (P : Params ℝ) (m : ℝ) (p : Pt ℝ)
    (hmc : 0 ≤ Kern.bada_jet_max_climb (KernelBridge.badaEnv P) p.alt p.vtas p.temp)
    (hlo : P.cTdesLow ≤ P.cTcr) (hhi : P.cTdesHigh ≤ P.cTcr) (hcr : P.cTcr ≤ 1) :
    Kern.bada_jet_thrust (KernelBridge.badaEnv P) m p.temp p.alt p.vtas p.rocd p.acc p.cruise ≤
      (if p.cruise then Kern.bada_jet_max_cruise (KernelBridge.badaEnv P) p.alt p.vtas p.temp
       else Kern.bada_jet_max_climb (KernelBridge.badaEnv P) p.alt p.vtas p.temp) := by
  rw [(KernelBridge.bada_max_climb P _ _ _).1] at hmc
  rw [(src_thrust_sgr_is_model P m p).1.1, (KernelBridge.bada_cruise_descent P _ _ _).1.1, (KernelBridge.bada_max_climb P _ _ _).1]
  exact thrust_never_exceeds_max .jet P m p hmc hlo hhi hcr

/-- negative total-energy thrust is replaced by the altitude-selected descent thrust, in the source as translated -/
theorem src_negative_thrust_replaced (P : Params ℝ) (m : ℝ) (p : Pt ℝ) (hneg : teThrust P m p < 0) :
    Kern.bada_jet_thrust (KernelBridge.badaEnv P) m p.temp p.alt p.vtas p.rocd p.acc p.cruise =
      (if P.hPDes < p.alt * Gen.METERS_TO_FEET then Kern.bada_jet_descent_high (KernelBridge.badaEnv P) p.alt p.vtas p.temp
       else Kern.bada_jet_descent_low (KernelBridge.badaEnv P) p.alt p.vtas p.temp) := by
  rw [(src_thrust_sgr_is_model P m p).1.1, (KernelBridge.bada_cruise_descent P _ _ _).2.1.1,
    (KernelBridge.bada_cruise_descent P _ _ _).2.2.1]
  unfold thrust
  rw [negative_thrust_replaced _ _ _ (Or.inl hneg)]; rfl

/-- the cruise correction is applied on cruise points and only there, for every engine class of the source -/
theorem src_cruise_factor_only_in_cruise (P : Params ℝ) (thr v : ℝ) :
    Kern.bada_jet_cruise_fuel_flow (KernelBridge.badaEnv P) thr v
      = Kern.bada_jet_nominal_fuel_flow (KernelBridge.badaEnv P) thr v * P.cFcr ∧
    Kern.bada_turboprop_cruise_fuel_flow (KernelBridge.badaEnv P) thr v
      = Kern.bada_turboprop_nominal_fuel_flow (KernelBridge.badaEnv P) thr v * P.cFcr ∧
    Kern.bada_piston_cruise_fuel_flow (KernelBridge.badaEnv P) thr v
      = Kern.bada_piston_nominal_fuel_flow (KernelBridge.badaEnv P) thr v * P.cFcr := by
  obtain ⟨⟨n1, n2, n3⟩, ⟨c1, c2, c3⟩⟩ := KernelBridge.bada_fuel_flow P thr v
  rw [n1, n2, n3, c1, c2, c3]
  refine ⟨?_, ?_, ?_⟩ <;> simp [nominalFuelFlow, cruiseFuelFlow]

/-- piston fuel flow in the source is `C_f1 / 60` kg/s (the unit repair is in the source text) -/
theorem src_piston_fuel_flow_kg_per_s (P : Params ℝ) (thr v : ℝ) :
    Kern.bada_piston_nominal_fuel_flow (KernelBridge.badaEnv P) thr v = P.cF1 / 60 := by
  rw [(KernelBridge.bada_fuel_flow P thr v).1.2.2]; simp [nominalFuelFlow]

/-! ## Source tie for the integration itself: the two mass updates of `BADA/fuel_burn_base.py` regenerated as *vector*
    kernels (`Aeic.Kern.mass_update_*`: slices, slice stores, `np.where` with `np.inf`, `cumulative_trapezoid`, read into list
    functions), and the mass / trapezoid statements about them — for arrays of EVERY length. -/

/-- `update_mass_vector` of the source: the profile starts at the prescribed mass `mass[0]`, and its decrease over each step is
    the trapezoid of `1 / sgr` (with `sgr < 1` read as infinite range, i.e. no burn) over that step -/
theorem src_mass_update_forward (mass sgr dx : List ℝ) (hm : mass ≠ []) :
    headD (Kern.mass_update_fwd mass sgr dx) = headD mass ∧
    diffs (Kern.mass_update_fwd mass sgr dx) = trapTerms (sgr.map burnPerMetre) dx := by
  rw [KernelBridge4.mass_update_fwd _ _ _ hm]; exact update_forward _ _ _

/-- `update_mass_vector_backward` of the source: ends at the prescribed mass `mass[-1]`; every step is the trapezoid of its own
    segment (one more integrand value than segment lengths, as numpy requires) -/
theorem src_mass_update_backward (mass sgr dx : List ℝ) (hm : mass ≠ []) (h : sgr.length = dx.length + 1) :
    lastD (Kern.mass_update_bwd mass sgr dx) = lastD mass ∧
    diffs (Kern.mass_update_bwd mass sgr dx) = trapTerms (sgr.map burnPerMetre) dx := by
  rw [KernelBridge4.mass_update_bwd _ _ _ hm]; exact update_backward _ _ _ (by simpa using h)

/-- the same with ONE scalar segment length (scipy / `np.broadcast_to` broadcast it) -/
theorem src_mass_update_scalar_dx (mass sgr : List ℝ) (d : ℝ) (h : sgr.length = mass.length) (hm : mass ≠ []) :
    (headD (Kern.mass_update_fwd_scalar_dx mass sgr d) = headD mass ∧
     diffs (Kern.mass_update_fwd_scalar_dx mass sgr d) = trapTerms (sgr.map burnPerMetre) (List.replicate (sgr.length - 1) d)) ∧
    (lastD (Kern.mass_update_bwd_scalar_dx mass sgr d) = lastD mass ∧
     diffs (Kern.mass_update_bwd_scalar_dx mass sgr d) = trapTerms (sgr.map burnPerMetre) (List.replicate (mass.length - 1) d)) := by
  rw [KernelBridge4.mass_update_fwd_scalar _ _ _ hm, KernelBridge4.mass_update_bwd_scalar _ _ _ hm]
  refine ⟨update_forward _ _ _, update_backward _ _ _ ?_⟩
  cases mass with
  | nil => exact absurd rfl hm
  | cons m ms => simp [List.length_replicate] at h ⊢; omega

/-- mass never increases along the profile either update of the source produces, whatever the specific ground range (negative,
    zero and sub-unit values included: they burn nothing) and for all non-negative segment lengths -/
theorem src_mass_update_nonincreasing (mass sgr dx : List ℝ) (hm : mass ≠ []) (hd : ∀ d ∈ dx, 0 ≤ d) :
    (Kern.mass_update_fwd mass sgr dx).Pairwise (fun a c => c ≤ a) ∧
    (sgr.length = dx.length + 1 → (Kern.mass_update_bwd mass sgr dx).Pairwise (fun a c => c ≤ a)) := by
  rw [KernelBridge4.mass_update_fwd _ _ _ hm, KernelBridge4.mass_update_bwd _ _ _ hm]
  have hb : ∀ y ∈ sgr.map burnPerMetre, 0 ≤ y := by
    intro y hy; obtain ⟨s, _, rfl⟩ := List.mem_map.mp hy; exact burn_nonneg s
  obtain ⟨h1, h2⟩ := update_nonincreasing (headD mass) (sgr.map burnPerMetre) dx hb hd
  obtain ⟨_, h3⟩ := update_nonincreasing (lastD mass) (sgr.map burnPerMetre) dx hb hd
  exact ⟨h1, fun h => h3 (by simpa using h)⟩

/-- non-vacuity / worked instance: 60 t, specific ground ranges 100, 200, 0.5 (sub-unit: no burn) m/kg, segments of 1 km and 3 km -/
example : Kern.mass_update_fwd [60000, 0, 0] [100, 200, 1 / 2] [1000, 3000] = ([60000, 59992.5, 59985] : List ℝ) := by
  simp only [Kern.mass_update_fwd, Vec.setTail, Vec.head0, Vec.cumtrapz, Vec.trapTerms, Vec.cumsumFrom, List.map_cons,
    List.map_nil, List.headD_cons, lit_real]
  norm_num

/-! ## Source tie for the iteration drivers: ONE pass of the loop of each `iterate_flight_simulation_*` method, regenerated in loop
    mode with array state (`Aeic.Kern.driver_*`; the specific ground range the pass computes is an array input) -/

/-- the take-off mass a pass of the fuel-dependent drivers prescribes never exceeds the maximum take-off mass — for every mass
    profile, every specific ground range, every payload / reserve setting (both reserve-fuel conventions) -/
theorem src_driver_takeoff_le_mtow (mass sgr dx : List ℝ) (mtow oew mpl lf rf : ℝ) :
    Kern.driver_fuel_dep_frac_takeoff mass sgr dx mtow oew mpl lf rf ≤ mtow ∧
    Kern.driver_fuel_dep_value_takeoff mass sgr dx mtow oew mpl lf rf ≤ mtow := by
  constructor <;>
    (simp only [Kern.driver_fuel_dep_frac_takeoff, Kern.driver_fuel_dep_value_takeoff, smin]; split_ifs <;> linarith)

/-- … and the profile a pass returns STARTS at that take-off mass (the as-found defect left the old first element in place: the
    profile is re-anchored), so the returned initial mass never exceeds MTOW either -/
theorem src_driver_profile_starts_at_takeoff (mass sgr dx : List ℝ) (mtow oew mpl lf rf : ℝ) (hm : mass ≠ []) :
    headD (Kern.driver_fuel_dep_frac_step mass sgr dx mtow oew mpl lf rf)
      = Kern.driver_fuel_dep_frac_takeoff mass sgr dx mtow oew mpl lf rf ∧
    headD (Kern.driver_fuel_dep_value_step mass sgr dx mtow oew mpl lf rf)
      = Kern.driver_fuel_dep_value_takeoff mass sgr dx mtow oew mpl lf rf := by
  obtain ⟨m0, ms, rfl⟩ := List.exists_cons_of_ne_nil hm
  constructor <;>
    simp [Kern.driver_fuel_dep_frac_step, Kern.driver_fuel_dep_frac_takeoff, Kern.driver_fuel_dep_value_step,
      Kern.driver_fuel_dep_value_takeoff, Vec.setTail, Vec.setHead, Vec.head0, headD]

/-- one pass of each driver of the source IS the step function of the model (`fwdStep`, `bwdStep`, `fuelDepStep`) applied to the
    burn vector of the specific ground range that pass computed — so `constInitial_profile`, `constFinal_profile`,
    `fuelDependent_profile`, `initial_mass_le_mtow` and the monotonicity theorems, proved about the folds of these step functions,
    speak about the loops of the source -/
theorem src_driver_steps_are_model (mass sgr dx : List ℝ) (mtow oew mpl lf rf : ℝ) (hm : mass ≠ []) :
    Kern.driver_const_initial_step mass sgr dx = fwdStep (fun _ => sgr.map burnPerMetre) dx mass ∧
    Kern.driver_const_final_step mass sgr dx = bwdStep (fun _ => sgr.map burnPerMetre) dx mass ∧
    Kern.driver_fuel_dep_frac_step mass sgr dx mtow oew mpl lf rf
      = fuelDepStep (fun _ => sgr.map burnPerMetre) dx true mtow oew mpl lf rf mass ∧
    Kern.driver_fuel_dep_value_step mass sgr dx mtow oew mpl lf rf
      = fuelDepStep (fun _ => sgr.map burnPerMetre) dx false mtow oew mpl lf rf mass :=
  KernelBridge4.driver_steps mass sgr dx mtow oew mpl lf rf hm

end C19
