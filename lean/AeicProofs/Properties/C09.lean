/-
  C09 — A merged store equals the concatenation of its input stores.
  Model: `AeicModel/Merge.lean` — cumulative-count lookup with `bisect_left` and a (negative) Python local index,
  merged flight-id index with per-store offsets, and `TrajectoryStore.merge` as a step sequence over an abstract file system.
-/
import AeicProofs.Lemmas.MergeRead
import AeicProofs.Lemmas.MergeProto
import AeicProofs.Lemmas.Locate

namespace C09
open Aeic.Store Aeic.Merge

/-- the i-th trajectory of a merged store is the i-th element of the concatenation of the input stores in the order given
    — for any number of inputs of any sizes (empty ones included), at every index, seams included; beyond the end: nothing -/
theorem merged_get_eq_concat {α} (files : List (List α)) (i : Nat) : locate files i = files.flatten[i]? :=
  locate_flatten files i

/-- the length of a merged store is the sum of the inputs' lengths -/
theorem merged_len {α} (files : List (List α)) : mergedLen files = files.flatten.length := mergedLen_flatten files

/-- flight-identifier lookup works across all parts: it is the dictionary lookup in the concatenation -/
theorem merged_flight_lookup (files : List (List Item)) (id : Int)
    (hall : ∀ it ∈ files.flatten, it.fid.isSome = true) :
    mergedGetFlight files id = files.flatten.find? (fun it => it.fid = some id) :=
  mergedGetFlight_find files id hall

/-- associated data merged separately stays aligned with the base data: if every associated file has as many trajectories
    as its base file, index `i` of the merged pair of stores is the pair that was stored together -/
theorem merged_associated_aligned {α β} (base : List (List α)) (assoc : List (List β))
    (hlen : base.map List.length = assoc.map List.length) (i : Nat) :
    (do let b ← locate base i; let a ← locate assoc i; pure (b, a)) =
      (List.zipWith List.zip base assoc).flatten[i]? := by
  rw [locate_flatten, locate_flatten]
  induction base generalizing assoc i with
  | nil =>
    cases assoc with
    | nil => simp
    | cons a as_ => simp at hlen
  | cons b bs ih =>
    cases assoc with
    | nil => simp at hlen
    | cons a as_ =>
      simp only [List.map_cons, List.cons.injEq] at hlen
      obtain ⟨h, hrest⟩ := hlen
      simp only [List.flatten_cons, List.zipWith_cons_cons]
      by_cases hi : i < b.length
      · have hia : i < a.length := h ▸ hi
        rw [List.getElem?_append_left hi, List.getElem?_append_left hia,
          List.getElem?_append_left (by simp [List.length_zip, ← h]; exact hi)]
        simp only [List.getElem?_eq_getElem hi, List.getElem?_eq_getElem hia]
        have hz : i < (b.zip a).length := by simp [List.length_zip]; omega
        rw [List.getElem?_eq_getElem hz, List.getElem_zip]
        rfl
      · rw [List.getElem?_append_right (by omega), List.getElem?_append_right (by omega),
          List.getElem?_append_right (by simp [List.length_zip, ← h]; omega)]
        have := ih as_ hrest (i - b.length)
        simp only [List.length_zip, ← h, Nat.min_self] at this ⊢
        exact this

/-- species-indexed values of a merged store whose inputs recorded different species lists read back with the species
    they were stored with: each trajectory is decoded with the species dimension of its own file -/
theorem merged_species_per_file (files : List (List String × List (List (Option Int)))) (i : Nat) :
    locateDecoded files i = (files.map (fun f => f.2.map (decodeSlots f.1))).flatten[i]? := by
  unfold locateDecoded
  rw [locate_flatten]
  have : (files.map (fun f => f.2.map (decodeSlots f.1))).flatten =
      ((files.map (fun f => f.2.map (fun r => (f.1, r)))).flatten).map (fun p => decodeSlots p.1 p.2) := by
    induction files with
    | nil => rfl
    | cons f fs ih =>
      simp only [List.map_cons, List.flatten_cons, List.map_append, List.map_map, ih]
      rfl
  rw [this, List.getElem?_map]

/-- the code as it was (species list of the first file used for every file): values read back under the wrong species -/
theorem merged_species_as_is_mislabels :
    locateDecodedAsIs [(["CO2", "H2O"], [[some 10, some 11]]), (["HC", "NOx", "SO2"], [[some 22, some 20, some 21]])] 1
      = some [("CO2", 22), ("H2O", 20)] ∧
    locateDecoded [(["CO2", "H2O"], [[some 10, some 11]]), (["HC", "NOx", "SO2"], [[some 22, some 20, some 21]])] 1
      = some [("HC", 22), ("NOx", 20), ("SO2", 21)] := by decide

/-- a successful merge produces a directory that announces itself complete and opens as a merged store whose parts are
    exactly the input stores in the order given; its trajectories are therefore the concatenation of the inputs -/
theorem merge_yields_concatenation (fsys : FS) (inputs : List String) (fs : List (String × StoreFile))
    (hv : validate fsys inputs = .ok fs) :
    (merge fsys inputs none).2 = .ok true ∧
    openMerged (merge fsys inputs none).1 = some (fs.map (·.2.items)) ∧
    ∀ i, (do let parts ← openMerged (merge fsys inputs none).1; locate parts i) = (fs.map (·.2.items)).flatten[i]? := by
  obtain ⟨hout, hall, hnames, _, _, hnodup⟩ := validate_ok hv
  have hnd : (fs.map (·.1)).Nodup := by rw [hnames]; exact hnodup
  have hc := run_complete fsys fs hout hall hnd
  obtain ⟨_, _, h3⟩ := run_all fsys fs none hout hall
  obtain ⟨d, hd, hfiles, hmeta, _⟩ := h3 hc
  have hm : merge fsys inputs none = ((runSteps fsys none 0 (mergeSteps fs)).1, .ok true) := by
    unfold merge
    rw [hv]
    simp only
    generalize runSteps fsys none 0 (mergeSteps fs) = r at hc
    obtain ⟨c, b⟩ := r
    simp only at hc
    subst hc
    rfl
  have hopen : openMerged (runSteps fsys none 0 (mergeSteps fs)).1 = some (fs.map (·.2.items)) := by
    unfold openMerged
    rw [hd]
    simp only [hmeta, hfiles, mdOf]
    -- every listed name is found in the directory, with its own content (names are distinct)
    have key : ∀ (l : List (String × StoreFile)), (∀ p ∈ l, lookupFile fs p.1 = some p.2) →
        (l.map (fun p => (p.1, p.2.items.length))).mapM (fun p => (lookupFile fs p.1).map (·.items)) =
          some (l.map (·.2.items)) := by
      intro l hl
      induction l with
      | nil => rfl
      | cons p ps ih =>
        rw [List.map_cons, List.mapM_cons, hl p (by simp), ih (fun q hq => hl q (by simp [hq]))]
        rfl
    apply key
    intro p hp
    -- distinct names: lookup returns the entry itself
    have : ∀ (l : List (String × StoreFile)), (l.map (·.1)).Nodup → ∀ p ∈ l, lookupFile l p.1 = some p.2 := by
      intro l hl
      induction l with
      | nil => intro p hp; cases hp
      | cons q qs ih =>
        intro p hp
        rw [List.map_cons, List.nodup_cons] at hl
        rcases List.mem_cons.mp hp with h | h
        · subst h; simp [lookupFile]
        · have hne : ¬ q.1 = p.1 := by
            intro hc; apply hl.1; rw [hc]; exact List.mem_map.mpr ⟨p, h, rfl⟩
          have := ih hl.2 p h
          unfold lookupFile at this ⊢
          simp only [List.find?_cons]
          have hb : (q.1 == p.1) = false := by simpa using hne
          rw [hb]; exact this
    exact this fs hnd p hp
  rw [hm]
  refine ⟨rfl, hopen, ?_⟩
  intro i
  simp only [hopen]
  exact locate_flatten _ i

/-- inputs whose field sets differ, or that mix identified and unidentified stores, are refused — and nothing is touched -/
theorem merge_refuses_mismatch (fsys : FS) (inputs : List String) (fault : Option Nat) (r : Refusal)
    (hv : validate fsys inputs = .error r) : merge fsys inputs fault = (fsys, .error r) := by
  unfold merge; rw [hv]

/-- the refusal really happens for differing field sets / mixed indexability (non-vacuity of the previous theorem) -/
example :
    let a : StoreFile := ⟨[], 0, true⟩
    let b : StoreFile := ⟨[], 1, true⟩
    let c : StoreFile := ⟨[], 0, false⟩
    let top : String → Option StoreFile := fun n => if n = "a" then some a else if n = "b" then some b else if n = "c" then some c else none
    validate ⟨top, none⟩ ["a", "b"] = .error .fieldSets ∧ validate ⟨top, none⟩ ["a", "c"] = .error .indexability := by
  constructor <;> rfl

/-- a validated list of inputs has pairwise distinct file names (the inputs are moved into one directory under their own names:
    the hypothesis `inputs.Nodup` that `merge_yields_concatenation` needed before the second C09 fix is now a consequence of the
    validation, not an assumption about the caller) -/
theorem validated_inputs_have_distinct_names (fsys : FS) (inputs : List String) (fs : List (String × StoreFile))
    (hv : validate fsys inputs = .ok fs) : inputs.Nodup := (validate_ok hv).2.2.2.2.2

/-- … and a list that names the same file twice is refused by name, with nothing touched (`merge_refuses_mismatch`) -/
example :
    let a : StoreFile := ⟨[], 0, true⟩
    let top : String → Option StoreFile := fun n => if n = "a" then some a else if n = "b" then some a else none
    validate ⟨top, none⟩ ["a", "b", "a"] = .error .duplicateNames ∧ (validate ⟨top, none⟩ ["a", "b"]).isOk = true := by
  constructor <;> rfl

/-! ### the lookup arithmetic of the SOURCE (`Gen.loc*`, regenerated from `trajectories/store.py` on every run) -/

/-- what the translator read: the file search is `bisect_left(size_index, index + 1)` or the equivalent
    `bisect_right(size_index, index)`; the lookup gives up past the last file; the local index is `index − size_index[file]` with no
    further offsets — decided by the kernel on the regenerated parameters. (That the size index holds the cumulative trajectory
    counts is validated on real merged stores whichever way the source builds it: `c09.trace_locate`.) -/
theorem src_locate_parameters :
    ((Aeic.Gen.locBisectLeft = true ∧ Aeic.Gen.locNeedle = 1) ∨ (Aeic.Gen.locBisectLeft = false ∧ Aeic.Gen.locNeedle = 0)) ∧
    Aeic.Gen.locLocal = 0 ∧ Aeic.Gen.locShift = 0 ∧ Aeic.Gen.locGuardGe = true := by
  decide

/-- the merged lookup as the working tree has it IS the model's `locate` … -/
theorem src_locate_is_model {α} (files : List (List α)) (i : Nat) : locateSrc files i = locate files i := by
  unfold locateSrc
  rw [src_locate_parameters.2.1, src_locate_parameters.2.2.1]
  exact locateWith_eq _ _ _ src_locate_parameters.1 files i

/-- … **so reading index `i` of a merged store through the arithmetic of the source is indexing the concatenation of its inputs**,
    for every list of inputs (empty files included) and every index (out of range ⇒ nothing is loaded) -/
theorem src_merged_get_eq_concat {α} (files : List (List α)) (i : Nat) : locateSrc files i = files.flatten[i]? := by
  rw [src_locate_is_model]; exact merged_get_eq_concat files i

/-- the parameters matter: with the needle `index` instead of `index + 1` (and `bisect_left`) the first trajectory of the second
    file is read from the first file — kernel-checked witness, so the theorem above is not insensitive to what the translator reads -/
example : locateWith true 0 0 0 true [[10, 11], [20, 21]] 2 = some 10 ∧ ([[10, 11], [20, 21]] : List (List Nat)).flatten[2]? = some 20 := by
  decide

end C09
