/-
  C01 — the emissions inventory balances.  Theorems about `Aeic.Emissions.assemble` (the model of
  `compute_emissions` and everything it calls after the EI kernels), read over ℝ.
  All statements are for every option set, fuel, trajectory (any length / fuel profile / window), LTO, APU, class.
-/
import AeicProofs.Lemmas.C01Assemble
import AeicProofs.Lemmas.KernelBridge2
import AeicProofs.Lemmas.KernelBridge5

set_option linter.unnecessarySeqFocus false

namespace C01
open Aeic Aeic.Emissions

variable {c : Cfg} {f : Fuel ℝ} {t : TrajIn ℝ} {l : LtoIn ℝ} {apu : Option (ApuIn ℝ)} {k : AcClass} {inv : Emissions.Inv ℝ}

/-! ### the species / thrust-mode orders of the model are those of the source (regenerated every run) -/

theorem species_order_matches_source : Sp.all.map Sp.name = Aeic.Gen.speciesOrder := by decide
theorem thrust_mode_order_matches_source : Mode.all.map Mode.name = Aeic.Gen.thrustModeOrder := by decide

/-! ### totals equal parts -/

/-- every species' total = trajectory + LTO + APU + GSE amounts as they appear in the inventory (+ life-cycle CO₂):
    the switches re-tested inside `sum_total_emissions` never drop or double a component. -/
theorem total_eq_sum_of_parts (h : assemble c f t l apu k = .ok inv) (s : Sp) :
    inv.total s = some (((inv.trajEm s).map List.sum).getD 0 + ((inv.ltoEm s).map tmSum).getD 0
      + (inv.apuEm s).getD 0 + (inv.gseEm s).getD 0 + (if s = Sp.CO2 then inv.lifecycle else 0)) := by
  obtain ⟨rfl, _⟩ := assemble_ok h
  rw [core_total, core_trajEm, core_ltoEm, core_apuEm, core_gseEm, core_lifecycle]

/-! ### parts equal EI × fuel -/

/-- every per-segment amount is its (returned) emission index times the fuel burned in that segment -/
theorem segment_eq_index_times_burn (h : assemble c f t l apu k = .ok inv) (s : Sp) :
    inv.trajEm s = (inv.trajIdx s).map fun idx => mulList idx inv.burn := by
  obtain ⟨rfl, _⟩ := assemble_ok h
  simp only [core_trajEm, core_trajIdx, core_burn, trajEm, trajIdx, Option.map_map]
  congr 1
  funext e
  exact window_mulList _ _ _ _

/-- the returned index array is the EI array inside the window and 0 outside; so is the amount -/
theorem index_window (h : assemble c f t l apu k = .ok inv) (s : Sp) (idx : List ℝ) (hs : inv.trajIdx s = some idx) :
    ∃ e, trajEI c f l.ff t s = some e ∧ idx.length = e.length ∧
      ∀ i, idx[i]? = e[i]?.map fun x => if winLo c t ≤ i ∧ i < winHi c t then x else 0 := by
  obtain ⟨rfl, _⟩ := assemble_ok h
  simp only [core_trajIdx, trajIdx] at hs
  cases he : trajEI c f l.ff t s with
  | none => simp [he] at hs
  | some e =>
    simp only [he, Option.map_some, Option.some.injEq] at hs
    subst hs
    exact ⟨e, rfl, window_length _ _ _, fun i => window_getElem? _ _ _ i⟩

/-- every LTO amount is its (returned) index times the LTO fuel of that mode; APU likewise -/
theorem lto_amount_eq_index_times_fuel (h : assemble c f t l apu k = .ok inv) (s : Sp) :
    inv.ltoEm s = (inv.ltoIdx s).map fun i => TM.mul i inv.ltoFuel := by
  obtain ⟨rfl, _⟩ := assemble_ok h
  rfl

theorem apu_amount_eq_index_times_fuel (h : assemble c f t l apu k = .ok inv) (s : Sp) :
    inv.apuEm s = (inv.apuIdx s).bind fun i => inv.apuFuel.map fun fu => i * fu := by
  obtain ⟨rfl, _⟩ := assemble_ok h
  simp only [core_apuEm, core_apuIdx, core_apuFuel, invApuEm, invApuIdx, invApuFuel, svOfOpt]
  cases apuOn c apu with
  | none => simp
  | some a =>
    simp only [Option.bind_some, Option.map_some, apuEm]
    cases apuIdx c f (ltoIdx c f l) a s <;> simp

/-! ### total fuel -/

/-- reported total fuel burn = fuel of exactly the components present in the inventory -/
theorem total_fuel_eq_component_fuel (h : assemble c f t l apu k = .ok inv) :
    inv.totalFuel = inv.trajFuel + tmSum inv.ltoFuel + inv.apuFuel.getD 0 + inv.gseFuel.getD 0
    ∧ inv.trajFuel = (window (winLo c t) (winHi c t) inv.burn).sum
    ∧ inv.ltoFuel = modeZero c (TM.mul (ltoTIM : TM ℝ) l.ff)
    ∧ inv.apuFuel = (apuOn c apu).map (fun a => a.fuel * 900)
    ∧ (∀ s, (inv.apuEm s).isSome → inv.apuFuel.isSome)
    ∧ (inv.apuFuel.isSome → (inv.apuEm Sp.CO2).isSome)
    ∧ inv.gseFuel = (if c.gse then some ((gseNominal k).co2 / f.eiCO2) else none)
    ∧ (∀ s, (inv.gseEm s).isSome = inv.gseFuel.isSome) := by
  obtain ⟨rfl, _⟩ := assemble_ok h
  refine ⟨core_totalFuel, ?_, rfl, ?_, ?_, ?_, rfl, ?_⟩
  · simp only [core_trajFuel, core_burn, trajFuel, suml_eq_sum, sum_window]
  · simp only [core_apuFuel, invApuFuel]
    congr 1
    funext a
    simp only [apuFuelBurn, apuTime, lit_real]; norm_num
  · intro s hs
    simp only [core_apuEm, invApuEm, svOfOpt] at hs
    simp only [core_apuFuel, invApuFuel]
    cases hq : apuOn c apu with
    | none => simp [hq] at hs
    | some a => simp
  · intro hs
    simp only [core_apuFuel, invApuFuel] at hs
    simp only [core_apuEm, invApuEm, svOfOpt]
    cases hq : apuOn c apu with
    | none => simp [hq] at hs
    | some a => simp [apuEm, apuIdx]
  · intro s
    simp only [core_gseEm, core_gseFuel, invGseEm, invGseFuel]
    cases c.gse <;> cases s <;> simp [SV.empty, gseEm]

/-! ### every kilogram of trajectory fuel counted once -/

/-- trajectory mode: the trajectory component accounts for first − last fuel mass, the LTO component for no
    approach/climb fuel or emissions -/
theorem traj_mode_fuel_counted_once (h : assemble c f t l apu k = .ok inv) (hm : c.ltoMode = false) :
    inv.trajFuel = t.fm.headD 0 - lastD t.fm 0
    ∧ inv.ltoFuel.approach = 0 ∧ inv.ltoFuel.climb = 0
    ∧ inv.ltoFuel.idle = 1560 * l.ff.idle ∧ inv.ltoFuel.takeoff = 42 * l.ff.takeoff
    ∧ (∀ s (v : TM ℝ), inv.ltoEm s = some v → v.approach = 0 ∧ v.climb = 0)
    ∧ (∀ s (v : TM ℝ), inv.ltoIdx s = some v → v.approach = 0 ∧ v.climb = 0) := by
  obtain ⟨rfl, _⟩ := assemble_ok h
  refine ⟨?_, ?_, ?_, ?_, ?_, ?_, ?_⟩
  · simp only [core_trajFuel, trajFuel, suml_eq_sum, sliceLo, sliceHi, hm, Bool.false_eq_true, if_false]
    have := fuelBurn_length t.fm
    rw [← this, pySlice_all, fuelBurn_sum]
  · simp [core_ltoFuel, ltoFuel, modeZero, hm, TM.zeroAC]
  · simp [core_ltoFuel, ltoFuel, modeZero, hm, TM.zeroAC]
  · simp [core_ltoFuel, ltoFuel, modeZero, hm, TM.zeroAC, ltoTIM_val, TM.mul, TM.zipWith]
  · simp [core_ltoFuel, ltoFuel, modeZero, hm, TM.zeroAC, ltoTIM_val, TM.mul, TM.zipWith]
  · intro s v hv
    simp only [core_ltoEm, ltoEm, ltoIdx] at hv
    cases he : ltoEI c f l s with
    | none => simp [he] at hv
    | some e =>
      simp only [he, Option.map_some, Option.some.injEq] at hv
      subst hv
      simp [modeZero, hm, TM.zeroAC, TM.mul, TM.zipWith, ltoFuel]
  · intro s v hv
    simp only [core_ltoIdx, ltoIdx] at hv
    cases he : ltoEI c f l s with
    | none => simp [he] at hv
    | some e =>
      simp only [he, Option.map_some, Option.some.injEq] at hv
      subst hv
      simp [modeZero, hm, TM.zeroAC]

/-- LTO mode: climb points + window + descent points partition the whole burn (for a well-formed phase split),
    and the LTO component keeps all four ICAO modes -/
theorem lto_mode_fuel_partition (h : assemble c f t l apu k = .ok inv) (hm : c.ltoMode = true)
    (hw : t.nClimb + t.nDescent ≤ t.fm.length) :
    (inv.burn.take t.nClimb).sum + inv.trajFuel + (inv.burn.drop (t.fm.length - t.nDescent)).sum
      = t.fm.headD 0 - lastD t.fm 0
    ∧ inv.trajFuel = ((inv.burn.take (t.fm.length - t.nDescent)).drop t.nClimb).sum
    ∧ inv.ltoFuel = ⟨1560 * l.ff.idle, 240 * l.ff.approach, 132 * l.ff.climb, 42 * l.ff.takeoff⟩ := by
  obtain ⟨rfl, _⟩ := assemble_ok h
  have hlo : sliceLo c t.fm.length t.nClimb = t.nClimb := by
    simp only [sliceLo, hm, if_true]; omega
  have hhi : sliceHi c t.fm.length t.nDescent = t.fm.length - t.nDescent := by
    simp only [sliceHi, hm, if_true]; rw [if_pos (by omega)]
  have hf : (assembleCore c f t l apu k).trajFuel
      = (((fuelBurn t.fm).take (t.fm.length - t.nDescent)).drop t.nClimb).sum := by
    simp only [core_trajFuel, trajFuel, suml_eq_sum, hlo, hhi, pySlice]
  refine ⟨?_, hf, ?_⟩
  · rw [hf, core_burn, ← fuelBurn_sum]
    set b := fuelBurn t.fm with hb
    set n := t.fm.length - t.nDescent with hn
    have h1 : (b.take t.nClimb).sum + ((b.take n).drop t.nClimb).sum = (b.take n).sum := by
      have := List.sum_take_add_sum_drop (b.take n) t.nClimb
      rw [List.take_take] at this
      rw [← this]
      congr 3
      omega
    rw [h1, List.sum_take_add_sum_drop]
  · simp [core_ltoFuel, ltoFuel, modeZero, hm, ltoTIM_val, TM.mul, TM.zipWith]

/-- CO₂ of trajectory + LTO = the fuel's EI × (trajectory + LTO fuel), in either accounting mode -/
theorem co2_eq_ei_times_fuel (h : assemble c f t l apu k = .ok inv) (hc : c.co2 = true) :
    ∃ te le, inv.trajEm Sp.CO2 = some te ∧ inv.ltoEm Sp.CO2 = some le
      ∧ te.sum = f.eiCO2 * inv.trajFuel ∧ tmSum le = f.eiCO2 * tmSum inv.ltoFuel
      ∧ te.sum + tmSum le = f.eiCO2 * (inv.trajFuel + tmSum inv.ltoFuel) := by
  obtain ⟨rfl, _⟩ := assemble_ok h
  refine ⟨window (winLo c t) (winHi c t) (mulList (List.replicate t.fm.length f.eiCO2) (fuelBurn t.fm)),
    TM.mul (modeZero c (TM.const f.eiCO2)) (ltoFuel c l), ?_, ?_, ?_, ?_, ?_⟩
  · simp [core_trajEm, trajEm, trajEI, constEI, hc]
  · simp [core_ltoEm, ltoEm, ltoIdx, ltoEI, constEI, hc]
  · rw [sum_window_const, core_trajFuel, trajFuel_real]
  · rw [tmSum_const_mul, core_ltoFuel]
  · rw [sum_window_const, tmSum_const_mul, core_trajFuel, trajFuel_real, core_ltoFuel]; ring

/-- the same for H₂O -/
theorem h2o_eq_ei_times_fuel (h : assemble c f t l apu k = .ok inv) (hc : c.h2o = true) :
    ∃ te le, inv.trajEm Sp.H2O = some te ∧ inv.ltoEm Sp.H2O = some le
      ∧ te.sum = f.eiH2O * inv.trajFuel ∧ tmSum le = f.eiH2O * tmSum inv.ltoFuel
      ∧ te.sum + tmSum le = f.eiH2O * (inv.trajFuel + tmSum inv.ltoFuel) := by
  obtain ⟨rfl, _⟩ := assemble_ok h
  refine ⟨window (winLo c t) (winHi c t) (mulList (List.replicate t.fm.length f.eiH2O) (fuelBurn t.fm)),
    TM.mul (modeZero c (TM.const f.eiH2O)) (ltoFuel c l), ?_, ?_, ?_, ?_, ?_⟩
  · simp [core_trajEm, trajEm, trajEI, constEI, hc]
  · simp [core_ltoEm, ltoEm, ltoIdx, ltoEI, constEI, hc]
  · rw [sum_window_const, core_trajFuel, trajFuel_real]
  · rw [tmSum_const_mul, core_ltoFuel]
  · rw [sum_window_const, tmSum_const_mul, core_trajFuel, trajFuel_real, core_ltoFuel]; ring

/-! ### NOx and SOx splits in every component -/

/-- trajectory: NO + NO₂ + HONO = NOx at every point, for amounts and for returned indices, whatever thrust
    categories the points fall in (needs only that the NOx-EI and SLS-fuel-flow arrays have one length) -/
theorem nox_split_trajectory (h : assemble c f t l apu k = .ok inv) (hn : c.nox = .bffm2)
    (hl : t.sls.length = t.nox.length) : NoxSplitList inv.trajEm ∧ NoxSplitList inv.trajIdx := by
  obtain ⟨rfl, _⟩ := assemble_ok h
  have hc : (t.sls.map (thrustCat l.ff)).length = t.nox.length := by simpa using hl
  constructor
  · refine ⟨_, _, _, _, by simp [core_trajEm, trajEm, trajEI, hn] <;> rfl, by simp [core_trajEm, trajEm, trajEI, hn] <;> rfl,
      by simp [core_trajEm, trajEm, trajEI, hn] <;> rfl, by simp [core_trajEm, trajEm, trajEI, hn] <;> rfl, ?_⟩
    rw [window_addList, window_addList, mulList_addList, mulList_addList, speciate_sum _ _ hc]
  · refine ⟨_, _, _, _, by simp [core_trajIdx, trajIdx, trajEI, hn] <;> rfl, by simp [core_trajIdx, trajIdx, trajEI, hn] <;> rfl,
      by simp [core_trajIdx, trajIdx, trajEI, hn] <;> rfl, by simp [core_trajIdx, trajIdx, trajEI, hn] <;> rfl, ?_⟩
    rw [window_addList, window_addList, speciate_sum _ _ hc]

/-- LTO: NO + NO₂ + HONO = NOx in each thrust mode, amounts and indices, in both accounting modes -/
theorem nox_split_lto (h : assemble c f t l apu k = .ok inv) (hn : c.nox ≠ .none) :
    NoxSplitTM inv.ltoEm ∧ NoxSplitTM inv.ltoIdx := by
  obtain ⟨rfl, _⟩ := assemble_ok h
  have hn' : (c.nox != NoxM.none) = true := by simpa using hn
  have s1 := spec_sum_one
  constructor
  · refine ⟨_, _, _, _, by simp [core_ltoEm, ltoEm, ltoIdx, ltoEI, hn'] <;> rfl, by simp [core_ltoEm, ltoEm, ltoIdx, ltoEI, hn'] <;> rfl,
      by simp [core_ltoEm, ltoEm, ltoIdx, ltoEI, hn'] <;> rfl, by simp [core_ltoEm, ltoEm, ltoIdx, ltoEI, hn'] <;> rfl, ?_⟩
    intro md
    simp only [get_mul, get_modeZero]
    linear_combination (keep c md * l.nox.get md * (ltoFuel c l).get md) * s1 md
  · refine ⟨_, _, _, _, by simp [core_ltoIdx, ltoIdx, ltoEI, hn'] <;> rfl, by simp [core_ltoIdx, ltoIdx, ltoEI, hn'] <;> rfl,
      by simp [core_ltoIdx, ltoIdx, ltoEI, hn'] <;> rfl, by simp [core_ltoIdx, ltoIdx, ltoEI, hn'] <;> rfl, ?_⟩
    intro md
    simp only [get_mul, get_modeZero]
    linear_combination (keep c md * l.nox.get md) * s1 md

/-- APU (when it is part of the inventory): NO + NO₂ + HONO = NOx, indices and amounts -/
theorem nox_split_apu (h : assemble c f t l apu k = .ok inv) (a : ApuIn ℝ) (ha : apuOn c apu = some a) :
    NoxSplit inv.apuIdx ∧ NoxSplit inv.apuEm := by
  obtain ⟨rfl, _⟩ := assemble_ok h
  have s1 := spec_sum_one .takeoff
  simp only [TM.get] at s1
  constructor
  · refine ⟨a.nox, _, _, _, by simp [core_apuIdx, invApuIdx, svOfOpt, ha, apuIdx],
      by simp [core_apuIdx, invApuIdx, svOfOpt, ha, apuIdx] <;> rfl, by simp [core_apuIdx, invApuIdx, svOfOpt, ha, apuIdx] <;> rfl,
      by simp [core_apuIdx, invApuIdx, svOfOpt, ha, apuIdx] <;> rfl, ?_⟩
    linear_combination a.nox * s1
  · refine ⟨a.nox * apuFuelBurn a, _, _, _, by simp [core_apuEm, invApuEm, svOfOpt, ha, apuEm, apuIdx],
      by simp [core_apuEm, invApuEm, svOfOpt, ha, apuEm, apuIdx] <;> rfl,
      by simp [core_apuEm, invApuEm, svOfOpt, ha, apuEm, apuIdx] <;> rfl,
      by simp [core_apuEm, invApuEm, svOfOpt, ha, apuEm, apuIdx] <;> rfl, ?_⟩
    linear_combination (a.nox * apuFuelBurn a) * s1

/-- GSE (when enabled): NO + NO₂ + HONO = NOx -/
theorem nox_split_gse (h : assemble c f t l apu k = .ok inv) (hg : c.gse = true) : NoxSplit inv.gseEm := by
  obtain ⟨rfl, _⟩ := assemble_ok h
  refine ⟨(gseNominal k).nox, _, _, _, by simp [core_gseEm, invGseEm, hg, gseEm],
    by simp [core_gseEm, invGseEm, hg, gseEm] <;> rfl, by simp [core_gseEm, invGseEm, hg, gseEm] <;> rfl,
    by simp [core_gseEm, invGseEm, hg, gseEm] <;> rfl, ?_⟩
  ring

/-- trajectory: SO₂ + SO₄ = SOx at every point, amounts and indices -/
theorem sox_split_trajectory (h : assemble c f t l apu k = .ok inv) (hs : c.sox = true) :
    SoxSplitList inv.trajEm ∧ SoxSplitList inv.trajIdx := by
  obtain ⟨rfl, _⟩ := assemble_ok h
  constructor
  · refine ⟨_, _, _, by simp [core_trajEm, trajEm, trajEI, constEI, hs] <;> rfl,
      by simp [core_trajEm, trajEm, trajEI, constEI, hs] <;> rfl, by simp [core_trajEm, trajEm, trajEI, constEI, hs] <;> rfl, ?_⟩
    rw [window_addList, mulList_addList, addList_replicate, eiSOx_split]
  · refine ⟨_, _, _, by simp [core_trajIdx, trajIdx, trajEI, constEI, hs] <;> rfl,
      by simp [core_trajIdx, trajIdx, trajEI, constEI, hs] <;> rfl, by simp [core_trajIdx, trajIdx, trajEI, constEI, hs] <;> rfl, ?_⟩
    rw [window_addList, addList_replicate, eiSOx_split]

/-- LTO: SO₂ + SO₄ = SOx in each thrust mode, amounts and indices -/
theorem sox_split_lto (h : assemble c f t l apu k = .ok inv) (hs : c.sox = true) :
    SoxSplitTM inv.ltoEm ∧ SoxSplitTM inv.ltoIdx := by
  obtain ⟨rfl, _⟩ := assemble_ok h
  constructor
  · refine ⟨_, _, _, by simp [core_ltoEm, ltoEm, ltoIdx, ltoEI, constEI, hs] <;> rfl,
      by simp [core_ltoEm, ltoEm, ltoIdx, ltoEI, constEI, hs] <;> rfl,
      by simp [core_ltoEm, ltoEm, ltoIdx, ltoEI, constEI, hs] <;> rfl, ?_⟩
    intro md
    simp only [get_mul, get_modeZero, get_const, ← eiSOx_split]; ring
  · refine ⟨_, _, _, by simp [core_ltoIdx, ltoIdx, ltoEI, constEI, hs] <;> rfl,
      by simp [core_ltoIdx, ltoIdx, ltoEI, constEI, hs] <;> rfl, by simp [core_ltoIdx, ltoIdx, ltoEI, constEI, hs] <;> rfl, ?_⟩
    intro md
    simp only [get_modeZero, get_const, ← eiSOx_split]; ring

/-- APU (when part of the inventory): SO₂ + SO₄ = SOx, indices and amounts -/
theorem sox_split_apu (h : assemble c f t l apu k = .ok inv) (a : ApuIn ℝ) (ha : apuOn c apu = some a) :
    SoxSplit inv.apuIdx ∧ SoxSplit inv.apuEm := by
  obtain ⟨rfl, _⟩ := assemble_ok h
  constructor
  · exact ⟨_, _, _, by simp [core_apuIdx, invApuIdx, svOfOpt, ha, apuIdx] <;> rfl,
      by simp [core_apuIdx, invApuIdx, svOfOpt, ha, apuIdx],
      by simp [core_apuIdx, invApuIdx, svOfOpt, ha, apuIdx], rfl⟩
  · refine ⟨_, _, _, by simp [core_apuEm, invApuEm, svOfOpt, ha, apuEm, apuIdx] <;> rfl,
      by simp [core_apuEm, invApuEm, svOfOpt, ha, apuEm, apuIdx] <;> rfl,
      by simp [core_apuEm, invApuEm, svOfOpt, ha, apuEm, apuIdx] <;> rfl, ?_⟩
    ring

/-- GSE (when enabled): SO₂ + SO₄ = SOx -/
theorem sox_split_gse (h : assemble c f t l apu k = .ok inv) (hg : c.gse = true) : SoxSplit inv.gseEm := by
  obtain ⟨rfl, _⟩ := assemble_ok h
  refine ⟨_, _, _, by simp [core_gseEm, invGseEm, hg, gseEm] <;> rfl, by simp [core_gseEm, invGseEm, hg, gseEm] <;> rfl,
    by simp [core_gseEm, invGseEm, hg, gseEm] <;> rfl, ?_⟩
  ring

/-- the reported totals split as well: total NO + NO₂ + HONO = total NOx (any option set, any component mix) -/
theorem nox_split_total (h : assemble c f t l apu k = .ok inv) (hl : t.sls.length = t.nox.length) :
    NoxSplit inv.total := by
  obtain ⟨rfl, _⟩ := assemble_ok h
  refine ⟨_, _, _, _, core_total _, core_total _, core_total _, core_total _, ?_⟩
  have h1 := traj_nox_total (c := c) (f := f) (t := t) l.ff hl
  have h2 := lto_nox_total (c := c) (f := f) (l := l)
  have h3 := apu_nox_total (c := c) (f := f) (l := l) (apu := apu)
  have h4 := gse_nox_total (c := c) (f := f) (k := k)
  simp only [trajTotal, ltoTotal] at h1 h2
  simp only [reduceCtorEq, if_false]
  linarith

/-- total SO₂ + SO₄ = total SOx -/
theorem sox_split_total (h : assemble c f t l apu k = .ok inv) : SoxSplit inv.total := by
  obtain ⟨rfl, _⟩ := assemble_ok h
  refine ⟨_, _, _, core_total _, core_total _, core_total _, ?_⟩
  have h1 := traj_sox_total (c := c) (f := f) (t := t) l.ff
  have h2 := lto_sox_total (c := c) (f := f) (l := l)
  have h3 := apu_sox_total (c := c) (f := f) (l := l) (apu := apu)
  have h4 := gse_sox_total (c := c) (f := f) (k := k)
  simp only [trajTotal, ltoTotal] at h1 h2
  simp only [reduceCtorEq, if_false]
  linarith

/-! ### all amounts non-negative (finiteness is automatic over ℝ; on IEEE doubles it is checked on the implementation) -/

theorem trajectory_amounts_nonneg (h : assemble c f t l apu k = .ok inv) (H : NonnegInputs c f t l apu) :
    (∀ x ∈ inv.burn, 0 ≤ x)
    ∧ (∀ s xs, inv.trajEm s = some xs → ∀ x ∈ xs, 0 ≤ x)
    ∧ (∀ s xs, inv.trajIdx s = some xs → ∀ x ∈ xs, 0 ≤ x)
    ∧ 0 ≤ inv.trajFuel := by
  obtain ⟨rfl, _⟩ := assemble_ok h
  have hb := fuelBurn_nonneg t.fm H.fm
  refine ⟨hb, ?_, ?_, ?_⟩
  · intro s xs hs
    simp only [core_trajEm, trajEm] at hs
    cases he : trajEI c f l.ff t s with
    | none => simp [he] at hs
    | some e =>
      simp only [he, Option.map_some, Option.some.injEq] at hs
      subst hs
      exact window_nonneg _ _ _ (mulList_nonneg _ _ (trajEI_nonneg H l.ff s e he) hb)
  · intro s xs hs
    simp only [core_trajIdx, trajIdx] at hs
    cases he : trajEI c f l.ff t s with
    | none => simp [he] at hs
    | some e =>
      simp only [he, Option.map_some, Option.some.injEq] at hs
      subst hs
      exact window_nonneg _ _ _ (trajEI_nonneg H l.ff s e he)
  · rw [core_trajFuel, trajFuel_real]
    exact List.sum_nonneg (pySlice_nonneg _ _ _ hb)

theorem lto_amounts_nonneg (h : assemble c f t l apu k = .ok inv) (H : NonnegInputs c f t l apu) :
    (∀ s v, inv.ltoEm s = some v → tmNonneg v) ∧ (∀ s v, inv.ltoIdx s = some v → tmNonneg v)
    ∧ tmNonneg inv.ltoFuel := by
  obtain ⟨rfl, _⟩ := assemble_ok h
  refine ⟨?_, fun s v hv => ltoIdx_nonneg H s v hv, ltoFuel_nonneg H⟩
  intro s v hv
  simp only [core_ltoEm, ltoEm] at hv
  cases he : ltoIdx c f l s with
  | none => simp [he] at hv
  | some e =>
    simp only [he, Option.map_some, Option.some.injEq] at hv
    subst hv
    exact tmNonneg_mul (ltoIdx_nonneg H s e he) (ltoFuel_nonneg H)

theorem apu_gse_amounts_nonneg (h : assemble c f t l apu k = .ok inv) (H : NonnegInputs c f t l apu) :
    (∀ s x, inv.apuIdx s = some x → 0 ≤ x) ∧ (∀ s x, inv.apuEm s = some x → 0 ≤ x)
    ∧ (∀ x, inv.apuFuel = some x → 0 ≤ x)
    ∧ (∀ s x, inv.gseEm s = some x → 0 ≤ x) ∧ (∀ x, inv.gseFuel = some x → 0 ≤ x) := by
  obtain ⟨rfl, _⟩ := assemble_ok h
  have hmem : ∀ a, apuOn c apu = some a → a ∈ apu := by
    intro a ha
    unfold apuOn at ha
    split_ifs at ha
    simpa using ha
  have hfuel : ∀ a, apuOn c apu = some a → 0 ≤ apuFuelBurn a := by
    intro a ha
    have := (H.apu a (hmem a ha)).1
    simp only [apuFuelBurn, apuTime, lit_real]; norm_num; exact this
  refine ⟨?_, ?_, ?_, ?_, ?_⟩
  · intro s x hx
    simp only [core_apuIdx, invApuIdx, svOfOpt] at hx
    cases ha : apuOn c apu with
    | none => simp [ha] at hx
    | some a =>
      simp only [ha, Option.bind_some] at hx
      exact apuIdx_nonneg H a (hmem a ha) s x hx
  · intro s x hx
    simp only [core_apuEm, invApuEm, svOfOpt] at hx
    cases ha : apuOn c apu with
    | none => simp [ha] at hx
    | some a =>
      simp only [ha, Option.bind_some, apuEm] at hx
      cases hi : apuIdx c f (ltoIdx c f l) a s with
      | none => simp [hi] at hx
      | some i =>
        simp only [hi, Option.map_some, Option.some.injEq] at hx
        subst hx
        exact mul_nonneg (apuIdx_nonneg H a (hmem a ha) s i hi) (hfuel a ha)
  · intro x hx
    simp only [core_apuFuel, invApuFuel] at hx
    cases ha : apuOn c apu with
    | none => simp [ha] at hx
    | some a =>
      simp only [ha, Option.map_some, Option.some.injEq] at hx
      subst hx
      exact hfuel a ha
  · intro s x hx
    simp only [core_gseEm, invGseEm] at hx
    split_ifs at hx
    · exact gseEm_nonneg H k s x hx
    · simp [SV.empty] at hx
  · intro x hx
    simp only [core_gseFuel, invGseFuel] at hx
    split_ifs at hx
    simp only [Option.some.injEq] at hx
    subst hx
    exact gseFuel_nonneg H k

/-- every reported total, the total fuel burn and the life-cycle adjustment are non-negative -/
theorem amounts_nonneg (h : assemble c f t l apu k = .ok inv) (H : NonnegInputs c f t l apu) :
    (∀ s x, inv.total s = some x → 0 ≤ x) ∧ 0 ≤ inv.totalFuel ∧ 0 ≤ inv.lifecycle := by
  obtain ⟨_, hte, _, htf⟩ := trajectory_amounts_nonneg h H
  obtain ⟨hle, _, hlf⟩ := lto_amounts_nonneg h H
  obtain ⟨_, hae, haf, hge, hgf⟩ := apu_gse_amounts_nonneg h H
  have hlc : 0 ≤ inv.lifecycle := by
    obtain ⟨rfl, _⟩ := assemble_ok h
    rw [core_lifecycle]
    unfold invLifecycle
    split_ifs
    · cases hq : f.lifecycle with
      | none => simp
      | some lc =>
        have h1 : 0 ≤ lc := H.lifecycle lc (by simp [hq])
        have h2 := lastD_le_head t.fm H.fm
        simp only [Option.map_some, Option.getD_some, lifecycleAdj, zero_real]
        exact mul_nonneg h1 (mul_nonneg (by linarith) H.energy)
    · simp
  have optnn : ∀ o : Option ℝ, (∀ x, o = some x → 0 ≤ x) → 0 ≤ o.getD 0 := by
    intro o ho
    cases o with
    | none => simp
    | some x => simpa using ho x rfl
  refine ⟨?_, ?_, hlc⟩
  · intro s x hx
    rw [total_eq_sum_of_parts h s] at hx
    simp only [Option.some.injEq] at hx
    subst hx
    have t1 : 0 ≤ ((inv.trajEm s).map List.sum).getD 0 := by
      cases hq : inv.trajEm s with
      | none => simp
      | some xs => simpa using List.sum_nonneg (hte s xs hq)
    have t2 : 0 ≤ ((inv.ltoEm s).map tmSum).getD 0 := by
      cases hq : inv.ltoEm s with
      | none => simp
      | some v => simpa using tmNonneg_sum (hle s v hq)
    have t3 := optnn (inv.apuEm s) (hae s)
    have t4 := optnn (inv.gseEm s) (hge s)
    have t5 : 0 ≤ (if s = Sp.CO2 then inv.lifecycle else 0) := by split_ifs <;> [exact hlc; exact le_refl _]
    linarith
  · rw [(total_fuel_eq_component_fuel h).1]
    have t3 := optnn inv.apuFuel haf
    have t4 := optnn inv.gseFuel hgf
    have t2 := tmNonneg_sum hlf
    linarith

/-- the awkward hypothesis of `NonnegInputs` (APU CO₂ index by carbon mass balance ≥ 0) follows, for every fuel and
    LTO data set, from a bound on the APU's own data row — which the harness evaluates on every `APU_data.toml` row -/
theorem apu_carbon_balance_of_data_bound (a : ApuIn ℝ) (ltoI : SV (TM ℝ))
    (hs : 0 ≤ apuSulfur ltoI a Sp.SO4)
    (hb : (44 / 28) * a.co + (44 / (82 / 5)) * a.hc + (44 / 12) * max a.pm10 0 ≤ 3160) :
    0 ≤ apuCO2 ltoI a := by
  have hP0 : 0 ≤ apuPM10 ltoI a := by
    unfold apuPM10; rw [smax_real, zero_real]; exact le_max_right _ _
  have hP1 : apuPM10 ltoI a ≤ max a.pm10 0 := by
    unfold apuPM10; rw [smax_real, zero_real]
    exact max_le_max (by linarith) (le_refl _)
  unfold apuCO2
  split_ifs
  · unfold apuPMvol apuPMnvol
    simp only [lit_real]
    norm_num
    nlinarith
  · simp

/-! ### non-vacuity: every hypothesis above is satisfied by a concrete flight (DummyPerformanceModel numbers),
    in both accounting modes -/

example (b : Bool) : ∃ inv, assemble (exCfg b) exFuel exTraj exLto (some exApu) .wide = .ok inv := ⟨_, ex_ok b⟩
example := total_eq_sum_of_parts (ex_ok true) Sp.CO2
example := segment_eq_index_times_burn (ex_ok true) Sp.NOx
example := lto_amount_eq_index_times_fuel (ex_ok false) Sp.CO
example := apu_amount_eq_index_times_fuel (ex_ok false) Sp.SO2
example := total_fuel_eq_component_fuel (ex_ok true)
example := traj_mode_fuel_counted_once (ex_ok false) rfl
example := lto_mode_fuel_partition (ex_ok true) rfl (by simp [exTraj])
example := co2_eq_ei_times_fuel (ex_ok true) rfl
example := h2o_eq_ei_times_fuel (ex_ok false) rfl
example := nox_split_trajectory (ex_ok true) rfl (by simp [exTraj])
example := nox_split_lto (ex_ok false) (by simp [exCfg])
example := nox_split_apu (ex_ok true) exApu rfl
example := nox_split_gse (ex_ok true) rfl
example := sox_split_trajectory (ex_ok true) rfl
example := sox_split_lto (ex_ok false) rfl
example := sox_split_apu (ex_ok true) exApu rfl
example := sox_split_gse (ex_ok true) rfl
example := nox_split_total (ex_ok true) (by simp [exTraj])
example := sox_split_total (ex_ok false)
example (b : Bool) := trajectory_amounts_nonneg (ex_ok b) (ex_nonneg b)
example (b : Bool) := lto_amounts_nonneg (ex_ok b) (ex_nonneg b)
example (b : Bool) := apu_gse_amounts_nonneg (ex_ok b) (ex_nonneg b)
example (b : Bool) := amounts_nonneg (ex_ok b) (ex_nonneg b)
example : (44 / 28) * exApu.co + (44 / (82 / 5)) * exApu.hc + (44 / 12) * max exApu.pm10 0 ≤ 3160 := by
  simp only [exApu]; norm_num

/-- the window of the example in LTO mode really is the two cruise points: the theorems are not about empty windows -/
example : winLo (exCfg true) exTraj = 2 ∧ winHi (exCfg true) exTraj = 4 := by
  simp [winLo, winHi, sliceLo, sliceHi, exCfg, exTraj]


/-! ## Source tie: the GSE and APU parts as regenerated from `emissions/gse.py` / `emissions/apu.py` by the symbolic translator
    (`Aeic.Kern.gse_*`, `Aeic.Kern.apu_*`; equal to the model by `AeicProofs/Lemmas/KernelBridge2.lean`) -/

open KernelBridge2

/-- the GSE amounts of the source text are the model's, for every class and species, and so is the GSE fuel burn -/
theorem src_gse_is_model (f : Fuel ℝ) :
    (some (Kern.gse_wide_CO2 (fuelEnv f)) = gseEm f .wide .CO2 ∧ Kern.gse_wide_fuel (fuelEnv f) = gseFuelBurn f .wide) ∧
    (some (Kern.gse_narrow_CO2 (fuelEnv f)) = gseEm f .narrow .CO2 ∧ Kern.gse_narrow_fuel (fuelEnv f) = gseFuelBurn f .narrow) ∧
    (some (Kern.gse_small_CO2 (fuelEnv f)) = gseEm f .small .CO2 ∧ Kern.gse_small_fuel (fuelEnv f) = gseFuelBurn f .small) ∧
    (some (Kern.gse_freight_CO2 (fuelEnv f)) = gseEm f .freight .CO2 ∧ Kern.gse_freight_fuel (fuelEnv f) = gseFuelBurn f .freight) :=
  ⟨⟨(gse_wide f).1, (gse_wide f).2.2.2.2.2.2.2.2.2.2.2.2.2⟩, ⟨(gse_narrow f).1, (gse_narrow f).2.2.2.2.2.2.2.2.2.2.2.2.2⟩,
   ⟨(gse_small f).1, (gse_small f).2.2.2.2.2.2.2.2.2.2.2.2.2⟩, ⟨(gse_freight f).1, (gse_freight f).2.2.2.2.2.2.2.2.2.2.2.2.2⟩⟩

/-- NO + NO₂ + HONO = NOx, SO₂ + SO₄ = SOx and H₂O = EI·fuel for the GSE amounts **as the source text computes them**, all classes -/
theorem src_gse_splits (f : Fuel ℝ) :
    Kern.gse_wide_NO (fuelEnv f) + Kern.gse_wide_NO2 (fuelEnv f) + Kern.gse_wide_HONO (fuelEnv f) = Kern.gse_wide_NOx (fuelEnv f) ∧
    Kern.gse_narrow_NO (fuelEnv f) + Kern.gse_narrow_NO2 (fuelEnv f) + Kern.gse_narrow_HONO (fuelEnv f) = Kern.gse_narrow_NOx (fuelEnv f) ∧
    Kern.gse_small_NO (fuelEnv f) + Kern.gse_small_NO2 (fuelEnv f) + Kern.gse_small_HONO (fuelEnv f) = Kern.gse_small_NOx (fuelEnv f) ∧
    Kern.gse_freight_NO (fuelEnv f) + Kern.gse_freight_NO2 (fuelEnv f) + Kern.gse_freight_HONO (fuelEnv f) = Kern.gse_freight_NOx (fuelEnv f) ∧
    Kern.gse_wide_SO2 (fuelEnv f) + Kern.gse_wide_SO4 (fuelEnv f) = Kern.gse_wide_SOx (fuelEnv f) ∧
    Kern.gse_narrow_SO2 (fuelEnv f) + Kern.gse_narrow_SO4 (fuelEnv f) = Kern.gse_narrow_SOx (fuelEnv f) ∧
    Kern.gse_small_SO2 (fuelEnv f) + Kern.gse_small_SO4 (fuelEnv f) = Kern.gse_small_SOx (fuelEnv f) ∧
    Kern.gse_freight_SO2 (fuelEnv f) + Kern.gse_freight_SO4 (fuelEnv f) = Kern.gse_freight_SOx (fuelEnv f) ∧
    Kern.gse_wide_H2O (fuelEnv f) = f.eiH2O * Kern.gse_wide_fuel (fuelEnv f) ∧
    Kern.gse_narrow_H2O (fuelEnv f) = f.eiH2O * Kern.gse_narrow_fuel (fuelEnv f) ∧
    Kern.gse_small_H2O (fuelEnv f) = f.eiH2O * Kern.gse_small_fuel (fuelEnv f) ∧
    Kern.gse_freight_H2O (fuelEnv f) = f.eiH2O * Kern.gse_freight_fuel (fuelEnv f) := by
  refine ⟨?_, ?_, ?_, ?_, ?_, ?_, ?_, ?_, ?_, ?_, ?_, ?_⟩ <;>
    (simp only [Kern.gse_wide_NO, Kern.gse_wide_NO2, Kern.gse_wide_HONO, Kern.gse_wide_NOx, Kern.gse_wide_SO2, Kern.gse_wide_SO4, Kern.gse_wide_SOx, Kern.gse_wide_H2O, Kern.gse_wide_fuel, Kern.gse_narrow_NO, Kern.gse_narrow_NO2, Kern.gse_narrow_HONO, Kern.gse_narrow_NOx, Kern.gse_narrow_SO2, Kern.gse_narrow_SO4, Kern.gse_narrow_SOx, Kern.gse_narrow_H2O, Kern.gse_narrow_fuel, Kern.gse_small_NO, Kern.gse_small_NO2, Kern.gse_small_HONO, Kern.gse_small_NOx, Kern.gse_small_SO2, Kern.gse_small_SO4, Kern.gse_small_SOx, Kern.gse_small_H2O, Kern.gse_small_fuel, Kern.gse_freight_NO, Kern.gse_freight_NO2, Kern.gse_freight_HONO, Kern.gse_freight_NOx, Kern.gse_freight_SO2, Kern.gse_freight_SO4, Kern.gse_freight_SOx, Kern.gse_freight_H2O, Kern.gse_freight_fuel,
      fuelEnv, String.reduceEq, if_true, if_false, lit_real] <;> norm_num <;> ring_nf)

theorem amount_of_bridge {e i fb : ℝ} {c : Cfg} {f : Fuel ℝ} {l : SV (TM ℝ)} {a : ApuIn ℝ} {s : Sp}
    (hi : some i = apuIdx c f l a s) (he : some e = apuEm c f l a s) (hf : fb = apuFuelBurn a) : e = i * fb := by
  unfold apuEm at he
  rw [← hi] at he
  simpa [hf] using he

/-- every APU amount of the source text is its index times the APU fuel burn (default APU time) -/
theorem src_apu_amount_eq_index_times_fuel (c : Cfg) (f : Fuel ℝ) (so2 so4 t : ℝ) (a : ApuIn ℝ) (h2 h4 : Bool) :
    Kern.apu_emission_SO2 (apuEnv f so2 so4 a) 900 h2 h4 = Kern.apu_index_SO2 (apuEnv f so2 so4 a) t h2 h4 * Kern.apu_fuel_burn (apuEnv f so2 so4 a) 900 h2 h4 ∧
    Kern.apu_emission_SO4 (apuEnv f so2 so4 a) 900 h2 h4 = Kern.apu_index_SO4 (apuEnv f so2 so4 a) t h2 h4 * Kern.apu_fuel_burn (apuEnv f so2 so4 a) 900 h2 h4 ∧
    Kern.apu_emission_SOx (apuEnv f so2 so4 a) 900 h2 h4 = Kern.apu_index_SOx (apuEnv f so2 so4 a) t h2 h4 * Kern.apu_fuel_burn (apuEnv f so2 so4 a) 900 h2 h4 ∧
    Kern.apu_emission_PMnvol (apuEnv f so2 so4 a) 900 h2 h4 = Kern.apu_index_PMnvol (apuEnv f so2 so4 a) t h2 h4 * Kern.apu_fuel_burn (apuEnv f so2 so4 a) 900 h2 h4 ∧
    Kern.apu_emission_PMvol (apuEnv f so2 so4 a) 900 h2 h4 = Kern.apu_index_PMvol (apuEnv f so2 so4 a) t h2 h4 * Kern.apu_fuel_burn (apuEnv f so2 so4 a) 900 h2 h4 ∧
    Kern.apu_emission_NO (apuEnv f so2 so4 a) 900 h2 h4 = Kern.apu_index_NO (apuEnv f so2 so4 a) t h2 h4 * Kern.apu_fuel_burn (apuEnv f so2 so4 a) 900 h2 h4 ∧
    Kern.apu_emission_NO2 (apuEnv f so2 so4 a) 900 h2 h4 = Kern.apu_index_NO2 (apuEnv f so2 so4 a) t h2 h4 * Kern.apu_fuel_burn (apuEnv f so2 so4 a) 900 h2 h4 ∧
    Kern.apu_emission_HONO (apuEnv f so2 so4 a) 900 h2 h4 = Kern.apu_index_HONO (apuEnv f so2 so4 a) t h2 h4 * Kern.apu_fuel_burn (apuEnv f so2 so4 a) 900 h2 h4 ∧
    Kern.apu_emission_NOx (apuEnv f so2 so4 a) 900 h2 h4 = Kern.apu_index_NOx (apuEnv f so2 so4 a) t h2 h4 * Kern.apu_fuel_burn (apuEnv f so2 so4 a) 900 h2 h4 ∧
    Kern.apu_emission_HC (apuEnv f so2 so4 a) 900 h2 h4 = Kern.apu_index_HC (apuEnv f so2 so4 a) t h2 h4 * Kern.apu_fuel_burn (apuEnv f so2 so4 a) 900 h2 h4 ∧
    Kern.apu_emission_CO (apuEnv f so2 so4 a) 900 h2 h4 = Kern.apu_index_CO (apuEnv f so2 so4 a) t h2 h4 * Kern.apu_fuel_burn (apuEnv f so2 so4 a) 900 h2 h4 ∧
    Kern.apu_emission_H2O (apuEnv f so2 so4 a) 900 h2 h4 = Kern.apu_index_H2O (apuEnv f so2 so4 a) t h2 h4 * Kern.apu_fuel_burn (apuEnv f so2 so4 a) 900 h2 h4 ∧
    Kern.apu_emission_CO2 (apuEnv f so2 so4 a) 900 h2 h4 = Kern.apu_index_CO2 (apuEnv f so2 so4 a) t h2 h4 * Kern.apu_fuel_burn (apuEnv f so2 so4 a) 900 h2 h4 := by
  have hi := apu_indices c f so2 so4 t a h2 h4
  have he := apu_emissions c f so2 so4 a h2 h4
  have hf := he.2.2.2.2.2.2.2.2.2.2.2.2.2
  refine ⟨?_, ?_, ?_, ?_, ?_, ?_, ?_, ?_, ?_, ?_, ?_, ?_, ?_⟩
  · exact amount_of_bridge (hi.1) (he.1) hf
  · exact amount_of_bridge (hi.2.1) (he.2.1) hf
  · exact amount_of_bridge (hi.2.2.1) (he.2.2.1) hf
  · exact amount_of_bridge (hi.2.2.2.1) (he.2.2.2.1) hf
  · exact amount_of_bridge (hi.2.2.2.2.1) (he.2.2.2.2.1) hf
  · exact amount_of_bridge (hi.2.2.2.2.2.1) (he.2.2.2.2.2.1) hf
  · exact amount_of_bridge (hi.2.2.2.2.2.2.1) (he.2.2.2.2.2.2.1) hf
  · exact amount_of_bridge (hi.2.2.2.2.2.2.2.1) (he.2.2.2.2.2.2.2.1) hf
  · exact amount_of_bridge (hi.2.2.2.2.2.2.2.2.1) (he.2.2.2.2.2.2.2.2.1) hf
  · exact amount_of_bridge (hi.2.2.2.2.2.2.2.2.2.1) (he.2.2.2.2.2.2.2.2.2.1) hf
  · exact amount_of_bridge (hi.2.2.2.2.2.2.2.2.2.2.1) (he.2.2.2.2.2.2.2.2.2.2.1) hf
  · exact amount_of_bridge (hi.2.2.2.2.2.2.2.2.2.2.2.1) (he.2.2.2.2.2.2.2.2.2.2.2.1) hf
  · exact amount_of_bridge (hi.2.2.2.2.2.2.2.2.2.2.2.2) (he.2.2.2.2.2.2.2.2.2.2.2.2.1) hf

/-- NO + NO₂ + HONO = NOx and SO₂ + SO₄ = SOx for the APU indices of the source text -/
theorem src_apu_splits (f : Fuel ℝ) (so2 so4 t : ℝ) (a : ApuIn ℝ) (h2 h4 : Bool) :
    Kern.apu_index_NO (apuEnv f so2 so4 a) t h2 h4 + Kern.apu_index_NO2 (apuEnv f so2 so4 a) t h2 h4
      + Kern.apu_index_HONO (apuEnv f so2 so4 a) t h2 h4 = Kern.apu_index_NOx (apuEnv f so2 so4 a) t h2 h4 ∧
    Kern.apu_index_SO2 (apuEnv f so2 so4 a) t h2 h4 + Kern.apu_index_SO4 (apuEnv f so2 so4 a) t h2 h4
      = Kern.apu_index_SOx (apuEnv f so2 so4 a) t h2 h4 := by
  have hi := apu_indices (⟨false, true, true, true, .bffm2, true, true, true, .none, true, true, false⟩ : Cfg) f so2 so4 t a h2 h4
  obtain ⟨i1, i2, i3, _, _, i6, i7, i8, i9, _⟩ := hi
  simp only [apuIdx, Option.some.injEq] at i1 i2 i3 i6 i7 i8 i9
  rw [i1, i2, i3, i6, i7, i8, i9]
  have s1 := spec_sum_one .takeoff
  simp only [TM.get] at s1
  constructor
  · rw [← mul_add, ← mul_add, s1, mul_one]
  · exact i3.symm ▸ rfl

/-! ## Source tie for the assembly itself: the *vector* kernels regenerated from `emissions/emission.py` and
    `emissions/trajectory.py` (`Aeic.Kern.segment_fuel_burn`, `traj_emissions`, `traj_indices`, `traj_fuel_burn`,
    `traj_window_lo/hi`, `species_total`, `lifecycle_co2`) — statements about the source text for trajectories of EVERY length,
    every window, every index array. -/

/-- every per-segment amount the source returns equals its (returned) emission index times the fuel burned in that segment —
    inside the emission window and outside it (where both are zero) -/
theorem src_segment_eq_index_times_burn (idx fb : List ℝ) (lo hi : Nat) (hl : idx.length = fb.length) :
    Kern.traj_emissions idx fb lo hi = mulList (Kern.traj_indices idx fb lo hi) fb := by
  obtain ⟨h1, h2, _⟩ := KernelBridge5.traj_window idx fb lo hi
  rw [h1, h2, window_mulList]

/-- the fuel the trajectory part reports is the sum of the per-segment burns inside the window, and the amounts sum to
    Σ index × burn over the same window -/
theorem src_window_sums (idx fb : List ℝ) (lo hi : Nat) :
    Kern.traj_fuel_burn idx fb lo hi = (pySlice lo hi fb).sum ∧
    (Kern.traj_emissions idx fb lo hi).sum = (pySlice lo hi (mulList idx fb)).sum := by
  obtain ⟨h1, _, h3⟩ := KernelBridge5.traj_window idx fb lo hi
  exact ⟨by rw [h3, suml_eq_sum], by rw [h1, sum_window]⟩

/-- the per-segment fuel burn of the source telescopes: its sum is the first fuel mass minus the last one, so every kilogram of
    trajectory fuel is counted exactly once (whatever the number of points) -/
theorem src_segment_burn_telescopes (AV : String → List ℝ) :
    (Kern.segment_fuel_burn AV).sum = (AV "traj.fuel_mass").headD 0 - lastD (AV "traj.fuel_mass") 0 ∧
    (Kern.segment_fuel_burn AV).length = (AV "traj.fuel_mass").length := by
  rw [KernelBridge5.segment_fuel_burn]; exact ⟨fuelBurn_sum _, fuelBurn_length _⟩

/-- in trajectory accounting mode the window of the source is the whole flight; in LTO mode it is what lies between the climb
    and the descent points -/
theorem src_window_bounds (n nc nd : Nat) :
    Kern.traj_window_lo n nc nd false = 0 ∧ Kern.traj_window_hi n nc nd false = n ∧
    Kern.traj_window_lo n nc nd true = nc ∧ Kern.traj_window_hi n nc nd true = n - nd := by
  simp [Kern.traj_window_lo, Kern.traj_window_hi]

/-- the total the source reports for a species is the sum of the parts that are present and enabled — trajectory amounts, LTO
    amounts, APU and GSE amounts — and nothing else -/
theorem src_total_eq_sum_of_parts (tv : List ℝ) (lto apu gse : ℝ) (bt bl ea ba eg bg : Bool) :
    Kern.species_total tv lto apu gse bt bl ea ba eg bg =
      (if bt then tv.sum else 0) + (if bl then lto else 0) + (if ea && ba then apu else 0) + (if eg && bg then gse else 0) := by
  simp only [Kern.species_total, KernelBridge5.vsum_eq, lit_real]
  cases bt <;> cases bl <;> cases ea <;> cases ba <;> cases eg <;> cases bg <;> simp

/-- … and these source-level pieces ARE the model's (`fuelBurn`, `window`, `sumTotal`, `lifecycleAdj`), so the balance theorems
    above, proved about `assemble`, speak about the source text -/
theorem src_assembly_is_model (c : Cfg) (traj : SV (List ℝ)) (lto : SV (TM ℝ)) (apu gse : SV ℝ) (s : Sp) (idx fb : List ℝ)
    (lo hi : Nat) (AV : String → List ℝ) (f : Fuel ℝ) (lc : ℝ) :
    Kern.segment_fuel_burn AV = fuelBurn (AV "traj.fuel_mass") ∧
    Kern.traj_emissions idx fb lo hi = window lo hi (mulList idx fb) ∧
    Kern.traj_indices idx fb lo hi = window lo hi idx ∧
    Kern.traj_fuel_burn idx fb lo hi = suml (pySlice lo hi fb) ∧
    some (Kern.species_total ((traj s).getD []) (((lto s).map TM.sum).getD 0) ((apu s).getD 0) ((gse s).getD 0)
      (traj s).isSome (lto s).isSome c.apu (apu s).isSome c.gse (gse s).isSome) = sumTotal c traj lto apu gse s ∧
    Kern.lifecycle_co2 (KernelBridge5.lcEnv f lc) AV = lifecycleAdj f (AV "traj.fuel_mass") lc :=
  ⟨KernelBridge5.segment_fuel_burn AV, (KernelBridge5.traj_window idx fb lo hi).1, (KernelBridge5.traj_window idx fb lo hi).2.1,
   (KernelBridge5.traj_window idx fb lo hi).2.2, KernelBridge5.species_total c traj lto apu gse s, KernelBridge5.lifecycle f lc AV⟩

/-- worked instance: four points, window [1, 3): amounts outside the window are zero, inside they are index × burn -/
example : Kern.traj_emissions [2, 3, 5, 7] [0, 10, 20, 30] 1 3 = ([0, 30, 100, 0] : List ℝ) := by
  simp [Kern.traj_emissions, Vec.zeroPrefix, Vec.zeroFrom, lit_real]; norm_num

/-! ## Source tie for the LTO part: `get_LTO_emissions` of `emissions/lto.py` regenerated (`Aeic.Kern.lto_*`: `ThrustModeValues`
    arithmetic read mode by mode, the two loops over the species of `lto_indices` read for one generic species) -/

/-- every LTO amount of the source is its (returned) index times the (returned) LTO fuel of that thrust mode — in both accounting
    modes, for every index vector and every performance model -/
theorem src_lto_amount_eq_index_times_fuel (A : String → ℝ) (i a c t : ℝ) (b : Bool) :
    Kern.lto_emission_IDLE A i a c t b = Kern.lto_index_IDLE i a c t b * Kern.lto_fuel_IDLE A i a c t b ∧
    Kern.lto_emission_APPROACH A i a c t b = Kern.lto_index_APPROACH i a c t b * Kern.lto_fuel_APPROACH A i a c t b ∧
    Kern.lto_emission_CLIMB A i a c t b = Kern.lto_index_CLIMB i a c t b * Kern.lto_fuel_CLIMB A i a c t b ∧
    Kern.lto_emission_TAKEOFF A i a c t b = Kern.lto_index_TAKEOFF i a c t b * Kern.lto_fuel_TAKEOFF A i a c t b := by
  refine ⟨?_, ?_, ?_, ?_⟩ <;>
    (simp only [Kern.lto_emission_IDLE, Kern.lto_emission_APPROACH, Kern.lto_emission_CLIMB, Kern.lto_emission_TAKEOFF,
      Kern.lto_index_IDLE, Kern.lto_index_APPROACH, Kern.lto_index_CLIMB, Kern.lto_index_TAKEOFF, Kern.lto_fuel_IDLE,
      Kern.lto_fuel_APPROACH, Kern.lto_fuel_CLIMB, Kern.lto_fuel_TAKEOFF]; try ring)

/-- in the trajectory accounting mode the source zeroes the approach and climb-out modes (index, fuel and amount: those kilograms
    are counted by the trajectory), and leaves idle and take-off alone; in the LTO mode every index is what went in -/
theorem src_lto_mode_zeroing (A : String → ℝ) (i a c t : ℝ) :
    (Kern.lto_index_APPROACH i a c t true = 0 ∧ Kern.lto_index_CLIMB i a c t true = 0 ∧
     Kern.lto_fuel_APPROACH A i a c t true = 0 ∧ Kern.lto_fuel_CLIMB A i a c t true = 0 ∧
     Kern.lto_emission_APPROACH A i a c t true = 0 ∧ Kern.lto_emission_CLIMB A i a c t true = 0 ∧
     Kern.lto_index_IDLE i a c t true = i ∧ Kern.lto_index_TAKEOFF i a c t true = t) ∧
    (Kern.lto_index_IDLE i a c t false = i ∧ Kern.lto_index_APPROACH i a c t false = a ∧
     Kern.lto_index_CLIMB i a c t false = c ∧ Kern.lto_index_TAKEOFF i a c t false = t) := by
  simp [Kern.lto_index_APPROACH, Kern.lto_index_CLIMB, Kern.lto_fuel_APPROACH, Kern.lto_fuel_CLIMB, Kern.lto_emission_APPROACH,
    Kern.lto_emission_CLIMB, Kern.lto_index_IDLE, Kern.lto_index_TAKEOFF]

/-- the LTO fuel burn the source reports is the sum of the four mode fuels it returns, and each mode fuel is the ICAO time in mode
    (26, 4, 2.2, 0.7 minutes) times the fuel flow of that mode (or zero, see above) -/
theorem src_lto_fuel_burn_is_sum (A : String → ℝ) (i a c t : ℝ) (b : Bool) :
    Kern.lto_fuel_burn A i a c t b = Kern.lto_fuel_IDLE A i a c t b + Kern.lto_fuel_APPROACH A i a c t b +
      Kern.lto_fuel_CLIMB A i a c t b + Kern.lto_fuel_TAKEOFF A i a c t b ∧
    Kern.lto_fuel_IDLE A i a c t b = 1560 * A "lto_data.fuel_flow[ThrustMode.IDLE]" ∧
    Kern.lto_fuel_TAKEOFF A i a c t b = 42 * A "lto_data.fuel_flow[ThrustMode.TAKEOFF]" := by
  have hm : (Gen.MINUTES_TO_SECONDS : ℝ) = 60 := by simp [Gen.MINUTES_TO_SECONDS]
  refine ⟨?_, ?_, ?_⟩ <;>
    simp only [Kern.lto_fuel_burn, Kern.lto_fuel_IDLE, Kern.lto_fuel_APPROACH, Kern.lto_fuel_CLIMB, Kern.lto_fuel_TAKEOFF, hm,
      lit_real] <;> (first | (norm_num; done) | (ring_nf; done) | (norm_num; ring_nf; done))

/-- … and the LTO part of the source IS the model's (`modeZero`, `ltoFuel`, their mode-wise product, `TM.sum`) -/
theorem src_lto_is_model (c : Cfg) (l : LtoIn ℝ) (ei : TM ℝ) :
    (⟨Kern.lto_emission_IDLE (KernelBridge5.ltoEnv l) ei.idle ei.approach ei.climb ei.takeoff (!c.ltoMode),
      Kern.lto_emission_APPROACH (KernelBridge5.ltoEnv l) ei.idle ei.approach ei.climb ei.takeoff (!c.ltoMode),
      Kern.lto_emission_CLIMB (KernelBridge5.ltoEnv l) ei.idle ei.approach ei.climb ei.takeoff (!c.ltoMode),
      Kern.lto_emission_TAKEOFF (KernelBridge5.ltoEnv l) ei.idle ei.approach ei.climb ei.takeoff (!c.ltoMode)⟩ : TM ℝ)
        = TM.mul (modeZero c ei) (ltoFuel c l) ∧
    Kern.lto_fuel_burn (KernelBridge5.ltoEnv l) ei.idle ei.approach ei.climb ei.takeoff (!c.ltoMode) = (ltoFuel c l).sum :=
  ⟨(KernelBridge5.lto_part c l ei).2.2.1, (KernelBridge5.lto_part c l ei).2.2.2⟩

end C01
