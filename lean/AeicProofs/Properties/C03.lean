/-
  C03 — what is stored in a trajectory store is what is read back.

  Model: `AeicModel/StoreCodec.lean` (code after the `fix:` commits of branch b-c03).
  All theorems are for every value type `ν` with decidable equality, every field-set definition
  (list of `FieldMeta`: any of the six shapes, required / optional, any fill value), every species
  list of the file, every trajectory length, every number of trajectories and every file layout.
-/
import AeicProofs.Lemmas.C03Codec

namespace C03
open Aeic.StoreCodec List

section codec
variable {ν : Type} [DecidableEq ν]

/-! ### one field -/

/-- **Field round trip.** A value that fits its field is accepted by the writer, and what the reader
    rebuilds from the written cells is the value: scalars, per-point arrays, unset optional fields
    (`None`), thrust-mode values, and species-indexed values with exactly the species that were
    present — for every shape, fill value, species list `L` of the file (no duplicates) and point count. -/
theorem decode_encode_field (n : Nat) (L : List Nat) (hL : L.Nodup) (m : FieldMeta ν) (v : FVal ν)
    (h : fitsField n L m v = true) :
    ∃ c, encodeField L m v = .ok c ∧ decodeField L m c = v := by
  obtain ⟨shape, req, blank, um⟩ := m
  cases shape <;> rcases v with (_ | x) | (_ | xs) | (_ | xs) | (_ | mp) | (_ | mp) | (_ | mp) <;>
    simp only [fitsField, Bool.and_eq_true, Bool.not_eq_true', decide_eq_true_eq, beq_iff_eq,
      Bool.false_eq_true, List.isSublist_iff_sublist, List.all_eq_true] at h
  -- T, None
  · obtain ⟨hr, hb⟩ := h
    subst hr
    exact ⟨.one blank, by simp [encodeField], by simp [decodeField, isUnset, hb]⟩
  -- T, value
  · exact ⟨.one x, by simp [encodeField], by simp [decodeField, h]⟩
  -- TP, None
  · subst h
    exact ⟨.vl [], by simp [encodeField], by simp [decodeField, allUnset]⟩
  -- TP, array (an empty array only in a required field: the data of a trajectory without points)
  · refine ⟨.vl xs, by simp [encodeField], ?_⟩
    obtain ⟨_, h2⟩ := h
    by_cases he : xs.isEmpty = true
    · simp only [he, if_true] at h2
      simp [decodeField, he, h2]
    · have he' : xs.isEmpty = false := by simpa using he
      simp only [he', Bool.false_eq_true, if_false, Bool.not_eq_true'] at h2
      simp [decodeField, he', h2]
  -- TM, None
  · obtain ⟨hr, hb⟩ := h
    subst hr
    refine ⟨.row (List.replicate nThrustModes blank), by simp [encodeField], ?_⟩
    have := allUnset_replicate (ν := ν) ⟨.TM, false, blank, um⟩ hb nThrustModes
    simp only at this
    simp [decodeField, this]
  -- TM, values
  · exact ⟨.row xs, by simp [encodeField], by simp [decodeField, h.2]⟩
  -- TS
  · obtain ⟨⟨hsub, hb⟩, hv⟩ := h
    refine ⟨.row (spRow L blank mp), ?_, ?_⟩
    · simp [encodeField]; exact fun x hx => hsub.subset hx
    · have := filter_zip_spRow (fun c => !isUnset (ν := ν) ⟨.TS, req, blank, um⟩ c) blank
        (by simp [isUnset, hb]) L mp hL hsub (by
          intro p hp; simpa using hv p hp)
      simp only [decodeField]
      rw [this]
  -- TSP
  · obtain ⟨hsub, hv⟩ := h
    refine ⟨.vlRow (spRow L [] mp), ?_, ?_⟩
    · simp [encodeField]; exact fun x hx => hsub.subset hx
    · have := filter_zip_spRow (fun c => !allUnset (ν := ν) ⟨.TSP, req, blank, um⟩ c) []
        (by simp [allUnset]) L mp hL hsub (by
          intro p hp; simpa using (hv p hp).2)
      simp only [decodeField]
      rw [this]
  -- TSM
  · obtain ⟨⟨hsub, hb⟩, hv⟩ := h
    refine ⟨.grid (spRow L (List.replicate nThrustModes blank) mp), ?_, ?_⟩
    · simp [encodeField]; exact fun x hx => hsub.subset hx
    · have hrep := allUnset_replicate (ν := ν) ⟨.TSM, req, blank, um⟩ hb nThrustModes
      simp only at hrep
      have := filter_zip_spRow (fun c => !allUnset (ν := ν) ⟨.TSM, req, blank, um⟩ c)
        (List.replicate nThrustModes blank) (by simp [hrep]) L mp hL hsub (by
          intro p hp; simpa using (hv p hp).2)
      simp only [decodeField]
      rw [this]

/-- a value that fits a *required* field is not `None`, so `convert_in` accepts it on load -/
theorem convertIn_of_fits (n : Nat) (L : List Nat) (m : FieldMeta ν) (v : FVal ν)
    (h : fitsField n L m v = true) : convertIn m v = .ok v := by
  obtain ⟨shape, req, blank, um⟩ := m
  cases shape <;> rcases v with (_ | x) | (_ | xs) | (_ | xs) | (_ | mp) | (_ | mp) | (_ | mp) <;>
    simp_all [fitsField, convertIn, isNoneVal]

/-! ### one trajectory in one file -/

/-- **Row round trip**: every field of every field set of the file, in one go (`_write_data` then
    `_load_trajectory`): accepted, and loaded back equal, field for field. -/
theorem load_encode_row (n : Nat) (L : List Nat) (hL : L.Nodup) :
    ∀ (metas : List (FieldMeta ν)) (vals : List (FVal ν)), fitsRow n L metas vals = true →
      ∃ cells, encodeRow L metas vals = .ok cells ∧ loadRow L metas cells = .ok vals
        ∧ decodeRow L metas cells = vals ∧ cells.length = metas.length := by
  intro metas
  induction metas with
  | nil =>
    intro vals h
    cases vals with
    | nil => exact ⟨[], rfl, rfl, rfl, rfl⟩
    | cons _ _ => simp [fitsRow] at h
  | cons m ms ih =>
    intro vals h
    cases vals with
    | nil => simp [fitsRow] at h
    | cons v vs =>
      simp only [fitsRow, Bool.and_eq_true] at h
      obtain ⟨c, hc, hd⟩ := decode_encode_field n L hL m v h.1
      obtain ⟨cs, hcs, hl, hds, hlen⟩ := ih vs h.2
      refine ⟨c :: cs, ?_, ?_, ?_, ?_⟩
      · simp [encodeRow, hc, hcs]
      · simp [loadRow, hd, convertIn_of_fits n L m v h.1, hl]
      · simp [decodeRow, hd, hds]
      · simp [hlen]

/-! ### a file over its whole life: any number of adds, closing and reopening, appending -/

/-- `add` of a fitting trajectory succeeds, keeps species list and field definitions, and appends
    exactly one row. -/
theorem add_ok (n : Nat) (f : File ν) (hL : f.species.Nodup) (t : List (FVal ν))
    (h : fitsRow n f.species f.metas t = true) :
    ∃ r, f.add t = .ok { f with rows := f.rows ++ [r] } ∧ loadRow f.species f.metas r = .ok t := by
  obtain ⟨r, hr, hl, -, -⟩ := load_encode_row n f.species hL f.metas t h
  exact ⟨r, by simp [File.add, hr], hl⟩

/-- **Store round trip, any history.** Start from *any* existing file `f` (freshly created, or
    reopened for appending with earlier rows in it). Add any list of trajectories, each fitting the
    file (possibly with different point counts `ns[i]`). Then every add is accepted, trajectory `i`
    of the batch reads back equal at index `|f.rows| + i`, and every earlier index reads what it
    read before. -/
theorem get_addAll (f : File ν) (hL : f.species.Nodup) :
    ∀ (ts : List (List (FVal ν))) (ns : List Nat), ns.length = ts.length →
      (∀ i (hi : i < ts.length), fitsRow (ns.getD i 0) f.species f.metas ts[i] = true) →
      ∃ f', f.addAll ts = .ok f' ∧ f'.species = f.species ∧ f'.metas = f.metas
        ∧ f'.rows.length = f.rows.length + ts.length
        ∧ (∀ i (hi : i < ts.length), f'.get (f.rows.length + i) = .ok ts[i])
        ∧ (∀ j, j < f.rows.length → f'.get j = f.get j) := by
  intro ts
  induction ts generalizing f with
  | nil =>
    intro ns _ _
    exact ⟨f, rfl, rfl, rfl, by simp, by intro i hi; simp at hi, fun _ _ => rfl⟩
  | cons t ts ih =>
    intro ns hlen hfit
    cases ns with
    | nil => simp at hlen
    | cons n ns =>
      have h0 := hfit 0 (by simp)
      simp only [List.getD_cons_zero, List.getElem_cons_zero] at h0
      obtain ⟨r, hadd, hload⟩ := add_ok n f hL t h0
      let f1 : File ν := { f with rows := f.rows ++ [r] }
      have hfit' : ∀ i (hi : i < ts.length), fitsRow (ns.getD i 0) f1.species f1.metas ts[i] = true := by
        intro i hi
        have := hfit (i + 1) (by simp; omega)
        simpa using this
      obtain ⟨f', hall, hsp, hme, hrows, hget, hold⟩ := ih f1 hL ns (by simpa using hlen) hfit'
      refine ⟨f', ?_, hsp, hme, ?_, ?_, ?_⟩
      · simp only [File.addAll, hadd]; exact hall
      · rw [hrows]; simp [f1]; omega
      · intro i hi
        cases i with
        | zero =>
          have := hold f.rows.length (by simp [f1])
          rw [Nat.add_zero, this]
          simp [File.get, f1, hload]
        | succ i =>
          have := hget i (by simpa using hi)
          have hidx : f.rows.length + (i + 1) = f1.rows.length + i := by simp [f1]; omega
          rw [hidx, this]; simp
      · intro j hj
        have := hold j (by simp [f1]; omega)
        rw [this]
        simp [File.get, f1, List.getElem?_append_left hj]

/-- Positions in the regenerated `Species` order survive the species coordinate variable
    (names written by `_create_dimensions`, parsed back by `_retrieve_nc_species_values`):
    the slot ↦ species assignment is injective on the enum that the source defines *now*. -/
theorem species_slot_injective : ∀ s, s < nSpecies → parseSpecies (speciesName s) = s := by
  decide

omit [DecidableEq ν] in
/-- **Closing and reopening is the identity** on a file whose species are members of the enum. -/
theorem reopen_id (f : File ν) (h : ∀ s ∈ f.species, s < nSpecies) : f.persist.reopen = f := by
  obtain ⟨sp, me, rows⟩ := f
  simp only [File.persist, Disk.reopen, List.map_map, File.mk.injEq, and_true]
  have : ∀ s ∈ sp, (parseSpecies ∘ speciesName) s = id s := fun s hs => species_slot_injective s (h s hs)
  rw [List.map_congr_left this, List.map_id]

/-- **Close, reopen for appending, add more, close, reopen, read**: all of it is `get_addAll` on the
    reopened file, which is the file. -/
theorem get_addAll_after_reopen (f : File ν) (hL : f.species.Nodup) (hs : ∀ s ∈ f.species, s < nSpecies)
    (ts : List (List (FVal ν))) (ns : List Nat) (hn : ns.length = ts.length)
    (hfit : ∀ i (hi : i < ts.length), fitsRow (ns.getD i 0) f.species f.metas ts[i] = true) :
    ∃ f', f.persist.reopen.addAll ts = .ok f'
      ∧ (∀ i (hi : i < ts.length), f'.persist.reopen.get (f.rows.length + i) = .ok ts[i])
      ∧ (∀ j, j < f.rows.length → f'.persist.reopen.get j = f.get j) := by
  rw [reopen_id f hs]
  obtain ⟨f', h, hsp, -, -, hget, hold⟩ := get_addAll f hL ts ns hn hfit
  refine ⟨f', h, ?_, ?_⟩ <;> rw [reopen_id f' (by rw [hsp]; exact hs)]
  · exact hget
  · exact hold

/-! ### layouts: base + associated files, mapped files -/

/-- **Layout independence.** Split the field sets (and the trajectory's values accordingly) over any
    number of files, each with its own species list; if every part fits its file, the whole trajectory
    is accepted and index `|rows|` of every file reads the part stored there — so the concatenation
    over the files is the trajectory, whatever the split. All files must hold the same number of rows
    (`k`), as they do in a store. -/
theorem store_add_get (k : Nat) :
    ∀ (st : Store ν) (parts : List (List (FVal ν))) (ns : List Nat), ns.length = st.length →
      parts.length = st.length →
      (∀ i (hi : i < st.length), (st[i]).species.Nodup ∧ (st[i]).rows.length = k
          ∧ fitsRow (ns.getD i 0) (st[i]).species (st[i]).metas (parts.getD i []) = true) →
      ∃ st', Store.add st parts = .ok st' ∧ Store.get st' k = .ok parts := by
  intro st
  induction st with
  | nil =>
    intro parts ns _ hp _
    have : parts = [] := by simpa using hp
    subst this
    exact ⟨[], rfl, rfl⟩
  | cons f fs ih =>
    intro parts ns hn hp h
    cases parts with
    | nil => simp at hp
    | cons t ts =>
      cases ns with
      | nil => simp at hn
      | cons n ns =>
        obtain ⟨hL, hk, hfit⟩ := h 0 (by simp)
        simp only [List.getElem_cons_zero, List.getD_cons_zero] at hL hk hfit
        subst hk
        obtain ⟨r, hadd, hload⟩ := add_ok n f hL t hfit
        obtain ⟨st', hst, hget⟩ := ih ts ns (by simpa using hn) (by simpa using hp) (by
          intro i hi
          have := h (i + 1) (by simp; omega)
          simpa using this)
        refine ⟨{ f with rows := f.rows ++ [r] } :: st', by simp [Store.add, hadd, hst], ?_⟩
        simp [Store.get, File.get, hload, hget]

/-- Same statement seen from the user: two layouts of the same trajectory read back to the same
    flattened trajectory (the one that was added). -/
theorem layout_independent (k : Nat) (st₁ st₂ : Store ν) (p₁ p₂ : List (List (FVal ν)))
    (ns₁ ns₂ : List Nat) (hsame : p₁.flatten = p₂.flatten)
    (h₁ : ns₁.length = st₁.length ∧ p₁.length = st₁.length ∧
      ∀ i (hi : i < st₁.length), (st₁[i]).species.Nodup ∧ (st₁[i]).rows.length = k
        ∧ fitsRow (ns₁.getD i 0) (st₁[i]).species (st₁[i]).metas (p₁.getD i []) = true)
    (h₂ : ns₂.length = st₂.length ∧ p₂.length = st₂.length ∧
      ∀ i (hi : i < st₂.length), (st₂[i]).species.Nodup ∧ (st₂[i]).rows.length = k
        ∧ fitsRow (ns₂.getD i 0) (st₂[i]).species (st₂[i]).metas (p₂.getD i []) = true) :
    ∃ s₁ s₂ r₁ r₂, Store.add st₁ p₁ = .ok s₁ ∧ Store.add st₂ p₂ = .ok s₂
      ∧ Store.get s₁ k = .ok r₁ ∧ Store.get s₂ k = .ok r₂ ∧ r₁.flatten = r₂.flatten := by
  obtain ⟨s₁, ha₁, hg₁⟩ := store_add_get k st₁ p₁ ns₁ h₁.1 h₁.2.1 h₁.2.2
  obtain ⟨s₂, ha₂, hg₂⟩ := store_add_get k st₂ p₂ ns₂ h₂.1 h₂.2.1 h₂.2.2
  exact ⟨s₁, s₂, p₁, p₂, ha₁, ha₂, hg₁, hg₂, hsame⟩

/-- **Mapping a function over a store** (`create_associated`): the new file's row `i` reads back as
    the `i`-th result of the mapping function, for any results that fit the new file. -/
theorem mapped_get (L : List Nat) (hL : L.Nodup) (metas : List (FieldMeta ν))
    (results : List (List (FVal ν))) (ns : List Nat) (hn : ns.length = results.length)
    (hfit : ∀ i (hi : i < results.length), fitsRow (ns.getD i 0) L metas results[i] = true) :
    ∃ f, File.mapped L metas results = .ok f ∧ f.species = L
      ∧ ∀ i (hi : i < results.length), f.get i = .ok results[i] := by
  obtain ⟨f, hf, hsp, -, -, hget, -⟩ :=
    get_addAll (ν := ν) { species := L, metas := metas, rows := [] } hL results ns hn hfit
  exact ⟨f, hf, hsp, fun i hi => by simpa using hget i hi⟩

/-! ### the species list the code chooses makes the first trajectory fit -/

omit [DecidableEq ν] in
/-- the list chosen by `Container.species` / `create_associated` is strictly increasing (hence without
    duplicates) and inside the enum -/
theorem speciesOf_sorted (noneOk : Bool) (metas : List (FieldMeta ν)) (vals : List (FVal ν)) (L : List Nat)
    (h : speciesOf noneOk metas vals = .ok L) : L.Pairwise (· < ·) ∧ L.Nodup ∧ ∀ s ∈ L, s < nSpecies := by
  simp only [speciesOf] at h
  split at h
  · cases h
  · injection h with h
    subst h
    have hs : ∀ p : Nat → Bool, ((List.range nSpecies).filter p).Pairwise (· < ·) :=
      fun p => List.Pairwise.filter _ (List.pairwise_lt_range)
    refine ⟨hs _, ?_, ?_⟩
    · exact (hs _).imp (fun h => Nat.ne_of_lt h)
    · intro s hs'
      exact List.mem_range.mp (List.mem_filter.mp hs').1

omit [DecidableEq ν] in
/-- every species-indexed value of the trajectory from which the species list was taken has its
    species inside the list, *in list order* — the species part of `fits` holds automatically for the
    first trajectory (values with strictly increasing species inside the enum: a finite mapping). -/
theorem keys_sublist_speciesOf (noneOk : Bool) (metas : List (FieldMeta ν)) (vals : List (FVal ν))
    (L : List Nat) (h : speciesOf noneOk metas vals = .ok L)
    (m : FieldMeta ν) (v : FVal ν) (hmem : (m, v) ∈ metas.zip vals) (hshape : isSpeciesShape m.shape = true)
    (ks : List Nat) (hks : speciesKeys v = some ks) (hsorted : ks.Pairwise (· < ·))
    (hin : ∀ s ∈ ks, s < nSpecies) : ks.Sublist L := by
  obtain ⟨hLs, -, -⟩ := speciesOf_sorted noneOk metas vals L h
  have hsub : ks ⊆ L := by
    intro s hs
    simp only [speciesOf] at h
    split at h
    · cases h
    · injection h with h
      subst h
      refine List.mem_filter.mpr ⟨List.mem_range.mpr (hin s hs), ?_⟩
      simp only [List.any_eq_true]
      exact ⟨(m, v), List.mem_filter.mpr ⟨hmem, hshape⟩, by simp [hks, hs]⟩
  have hnd : ks.Nodup := hsorted.imp (fun h => Nat.ne_of_lt h)
  exact List.sublist_of_subperm_of_pairwise (List.subperm_of_subset hnd hsub) hsorted hLs

/-! ### point count of a loaded trajectory -/

/-- whatever point field the loader meets first, it yields the trajectory's point count -/
theorem inferNpoints_of_fits (n : Nat) (L : List Nat) :
    ∀ (metas : List (FieldMeta ν)) (vals : List (FVal ν)), fitsRow n L metas vals = true →
      ∀ k, inferNpoints vals = some k → k = n := by
  intro metas
  induction metas with
  | nil =>
    intro vals h k hk
    cases vals with
    | nil => simp [inferNpoints] at hk
    | cons _ _ => simp [fitsRow] at h
  | cons m ms ih =>
    intro vals h k hk
    cases vals with
    | nil => simp [fitsRow] at h
    | cons v vs =>
      simp only [fitsRow, Bool.and_eq_true] at h
      simp only [inferNpoints] at hk
      cases hp : pointsOfField v with
      | none => rw [hp] at hk; exact ih vs h.2 k hk
      | some n' =>
        rw [hp] at hk
        injection hk with hk
        subst hk
        obtain ⟨shape, req, blank, um⟩ := m
        have h1 := h.1
        cases shape <;> rcases v with (_ | x) | (_ | xs) | (_ | xs) | (_ | mp) | (_ | mp) | (_ | mp) <;>
          simp_all [fitsField, pointsOfField]
        -- TSP with a first species
        rcases mp with _ | ⟨⟨s, xs⟩, mp⟩
        · simp at hp
        · simp only [Option.some.injEq] at hp
          have := h1 s xs (by simp)
          omega

omit [DecidableEq ν] in
/-- and a field with data exists as soon as one per-point array is set (the base field set has
    fourteen required ones) -/
theorem inferNpoints_isSome (vals : List (FVal ν)) (h : ∃ v ∈ vals, (pointsOfField v).isSome) :
    (inferNpoints vals).isSome := by
  induction vals with
  | nil => simp at h
  | cons v vs ih =>
    simp only [inferNpoints]
    cases hp : pointsOfField v with
    | some n => simp
    | none =>
      obtain ⟨w, hw, hws⟩ := h
      rcases List.mem_cons.mp hw with rfl | hw
      · simp [hp] at hws
      · exact ih ⟨w, hw, hws⟩


/-! ### trajectories without points (repaired: `fix: a trajectory without points reads back from a NetCDF store`) -/

/-- the reader as found: the (empty) per-point data of a trajectory without points read as "unset" — in every field,
    whatever the fill value — so no field gave the point count and the load failed -/
theorem zero_points_read_unset_pre_fix (m : FieldMeta ν) : decodePointsPreZeroFix m [] = .points none := by
  simp [decodePointsPreZeroFix, allUnset]

/-- repaired reader: a required per-point field of a zero-point trajectory round-trips, and gives the point count 0 -/
theorem zero_points_round_trip (L : List Nat) (hL : L.Nodup) (blank : ν) (um : Option ν) :
    (∃ c, encodeField L ⟨.TP, true, blank, um⟩ (.points (some [])) = .ok c ∧
      decodeField L ⟨.TP, true, blank, um⟩ c = .points (some [])) ∧
    inferNpoints [(.points (some []) : FVal ν)] = some 0 :=
  ⟨decode_encode_field 0 L hL _ _ (by simp [fitsField]), rfl⟩

/-- what the file format cannot express (outside `fits`): an *optional* per-point field holding an empty array reads back unset -/
theorem empty_optional_points_read_unset (L : List Nat) (blank : ν) (um : Option ν) :
    decodeField L ⟨.TP, false, blank, um⟩ (.vl []) = .points none := by
  simp [decodeField]

end codec

/-! ### digest checks -/

/-- A file written under definition `A` of a field set is refused when the registry holds a
    definition with a different digest text — given the hash is injective (MD5 as an oracle). -/
theorem digest_detects_mismatch (hash : String → String) (hinj : Function.Injective hash)
    (registry : String → Option String) (stored : List (String × String))
    (name txtA txtB : String) (hstored : (name, hash txtA) ∈ stored)
    (hreg : registry name = some txtB) (hne : txtB ≠ txtA) :
    openAccepts hash registry stored = false := by
  unfold openAccepts
  rw [Bool.eq_false_iff]
  intro hall
  have := (List.all_eq_true.mp hall) _ hstored
  simp only [hreg, decide_eq_true_eq] at this
  exact hne (hinj this)

/-- and is accepted when every stored hash is the hash of the registered definition -/
theorem digest_accepts_same (hash : String → String) (registry : String → Option String)
    (stored : List (String × String))
    (h : ∀ p ∈ stored, ∃ txt, registry p.1 = some txt ∧ hash txt = p.2) :
    openAccepts hash registry stored = true := by
  unfold openAccepts
  rw [List.all_eq_true]
  intro p hp
  obtain ⟨txt, h1, h2⟩ := h p hp
  simp [h1, h2]

/-- an associated file that records another base file's id hash is refused -/
theorem associated_detects_base_mismatch (hash : String → String) (hinj : Function.Injective hash)
    (baseHashes otherHashes : List String) (hne : String.join baseHashes ≠ String.join otherHashes) :
    associatedAccepts hash baseHashes (idHash hash otherHashes) = false := by
  unfold associatedAccepts idHash
  simp only [decide_eq_false_iff_not]
  exact fun h => hne (hinj h)

/-! ### non-vacuity: the hypotheses are satisfiable on a trajectory like the tests' `complex_extras` -/

example : fitsRow 2 [0, 2] exMetas exVals = true := by decide
example : speciesOf false exMetas exVals = .ok [0, 2] := by decide
example : ∃ cells, encodeRow [0, 2] exMetas exVals = .ok cells ∧ loadRow [0, 2] exMetas cells = .ok exVals :=
  let ⟨c, h1, h2, _, _⟩ := load_encode_row 2 [0, 2] (by decide) exMetas exVals (by decide)
  ⟨c, h1, h2⟩
example : ∃ f' : File String, File.addAll ⟨[0, 2], exMetas, []⟩ [exVals, exVals] = .ok f' ∧ f'.get 1 = .ok exVals := by
  obtain ⟨f', h, -, -, -, hg, -⟩ := get_addAll (ν := String) ⟨[0, 2], exMetas, []⟩ (by decide) [exVals, exVals] [2, 2] rfl
    (by intro i hi; have : i = 0 ∨ i = 1 := by simp at hi; omega
        rcases this with rfl | rfl
        · show fitsRow 2 [0, 2] exMetas exVals = true; decide
        · show fitsRow 2 [0, 2] exMetas exVals = true; decide)
  exact ⟨f', h, by simpa using hg 1 (by simp)⟩

/-! ### negation witnesses -/

/-- (fixed by b-c03 "write species-indexed values to the slot of the file's species list") the writer
    as it was: species {CO2, HC} — slot of HC in the full enum is 2, the dimension has 2 entries. -/
theorem slot_mismatch_as_is :
    AsIs.writeSp [0, 2] "F" [(0, "1.5"), (2, "2.5")] = .error "NetCDF: Index exceeds dimension bound" := by
  decide

/-- (same fix) a lone species that is not the first of the enum cannot be written at all -/
theorem single_species_as_is : AsIs.writeSp [1] "F" [(1, "7")] = .error "NetCDF: Index exceeds dimension bound" := by
  decide

/-- (fixed by "read back only the species that were written for a field") the reader as it was
    returns every species of the file: a field holding {CO2} in a file with {CO2, H2O} came back with
    H2O invented (fill value) -/
theorem read_invents_species_as_is :
    AsIs.readSp [0, 1] ["1.5", "F"] = [(0, "1.5"), (1, "F")] ∧
    decodeField [0, 1] exMetaS (.row ["1.5", "F"]) = .sp (some [(0, "1.5")]) := by
  decide

/-- (fixed by "read an unset optional thrust-mode field back as None") -/
theorem unset_tm_reads_fill_as_is :
    AsIs.readTm ["F", "F", "F", "F"] = some ["F", "F", "F", "F"] ∧
    decodeField ([] : List Nat) exMetaTM (.row ["F", "F", "F", "F"]) = .tm none := by
  decide

/-- OPEN finding C03-unset-optional-string-reads-empty: a `str` variable reports no fill value, the
    reader cannot recognise the never-written cell: `None` comes back as `""`. -/
theorem unset_string_reads_empty_as_is :
    (encodeField [] (⟨.T, false, "", none⟩ : FieldMeta String) (.scalar none)).map
        (decodeField [] ⟨.T, false, "", none⟩) = .ok (.scalar (some "")) := by
  decide

/-- …and with the intended reader (`""` recognised as unset) it comes back as `None` -/
theorem unset_string_intended :
    (encodeField [] (⟨.T, false, "", some ""⟩ : FieldMeta String) (.scalar none)).map
        (decodeField [] ⟨.T, false, "", some ""⟩) = .ok (.scalar none) := by
  decide

/-- OPEN finding C03-none-species-field-not-storable -/
theorem none_species_field_crashes_as_is :
    speciesOf false [(⟨.TS, false, "F", some "F"⟩ : FieldMeta String)] [.sp none] = .error .noneSpeciesField ∧
    speciesOf true [(⟨.TS, false, "F", some "F"⟩ : FieldMeta String)] [.sp none] = .ok [] ∧
    -- on a later trajectory nothing is written and the field reads back as the empty mapping
    (encodeField [0] (⟨.TS, false, "F", some "F"⟩ : FieldMeta String) (.sp none)).map
        (decodeField [0] ⟨.TS, false, "F", some "F"⟩) = .ok (.sp (some [])) := by
  decide

/-- OPEN finding C03-species-dimension-fixed-by-first-trajectory: first trajectory {CO2}, a later one
    {CO2, NOx}: refused (not in the species dimension); fits once the list is taken over all. -/
theorem later_species_refused_as_is :
    encodeField [0] exMetaS (.sp (some [(0, "1"), (4, "2")])) = .error .speciesNotInFile ∧
    fitsField 1 [0, 4] exMetaS (.sp (some [(0, "1"), (4, "2")])) = true := by
  decide

end C03
