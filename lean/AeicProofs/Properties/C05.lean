/-
  C05 — Gridded pieces land in the cells the path actually crosses.

  Model: `AeicModel/Grid.lean`. Theorems over ℝ, for every strictly increasing grid, every segment / trajectory;
  no bound on the number of grid lines, points or variables.  Cell convention of the code:
  `cellIdx g x = searchsorted(g, x) − 1`, i.e. cell `i` is `g[i] < x ≤ g[i+1]`.
-/
import AeicProofs.Lemmas.GridOnLine
import AeicProofs.Lemmas.GridTaxi
import AeicProofs.Lemmas.GridShape
import AeicProofs.Lemmas.KernelBridge8

namespace C05

open Aeic Aeic.Grid

/-- **Each piece lies in one cell, and it is the reported one.**  Position `k` of the output pairs the `k`-th
    latitude interval and latitude index with the `k`-th longitude interval and longitude index. Every point whose
    latitude is strictly inside the piece's latitude interval (or, on a segment along a parallel, equals the constant
    latitude) and likewise for longitude has exactly the reported (lat, lon) cell. -/
theorem piece_in_one_cell (glat glon : List ℝ) (hlat : glat.Pairwise (· < ·)) (hlon : glon.Pairwise (· < ·))
    (s : Seg ℝ) (q : ((ℝ × ℝ) × Int) × ((ℝ × ℝ) × Int))
    (hq : q ∈ ((pairs (chainLat glat glon s)).zip (latIdxs glat glon s)).zip
               ((pairs (chainLon glat glon s)).zip (lonIdxs glat glon s)))
    (x y : ℝ)
    (hx : StrictlyBetween q.1.1.1 q.1.1.2 x ∨ (s.lat1 = s.lat0 ∧ x = s.lat0))
    (hy : StrictlyBetween q.2.1.1 q.2.1.2 y ∨ (s.lon1 = s.lon0 ∧ y = s.lon0)) :
    cellIdx glat x = q.1.2 ∧ cellIdx glon y = q.2.2 := by
  have h1 := (List.of_mem_zip hq).1
  have h2 := (List.of_mem_zip hq).2
  constructor
  · rcases hx with hx | ⟨he, rfl⟩
    · exact lat_piece_in_one_cell glat glon hlat hlon s q.1 h1 x hx
    · exact (latIdxs_const glat glon s he q.1.2 (List.of_mem_zip h1).2).symm
  · rcases hy with hy | ⟨he, rfl⟩
    · exact lon_piece_in_one_cell glat glon hlat hlon s q.2 h2 y hy
    · exact (lonIdxs_const glat glon s he q.2.2 (List.of_mem_zip h2).2).symm

/-- The pieces are parts of the segment: every point of the chain (start, crossing points, end) lies on the
    segment's straight map line … -/
theorem pieces_on_segment (glat glon : List ℝ) (s : Seg ℝ) :
    ∀ p ∈ chain glat glon s, OnLine s p :=
  chain_on_line glat glon s

/-- … and they come **in path order**: latitudes and longitudes of the chain are monotone from the start point to
    the end point. -/
theorem pieces_in_path_order (glat glon : List ℝ) (hlat : glat.Pairwise (· < ·)) (hlon : glon.Pairwise (· < ·))
    (s : Seg ℝ) : Monotone' (chainLat glat glon s) ∧ Monotone' (chainLon glat glon s) :=
  ⟨chainLat_monotone glat glon hlat hlon s, chainLon_monotone glat glon hlat hlon s⟩

/-- The share given to a piece is the piece's length over the segment's length. -/
theorem share_eq_length_share (r : Rules) (d : ℝ → ℝ → ℝ → ℝ → ℝ) (glat glon : List ℝ) (s : Seg ℝ)
    (h : segDist d s ≠ 0) :
    segFractions r d glat glon s = (chainDists d (chain glat glon s)).map (fun ds => ds / segDist d s) := by
  unfold segFractions fractions
  have : nonzero (segDist d s) = true := (nonzero_real _).2 h
  simp [this]

/-- Under the exact additive measure the shares of a segment are non-negative and add up to one
    (so they are the shares of the segment's length lying in each piece). -/
theorem shares_sum_to_one (glat glon : List ℝ) (hlat : glat.Pairwise (· < ·)) (hlon : glon.Pairwise (· < ·))
    (s : Seg ℝ) : (segFractions Rules.repaired taxi glat glon s).sum = 1 := by
  by_cases h : segDist taxi s = 0
  · exact sum_segFractions_zero_fixed Rules.repaired rfl taxi glat glon s h
  · rw [sum_segFractions_of_ne _ taxi glat glon s h, taxi_chain_additive glat glon hlat hlon s, div_self h]

/-- A cell that is reported is entered: whenever a piece's latitude interval is non-degenerate, the latitude
    halfway along the piece has the reported latitude index (same for longitude). Cells not met by any piece's
    interior therefore only ever appear with zero-length pieces, i.e. receive nothing. -/
theorem reported_cell_is_entered (glat glon : List ℝ) (hlat : glat.Pairwise (· < ·))
    (hlon : glon.Pairwise (· < ·)) (s : Seg ℝ) (q : ((ℝ × ℝ) × Int) × ((ℝ × ℝ) × Int))
    (hq : q ∈ ((pairs (chainLat glat glon s)).zip (latIdxs glat glon s)).zip
               ((pairs (chainLon glat glon s)).zip (lonIdxs glat glon s)))
    (hx : q.1.1.1 ≠ q.1.1.2) (hy : q.2.1.1 ≠ q.2.1.2) :
    cellIdx glat ((q.1.1.1 + q.1.1.2) / 2) = q.1.2 ∧ cellIdx glon ((q.2.1.1 + q.2.1.2) / 2) = q.2.2 := by
  apply piece_in_one_cell glat glon hlat hlon s q hq
  · left
    rcases lt_or_gt_of_ne hx with h | h
    · left; constructor <;> linarith
    · right; constructor <;> linarith
  · left
    rcases lt_or_gt_of_ne hy with h | h
    · left; constructor <;> linarith
    · right; constructor <;> linarith

/-- **Cells the path does not enter receive nothing** (exact additive measure): a piece that is given a non-zero
    share has non-zero extent, so by `piece_in_one_cell` / `reported_cell_is_entered` its interior lies in the
    reported cell; a reported cell that the segment only touches gets share 0. -/
theorem untouched_cells_get_nothing (glat glon : List ℝ) (s : Seg ℝ) (h : segDist taxi s ≠ 0)
    (e : ((ℝ × ℝ) × (ℝ × ℝ)) × ℝ)
    (he : e ∈ (pairs (chain glat glon s)).zip (segFractions Rules.repaired taxi glat glon s))
    (hne : e.2 ≠ 0) : e.1.1 ≠ e.1.2 := by
  rw [share_eq_length_share _ taxi glat glon s h] at he
  unfold chainDists at he
  rw [List.map_map] at he
  obtain ⟨q, _, rfl⟩ := mem_zip_map_self _ _ he
  intro heq
  apply hne
  simp only [Function.comp, taxi_real]
  rw [heq]; simp

/-- Altitude cells, time cells and state values are those of the segment's start point, repeated once per piece of
    that segment. -/
theorem alt_time_state_from_start (r : Rules) (d : ℝ → ℝ → ℝ → ℝ → ℝ) (g : Grid ℝ) (t : Traj ℝ) :
    (gridPlain r d g t).altI = t.alts.map (fun a =>
        (a.dropLast.zip (mkSegs t.lats t.lons)).flatMap
          (fun p => List.replicate (latIdxs g.glat g.glon p.2).length (cellIdx g.galt p.1))) ∧
    (gridPlain r d g t).timeI = t.times.map (fun a =>
        (a.dropLast.zip (mkSegs t.lats t.lons)).flatMap
          (fun p => List.replicate (latIdxs g.glat g.glon p.2).length (cellIdx g.gtime p.1))) ∧
    (gridPlain r d g t).state = t.state.map (fun v =>
        (v.dropLast.zip (mkSegs t.lats t.lons)).flatMap
          (fun p => List.replicate (latIdxs g.glat g.glon p.2).length p.1)) := by
  unfold gridPlain
  simp only
  refine ⟨?_, ?_, ?_⟩
  · congr 1; funext a; exact repeatBy_map _ _ _ _
  · congr 1; funext a; exact repeatBy_map _ _ _ _
  · congr 1; funext v
    have := repeatBy_map (mkSegs t.lats t.lons) (fun s => (latIdxs g.glat g.glon s).length) v.dropLast id
    simpa using this

/-- **All output arrays have matching lengths** (one entry per piece), there is one output array per state and per
    integrated variable, for every well-formed input — with no, one, or several antimeridian crossings. -/
theorem output_lengths_match (r : Rules) (d : ℝ → ℝ → ℝ → ℝ → ℝ) (pi : ℝ) (g : Grid ℝ) (t : Traj ℝ)
    (wf : t.WellFormed) : (gridTraj r d pi g t).Consistent t :=
  gridTraj_consistent r d pi g t wf

/-- the number of pieces of a segment is the number of grid lines it crosses plus one, for both index arrays -/
theorem pieces_per_segment (glat glon : List ℝ) (s : Seg ℝ) :
    (latIdxs glat glon s).length = nCross glat glon s + 1 ∧
    (lonIdxs glat glon s).length = nCross glat glon s + 1 ∧
    (chain glat glon s).length = nCross glat glon s + 2 :=
  ⟨length_latIdxs glat glon s, length_lonIdxs glat glon s, length_chain glat glon s⟩

/-! ### antimeridian split -/

/-- Repaired rule: the inserted antimeridian point lies on the straight line from the segment's start to its
    unwrapped end (`lonNext = lon1 ± 2π`), `dlon = lonNext − lon0`. -/
theorem crossLat_on_line (pi : ℝ) (sign : Int) (lat0 lon0 lat1 lon1 : ℝ)
    (hd : (if sign = -1 then lon1 + 2 * pi else lon1 - 2 * pi) - lon0 ≠ 0) :
    (crossLat Rules.repaired pi sign lat0 lon0 lat1 lon1 - lat0)
        * ((if sign = -1 then lon1 + 2 * pi else lon1 - 2 * pi) - lon0)
      = (edgeLon pi sign - lon0) * (lat1 - lat0) := by
  unfold crossLat
  simp only [Rules.repaired, if_true, lit_real]
  norm_num
  rw [if_neg hd]
  field_simp

/-- … and between the segment's end latitudes, i.e. on the segment itself, whenever the antimeridian lies between the
    start longitude and the unwrapped end longitude (which is what "the segment crosses it" means). -/
theorem crossLat_between (pi : ℝ) (sign : Int) (lat0 lon0 lat1 lon1 : ℝ)
    (hd : (if sign = -1 then lon1 + 2 * pi else lon1 - 2 * pi) - lon0 ≠ 0)
    (hb : Between lon0 (if sign = -1 then lon1 + 2 * pi else lon1 - 2 * pi) (edgeLon pi sign)) :
    Between lat0 lat1 (crossLat Rules.repaired pi sign lat0 lon0 lat1 lon1) := by
  have key : crossLat Rules.repaired pi sign lat0 lon0 lat1 lon1
      = lat0 + ((edgeLon pi sign - lon0) / ((if sign = -1 then lon1 + 2 * pi else lon1 - 2 * pi) - lon0))
          * (lat1 - lat0) := by
    unfold crossLat
    simp only [Rules.repaired, if_true]
    rw [show (Lit.dec 2 0 : ℝ) = 2 by norm_num [lit_real]]
    have hnz := (nonzero_real _).2 hd
    simp only [hnz, if_true]
  generalize (if sign = -1 then lon1 + 2 * pi else lon1 - 2 * pi) = lonNext at hd hb key
  have ht : 0 ≤ (edgeLon pi sign - lon0) / (lonNext - lon0) ∧ (edgeLon pi sign - lon0) / (lonNext - lon0) ≤ 1 := by
    rcases lt_or_gt_of_ne hd with hneg | hpos
    · have hb' : lonNext ≤ edgeLon pi sign ∧ edgeLon pi sign ≤ lon0 := by
        rcases hb with ⟨a, b⟩ | h
        · exact ⟨by linarith, by linarith⟩
        · exact h
      exact ⟨div_nonneg_of_nonpos (by linarith [hb'.2]) hneg.le, by rw [div_le_one_of_neg hneg]; linarith [hb'.1]⟩
    · have hb' : lon0 ≤ edgeLon pi sign ∧ edgeLon pi sign ≤ lonNext := by
        rcases hb with h | ⟨a, b⟩
        · exact h
        · exact ⟨by linarith, by linarith⟩
      exact ⟨div_nonneg (by linarith [hb'.1]) hpos.le, by rw [div_le_one hpos]; linarith [hb'.2]⟩
  rw [key]
  unfold Between
  rcases le_total lat0 lat1 with h | h
  · left; constructor <;> nlinarith [ht.1, ht.2]
  · right; constructor <;> nlinarith [ht.1, ht.2]

/-- Negation witness for the code before the C05 fix: with the as-is rule the inserted point is **off** the segment's
    line whenever the segment changes latitude and does not start on the antimeridian
    (replayed on the real code by `corpus/C05/001-…json`). -/
theorem crossLat_asIs_off_line (pi : ℝ) (sign : Int) (lat0 lon0 lat1 lon1 : ℝ)
    (hlat : lat1 ≠ lat0) (hedge : edgeLon pi sign ≠ lon0) :
    (crossLat Rules.asIs pi sign lat0 lon0 lat1 lon1 - lat0)
        * ((if sign = -1 then lon1 + 2 * pi else lon1 - 2 * pi) - lon0)
      ≠ (edgeLon pi sign - lon0) * (lat1 - lat0) := by
  unfold crossLat
  simp only [Rules.asIs, Bool.false_eq_true, if_false, sub_self, zero_mul]
  exact (mul_ne_zero (sub_ne_zero.2 hedge) (sub_ne_zero.2 hlat)).symm

/-- concrete instance (degrees, `pi := 180`): 5°N 175°E → 25°N 175°W crosses at 15°N; the as-is code used 5°N. -/
theorem crossLat_example :
    crossLat (α := ℝ) Rules.repaired 180 (-1) 5 175 25 (-175) = 15 ∧
    crossLat (α := ℝ) Rules.asIs 180 (-1) 5 175 25 (-175) = 5 := by
  constructor
  · unfold crossLat
    simp only [Rules.repaired, if_true, lit_real, edgeLon]
    norm_num
  · simp [crossLat, Rules.asIs]

/-! ### the same about the SOURCE TEXT of `gridding/grid.py`

`Kern.grid_*` are regenerated from the working tree on every run; `Lemmas/KernelBridge8.lean` proves them equal to the model. -/

open KernelBridge8 in
/-- **The crossing latitude the source computes lies on the crossing segment**: on the straight map line from the start point
    of the crossing segment to its unwrapped end point (first claim, `crossLat_on_line` for the generated definition), and
    between the two end latitudes whenever the antimeridian lies between the start longitude and the unwrapped end longitude. -/
theorem src_crossing_on_segment (lats lons : List ℝ) (idx : Nat) (neg : Bool)
    (hd : (if sgn neg = -1 then getAt lons (idx + 1) + 2 * PI else getAt lons (idx + 1) - 2 * PI) - getAt lons idx ≠ 0) :
    (Kern.grid_cross_lat lats lons idx ((sgn neg : Int) : ℝ) - getAt lats idx)
        * ((if sgn neg = -1 then getAt lons (idx + 1) + 2 * PI else getAt lons (idx + 1) - 2 * PI) - getAt lons idx)
      = (edgeLon PI (sgn neg) - getAt lons idx) * (getAt lats (idx + 1) - getAt lats idx) ∧
    (Between (getAt lons idx) (if sgn neg = -1 then getAt lons (idx + 1) + 2 * PI else getAt lons (idx + 1) - 2 * PI)
        (edgeLon PI (sgn neg)) →
      Between (getAt lats idx) (getAt lats (idx + 1)) (Kern.grid_cross_lat lats lons idx ((sgn neg : Int) : ℝ))) := by
  rw [cross_lat]
  exact ⟨crossLat_on_line PI (sgn neg) _ _ _ _ hd, crossLat_between PI (sgn neg) _ _ _ _ hd⟩

open KernelBridge8 in
/-- **The two parts the source builds meet at the antimeridian**: the first part ends at the inserted point on the side the
    trajectory comes from (`±π`), the second part starts at the same latitude on the other side (`∓π`), and both keep the
    altitude, time and state of the START of the crossing segment for the inserted point (the property's "state from the start
    point of the piece"). -/
theorem src_parts_meet_at_antimeridian (lats lons alts times sv iv : List ℝ) (idx : Nat) (neg : Bool) (l1 l2 ltot : ℝ) :
    let s := ((sgn neg : Int) : ℝ)
    (Kern.grid_split_first_lats lats lons alts times sv iv idx s l1 ltot).getLast? = some (Kern.grid_cross_lat lats lons idx s) ∧
    (Kern.grid_split_second_lats lats lons alts times sv iv idx s l2 ltot).head? = some (Kern.grid_cross_lat lats lons idx s) ∧
    (Kern.grid_split_first_lons lats lons alts times sv iv idx s l1 ltot).getLast? = some (edgeLon PI (sgn neg)) ∧
    (Kern.grid_split_second_lons lats lons alts times sv iv idx s l2 ltot).head? = some (-(edgeLon PI (sgn neg))) ∧
    (Kern.grid_split_first_alts lats lons alts times sv iv idx s l1 ltot).getLast? = some (getAt alts idx) ∧
    (Kern.grid_split_second_alts lats lons alts times sv iv idx s l2 ltot).head? = some (getAt alts idx) ∧
    (Kern.grid_split_first_times lats lons alts times sv iv idx s l1 ltot).getLast? = some (getAt times idx) ∧
    (Kern.grid_split_second_times lats lons alts times sv iv idx s l2 ltot).head? = some (getAt times idx) ∧
    (Kern.grid_split_first_state lats lons alts times sv iv idx s l1 ltot).getLast? = some (getAt sv idx) ∧
    (Kern.grid_split_second_state lats lons alts times sv iv idx s l2 ltot).head? = some (getAt sv idx) := by
  have h1 := split_first lats lons alts times sv iv idx neg l1 ltot
  have h2 := split_second lats lons alts times sv iv idx neg l2 ltot
  simp only at h1 h2
  obtain ⟨a1, a2, a3, a4, a5, _⟩ := h1
  obtain ⟨b1, b2, b3, b4, b5, _⟩ := h2
  simp only [splitFirst, splitSecond, trajOf, Option.map, List.map, Option.some.injEq, List.cons.injEq, and_true] at a1 a2 a3 a4 a5 b1 b2 b3 b4 b5
  refine ⟨?_, ?_, ?_, ?_, ?_, ?_, ?_, ?_, ?_, ?_⟩
  · rw [← a1]; simp
  · rw [← b1]; simp
  · rw [← a2]; simp
  · rw [← b2]; simp
  · rw [← a3]; simp
  · rw [← b3]; simp
  · rw [← a4]; simp
  · rw [← b4]; simp
  · rw [← a5]; simp
  · rw [← b5]; simp

open KernelBridge8 in
/-- the antimeridian test of the source is the model's `crossSign`; and the split functions are the model's -/
theorem src_cross_sign_is_model (A : String → ℝ) (lon1 lon2 : ℝ) :
    Kern.grid_cross_sign A lon1 lon2 = ((crossSign PI lon1 lon2 : Int) : ℝ) := cross_sign A lon1 lon2

open KernelBridge8 in
/-- a segment is reported as crossing exactly when its two longitudes differ by more than π, with the sign of the jump -/
theorem src_cross_sign_cases (A : String → ℝ) (lon1 lon2 : ℝ) :
    (|lon2 - lon1| ≤ PI → Kern.grid_cross_sign A lon1 lon2 = 0) ∧
    (PI < lon2 - lon1 → Kern.grid_cross_sign A lon1 lon2 = 1) ∧
    (lon2 - lon1 < -PI → Kern.grid_cross_sign A lon1 lon2 = -1) := by
  have hpi : (0 : ℝ) < PI := by simp only [PI, lit_real]; norm_num
  have habs : sabs (lon2 - lon1) = |lon2 - lon1| := by
    unfold sabs; simp only [zero_real]; split_ifs with h
    · exact (abs_of_neg h).symm
    · exact (abs_of_nonneg (not_lt.mp h)).symm
  simp only [Kern.grid_cross_sign, ssign, zero_real, one_real, habs]
  change (_ → _ * (if PI < _ then _ else _) = 0) ∧ (_ → _ * (if PI < _ then _ else _) = 1) ∧ (_ → _ * (if PI < _ then _ else _) = -1)
  simp only [lit_real]
  refine ⟨fun h => ?_, fun h => ?_, fun h => ?_⟩
  · rw [if_neg (not_lt.mpr h)]; simp
  · have h0 : 0 < lon2 - lon1 := lt_trans hpi h
    have h1 : PI < |lon2 - lon1| := by rw [abs_of_pos h0]; exact h
    rw [if_pos h1]
    split_ifs <;> first | (exfalso; linarith) | norm_num
  · have h0 : lon2 - lon1 < 0 := by linarith
    have h1 : PI < |lon2 - lon1| := by rw [abs_of_neg h0]; linarith
    rw [if_pos h1]
    split_ifs <;> first | (exfalso; linarith) | norm_num

/-! ### non-vacuity: the hypotheses are satisfiable -/

example : ([0, 1, 2, 3] : List ℝ).Pairwise (· < ·) := by simp; norm_num

example : (⟨[1, 2], [5, 6], some [0, 10], none, [[7, 8]], [[3]]⟩ : Traj ℝ).WellFormed := by
  simp [Traj.WellFormed]

end C05
