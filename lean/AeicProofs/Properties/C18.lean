/-
  C18 — Exactly one immutable configuration is active, and a failed load leaves none.
  Model: `AeicModel/Config.lean` (`load` staged as read → field validation → after-validators, singleton assignment point as
  the `Variant`; `step`/`run`; `deepUpdate`).
-/
import AeicProofs.Lemmas.Config
import AeicProofs.Lemmas.ConfigProg
import AeicModel.Generated.ConfigProg

namespace C18
open Aeic.Config

/-- the three-state reference machine of the property: the active configuration after a history is the configuration of
    the last successful load since the last reset, and a load succeeds iff nothing is active and every stage succeeds -/
def specStep (st : State) : Op → State × Out
  | .load l =>
    if !l.fileOk then (st, .err .readError)
    else if !l.fieldsOk then (st, .err .validation)
    else if st.isSome then (st, .err .alreadyInitialized)
    else if l.normalizeOk && l.resolveOk then (some l.cfg, .cfg l.cfg)
    else (none, .err .fileNotFound)
  | .get => (st, match st with | some c => .cfg c | none => .err .notSet)
  | .reset => (none, .ok)
  | .read => (st, match st with | some c => .cfg c | none => .err .notSet)
  | .mutate => (st, match st with | some _ => .err .frozen | none => .err .notSet)

def specRun (st : State) : List Op → List Out
  | [] => []
  | op :: ops => let r := specStep st op; r.2 :: specRun r.1 ops

/-- **Refinement**: for every history of loads (valid or failing at any stage), gets, resets, reads and attempted mutations,
    the configuration singleton behaves exactly like the three-state reference machine -/
theorem config_refines_reference (ops : List Op) (st : State) : run .fixed st ops = specRun st ops := by
  induction ops generalizing st with
  | nil => rfl
  | cons op ops ih =>
    have hstep : step .fixed st op = specStep st op := by
      cases op with
      | load l =>
        simp only [step, load, specStep]
        cases l.fileOk <;> cases l.fieldsOk <;> cases l.normalizeOk <;> cases l.resolveOk <;> cases st <;> simp
      | get => cases st <;> rfl
      | reset => rfl
      | read => cases st <;> rfl
      | mutate => cases st <;> rfl
    simp only [run, specRun, hstep]
    rw [ih]

/-- loading while a configuration is active is refused and changes nothing (when the new data themselves are well-formed) -/
theorem load_while_active_refused (c : Nat) (l : LoadSpec) (h1 : l.fileOk = true) (h2 : l.fieldsOk = true) :
    load .fixed (some c) l = (some c, .err .alreadyInitialized) := by
  simp [load, h1, h2]

/-- a load that fails for any reason — unreadable file, invalid value, search-path or data-file resolution — leaves the
    state exactly as it was; in particular it leaves the system unconfigured if it was unconfigured -/
theorem failed_load_leaves_state (st : State) (l : LoadSpec) (e : Err) (h : (load .fixed st l).2 = .err e) :
    (load .fixed st l).1 = st := by
  obtain ⟨a, b, c, d, n⟩ := l
  unfold load at h ⊢
  cases a <;> cases b <;> cases c <;> cases d <;> cases st <;> simp_all

theorem failed_load_leaves_none (l : LoadSpec) (e : Err) (h : (load .fixed none l).2 = .err e) :
    (load .fixed none l).1 = none := failed_load_leaves_state none l e h

/-- so a subsequent valid load succeeds -/
theorem failed_then_valid_load_ok (bad good : LoadSpec) (e : Err) (h : (load .fixed none bad).2 = .err e)
    (hg : good.fileOk = true ∧ good.fieldsOk = true ∧ good.normalizeOk = true ∧ good.resolveOk = true) :
    load .fixed (load .fixed none bad).1 good = (some good.cfg, .cfg good.cfg) := by
  rw [failed_load_leaves_none bad e h]
  simp [load, hg.1, hg.2.1, hg.2.2.1, hg.2.2.2]

/-- after a reset a new configuration can be loaded, whatever was active before -/
theorem reset_then_load_ok (st : State) (good : LoadSpec)
    (hg : good.fileOk = true ∧ good.fieldsOk = true ∧ good.normalizeOk = true ∧ good.resolveOk = true) :
    run .fixed st [.reset, .load good, .get] = [.ok, .cfg good.cfg, .cfg good.cfg] := by
  simp [run, step, load, hg.1, hg.2.1, hg.2.2.1, hg.2.2.2]

/-- reading settings before any successful load is refused -/
theorem get_before_load_refused : step .fixed none .get = (none, .err .notSet) ∧ step .fixed none .read = (none, .err .notSet) :=
  ⟨rfl, rfl⟩

/-- attempted mutation (at any nesting level) is refused and changes nothing -/
theorem mutation_refused (c : Nat) : step .fixed (some c) .mutate = (some c, .err .frozen) := rfl

/-- at most one configuration is ever active, and it only changes through a successful load (when none was active) or a reset -/
theorem active_changes_only_by_load_or_reset (st : State) (op : Op) :
    (step .fixed st op).1 = st ∨ (op = .reset ∧ (step .fixed st op).1 = none) ∨
    (∃ l, op = .load l ∧ st = none ∧ ((step .fixed st op).1 = some l.cfg ∨ (step .fixed st op).1 = none)) := by
  cases op with
  | load l =>
    cases st with
    | some c => left; simp only [step, load]; cases l.fileOk <;> cases l.fieldsOk <;> simp
    | none =>
      right; right
      refine ⟨l, rfl, rfl, ?_⟩
      simp only [step, load]
      cases l.fileOk <;> cases l.fieldsOk <;> cases l.normalizeOk <;> cases l.resolveOk <;> simp
  | get => left; cases st <;> rfl
  | reset => right; left; exact ⟨rfl, rfl⟩
  | read => left; cases st <;> rfl
  | mutate => left; cases st <;> rfl

/-- the code as it was (singleton assigned in a `finally` of the first validator): a load whose data files cannot be
    resolved fails *and* leaves its half-built configuration active, so the next valid load is refused -/
theorem failed_load_leaves_active_as_is :
    run .asIs none [.load ⟨true, true, true, false, 7⟩, .get, .load ⟨true, true, true, true, 8⟩] =
      [.err .fileNotFound, .cfg 7, .err .alreadyInitialized] := by decide

example : run .fixed none [.load ⟨true, true, true, false, 7⟩, .get, .load ⟨true, true, true, true, 8⟩, .mutate, .get] =
    [.err .fileNotFound, .err .notSet, .cfg 8, .err .frozen, .cfg 8] := by decide

/-! ### overlay precedence -/

/-- one level of `deep_update`: a key absent from the overlay keeps the base value; two dictionaries are merged
    recursively; anything else is replaced by the overlay value (overlay keys distinct, as in a Python dict) -/
theorem overlay_one_level (b o : List (String × Tree)) (k : String) (hnd : (o.map (·.1)).Nodup) :
    getKey (deepUpdate b o) k = match getKey o k with
      | none => getKey b k
      | some v => some (merged1 (getKey b k) v) :=
  getKey_deepUpdate o b k hnd

/-- effective value of a setting `[section].key`: keyword arguments win over the configuration file, which wins over the
    packaged defaults (sections are dictionaries in all three layers where present; keys within a dictionary are distinct) -/
theorem overlay_precedence (d f kw : List (String × Tree)) (sec key : String)
    (dsec fsec ksec : List (String × Tree))
    (hd : getKey d sec = some (.node dsec)) (hf : getKey f sec = some (.node fsec)) (hk : getKey kw sec = some (.node ksec))
    (nk : (kw.map (·.1)).Nodup) (nfk : ((deepUpdate f kw).map (·.1)).Nodup)
    (nks : (ksec.map (·.1)).Nodup) (nfks : ((deepUpdate fsec ksec).map (·.1)).Nodup)
    (vd vf vk : Option String)
    (hvd : getKey dsec key = vd.map .leaf) (hvf : getKey fsec key = vf.map .leaf) (hvk : getKey ksec key = vk.map .leaf) :
    leafAt (.node (effective d f kw)) [sec, key] = (vk.or vf).or vd := by
  unfold effective leafAt lookup lookup
  -- file overlaid by keyword arguments, at the section level
  have h1 : getKey (deepUpdate f kw) sec = some (.node (deepUpdate fsec ksec)) := by
    rw [getKey_deepUpdate kw f sec nk, hk, hf]; rfl
  -- defaults overlaid by that, at the section level
  have h2 : getKey (deepUpdate d (deepUpdate f kw)) sec = some (.node (deepUpdate dsec (deepUpdate fsec ksec))) := by
    rw [getKey_deepUpdate _ d sec nfk, h1, hd]; rfl
  rw [h2]
  simp only
  -- inside the section
  have h3 : getKey (deepUpdate fsec ksec) key = ((vk.or vf).map .leaf) := by
    rw [getKey_deepUpdate ksec fsec key nks, hvk, hvf]
    cases vk with
    | none => simp
    | some v => cases vf <;> simp [merged1]
  rw [getKey_deepUpdate _ dsec key nfks, h3, hvd]
  cases vk <;> cases vf <;> cases vd <;> simp [merged1, lookup]

/-- non-vacuity of the precedence theorem's shape -/
example : leafAt (.node (effective
    [("emissions", .node [("sox_enabled", .leaf "true"), ("nox_method", .leaf "bffm2")])]
    [("emissions", .node [("sox_enabled", .leaf "false")])]
    [("emissions", .node [("nox_method", .leaf "p3t3")])])) ["emissions", "sox_enabled"] = some "false" := by
  simp [leafAt, lookup, effective, deepUpdate, getKey, setKey]

/-! ## Source tie: the event programs of the singleton code, regenerated from `config/core.py` on every run
    (`Aeic.Gen.cfgLoadProgram`, `cfgConstructProgram`, `cfgResetProgram`; language and semantics: `AeicModel/ConfigProg.lean`) -/

open Aeic.ConfigProg

/-- the shape of the source: straight-line code (no `try`), the singleton is tested before it is assigned, and nothing that can
    raise follows the assignment — for `Config.load` and for direct construction (`Config(**data)`, `model_validate`) alike -/
theorem src_programs_shape :
    (flat Aeic.Gen.cfgLoadProgram && safeAfter Aeic.Gen.cfgLoadProgram && noRaise Aeic.Gen.cfgLoadProgram &&
      guarded Aeic.Gen.cfgLoadProgram && assigns Aeic.Gen.cfgLoadProgram) = true ∧
    (flat Aeic.Gen.cfgConstructProgram && safeAfter Aeic.Gen.cfgConstructProgram && noRaise Aeic.Gen.cfgConstructProgram &&
      guarded Aeic.Gen.cfgConstructProgram && assigns Aeic.Gen.cfgConstructProgram) = true := by
  constructor <;> decide

theorem load_flat : flat Aeic.Gen.cfgLoadProgram = true ∧ safeAfter Aeic.Gen.cfgLoadProgram = true ∧
    noRaise Aeic.Gen.cfgLoadProgram = true := by decide
theorem construct_flat : flat Aeic.Gen.cfgConstructProgram = true ∧ safeAfter Aeic.Gen.cfgConstructProgram = true ∧
    noRaise Aeic.Gen.cfgConstructProgram = true := by decide

/-- when does the `load` of the source raise: exactly when a stage fails or a configuration is active -/
theorem load_raises (st : State) (l : LoadSpec) :
    raisesB (failsOf l) st Aeic.Gen.cfgLoadProgram =
      (!l.fileOk || !l.fieldsOk || st.isSome || !l.normalizeOk || !l.resolveOk) := by
  cases h1 : l.fileOk <;> cases h2 : l.fieldsOk <;> cases h3 : l.normalizeOk <;> cases h4 : l.resolveOk <;> cases st <;>
    simp [Aeic.Gen.cfgLoadProgram, raisesB, failsOf, h1, h2, h3, h4]

/-- **the `load` of the source text is the staged model**: for every state and every pattern of failing stages the singleton
    after the call is the model's, and the call raises exactly when the model reports an error -/
theorem src_load_is_model (st : State) (l : LoadSpec) :
    (exec (failsOf l) l.cfg Aeic.Gen.cfgLoadProgram st).1 = (load .fixed st l).1 ∧
    ((exec (failsOf l) l.cfg Aeic.Gen.cfgLoadProgram st).2.isSome = true ↔ ∃ e, (load .fixed st l).2 = .err e) := by
  obtain ⟨hf, hs, hn⟩ := load_flat
  obtain ⟨h1, h2⟩ := exec_flat (failsOf l) l.cfg _ st hf hs hn
  rw [h1, h2, load_raises]
  have ha : assigns Aeic.Gen.cfgLoadProgram = true := by decide
  simp only [ha, if_true]
  unfold load
  cases l.fileOk <;> cases l.fieldsOk <;> cases l.normalizeOk <;> cases l.resolveOk <;> cases st <;> simp

/-- a `load` of the source that raises — at ANY stage — leaves the singleton exactly as it was -/
theorem src_failed_load_leaves_state (fails : Nat → Bool) (cfg : Nat) (st : State)
    (h : (exec fails cfg Aeic.Gen.cfgLoadProgram st).2.isSome = true) :
    (exec fails cfg Aeic.Gen.cfgLoadProgram st).1 = st := by
  obtain ⟨hf, hs, hn⟩ := load_flat
  obtain ⟨h1, h2⟩ := exec_flat fails cfg _ st hf hs hn
  rw [h1] at h; rw [h2, h]; simp

/-- while a configuration is active, a `load` AND a direct construction are refused (they raise and change nothing), whatever the
    new data -/
theorem src_second_configuration_refused (fails : Nat → Bool) (cfg c : Nat) :
    ((exec fails cfg Aeic.Gen.cfgLoadProgram (some c)).2.isSome = true ∧ (exec fails cfg Aeic.Gen.cfgLoadProgram (some c)).1 = some c) ∧
    ((exec fails cfg Aeic.Gen.cfgConstructProgram (some c)).2.isSome = true ∧
      (exec fails cfg Aeic.Gen.cfgConstructProgram (some c)).1 = some c) := by
  obtain ⟨hf, hs, hn⟩ := load_flat
  obtain ⟨hf', hs', hn'⟩ := construct_flat
  obtain ⟨h1, h2⟩ := exec_flat fails cfg _ (some c) hf hs hn
  obtain ⟨h1', h2'⟩ := exec_flat fails cfg _ (some c) hf' hs' hn'
  have r1 : raisesB fails (some c) Aeic.Gen.cfgLoadProgram = true := by
    simp [Aeic.Gen.cfgLoadProgram, raisesB]
  have r2 : raisesB fails (some c) Aeic.Gen.cfgConstructProgram = true := by
    simp [Aeic.Gen.cfgConstructProgram, raisesB]
  rw [h1, h2, h1', h2', r1, r2]; simp

/-- with nothing active and every stage passing, the new configuration becomes the active one; `reset` clears it -/
theorem src_successful_load_and_reset (fails : Nat → Bool) (cfg : Nat) (hok : ∀ k, fails k = false) (st : State) :
    exec fails cfg Aeic.Gen.cfgLoadProgram none = (some cfg, none) ∧
    (exec fails cfg Aeic.Gen.cfgResetProgram st).1 = none := by
  constructor
  · simp [Aeic.Gen.cfgLoadProgram, exec, execEv, hok]
  · simp [Aeic.Gen.cfgResetProgram, exec, execEv]

end C18
