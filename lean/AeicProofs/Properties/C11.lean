/-
  C11 — Every documented emissions option combination works or is refused by name.

  Model: AeicModel/Dispatch.lean (`outcome` = the code on the work-tree branch, `outcomeWith Rev.pinned` = the code as
  found).  All theorems quantify over *every* configuration `c : Config` (the full product of documented option values,
  tied to the source by `option_values`/`config_fields`/`option_space_card`) and every data environment `e : Env`.
-/
import AeicProofs.Lemmas.C11Dispatch
import AeicProofs.Lemmas.C11Real
import AeicModel.Generated.Refusals

namespace C11
open Aeic Aeic.Dispatch

/-! ## The model's closed types are the source's value sets (re-checked against the regenerated files) -/

/-- member order of `AEIC.types.Species` -/
theorem species_order : Species.all.map Species.name = Gen.speciesOrder := by decide

/-- value sets of `EINOxMethod`, `PMvolMethod`, `PMnvolMethod`, `ClimbDescentMode` -/
theorem option_values :
    GasMethod.all.map GasMethod.value = Gen.Options.einoxMethodValues ∧
    PMvolMethod.all.map PMvolMethod.value = Gen.Options.pmvolMethodValues ∧
    PMnvolMethod.all.map PMnvolMethod.value = Gen.Options.pmnvolMethodValues ∧
    CDMode.all.map CDMode.value = Gen.Options.climbDescentModeValues := by decide

/-- the `all` lists enumerate the model's option types (so a `match` without wildcard is total on the source's values) -/
theorem option_types_closed :
    (∀ m : GasMethod, m ∈ GasMethod.all) ∧ (∀ m : PMvolMethod, m ∈ PMvolMethod.all) ∧
    (∀ m : PMnvolMethod, m ∈ PMnvolMethod.all) ∧ (∀ m : CDMode, m ∈ CDMode.all) := by
  refine ⟨?_, ?_, ?_, ?_⟩ <;> intro m <;> cases m <;> decide

/-- `EmissionsConfig` has exactly the modelled fields (plus the `fuel` file name), with the modelled types -/
theorem config_fields :
    "fuel" :: Config.fieldNames = Gen.Options.emissionsFields ∧
    Gen.Options.emissionsFieldTypes =
      ["str", "ClimbDescentMode", "bool", "bool", "bool", "EINOxMethod", "EINOxMethod", "EINOxMethod", "PMvolMethod",
       "PMnvolMethod", "bool", "bool", "bool"] := by decide

/-- the modelled options are exactly the documented keys of `[emissions]` in `default_config.toml` -/
theorem documented_keys :
    (∀ k ∈ Config.fieldNames, k ∈ Gen.Options.documentedKeys) ∧
    (∀ k ∈ Gen.Options.documentedKeys, k = "fuel" ∨ k ∈ Config.fieldNames) := by decide

/-- every `<label>_enabled` attribute that `enabled_species` reads through `getattr`, and every switch the emissions
    code reads, exists on `EmissionsConfig` (no `AttributeError` from the computed attribute names) -/
theorem enabled_labels_exist :
    (∀ l ∈ enabledLabels, l ∈ Gen.Options.enabledAttributes) ∧
    (∀ l ∈ switchAttributes, l ∈ Gen.Options.enabledAttributes) := by decide

/-- the option space: 41 472 combinations, all enumerated by `Config.all`, and that is what the regenerated value
    sets give -/
theorem option_space_card :
    optionSpaceCard = 41472 ∧ Config.all.length = optionSpaceCard ∧ ∀ c : Config, c ∈ Config.all := by
  refine ⟨by decide, ?_, ?_⟩
  · have h : optionSpaceCard = 41472 := by decide
    rw [h]
    unfold Config.all
    rw [length_flatMap_const (n := 20736)]; · rfl
    intro cd
    rw [length_flatMap_const (n := 10368)]; · rfl
    intro co2
    rw [length_flatMap_const (n := 5184)]; · rfl
    intro h2o
    rw [length_flatMap_const (n := 2592)]; · rfl
    intro sox
    rw [length_flatMap_const (n := 864)]; · rfl
    intro nox
    rw [length_flatMap_const (n := 288)]; · rfl
    intro hc
    rw [length_flatMap_const (n := 96)]; · rfl
    intro co
    rw [length_flatMap_const (n := 32)]; · rfl
    intro pmvol
    rw [length_flatMap_const (n := 8)]; · rfl
    intro pmnvol
    rw [length_flatMap_const (n := 4)]; · rfl
    intro apu
    rw [length_flatMap_const (n := 2)]; · rfl
    intro gse
    rfl
  · intro c
    rcases c with ⟨cd, co2, h2o, sox, nox, hc, co, pmvol, pmnvol, apu, gse, lc⟩
    simp only [Config.all, List.mem_flatMap, List.mem_map]
    refine ⟨cd, ?_, co2, ?_, h2o, ?_, sox, ?_, nox, ?_, hc, ?_, co, ?_, pmvol, ?_, pmnvol, ?_, apu, ?_, gse, ?_, lc, ?_, rfl⟩
    · cases cd <;> decide
    · cases co2 <;> decide
    · cases h2o <;> decide
    · cases sox <;> decide
    · cases nox <;> decide
    · cases hc <;> decide
    · cases co <;> decide
    · cases pmvol <;> decide
    · cases pmnvol <;> decide
    · cases apu <;> decide
    · cases gse <;> decide
    · cases lc <;> decide

/-! ## enabled species -/

/-- `species in config.emissions.enabled_species`, in closed form, for every configuration and species -/
theorem enabled_species_spec (c : Config) (s : Species) :
    s ∈ enabledSpecies c ↔ enSpec c s = true := by
  rw [← en_spec]; simp [en]

example : Species.SO2 ∈ enabledSpecies default ↔ false = true := by
  rw [enabled_species_spec]; rfl

/-! ## The property -/

/-- **No internal error**: for every option combination and every data environment, `compute_emissions` does not end in
    an internal error (missing key, missing attribute, unreachable-`raise` RuntimeError, …). -/
theorem no_internal_error (c : Config) (e : Env) (k : String) : outcome c e ≠ .error (.internal k) := by
  rcases outcome_cases c e with ⟨_, h⟩ | ⟨_, _, h⟩ | ⟨_, _, inv, h, _⟩ <;> simp [h]

/-- **A refusal names the unsupported method**: the refused option is an option of the configuration and the refused
    value is the value that option has in the configuration. -/
theorem refusal_names_method (c : Config) (e : Env) (o v : String) (h : outcome c e = .error (.refused o v)) :
    c.optionValue o = some v := by
  rcases outcome_cases c e with ⟨h1, h2⟩ | ⟨_, ⟨_, l2, _⟩, h2⟩ | ⟨_, _, inv, h2, _⟩
  · rw [h2] at h
    injection h with h; injection h with ho hv
    subst ho; subst hv
    simp [Config.optionValue, h1, PMnvolMethod.value]
  · rw [h2] at h
    injection h with h; injection h with ho hv
    subst ho; subst hv
    simp [Config.optionValue, l2, boolStr]
  · rw [h2] at h; cases h

/-- **Exactly which configurations are refused** (and by which name): non-volatile PM method `foa3`, or the life-cycle
    adjustment with a fuel that has no life-cycle datum; everything else returns an inventory. -/
theorem outcome_classification (c : Config) (e : Env) :
    (c.pmnvol = .foa3 → outcome c e = .error (.refused "pmnvol_method" "foa3")) ∧
    (c.pmnvol ≠ .foa3 → c.co2 = true → c.lifecycle = true → e.fuelLifecycle = false →
        outcome c e = .error (.refused "lifecycle_enabled" "true")) ∧
    (c.pmnvol ≠ .foa3 → ¬(c.co2 = true ∧ c.lifecycle = true ∧ e.fuelLifecycle = false) →
        ∃ inv, outcome c e = .ok inv) := by
  rcases outcome_cases c e with ⟨h1, h2⟩ | ⟨h1, hl, h2⟩ | ⟨h1, hl, inv, h2, _⟩
  · exact ⟨fun _ => h2, fun h => absurd h1 h, fun h => absurd h1 h⟩
  · exact ⟨fun h => absurd h h1, fun _ _ _ _ => h2, fun _ h => absurd hl h⟩
  · exact ⟨fun h => absurd h h1, fun _ a b d => absurd ⟨a, b, d⟩ hl, fun _ _ => ⟨inv, h2⟩⟩

example : ∃ inv, outcome default ⟨true, true, true, false⟩ = .ok inv :=
  (outcome_classification default ⟨true, true, true, false⟩).2.2 (by decide) (by decide)

/-- **A switched-off species contributes nothing**: in a returned inventory a species outside `enabled_species` has no
    trajectory index/emission entry, and its LTO index/emission entry is absent or structurally zero. -/
theorem disabled_species_absent (c : Config) (e : Env) (inv : Inventory) (s : Species)
    (h : outcome c e = .ok inv) (hs : s ∉ enabledSpecies c) :
    inv.trajIdx s = none ∧ inv.trajEm s = none ∧
    (inv.ltoIdx s = none ∨ inv.ltoIdx s = some .zero) ∧ (inv.ltoEm s = none ∨ inv.ltoEm s = some .zero) := by
  have hen : en c s = false := by
    cases hh : en c s
    · rfl
    · exact absurd (by simpa [en] using hh) hs
  rcases outcome_cases c e with ⟨_, h2⟩ | ⟨_, _, h2⟩ | ⟨_, _, inv', h2, spec⟩
  · rw [h2] at h; cases h
  · rw [h2] at h; cases h
  · rw [h2] at h
    injection h with h
    subst h
    have ht : inv'.trajIdx s = none := by
      cases hv : inv'.trajIdx s with
      | none => rfl
      | some v =>
        have := trajIndices_sub _ c e _ spec.traj s v hv
        simp [hen] at this
    have hl := ltoIndices_disabled c e s hen
    refine ⟨ht, by rw [spec.trajEm]; exact ht, by rw [spec.lto]; exact hl, by rw [spec.ltoEm, spec.lto]; exact hl⟩

example : (Species.SO2 ∉ enabledSpecies { (default : Config) with sox := false }) := by decide

/-- **Emission maps carry exactly the keys of the index maps**, GSE present iff switched on, APU part empty unless
    switched on and an APU is known. -/
theorem ok_inventory_shape (c : Config) (e : Env) (inv : Inventory) (h : outcome c e = .ok inv) :
    inv.trajEm = inv.trajIdx ∧ inv.ltoEm = inv.ltoIdx ∧ inv.apuEm = inv.apuIdx ∧
    (c.gse = false → inv.gse = KMap.empty) ∧ ((c.apu && e.hasApu) = false → inv.apuIdx = KMap.empty) := by
  rcases outcome_cases c e with ⟨_, h2⟩ | ⟨_, _, h2⟩ | ⟨_, _, inv', h2, spec⟩
  · rw [h2] at h; cases h
  · rw [h2] at h; cases h
  · rw [h2] at h; injection h with h; subst h
    exact ⟨spec.trajEm, spec.ltoEm, spec.apuEm, fun hg => by rw [spec.gse]; simp [hg], spec.apuOff⟩

/-- **Balanced (keys)**: a returned inventory has a total for every member of `Species`, hence for every species of
    every part; the life-cycle term is applied exactly when CO₂ and the life-cycle switch are on. -/
theorem ok_implies_balanced (c : Config) (e : Env) (inv : Inventory) (h : outcome c e = .ok inv) :
    (∀ s, inv.total s ≠ none) ∧ (inv.lifecycle = true ↔ (c.co2 = true ∧ c.lifecycle = true)) := by
  rcases outcome_cases c e with ⟨_, h2⟩ | ⟨_, _, h2⟩ | ⟨_, _, inv', h2, spec⟩
  · rw [h2] at h; cases h
  · rw [h2] at h; cases h
  · rw [h2] at h; injection h with h; subst h
    refine ⟨fun s => by rw [spec.total, totalKeys_all]; simp, ?_⟩
    rw [spec.lifecycle]; simp

/-! ## Balanced (values): `sum_total_emissions` over ℝ -/

/-- the total of a species is the sum of the entries of the parts that have it (APU/GSE only when switched on), plus the
    life-cycle term when it applies -/
theorem total_eq_sum_of_parts (apuOn gseOn : Bool) (p : Parts ℝ) (lc : Option ℝ) :
    total apuOn gseOn p lc =
      (p.traj.map List.sum).getD 0 + (p.lto.map List.sum).getD 0 + (if apuOn then p.apu.getD 0 else 0)
        + (if gseOn then p.gse.getD 0 else 0) + lc.getD 0 := by
  rcases p with ⟨t, l, a, g⟩
  cases t <;> cases l <;> cases a <;> cases g <;> cases lc <;> cases apuOn <;> cases gseOn <;>
    simp [total, addAll_real]

example : total true false (⟨some [1, 2], none, some 3, some 100⟩ : Parts ℝ) (some 10) = 16 := by
  rw [total_eq_sum_of_parts]; norm_num

/-! ## The code as found (before the two `fix:` commits): negation witnesses and exact failure set -/

/-- default configuration with `pmvol_method = foa3`: the pinned code ends in an AttributeError -/
theorem pinned_foa3_attribute_error :
    outcomeWith Rev.pinned { (default : Config) with cd := .trajectory, co2 := true, pmvol := .foa3, pmnvol := .meem }
      ⟨true, true, true, false⟩ = .error (.internal "AttributeError") := by
  rw [outcomeWith_pinned]; rfl

/-- SOx switched off with the APU on: the pinned code ends in a KeyError -/
theorem pinned_sox_off_apu_key_error :
    outcomeWith Rev.pinned { (default : Config) with pmvol := .fuelFlow, pmnvol := .meem, sox := false, apu := true }
      ⟨true, true, true, false⟩ = .error (.internal "KeyError") := by
  rw [outcomeWith_pinned]; rfl

/-- exactly when the pinned code fails internally -/
theorem pinned_internal_iff (c : Config) (e : Env) (k : String) :
    outcomeWith Rev.pinned c e = .error (.internal k) ↔
      (c.pmvol = .foa3 ∧ k = "AttributeError") ∨
      (c.pmvol ≠ .foa3 ∧ c.pmnvol ≠ .foa3 ∧ (c.apu && e.hasApu && e.apuRunning && !c.sox) = true ∧ k = "KeyError") := by
  rw [outcomeWith_pinned]
  by_cases hv : c.pmvol = .foa3
  · rw [if_pos hv]
    constructor
    · intro h; injection h with h; injection h with h
      exact Or.inl ⟨hv, h.symm⟩
    · rintro (⟨_, rfl⟩ | ⟨h, _⟩)
      · rfl
      · exact absurd hv h
  · rw [if_neg hv]
    by_cases hn : c.pmnvol = .foa3
    · rw [if_pos hn]
      constructor
      · intro h; injection h with h; cases h
      · rintro (⟨h, _⟩ | ⟨_, h, _⟩)
        · exact absurd h hv
        · exact absurd hn h
    · rw [if_neg hn]
      by_cases hk : (c.apu && e.hasApu && e.apuRunning && !c.sox) = true
      · rw [if_pos hk]
        constructor
        · intro h; injection h with h; injection h with h
          exact Or.inr ⟨hv, hn, hk, h.symm⟩
        · rintro (⟨h, _⟩ | ⟨_, _, _, rfl⟩)
          · exact absurd h hv
          · rfl
      · rw [if_neg hk]
        constructor
        · intro h; exact absurd h (no_internal_error c e k)
        · rintro (⟨h, _⟩ | ⟨_, _, h, _⟩)
          · exact absurd h hv
          · exact absurd h hk

/-- the repairs are conservative: wherever the pinned code returned or refused, the repaired code does the same -/
theorem fix_conservative (c : Config) (e : Env) (h : ∀ k, outcomeWith Rev.pinned c e ≠ .error (.internal k)) :
    outcome c e = outcomeWith Rev.pinned c e := by
  have h' := h
  rw [outcomeWith_pinned] at h' ⊢
  by_cases hv : c.pmvol = .foa3
  · exact absurd (by simp [hv]) (h' "AttributeError")
  · by_cases hn : c.pmnvol = .foa3
    · rcases outcome_cases c e with ⟨_, h2⟩ | ⟨h1, _⟩ | ⟨h1, _⟩
      · simp [hv, hn, h2]
      · exact absurd hn h1
      · exact absurd hn h1
    · by_cases hk : (c.apu && e.hasApu && e.apuRunning && !c.sox) = true
      · exact absurd (by simp only [hv, hn, hk, if_false, if_true]) (h' "KeyError")
      · rw [if_neg hv, if_neg hn, if_neg hk]

/-! ## The refusal sites of the SOURCE (`Gen.dispatchSites`, regenerated from `emissions/trajectory.py` / `lto.py` on every run) -/

/-- documented values of a method option (from the regenerated option value sets) -/
def documentedValues (option : String) : List String :=
  if option = "nox_method" ∨ option = "hc_method" ∨ option = "co_method" then Gen.Options.einoxMethodValues
  else if option = "pmvol_method" then Gen.Options.pmvolMethodValues
  else if option = "pmnvol_method" then Gen.Options.pmnvolMethodValues
  else []

open Aeic.Refusals in
/-- **every refusal of the source names the option it dispatches on, and no other** (the error that says "method X is not
    supported" is built from the option whose value selected the refusing branch) — decided by the kernel on the regenerated
    sites; there is at least one site per PM option and for NOx -/
theorem src_refusals_name_their_option :
    Gen.dispatchSites.all namesOwnOption = true ∧
    (["nox_method", "pmvol_method", "pmnvol_method"].all fun o => Gen.dispatchSites.any (fun s => s.option == o)) = true := by
  decide

open Aeic.Refusals in
/-- **which documented values reach a refusal**: the only documented method value that some dispatch site of the source does not
    handle is `pmnvol_method = foa3` (on the trajectory side) — exactly the method refusal of the model (`outcome_classification`:
    a configuration is refused by method name iff `pmnvol = foa3`) -/
theorem src_unhandled_documented_values :
    (Gen.dispatchSites.flatMap fun s => (unhandled (documentedValues s.option) s).map fun v => (s.option, v))
      = [("pmnvol_method", "foa3")] := by
  decide

/-- … so the model's method refusals and the source's reachable refusals are the same set -/
theorem src_method_refusals_are_model (c : Config) (e : Env) (o v : String) (h : outcome c e = .error (.refused o v)) :
    (o, v) ∈ (Gen.dispatchSites.flatMap fun s => (Aeic.Refusals.unhandled (documentedValues s.option) s).map fun v => (s.option, v))
      ∨ o = "lifecycle_enabled" := by
  rw [src_unhandled_documented_values]
  rcases outcome_cases c e with ⟨h1, h2⟩ | ⟨_, _, h2⟩ | ⟨_, _, inv, h2, _⟩
  · rw [h2] at h
    injection h with h; injection h with ho hv
    left; simp [← ho, ← hv]
  · rw [h2] at h
    injection h with h; injection h with ho hv
    right; exact ho.symm
  · rw [h2] at h; cases h

end C11
