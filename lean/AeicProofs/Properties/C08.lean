/-
  C08 — Lookup by flight identifier returns exactly the matching trajectory.
  Single-file and in-memory stores: model `AeicModel/Store.lean` (lazy re-index flag, sorted (id, index) table, bisect).
  Merged stores: model `AeicModel/Merge.lean` (per-store offsets), second half of this file.
-/
import AeicProofs.Lemmas.StoreMain
import AeicProofs.Lemmas.MergeRead
import AeicModel.FlightLookup

namespace C08
open Aeic.Store

/-- **Refinement.** For every history (any insertion order of identifiers, lookups immediately after additions and
    before any sync, append sessions, reopening, any cache size) `get_flight` answers exactly like the dictionary
    specification: `specStep … (.getFlight id)` is `find?` over the trajectories added so far. -/
theorem get_flight_refines_dict (ops : List Op) : run World.init ops = specRun Spec.init ops := by
  rw [run_refines ops World.init init_inv, abs_init]

/-- the specification's lookup is a dictionary lookup: it returns an added trajectory carrying that identifier… -/
theorem spec_lookup_found (sp : Spec) (s : SpecSess) (fs : Nat) (id : Int) (it : Item)
    (hs : sp.sess = some s) (hsch : s.schema = some (fs, true))
    (hfind : (sp.items s).find? (fun x => x.fid = some id) = some it) (hfit : tooLarge s it = false) :
    specStep sp (.getFlight id) = (sp, .item it) ∧ it ∈ sp.items s ∧ it.fid = some id := by
  refine ⟨by simp [specStep, hs, hsch, hfind, hfit], List.mem_of_find?_eq_some hfind, ?_⟩
  have := List.find?_some hfind
  simpa using this

/-- …and an identifier that was never added returns nothing -/
theorem spec_lookup_absent (sp : Spec) (s : SpecSess) (fs : Nat) (id : Int)
    (hs : sp.sess = some s) (hsch : s.schema = some (fs, true))
    (habs : ∀ x ∈ sp.items s, x.fid ≠ some id) :
    specStep sp (.getFlight id) = (sp, .none) := by
  have : (sp.items s).find? (fun x => x.fid = some id) = none := by
    apply List.find?_eq_none.mpr
    intro x hx; simpa using habs x hx
  simp [specStep, hs, hsch, this]

/-- with distinct identifiers the trajectory found is *the* trajectory that was added with that identifier -/
theorem distinct_ids_unique (items : List Item) (id : Int) (it : Item)
    (hdist : items.Pairwise (fun a b => a.fid ≠ b.fid)) (hmem : it ∈ items) (hid : it.fid = some id) :
    items.find? (fun x => x.fid = some id) = some it := by
  induction items with
  | nil => cases hmem
  | cons a rest ih =>
    rw [List.pairwise_cons] at hdist
    rcases List.mem_cons.mp hmem with h | h
    · subst h; simp [hid]
    · have hne : a.fid ≠ some id := by
        intro hc; exact hdist.1 it h (by rw [hc, hid])
      simp only [List.find?_cons, hne, decide_false]
      exact ih hdist.2 h

/-- the sorted (id, index) table with binary search finds the first trajectory carrying the identifier, or nothing -/
theorem bisect_sorted_finds (items : List Item) (id : Int) (hall : ∀ it ∈ items, it.fid.isSome = true) :
    match lookupIndex (buildIndex items) id with
    | none => items.find? (fun it => it.fid = some id) = none
    | some k => ∃ it, items[k]? = some it ∧ items.find? (fun it => it.fid = some id) = some it :=
  lookup_find items id hall

/-- a store is either fully identified or not at all: in every reachable state every stored trajectory carries an
    identifier iff the file has an index -/
theorem all_or_none_identified (ops : List Op) :
    let w := finalWorld World.init ops
    ∀ it ∈ w.disk.items, it.fid.isSome = w.disk.hasIndex := by
  intro w it hit
  exact ((reachable_inv ops).disk.uniform it hit).2

/-- non-vacuity: unsorted identifiers, lookup right after the additions (no sync), in an append session and after reopening -/
example : run World.init
    [.create true 1, .add ⟨0, 8, some 30, 0, true⟩, .add ⟨1, 8, some 10, 0, true⟩, .getFlight 10, .getFlight 11,
     .openAppend 1, .add ⟨2, 8, some 20, 0, true⟩, .getFlight 30, .getFlight 20, .openRead 1, .getFlight 20] =
    [.ok, .idx 0, .idx 1, .item ⟨1, 8, some 10, 0, true⟩, .none, .ok, .idx 2, .item ⟨0, 8, some 30, 0, true⟩,
     .item ⟨2, 8, some 20, 0, true⟩, .ok, .item ⟨2, 8, some 20, 0, true⟩] := by decide


/-! ### merged stores -/
open Aeic.Merge

/-- in a merged store (per-store index tables shifted by the number of trajectories in the preceding stores, one sort,
    binary search, then the cumulative-count read) looking up an identifier returns the trajectory of the concatenation
    that carries it, and nothing for an identifier that was never added — for any number and sizes of input stores -/
theorem merged_lookup_is_dictionary (files : List (List Item)) (id : Int)
    (hall : ∀ it ∈ files.flatten, it.fid.isSome = true) :
    mergedGetFlight files id = files.flatten.find? (fun it => it.fid = some id) :=
  mergedGetFlight_find files id hall

example : mergedGetFlight [[⟨0, 1, some 30, 0, true⟩, ⟨1, 1, some 10, 0, true⟩], [], [⟨2, 1, some 20, 0, true⟩]] 20
    = some ⟨2, 1, some 20, 0, true⟩ := by decide

/-! ### the lookup of the SOURCE (`Gen.fl*`, regenerated from `trajectories/store.py` on every run) -/

/-- what the translator read from `get_flight`, `_reindex` and `_create_merged_store_index`: `bisect_left` on the identifiers, both
    guards (past the end, other identifier), the trajectory index read at the same position — decided by the kernel on the
    regenerated parameters. (That the tables are sorted stably by identifier, with merged tables shifted by the running
    trajectory count, is validated on real stores whichever way the source builds them: `c08.trace_get_flight`.) -/
theorem src_flight_lookup_parameters :
    Aeic.Gen.flBisectLeft = true ∧ Aeic.Gen.flGuardEq = true ∧ Aeic.Gen.flShift = 0 ∧ Aeic.Gen.flGuardLen = true := by
  decide

/-- with `bisect_left`, the equality guard and no offset, the parametrised lookup is the model's `lookupIndex` (with or without
    the length guard: past the end there is no entry either way) -/
theorem lookupWith_eq (guardLen : Bool) (tbl : List (Int × Nat)) (id : Int) :
    lookupWith true guardLen true 0 tbl id = lookupIndex tbl id := by
  unfold lookupWith lookupIndex
  simp only [if_true, Bool.true_and, Int.add_zero]
  by_cases hk : tbl.length ≤ bisectLeftIds id tbl
  · have hn : tbl[bisectLeftIds id tbl]? = none := List.getElem?_eq_none hk
    cases guardLen <;> simp [hk, hn]
  · have hlt : bisectLeftIds id tbl < tbl.length := by omega
    have hs : tbl[bisectLeftIds id tbl]? = some tbl[bisectLeftIds id tbl] := List.getElem?_eq_getElem hlt
    cases guardLen <;> simp [hk, hs] <;> (split_ifs <;> first | rfl | omega | simp_all)

/-- the flight-identifier lookup as the working tree has it IS the model's lookup … -/
theorem src_lookup_is_model (tbl : List (Int × Nat)) (id : Int) : lookupSrc tbl id = lookupIndex tbl id := by
  unfold lookupSrc
  rw [src_flight_lookup_parameters.1, src_flight_lookup_parameters.2.1, src_flight_lookup_parameters.2.2.1]
  exact lookupWith_eq _ tbl id

/-- … **so `get_flight` through the arithmetic of the source finds the first trajectory added with that identifier**, for every
    store content in which all trajectories are identified (`bisect_sorted_finds` for the source), and the same across the parts
    of a merged store (`merged_lookup_is_dictionary`) -/
theorem src_bisect_sorted_finds (items : List Item) (id : Int) (hall : ∀ it ∈ items, it.fid.isSome = true) :
    match lookupSrc (buildIndex items) id with
    | none => items.find? (fun it => it.fid = some id) = none
    | some k => ∃ it, items[k]? = some it ∧ items.find? (fun it => it.fid = some id) = some it := by
  rw [src_lookup_is_model]; exact bisect_sorted_finds items id hall

/-- the parameters matter: with `bisect_right` an identifier that is present is not found — kernel-checked witness -/
example : lookupWith false true true 0 [(3, 0), (5, 1), (9, 2)] 5 = none ∧ lookupIndex [(3, 0), (5, 1), (9, 2)] 5 = some 1 := by
  decide

end C08
