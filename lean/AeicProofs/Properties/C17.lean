/-
  C17 — Each simulated flight is independent of the builder's history and failures.

  Model: `Aeic.Builder.fly` (state machine over the builder object, `AeicModel/Builder.lean`), for an
  arbitrary mission semantics `MissionSem` (context constructor, starting-mass calculation and flight
  iteration are arbitrary partial functions) and arbitrary options.  `flyAsIs` is the code as found.
-/
import AeicProofs.RealInst
import AeicProofs.Lemmas.C17Attrs
import AeicProofs.Lemmas.C17Iterate
import AeicProofs.Lemmas.KernelBridge3
import AeicModel.Builder

namespace C17
open Aeic Aeic.Builder

variable {κ τ : Type}

/-- The outcome of a flight does not depend on the state the builder is in. -/
theorem fly_result_state_independent (o : Opts ℝ) (b b' : BState) (m : MissionSem ℝ κ τ) :
    (fly o b m).2 = (fly o b' m).2 := by
  unfold fly; cases m.ctor <;> rfl

/-- Flying a mission after *any* history of successful and failing flights on the same builder gives
    exactly what a brand-new builder gives. -/
theorem fly_result_history_independent (o : Opts ℝ) (hist : List (MissionSem ℝ κ τ)) (m : MissionSem ℝ κ τ) :
    (fly o (runAll o BState.init hist) m).2 = (fly o BState.init m).2 :=
  fly_result_state_independent o _ _ m

example : (fly (κ := Unit) (τ := Unit) ⟨false, false, 5, 0.01⟩ BState.init
    ⟨.error .unknownAirport, none, fun _ => .error .envelope, fun _ _ _ => .error .envelope⟩).2
    = .error .unknownAirport := rfl

/-- One flight leaves no context behind, whatever happened in it. -/
theorem fly_post_state_clean (o : Opts ℝ) (b : BState) (m : MissionSem ℝ κ τ) (hb : b.hasCtx = false) :
    (fly o b m).1.hasCtx = false := by
  unfold fly; cases m.ctor <;> simp [hb]

/-- After any history the builder holds no context: it is as usable as a new one. -/
theorem post_state_clean (o : Opts ℝ) (hist : List (MissionSem ℝ κ τ)) :
    (runAll o BState.init hist).hasCtx = false := by
  suffices h : ∀ b : BState, b.hasCtx = false → (runAll o b hist).hasCtx = false from h _ rfl
  induction hist with
  | nil => intro b hb; exact hb
  | cons m ms ih => intro b hb; exact ih _ (fly_post_state_clean o b m hb)

/-- With mass iteration, whatever `max_mass_iters` is: a returned trajectory is the one flown at the
    returned (starting mass, trip fuel) and its relative leftover fuel is within the tolerance. -/
theorem iterate_mass_sound (flyIt : ℝ → ℝ → Except Err (τ × ℝ)) (tol : ℝ) (maxIters : ℕ) (sm tfm : ℝ)
    (t : τ) (sm' tfm' : ℝ) (h : iterateMass flyIt tol maxIters sm tfm = .ok (t, sm', tfm')) :
    ∃ res, flyIt sm' tfm' = .ok (t, res) ∧ |res| < tol := by
  unfold iterateMass at h
  cases hf : flyIt sm tfm with
  | error e => rw [hf] at h; cases h
  | ok r => rw [hf] at h; exact iterLoop_sound flyIt tol _ _ _ _ _ _ _ hf h

/-- …and otherwise it reports non-convergence or the failure of one of its iterations. -/
theorem iterate_mass_error (flyIt : ℝ → ℝ → Except Err (τ × ℝ)) (tol : ℝ) (maxIters : ℕ) (sm tfm : ℝ)
    (e : Err) (h : iterateMass flyIt tol maxIters sm tfm = .error e) :
    e = .nonConvergence ∨ ∃ sm' tfm', flyIt sm' tfm' = .error e := by
  unfold iterateMass at h
  cases hf : flyIt sm tfm with
  | error e' => rw [hf] at h; cases h; exact Or.inr ⟨_, _, hf⟩
  | ok r => rw [hf] at h; exact iterLoop_error flyIt tol e _ _ _ _ h

example : iterateMass (τ := Unit) (fun _ _ => .ok ((), (0.001 : ℝ))) 0.01 5 70000 9000
    = .ok ((), 70000, 9000) := by
  simp [iterateMass, iterLoop, sabs]; norm_num

/-- A mission refused by the context constructor (unknown airport, airport above cruise level, missing
    weather directory) surfaces exactly that refusal, in every builder state. -/
theorem ctor_failure_surfaces (o : Opts ℝ) (b : BState) (m : MissionSem ℝ κ τ) (e : Err)
    (h : m.ctor = .error e) : (fly o b m).2 = .error e ∧ (fly o b m).1 = b := by
  unfold fly; rw [h]; exact ⟨rfl, rfl⟩

/-- Every error `fly` returns is the one raised by a stage of this very flight (constructor, starting-mass
    calculation, an iteration), or one of the builder's own documented refusals. -/
theorem failure_surfaces_original_reason (o : Opts ℝ) (b : BState) (m : MissionSem ℝ κ τ) (e : Err)
    (h : (fly o b m).2 = .error e) :
    m.ctor = .error e ∨
    (∃ c, m.ctor = .ok c ∧
      (m.calcMass c = .error e ∨ (∃ sm tfm, m.flyIt c sm tfm = .error e) ∨
       e = .nonConvergence ∨ e = .notImplemented ∨ (e = .noFuelLoad ∧ m.givenMass.isSome))) := by
  unfold fly at h
  cases hc : m.ctor with
  | error e' => rw [hc] at h; cases h; exact Or.inl rfl
  | ok c =>
    rw [hc] at h
    refine Or.inr ⟨c, rfl, ?_⟩
    simp only [flyBody] at h
    cases hg : m.givenMass with
    | some g =>
      rw [hg] at h
      split_ifs at h <;> cases h
      · exact Or.inr (Or.inr (Or.inr (Or.inl rfl)))
      · exact Or.inr (Or.inr (Or.inr (Or.inr ⟨rfl, rfl⟩)))
      · exact Or.inr (Or.inr (Or.inr (Or.inr ⟨rfl, rfl⟩)))
    | none =>
      rw [hg] at h
      cases hm : m.calcMass c with
      | error e' => rw [hm] at h; cases h; exact Or.inl rfl
      | ok p =>
        obtain ⟨sm, tfm⟩ := p
        rw [hm] at h
        simp only at h
        split_ifs at h with h1 h2
        · cases h; exact Or.inr (Or.inr (Or.inr (Or.inl rfl)))
        · cases hi : iterateMass (m.flyIt c) o.tol o.maxIters sm tfm with
          | error e' =>
            rw [hi] at h; cases h
            rcases iterate_mass_error _ _ _ _ _ _ hi with h3 | ⟨a, b', h3⟩
            · exact Or.inr (Or.inr (Or.inl h3))
            · exact Or.inr (Or.inl ⟨a, b', h3⟩)
          | ok r => rw [hi] at h; obtain ⟨t, a, b'⟩ := r; cases h
        · cases hf : m.flyIt c sm tfm with
          | error e' => rw [hf] at h; cases h; exact Or.inr (Or.inl ⟨_, _, hf⟩)
          | ok r => rw [hf] at h; obtain ⟨t, a⟩ := r; cases h

/-- A returned flight with mass iteration on is within tolerance (the `fly`-level reading of
    `iterate_mass_sound`). -/
theorem fly_iterated_within_tolerance (o : Opts ℝ) (b : BState) (m : MissionSem ℝ κ τ) (r : Res ℝ τ)
    (hit : o.iterate = true) (h : (fly o b m).2 = .ok r) :
    ∃ c res, m.ctor = .ok c ∧ m.flyIt c r.startingMass r.totalFuel = .ok (r.traj, res) ∧ |res| < o.tol := by
  unfold fly at h
  cases hc : m.ctor with
  | error e' => rw [hc] at h; cases h
  | ok c =>
    rw [hc] at h
    simp only [flyBody] at h
    cases hg : m.givenMass with
    | some g => rw [hg] at h; split_ifs at h
    | none =>
      rw [hg] at h
      cases hm : m.calcMass c with
      | error e' => rw [hm] at h; cases h
      | ok p =>
        obtain ⟨sm, tfm⟩ := p
        rw [hm] at h
        simp only [hit] at h
        split_ifs at h
        cases hi : iterateMass (m.flyIt c) o.tol o.maxIters sm tfm with
        | error e' => rw [hi] at h; cases h
        | ok q =>
          obtain ⟨t, a, b'⟩ := q
          rw [hi] at h; cases h
          obtain ⟨res, h1, h2⟩ := iterate_mass_sound _ _ _ _ _ _ _ _ hi
          exact ⟨c, res, rfl, h1, h2⟩

/-- The code as found: a constructor failure on a builder without context is replaced by the
    AttributeError of `del self.ctx` — the original reason is lost (negation witness, replayed against
    the implementation by the harness; repaired by the `fix:` commit that `fly` models). -/
theorem ctor_failure_masked_as_found (o : Opts ℝ) (m : MissionSem ℝ κ τ) (e : Err) (h : m.ctor = .error e) :
    (flyAsIs o BState.init m).2 = .error .attributeError := by
  unfold flyAsIs; rw [h]; rfl

/-- Open finding C17-given-starting-mass, as-is model: a caller-supplied starting mass is always
    refused with the internal TypeError (`total_fuel_mass` is never set), whatever the mission. -/
theorem given_mass_refused_as_found (o : Opts ℝ) (b : BState) (m : MissionSem ℝ κ τ) (c : κ) (g : ℝ)
    (hc : m.ctor = .ok c) (hg : m.givenMass = some g) (ho : o.optimize = false) :
    (fly o b m).2 = .error .noFuelLoad := by
  unfold fly; rw [hc]; simp [flyBody, hg, ho]

/-! ### attribute routing (`__getattr__` / `__setattr__`) -/

/-- read-your-writes through the builder: holds as long as no name lives in both dictionaries -/
theorem getattr_setattr {ν : Type} (o : Obj ν) (hd : Disjoint o) (name : String) (v : ν) :
    (o.setattr name v).getattr name = some v := by
  unfold Obj.setattr
  cases hc : o.ctx with
  | none => simp [Obj.getattr, lookup_setKey_self]
  | some c =>
    simp only
    split_ifs with h
    · have hnd : o.dict.lookup name = none := by
        cases hl : o.dict.lookup name with
        | none => rfl
        | some x => exact absurd (hd c hc name (by simp [hl]) h) id
      simp [Obj.getattr, hnd, lookup_setKey_self]
    · simp [Obj.getattr, lookup_setKey_self]

/-- writing through the builder never creates a name that lives in both dictionaries -/
theorem setattr_keeps_disjoint {ν : Type} (o : Obj ν) (hd : Disjoint o) (name : String) (v : ν) :
    Disjoint (o.setattr name v) := by
  unfold Obj.setattr
  cases hc : o.ctx with
  | none => intro c h; simp at h
  | some c =>
    simp only
    split_ifs with h
    · intro c' hc' n h1 h2
      simp only [Option.some.injEq] at hc'
      subst hc'
      by_cases hn : n = name
      · subst hn
        exact hd c hc n h1 h
      · rw [lookup_setKey_other _ _ _ _ hn] at h2
        exact hd c hc n h1 h2
    · intro c' hc' n h1 h2
      simp only [Option.some.injEq] at hc'
      subst hc'
      by_cases hn : n = name
      · subst hn; exact h h2
      · simp only at h1
        rw [lookup_setKey_other _ _ _ _ hn] at h1
        exact hd _ hc n h1 h2

/-- a context attribute that the builder does not shadow reads the context's value -/
theorem getattr_ctx_field {ν : Type} (o : Obj ν) (c : List (String × ν)) (hc : o.ctx = some c) (name : String)
    (hn : o.dict.lookup name = none) : o.getattr name = c.lookup name := by
  simp [Obj.getattr, hn, hc]

example : Disjoint (⟨[("options", 0)], some [("starting_mass", 1)]⟩ : Obj Nat) := by
  intro c hc n h1 h2
  simp only [Option.some.injEq] at hc
  subst hc
  simp only [List.lookup] at h1 h2
  split at h1 <;> split at h2 <;> simp_all

/-! ## Source tie: the residual of one flight iteration and the correction of one pass of the mass-iteration loop, regenerated
    from `trajectories/builders/base.py` (`Aeic.Kern.iter_mass_residual`, `iter_correct_*`; the `while` loop of `_iterate_mass` is
    read in loop mode: one pass from an arbitrary loop state) -/

/-- the correction of the source takes the same amount from the starting mass and from the trip fuel: the dry mass
    (starting mass − trip fuel) is the same for every iterate — for every state and every residual -/
theorem src_mass_correction_keeps_dry_mass (A : String → ℝ) (res : ℝ) :
    Kern.iter_correct_starting_mass A res - Kern.iter_correct_total_fuel_mass A res
      = A "self.starting_mass" - A "self.total_fuel_mass" := by
  simp only [Kern.iter_correct_starting_mass, Kern.iter_correct_total_fuel_mass]; ring

/-- the residual of the source is the leftover trip fuel relative to the trip fuel: it is zero exactly when the flight burned the
    whole trip fuel, and `|residual| < tol` bounds the leftover by `tol · trip fuel` -/
theorem src_residual_is_relative_leftover (A : String → ℝ) (finalMass : ℝ) (h : A "self.total_fuel_mass" ≠ 0) :
    Kern.iter_mass_residual A finalMass * A "self.total_fuel_mass"
      = A "self.total_fuel_mass" - (A "self.starting_mass" - finalMass) := by
  simp only [Kern.iter_mass_residual]; field_simp

/-- … and they are the model's: the residual of `flyIteration` and the `sm − res·tfm`, `tfm − res·tfm` of `iterLoop`, about which
    `iterate_mass_sound` / `fly_iterated_within_tolerance` are proved -/
theorem src_iteration_is_model (sm tfm res finalMass : ℝ) :
    Kern.iter_mass_residual (KernelBridge3.iterEnv sm tfm) finalMass = (tfm - (sm - finalMass)) / tfm ∧
    Kern.iter_correct_starting_mass (KernelBridge3.iterEnv sm tfm) res = sm - res * tfm ∧
    Kern.iter_correct_total_fuel_mass (KernelBridge3.iterEnv sm tfm) res = tfm - res * tfm :=
  KernelBridge3.iterate_mass sm tfm res finalMass

end C17
