/-
  C20 — Trajectory stores are confined to a single thread under every interleaving.
  Model: `AeicModel/ThreadGuard.lean` — one instruction per traced source line of the guard, arbitrary number of threads,
  schedule = arbitrary list of thread numbers (a blocked or finished thread's turn is a no-op).
-/
import AeicProofs.Lemmas.ThreadGuard
import AeicProofs.Lemmas.GuardLang
import AeicModel.Generated.Guard

namespace C20
open Aeic.ThreadGuard

/-- **Mutual exclusion.** Under every line-level interleaving (schedule of any length, any number of racing threads) at most
    one thread's constructor passes the guard. Proved by an inductive invariant, not by enumeration. -/
theorem mutual_exclusion (sched : List Nat) (t u : Nat)
    (ht : (run (G.init true) sched).pc t = .done true) (hu : (run (G.init true) sched).pc u = .done true) : t = u := by
  have h := run_safe sched _ init_safe
  have h1 := h.own t (Or.inl ht)
  have h2 := h.own u (Or.inl hu)
  rw [h1] at h2
  cases h2; rfl

/-- the thread that passed is the recorded owner, so every other thread is refused from then on (also after the first
    thread has closed its store: closing does not clear the record) -/
theorem winner_is_owner (sched : List Nat) (t : Nat) (ht : (run (G.init true) sched).pc t = .done true) :
    (run (G.init true) sched).owner = some t :=
  (run_safe sched _ init_safe).own t (Or.inl ht)

/-- a later attempt from another thread, run without interference, is refused (7 traced lines) … -/
theorem later_thread_refused (g : G) (t u : Nat) (hs : g.locked = true) (ho : g.owner = some t) (hl : g.lock = none)
    (hne : u ≠ t) (hpc : g.pc u = .acquire) :
    (run g [u, u, u, u, u, u, u]).pc u = .done false := by
  have hne' : ¬ (some t = some u) := by intro hc; cases hc; exact hne rfl
  simp [run, step, hpc, hl, ho, setPc, hs, hne']

/-- … while the owning thread may construct further stores (4 traced lines) -/
theorem same_thread_again_allowed (g : G) (t : Nat) (hs : g.locked = true) (ho : g.owner = some t) (hl : g.lock = none)
    (hpc : g.pc t = .acquire) : (run g [t, t, t, t]).pc t = .done true := by
  simp [run, step, hpc, hl, ho, setPc, hs]

/-- mutual exclusion also holds across repeated constructor calls by any thread (`again` = a finished thread calls the
    constructor once more), i.e. for every history of calls and every interleaving of their lines -/
theorem mutual_exclusion_repeated (acts : List (Bool × Nat)) (t u : Nat) :
    let g := acts.foldl (fun g a => if a.1 then again g a.2 else step g a.2) (G.init true)
    g.pc t = .done true → g.pc u = .done true → t = u := by
  have key : ∀ (acts : List (Bool × Nat)) (g1 : G), Safe g1 →
      Safe (acts.foldl (fun g a => if a.1 then again g a.2 else step g a.2) g1) := by
    intro acts
    induction acts with
    | nil => intro g1 h; exact h
    | cons a rest ih =>
      intro g1 h
      simp only [List.foldl_cons]
      apply ih
      by_cases ha : a.1 = true
      · rw [if_pos ha]; exact again_safe _ _ h
      · rw [if_neg ha]; exact step_safe _ _ h
  intro g ht hu
  have h : Safe g := key acts _ init_safe
  have h1 := h.own t (Or.inl ht)
  have h2 := h.own u (Or.inl hu)
  rw [h1] at h2; cases h2; rfl

/-- the original check-then-set guard (no lock): the interleaving `0,1,0,1` lets both constructors succeed -/
theorem race_witness :
    (run (G.init false) [0, 1, 0, 1]).pc 0 = .done true ∧ (run (G.init false) [0, 1, 0, 1]).pc 1 = .done true := by
  decide

/-- with the lock the same interleaving admits exactly one -/
example : (run (G.init true) [0, 1, 0, 1, 0, 0, 1, 1, 1, 1, 1, 1, 1, 1]).pc 0 = .done true ∧
    (run (G.init true) [0, 1, 0, 1, 0, 0, 1, 1, 1, 1, 1, 1, 1, 1]).pc 1 = .done false := by decide


/-! ### the guard as the translator reads it from the source, re-checked on every build -/
open Aeic.GuardLang in
/-- **Mutual exclusion for the guard program regenerated from `store.py`.** For the statements the translator extracts
    from `TrajectoryStore.__init__` (`Aeic.Gen.guardProgram`), compiled to instructions, no interleaving of two racing
    threads — schedule of any length — ends with both constructors succeeding. The kernel computes the set of reachable
    states, checks that it is closed under both threads' steps and contains no bad state; `safe_of_closed` lifts that to all
    schedules. (If the source is changed so that the race is possible again, this theorem no longer checks.) -/
theorem generated_guard_mutual_exclusion (sched : List Bool) :
    bothOk (compile Aeic.Gen.guardProgram) (run (compile Aeic.Gen.guardProgram) S.init sched) = false :=
  safe_of_closed _ (reach (compile Aeic.Gen.guardProgram) 400 [S.init]) (by decide +kernel) (by decide +kernel)
    (by decide +kernel) sched

open Aeic.GuardLang in
/-- the same pipeline on the original, unlocked guard finds the race (so the check above is not vacuous) -/
theorem unlocked_guard_race_reachable :
    (reach (compile [.ifOwnerSet [.ifOwnerNotMe [.raise] []] [.setOwnerMe]]) 400 [S.init]).any
      (bothOk (compile [.ifOwnerSet [.ifOwnerNotMe [.raise] []] [.setOwnerMe]])) = true := by decide +kernel

end C20
