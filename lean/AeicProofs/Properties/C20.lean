/-
  C20 — Trajectory stores are confined to a single thread under every interleaving.
  Model: `AeicModel/ThreadGuard.lean` — one instruction per traced source line of the guard, arbitrary number of threads,
  schedule = arbitrary list of thread numbers (a blocked or finished thread's turn is a no-op).
-/
import AeicProofs.Lemmas.ThreadGuard
import AeicProofs.Lemmas.GuardLang
import AeicModel.Generated.Guard
import AeicModel.Generated.GuardReach

namespace C20
open Aeic.ThreadGuard

/-- **Mutual exclusion.** Under every line-level interleaving (schedule of any length, any number of racing threads) at most
    one thread's constructor passes the guard. Proved by an inductive invariant, not by enumeration. -/
theorem mutual_exclusion (sched : List Nat) (t u : Nat)
    (ht : (run (G.init true) sched).pc t = .done true) (hu : (run (G.init true) sched).pc u = .done true) : t = u := by
  have h := run_safe sched _ init_safe
  have h1 := h.own t (Or.inl ht)
  have h2 := h.own u (Or.inl hu)
  rw [h1] at h2
  cases h2; rfl

/-- the thread that passed is the recorded owner, so every other thread is refused from then on (also after the first
    thread has closed its store: closing does not clear the record) -/
theorem winner_is_owner (sched : List Nat) (t : Nat) (ht : (run (G.init true) sched).pc t = .done true) :
    (run (G.init true) sched).owner = some t :=
  (run_safe sched _ init_safe).own t (Or.inl ht)

/-- a later attempt from another thread, run without interference, is refused (7 traced lines) … -/
theorem later_thread_refused (g : G) (t u : Nat) (hs : g.locked = true) (ho : g.owner = some t) (hl : g.lock = none)
    (hne : u ≠ t) (hpc : g.pc u = .acquire) :
    (run g [u, u, u, u, u, u, u]).pc u = .done false := by
  have hne' : ¬ (some t = some u) := by intro hc; cases hc; exact hne rfl
  simp [run, step, hpc, hl, ho, setPc, hs, hne']

/-- … while the owning thread may construct further stores (4 traced lines) -/
theorem same_thread_again_allowed (g : G) (t : Nat) (hs : g.locked = true) (ho : g.owner = some t) (hl : g.lock = none)
    (hpc : g.pc t = .acquire) : (run g [t, t, t, t]).pc t = .done true := by
  simp [run, step, hpc, hl, ho, setPc, hs]

/-- mutual exclusion also holds across repeated constructor calls by any thread (`again` = a finished thread calls the
    constructor once more), i.e. for every history of calls and every interleaving of their lines -/
theorem mutual_exclusion_repeated (acts : List (Bool × Nat)) (t u : Nat) :
    let g := acts.foldl (fun g a => if a.1 then again g a.2 else step g a.2) (G.init true)
    g.pc t = .done true → g.pc u = .done true → t = u := by
  have key : ∀ (acts : List (Bool × Nat)) (g1 : G), Safe g1 →
      Safe (acts.foldl (fun g a => if a.1 then again g a.2 else step g a.2) g1) := by
    intro acts
    induction acts with
    | nil => intro g1 h; exact h
    | cons a rest ih =>
      intro g1 h
      simp only [List.foldl_cons]
      apply ih
      by_cases ha : a.1 = true
      · rw [if_pos ha]; exact again_safe _ _ h
      · rw [if_neg ha]; exact step_safe _ _ h
  intro g ht hu
  have h : Safe g := key acts _ init_safe
  have h1 := h.own t (Or.inl ht)
  have h2 := h.own u (Or.inl hu)
  rw [h1] at h2; cases h2; rfl

/-- the original check-then-set guard (no lock): the interleaving `0,1,0,1` lets both constructors succeed -/
theorem race_witness :
    (run (G.init false) [0, 1, 0, 1]).pc 0 = .done true ∧ (run (G.init false) [0, 1, 0, 1]).pc 1 = .done true := by
  decide

/-- with the lock the same interleaving admits exactly one -/
example : (run (G.init true) [0, 1, 0, 1, 0, 0, 1, 1, 1, 1, 1, 1, 1, 1]).pc 0 = .done true ∧
    (run (G.init true) [0, 1, 0, 1, 0, 0, 1, 1, 1, 1, 1, 1, 1, 1]).pc 1 = .done false := by decide


/-! ### the ownership code as the translator reads it from the source, re-checked on every build -/
open Aeic.GuardLang in
/-- **Mutual exclusion for the ownership code regenerated from `store.py`.** For the statements the translator extracts
    from `TrajectoryStore.__init__` and the helpers it calls (`Aeic.Gen.guardProgram`), compiled to instructions: under no
    interleaving of two threads — a schedule of any length, at the granularity of single shared-memory accesses, in which
    each thread may call the constructor any number of times and any call may fail after the guard — do both threads ever
    have a successful constructor call. `Aeic.Gen.guardReach` is a candidate invariant computed by an untrusted search;
    the kernel checks that it contains the initial state, is closed under every step of either thread (with either choice
    bit) and contains no bad state; `safe_of_closed` lifts that to all schedules. If the source is changed so that two
    threads can both obtain a store, this theorem no longer checks. -/
theorem generated_guard_mutual_exclusion (sched : List Act) :
    bothOk (run (compile Aeic.Gen.guardProgram) S.init sched) = false :=
  safe_of_closed _ Aeic.Gen.guardReach (by decide +kernel) (by decide +kernel) (by decide +kernel) sched

open Aeic.GuardLang in
/-- in particular the first race: two threads each running the constructor once never both reach its successful end -/
theorem generated_guard_first_race (sched : List Act) :
    ((run (compile Aeic.Gen.guardProgram) S.init sched).has0 &&
      (run (compile Aeic.Gen.guardProgram) S.init sched).has1) = false :=
  generated_guard_mutual_exclusion sched

namespace Witness
open Aeic.GuardLang

/-- the original guard (check, then claim, no lock) -/
def unlocked : List GStmt :=
  [.readOwner 0, .ite (.not (.isNone (.loc 0))) [.readOwner 1, .ite (.not (.eq (.loc 1) .me)) [.raise] []] [.setOwner .me],
   .choice [] [.raise]]

/-- the locked guard followed by an error path that gives the claim back when opening a file fails -/
def releasing : List GStmt :=
  [.withLock [.readOwner 0, .ite (.not (.isNone (.loc 0))) [.readOwner 1, .ite (.not (.eq (.loc 1) .me)) [.raise] []]
      [.setOwner .me]],
   .choice [.choice [] [.withLock [.readOwner 2, .ite (.eq (.loc 2) .me) [.setOwner .none] []], .raise]] [],
   .choice [] [.raise]]

end Witness

open Aeic.GuardLang in
/-- the same semantics exhibits the race of the original, unlocked guard (so the check above is not vacuous): thread 0
    reads "no owner", thread 1 reads "no owner", both claim, both succeed -/
theorem unlocked_guard_race_reachable :
    bothOk (run (compile Witness.unlocked) S.init
      [(false, false), (false, false), (true, false), (false, false), (false, false), (false, false), (false, false),
       (true, false), (true, false), (true, false), (true, false), (true, false)]) = true := by decide +kernel

open Aeic.GuardLang in
/-- … and the history-dependent failure of an error path that releases the claim: thread 0 constructs a store, calls the
    constructor again, the open fails and the handler clears the owner; thread 1 then constructs a store too -/
theorem released_claim_race_reachable :
    bothOk (run (compile Witness.releasing) S.init
      [(false, false), (false, false), (false, false), (false, false), (false, false), (false, true), (false, false),
       (false, false), (false, false), (false, false), (false, false), (false, false), (false, false), (false, false),
       (false, false), (false, false), (false, false), (false, true), (false, false), (false, false), (false, false),
       (false, false), (false, false), (false, false), (true, false), (true, false), (true, false), (true, false),
       (true, false), (true, true), (true, false), (true, false), (true, false)]) = true := by decide +kernel

end C20
