/-
  C04 — Gridding conserves every integrated quantity.

  Model: `AeicModel/Grid.lean` (`gridTraj`, repaired rules = the code after the two `fix:` commits).
  All theorems are over ℝ, for every grid, every trajectory, every length measure `d` satisfying the stated
  hypotheses; no bound on the number of points, grid lines or variables.
-/
import AeicProofs.Lemmas.GridSum
import AeicProofs.Lemmas.GridTaxi
import AeicProofs.Lemmas.KernelBridge8

namespace C04

open Aeic Aeic.Grid

/-- The pieces of a segment's value `v` add up to `v · Σ d(pieceᵢ) / d(segment)`. -/
theorem pieces_sum (r : Rules) (d : ℝ → ℝ → ℝ → ℝ → ℝ) (glat glon : List ℝ) (s : Seg ℝ) (v : ℝ)
    (h : segDist d s ≠ 0) :
    (segValues r d glat glon s v).sum
      = v * ((chainDists d (chain glat glon s)).sum / segDist d s) := by
  rw [sum_segValues, sum_segFractions_of_ne r d glat glon s h]

/-- The excess of the gridded over the segment value is exactly `v · (Σ d(pieceᵢ)/d(segment) − 1)`. -/
theorem excess_eq (r : Rules) (d : ℝ → ℝ → ℝ → ℝ → ℝ) (glat glon : List ℝ) (s : Seg ℝ) (v : ℝ)
    (h : segDist d s ≠ 0) :
    (segValues r d glat glon s v).sum - v
      = v * ((chainDists d (chain glat glon s)).sum / segDist d s - 1) := by
  rw [pieces_sum r d glat glon s v h]; ring

/-- If the measure is additive along the segment's chain of crossing points (e.g. the exact stub measure
    on a straight map line), the pieces add up to exactly the segment's value. -/
theorem conservation_of_additive_measure (r : Rules) (d : ℝ → ℝ → ℝ → ℝ → ℝ) (glat glon : List ℝ)
    (s : Seg ℝ) (v : ℝ) (h : segDist d s ≠ 0)
    (hadd : (chainDists d (chain glat glon s)).sum = segDist d s) :
    (segValues r d glat glon s v).sum = v := by
  rw [pieces_sum r d glat glon s v h, hadd, div_self h, mul_one]

/-- For any measure obeying the triangle inequality (a metric: the geodesic distance), a non-negative value is
    never under-counted. -/
theorem never_less (r : Rules) (d : ℝ → ℝ → ℝ → ℝ → ℝ) (glat glon : List ℝ) (s : Seg ℝ) (v : ℝ)
    (tri : ∀ a b c : ℝ × ℝ, dP d a c ≤ dP d a b + dP d b c)
    (hpos : 0 < segDist d s) (hv : 0 ≤ v) :
    v ≤ (segValues r d glat glon s v).sum := by
  rw [pieces_sum r d glat glon s v hpos.ne']
  have h1 : 1 ≤ (chainDists d (chain glat glon s)).sum / segDist d s := by
    rw [le_div_iff₀ hpos]; linarith [segDist_le_sum_chainDists d tri glat glon s]
  nlinarith

/-- Repaired rule: a zero-length segment (repeated point) keeps all of its value. -/
theorem zero_length_segment (d : ℝ → ℝ → ℝ → ℝ → ℝ) (glat glon : List ℝ) (s : Seg ℝ) (v : ℝ)
    (h0 : segDist d s = 0) :
    (segValues Rules.repaired d glat glon s v).sum = v := by
  rw [sum_segValues, sum_segFractions_zero_fixed Rules.repaired rfl d glat glon s h0, mul_one]

/-- Negation witness for the code before the C04 fix: under the as-is rule *every* zero-length segment
    loses its whole value (replayed on the real code by `corpus/C04/001-zero-length-segment.json`). -/
theorem zero_length_dropped_as_is (d : ℝ → ℝ → ℝ → ℝ → ℝ) (glat glon : List ℝ) (s : Seg ℝ) (v : ℝ)
    (h0 : segDist d s = 0) :
    (segValues Rules.asIs d glat glon s v).sum = 0 := by
  rw [sum_segValues]
  unfold segFractions
  rw [h0, sum_fractions_zero_asIs Rules.asIs rfl, mul_zero]

/-- Every segment is conserved under the repaired rules as soon as the measure is additive along chains
    of non-zero length. -/
theorem segConserved_repaired (d : ℝ → ℝ → ℝ → ℝ → ℝ) (glat glon : List ℝ) (s : Seg ℝ)
    (hadd : segDist d s ≠ 0 → (chainDists d (chain glat glon s)).sum = segDist d s) :
    SegConserved Rules.repaired d glat glon s := by
  unfold SegConserved
  by_cases h : segDist d s = 0
  · exact sum_segFractions_zero_fixed Rules.repaired rfl d glat glon s h
  · rw [sum_segFractions_of_ne _ d glat glon s h, hadd h, div_self h]

/-- The two shares of the antimeridian-crossing segment add up to its value — whether the crossing segment has length or not
    (a repeated point written as +π / −π: half each). -/
theorem dateline_split_conserves (v l1 l2 : ℝ) :
    splitShare v l1 (l1 + l2) + splitShare v l2 (l1 + l2) = v := splitShare_sum v l1 l2

/-- The code as it was before the second C04 fix (`value * length / total` throughout): on a crossing segment without length
    both shares are `v * 0 / 0`, which is `NaN` in floating point and 0 over ℝ (division by zero totalised) — either way the
    value `v` is lost.  Kernel-checkable witness over ℝ; the floating-point replay is in `known_findings.json`. -/
theorem dateline_split_as_found_loses_value (v : ℝ) (hv : v ≠ 0) : v * 0 / (0 + 0) + v * 0 / (0 + 0) ≠ v := by
  simp; exact fun h => hv h.symm

/-- … and so do the integrated-variable arrays of the two parts of a split trajectory. -/
theorem split_values_conserve (pi : ℝ) (sign : Int) (idx : Nat) (latc l1 l2 : ℝ) (t : Traj ℝ)
    (v : List ℝ) (hv : v ∈ t.integ) (hidx : idx < v.length) :
    ∃ v1 ∈ (splitFirst pi sign idx latc l1 (l1 + l2) t).integ,
      ∃ v2 ∈ (splitSecond pi sign idx latc l2 (l1 + l2) t).integ, v1.sum + v2.sum = v.sum := by
  refine ⟨_, List.mem_map.2 ⟨v, hv, rfl⟩, _, List.mem_map.2 ⟨v, hv, rfl⟩, ?_⟩
  exact sum_split v idx hidx _ _ (splitShare_sum _ _ _)

/-- The gridded array of an integrated variable is the concatenation of the segments' pieces, hence its total
    is the sum of the per-segment totals. -/
theorem total_eq_sum_segments (r : Rules) (d : ℝ → ℝ → ℝ → ℝ → ℝ) (g : Grid ℝ) (t : Traj ℝ) :
    (gridPlain r d g t).integ.map List.sum = t.integ.map (fun v =>
      (((mkSegs t.lats t.lons).zip v).map (fun p => (segValues r d g.glat g.glon p.1 p.2).sum)).sum) := by
  rw [gridPlain_integ, List.map_map]
  apply List.map_congr_left
  intro v _
  simp only [Function.comp, sum_flatMap]

/-- Trajectory without antimeridian crossing: if every segment is conserved, the gridded total of every
    integrated variable equals the trajectory total. -/
theorem gridPlain_conserves (r : Rules) (d : ℝ → ℝ → ℝ → ℝ → ℝ) (g : Grid ℝ) (t : Traj ℝ)
    (hseg : ∀ s ∈ mkSegs t.lats t.lons, SegConserved r d g.glat g.glon s)
    (hv : ∀ v ∈ t.integ, v.length = (mkSegs t.lats t.lons).length) :
    (gridPlain r d g t).integ.map List.sum = t.integ.map List.sum := by
  rw [total_eq_sum_segments]
  apply List.map_congr_left
  intro v hvm
  have : (fun p : Seg ℝ × ℝ => (segValues r d g.glat g.glon p.1 p.2).sum)
      = fun p => p.2 * (segFractions r d g.glat g.glon p.1).sum := by
    funext p; exact sum_segValues r d g.glat g.glon p.1 p.2
  rw [this]
  exact sum_zip_weighted _ v _ hseg (hv v hvm)

/-- **Conservation for the whole trajectory** (`Gridder.grid_trajectory`): with at most one antimeridian
    crossing (the code's documented limit), if every segment of the trajectory — or, when it crosses, of its two
    parts — is conserved and the crossing segment has non-zero length, then the gridded total of every integrated
    variable equals the trajectory total. -/
theorem gridTraj_conserves (r : Rules) (d : ℝ → ℝ → ℝ → ℝ → ℝ) (pi : ℝ) (g : Grid ℝ) (t : Traj ℝ)
    (hcross : ((crossings pi t.lons).filter (· ≠ 0)).length ≤ 1)
    (hlen : t.lats.length = t.lons.length)
    (hv : ∀ v ∈ t.integ, v.length + 1 = t.lons.length)
    (hseg0 : ∀ s ∈ mkSegs t.lats t.lons, SegConserved r d g.glat g.glon s)
    (hseg1 : ∀ s ∈ mkSegs (splitParts r d pi t).1.lats (splitParts r d pi t).1.lons,
      SegConserved r d g.glat g.glon s)
    (hseg2 : ∀ s ∈ mkSegs (splitParts r d pi t).2.lats (splitParts r d pi t).2.lons,
      SegConserved r d g.glat g.glon s) :
    (gridTraj r d pi g t).integ.map List.sum = t.integ.map List.sum := by
  unfold gridTraj
  simp only
  by_cases h0 : ((crossings pi t.lons).filter (· ≠ 0)).length = 0
  · rw [if_pos h0]
    exact gridPlain_conserves r d g t hseg0 (fun v hvm => by
      have := hv v hvm; rw [length_mkSegs]; omega)
  · rw [if_neg h0, if_neg (by omega)]
    have hidx : splitIdx pi t < t.lons.length - 1 := by
      have := firstNonzero_lt (crossings pi t.lons) (by omega)
      rwa [length_crossings] at this
    have h1 := gridPlain_conserves r d g (splitParts r d pi t).1 hseg1 (by
      intro v hvm
      rw [splitParts_eq] at hvm ⊢
      obtain ⟨w, hw, rfl⟩ := List.mem_map.1 hvm
      have := hv w hw
      simp only [length_mkSegs, splitFirst, List.length_append, List.length_take, List.length_cons,
        List.length_nil]
      omega)
    have h2 := gridPlain_conserves r d g (splitParts r d pi t).2 hseg2 (by
      intro v hvm
      rw [splitParts_eq] at hvm ⊢
      obtain ⟨w, hw, rfl⟩ := List.mem_map.1 hvm
      have := hv w hw
      simp only [length_mkSegs, splitSecond, List.length_drop, List.length_cons]
      omega)
    simp only [Out.append]
    rw [map_sum_zipWith_append, h1, h2, splitParts_eq]
    simp only [splitFirst, splitSecond, List.map_map]
    rw [zipWith_add_map]
    apply List.map_congr_left
    intro v hvm
    have := hv v hvm
    exact sum_split v (splitIdx pi t) (by omega) _ _ (splitShare_sum _ _ _)

/-! ### the exact additive stub measure |Δlat| + |Δlon| (used by the correspondence check) -/

/-- Under the exact additive measure every segment is conserved, for every strictly increasing grid:
    segments inside one cell, crossing many lines, through lines and corners, along meridians and parallels,
    zero-length — no case distinction is needed. -/
theorem taxi_segment_conserved (glat glon : List ℝ) (hlat : glat.Pairwise (· < ·)) (hlon : glon.Pairwise (· < ·))
    (s : Seg ℝ) (v : ℝ) : (segValues Rules.repaired taxi glat glon s v).sum = v := by
  have h : SegConserved Rules.repaired taxi glat glon s :=
    segConserved_repaired taxi glat glon s (fun _ => taxi_chain_additive glat glon hlat hlon s)
  rw [sum_segValues, h, mul_one]

/-- … hence so is every trajectory with at most one antimeridian crossing (a crossing
    segment without length included): the gridded total of every integrated variable **equals** the trajectory total. -/
theorem taxi_gridTraj_conserves (pi : ℝ) (g : Grid ℝ) (t : Traj ℝ)
    (hlat : g.glat.Pairwise (· < ·)) (hlon : g.glon.Pairwise (· < ·))
    (hcross : ((crossings pi t.lons).filter (· ≠ 0)).length ≤ 1)
    (hlen : t.lats.length = t.lons.length)
    (hv : ∀ v ∈ t.integ, v.length + 1 = t.lons.length) :
    (gridTraj Rules.repaired taxi pi g t).integ.map List.sum = t.integ.map List.sum := by
  have hseg : ∀ s, SegConserved Rules.repaired taxi g.glat g.glon s := fun s =>
    segConserved_repaired taxi g.glat g.glon s (fun _ => taxi_chain_additive g.glat g.glon hlat hlon s)
  exact gridTraj_conserves Rules.repaired taxi pi g t hcross hlen hv (fun s _ => hseg s) (fun s _ => hseg s)
    (fun s _ => hseg s)

/-- The geodesic-type statement for the whole plain trajectory: with a metric `d`, non-negative values and
    segments of positive length the gridded total is never less than the trajectory total (segment by segment). -/
theorem gridPlain_never_less (r : Rules) (d : ℝ → ℝ → ℝ → ℝ → ℝ) (g : Grid ℝ) (t : Traj ℝ)
    (tri : ∀ a b c : ℝ × ℝ, dP d a c ≤ dP d a b + dP d b c)
    (hpos : ∀ s ∈ mkSegs t.lats t.lons, 0 < segDist d s)
    (v : List ℝ) (hv0 : ∀ x ∈ v, 0 ≤ x) :
    ((((mkSegs t.lats t.lons).zip v).map (fun p => p.2)).sum)
      ≤ ((((mkSegs t.lats t.lons).zip v).map (fun p => (segValues r d g.glat g.glon p.1 p.2).sum)).sum) := by
  apply List.sum_le_sum
  intro p hp
  exact never_less r d g.glat g.glon p.1 p.2 tri (hpos p.1 (List.of_mem_zip hp).1) (hv0 p.2 (List.of_mem_zip hp).2)

/-! ### the same about the SOURCE TEXT of `gridding/grid.py`

The definitions `Kern.grid_*` are regenerated from the working tree on every run (`AeicModel/Generated/Kernels.lean`, fourth
translator generation); `Lemmas/KernelBridge8.lean` proves them equal to the model the theorems above are about. -/

open KernelBridge8 in
/-- **The antimeridian split of the source conserves every integrated value.**  For the integrated array `iv` of any length,
    any crossing index inside it and ANY part lengths (a crossing segment without length included: half each) — the total
    `_calculate_segment_lengths` returns IS the sum of the two part lengths, for any distance function (second claim) — the arrays `_dateline_split_first_segment` and
    `_dateline_split_second_segment` build sum to the sum of `iv`. -/
theorem src_split_conserves (lats lons alts times sv iv : List ℝ) (idx : Nat) (neg : Bool) (l1 l2 : ℝ)
    (hidx : idx < iv.length) :
    (Kern.grid_split_first_integ lats lons alts times sv iv idx ((sgn neg : Int) : ℝ) l1 (l1 + l2)).sum
      + (Kern.grid_split_second_integ lats lons alts times sv iv idx ((sgn neg : Int) : ℝ) l2 (l1 + l2)).sum = iv.sum := by
  have h1 := (split_first lats lons alts times sv iv idx neg l1 (l1 + l2)).2.2.2.2.2
  have h2 := (split_second lats lons alts times sv iv idx neg l2 (l1 + l2)).2.2.2.2.2
  simp only [splitFirst, splitSecond, trajOf, List.map, List.cons.injEq, and_true] at h1 h2
  rw [← h1, ← h2]
  exact sum_split iv idx hidx _ _ (splitShare_sum _ _ _)

open KernelBridge8 in
theorem src_split_total_is_sum (dist : ℝ → ℝ → ℝ → ℝ → ℝ) (lats lons : List ℝ) (idx : Nat) (neg : Bool) :
    Kern.grid_seg_len_total dist lats lons idx ((sgn neg : Int) : ℝ)
      = Kern.grid_seg_len_first dist lats lons idx ((sgn neg : Int) : ℝ)
        + Kern.grid_seg_len_second dist lats lons idx ((sgn neg : Int) : ℝ) :=
  (seg_lengths dist lats lons idx neg).2.2

open KernelBridge8 in
/-- the split functions of the source ARE the model's `splitFirst` / `splitSecond` on the integrated arrays (with the crossing
    latitude the source computes), so `split_values_conserve` and `gridTraj_conserves` speak about them -/
theorem src_split_is_model (lats lons alts times sv iv : List ℝ) (idx : Nat) (neg : Bool) (l1 l2 ltot : ℝ) :
    (splitFirst PI (sgn neg) idx (Kern.grid_cross_lat lats lons idx ((sgn neg : Int) : ℝ)) l1 ltot
        (trajOf lats lons alts times sv iv)).integ
      = [Kern.grid_split_first_integ lats lons alts times sv iv idx ((sgn neg : Int) : ℝ) l1 ltot] ∧
    (splitSecond PI (sgn neg) idx (Kern.grid_cross_lat lats lons idx ((sgn neg : Int) : ℝ)) l2 ltot
        (trajOf lats lons alts times sv iv)).integ
      = [Kern.grid_split_second_integ lats lons alts times sv iv idx ((sgn neg : Int) : ℝ) l2 ltot] :=
  ⟨(split_first lats lons alts times sv iv idx neg l1 ltot).2.2.2.2.2, (split_second lats lons alts times sv iv idx neg l2 ltot).2.2.2.2.2⟩

open KernelBridge8 in
/-- the share statement of the source, on the flat arrays of all pieces of all segments, is the model's `fractions` segment by
    segment — any number of segments, any number of pieces -/
theorem src_shares_are_model (segs : List SegData) :
    Kern.grid_fractions (segs.flatMap (·.subs)) (segs.flatMap (fun s => List.replicate s.subs.length s.dseg))
        (segs.flatMap (fun s => List.replicate s.subs.length (ofNat s.count : ℝ)))
      = segs.flatMap (fun s => fractions Rules.repaired s.dseg s.count s.subs) := fractions_flat segs

open KernelBridge8 in
/-- **The pieces of one segment, as the source computes them, add up to the segment's value**: when the segment has length and
    its piece lengths add up to it (additive measure), and when it has none (a repeated point: equal shares of its
    `count = number of pieces > 0`). -/
theorem src_pieces_sum_to_value (v dseg : ℝ) (count : Nat) (subs : List ℝ)
    (h : (dseg ≠ 0 ∧ subs.sum = dseg) ∨ (dseg = 0 ∧ subs.length = count ∧ 0 < count)) :
    (Kern.grid_integ_values (List.replicate subs.length v)
      (Kern.grid_fractions subs (List.replicate subs.length dseg) (List.replicate subs.length (ofNat count : ℝ)))).sum = v := by
  rw [fractions_one, integ_values]
  have hl : (fractions Rules.repaired dseg count subs).length = subs.length := by simp [fractions]
  rw [← hl, zipWith_replicate_mul, sum_map_const_mul]
  rcases h with ⟨hne, hs⟩ | ⟨h0, hc, hp⟩
  · rw [sum_fractions_of_ne _ _ _ _ hne, hs, div_self hne, mul_one]
  · rw [h0, sum_fractions_zero_fixed Rules.repaired rfl count subs hc hp, mul_one]

/-! ### non-vacuity -/

open KernelBridge8 in
/-- the hypotheses of `src_split_conserves` / `src_pieces_sum_to_value` are satisfiable, and the statements are not trivial there -/
example : (Kern.grid_split_first_integ ([] : List ℝ) [] [] [] [] [4, 6, 8] 1 ((sgn false : Int) : ℝ) 1 (1 + 3)).sum
    + (Kern.grid_split_second_integ ([] : List ℝ) [] [] [] [] [4, 6, 8] 1 ((sgn false : Int) : ℝ) 3 (1 + 3)).sum = 18 := by
  have := src_split_conserves [] [] [] [] [] [4, 6, 8] 1 false 1 3 (by simp)
  rw [this]; norm_num


/-- the hypotheses of `taxi_segment_conserved` / `taxi_gridTraj_conserves` are satisfiable -/
example : ([0, 1, 2, 3] : List ℝ).Pairwise (· < ·) := by simp; norm_num

/-- the stub measure obeys the triangle inequality (hypothesis `tri` of `never_less`) -/
example : ∀ a b c : ℝ × ℝ, dP taxi a c ≤ dP taxi a b + dP taxi b c := by
  intro a b c
  simp only [dP, taxi_real]
  have h1 := abs_sub_le c.1 b.1 a.1
  have h2 := abs_sub_le c.2 b.2 a.2
  linarith

/-- a segment of non-zero length exists (hypothesis of `pieces_sum`) and one of zero length
    (hypothesis of `zero_length_segment`) -/
example : segDist taxi (⟨0, 0, 1, 1⟩ : Seg ℝ) ≠ 0 ∧ segDist taxi (⟨5, 3, 5, 3⟩ : Seg ℝ) = 0 := by
  simp only [segDist, taxi_real]; norm_num

end C04
