/-
  C15 — Ground tracks and mission distances are true WGS-84 great circles.

  The geodesic calculator is a parameter `g : Geod ℝ`; what it must satisfy is stated per leg (`LegLaws`,
  `TrackLaws`) and is an explicit hypothesis wherever a theorem needs it.  Everything is for all waypoint lists
  (any length ≥ 2), all distances, both overstep settings.
-/
import AeicProofs.Lemmas.C15Manhattan
import AeicModel.GeoSrc

namespace C15
open Aeic Aeic.Geo

variable (g : Geod ℝ) (wps : List (ℝ × ℝ)) (ov : Bool)

/-- the legs the constructor solves are exactly the consecutive waypoint pairs … -/
theorem legs_are_consecutive_pairs :
    legsOf g wps = (List.range (wps.length - 1)).map (legAt g wps) := by
  apply List.ext_getElem?
  intro k
  by_cases hk : k + 1 < wps.length
  · rw [legsOf_get g wps k hk]
    simp [show k < wps.length - 1 by omega]
  · have h1 : (legsOf g wps).length ≤ k := by simp; omega
    have h2 : ((List.range (wps.length - 1)).map (legAt g wps)).length ≤ k := by simp; omega
    rw [List.getElem?_eq_none h1, List.getElem?_eq_none h2]

/-- … and the total length of the track is the sum of their geodesic lengths. -/
theorem total_eq_sum_dist :
    total (mkTrack g wps ov) = ((List.range (wps.length - 1)).map (fun k => (legAt g wps k).dist)).sum := by
  rw [mk_total, legs_are_consecutive_pairs]
  simp [Function.comp_def]

/-- a great-circle track (two waypoints) is exactly as long as the geodesic between its end points. -/
theorem great_circle_total (a b : ℝ × ℝ) :
    total (mkTrack g [a, b] ov) = (g.inv a.1 a.2 b.1 b.2).dist := by
  simp [total, mkTrack, legsOf, accumulate, lastOf, nth]

/-- every distance on the track is answered, with the point lying on the leg that contains it: it is the forward
    solution from the leg's first waypoint along the leg's initial azimuth over `d − index[k]`, and its geodesic distance
    from that waypoint is exactly `d − index[k]`. -/
theorem location_on_track_at_d (hn : 2 ≤ wps.length) (hl : TrackLaws g wps) (d : ℝ)
    (hd0 : 0 ≤ d) (hd1 : d ≤ total (mkTrack g wps ov)) :
    ∃ p k, location g (mkTrack g wps ov) d = .ok p ∧ k + 1 < wps.length ∧
      nth (mkTrack g wps ov).idx k ≤ d ∧ d ≤ nth (mkTrack g wps ov).idx (k + 1) ∧
      (p.lon, p.lat) = (g.fwd (nthP wps k).1 (nthP wps k).2 (legAt g wps k).az12
                          (d - nth (mkTrack g wps ov).idx k)).pos ∧
      (g.inv (nthP wps k).1 (nthP wps k).2 p.lon p.lat).dist = d - nth (mkTrack g wps ov).idx k := by
  obtain ⟨m, hm⟩ : ∃ m, wps.length = m + 2 := ⟨wps.length - 2, by omega⟩
  set t := mkTrack g wps ov with ht
  have hin : inRange t d = true := (mk_inRange g wps ov (by omega) d).mpr ⟨hd0, hd1⟩
  have hlen : t.idx.length = m + 2 := by rw [ht, mk_idx_length g wps ov (by omega), hm]
  have htot : total t = nth t.idx (m + 1) := by
    rw [ht, mk_total_eq_last g wps ov (by omega), hm]; rfl
  have hsucc : ∀ k, k + 1 < m + 2 → nth t.idx (k + 1) = nth t.idx k + (legAt g wps k).dist :=
    fun k hk => mk_idx_succ g wps ov k (by omega)
  by_cases hp : bisectLeft t.idx d = 0
  · -- the first waypoint
    have h0 : ¬ nth t.idx 0 < d := by
      have := bisect_at t.idx d (by rw [hp, hlen]; omega)
      rwa [hp] at this
    have hz : nth t.idx 0 = 0 := mk_idx_zero g wps ov
    rw [hz] at h0
    have hd : d = 0 := le_antisymm (not_lt.mp h0) hd0
    have L := hl 0 (by omega)
    refine ⟨⟨(nthP wps 0).1, (nthP wps 0).2, pymod360 (nth t.azs 0)⟩, 0, ?_, by omega, ?_, ?_, ?_, ?_⟩
    · simp only [location, hin, hp]; simp [ht]
    · rw [hz, hd]
    · rw [hsucc 0 (by omega), hz, hd]; have := L.dist_nonneg; simp only [legAt]; linarith
    · rw [hz, hd, sub_zero]; exact L.fwd_zero.symm
    · rw [hz, hd, sub_zero]
      have h1 := L.dist_along 0 le_rfl L.dist_nonneg
      have h2 := L.fwd_zero
      simp only [FwdR.pos, Prod.ext_iff] at h2
      rw [h2.1, h2.2] at h1
      exact h1
  · by_cases hlast : lastOf t.idx ≤ d
    · -- the last waypoint
      have hd : d = nth t.idx (m + 1) := by
        have : total t ≤ d := hlast
        rw [← htot]; exact le_antisymm hd1 this
      have L := hl m (by omega)
      have hs := hsucc m (by omega)
      refine ⟨⟨(nthP wps (m + 1)).1, (nthP wps (m + 1)).2, pymod360 (lastOf t.azs)⟩, m, ?_, by omega, ?_, ?_, ?_, ?_⟩
      · simp only [location, hin, hp, hlast]; simp [ht, hm]
      · rw [hd, hs]; have := L.dist_nonneg; simp only [legAt]; linarith
      · rw [hd]
      · have : d - nth t.idx m = (legAt g wps m).dist := by rw [hd, hs]; ring
        rw [this]; exact L.fwd_full.symm
      · have : d - nth t.idx m = (legAt g wps m).dist := by rw [hd, hs]; ring
        rw [this]
        have h1 := L.dist_along _ L.dist_nonneg le_rfl
        have h2 := L.fwd_full
        simp only [FwdR.pos, Prod.ext_iff] at h2
        rw [h2.1, h2.2] at h1
        exact h1
    · -- strictly inside: interpolate on the leg found by bisection
      have hposlt : bisectLeft t.idx d < m + 2 := by
        rcases Nat.lt_or_ge (bisectLeft t.idx d) (m + 2) with h | h
        · exact h
        · exfalso
          have := bisect_before t.idx d (m + 1) (by omega)
          rw [← htot] at this; linarith
      obtain ⟨k, hk⟩ : ∃ k, bisectLeft t.idx d = k + 1 := ⟨bisectLeft t.idx d - 1, by omega⟩
      have hbefore : nth t.idx k < d := bisect_before t.idx d k (by omega)
      have hat : d ≤ nth t.idx (k + 1) := by
        have := bisect_at t.idx d (by rw [hlen]; exact hposlt)
        rw [hk] at this; exact not_lt.mp this
      have L := hl k (by omega)
      have hs := hsucc k (by omega)
      have haz : nth t.azs k = (legAt g wps k).az12 := mk_azs g wps ov k (by omega)
      refine ⟨⟨(g.fwd (nthP wps k).1 (nthP wps k).2 (nth t.azs k) (d - nth t.idx k)).lon,
                (g.fwd (nthP wps k).1 (nthP wps k).2 (nth t.azs k) (d - nth t.idx k)).lat,
                pymod360 (g.inv (g.fwd (nthP wps k).1 (nthP wps k).2 (nth t.azs k) (d - nth t.idx k)).lon
                                (g.fwd (nthP wps k).1 (nthP wps k).2 (nth t.azs k) (d - nth t.idx k)).lat
                                (nthP wps (k + 1)).1 (nthP wps (k + 1)).2).az12⟩,
              k, ?_, by omega, hbefore.le, hat, ?_, ?_⟩
      · simp only [location, hin, hlast, hk]
        simp [ht]
      · simp only [FwdR.pos]; rw [haz]
      · simp only []; rw [haz]
        exact L.dist_along (d - nth t.idx k) (by linarith) (by rw [hs] at hat; simp only [legAt] at hat ⊢; linarith)

/-- a request outside `[0, total]` is refused by `location`, whatever the overstep setting … -/
theorem location_out_of_range_refused (hn : 1 ≤ wps.length) (d : ℝ)
    (hd : d < 0 ∨ total (mkTrack g wps ov) < d) :
    location g (mkTrack g wps ov) d = .error .outside := by
  have : inRange (mkTrack g wps ov) d = false := by
    rw [Bool.eq_false_iff]; intro h
    have := (mk_inRange g wps ov hn d).mp h
    rcases hd with h' | h' <;> linarith [this.1, this.2]
  simp [location, this]

/-- … and by `step` whenever overstepping is not allowed. -/
theorem out_of_range_refused (hn : 1 ≤ wps.length) (a b : ℝ)
    (hd : a + b < 0 ∨ total (mkTrack g wps false) < a + b) :
    ∃ e, step g (mkTrack g wps false) a b = .error e := by
  have : inRange (mkTrack g wps false) (a + b) = false := by
    rw [Bool.eq_false_iff]; intro h
    have := (mk_inRange g wps false hn (a + b)).mp h
    rcases hd with h' | h' <;> linarith [this.1, this.2]
  unfold step
  by_cases h1 : a < (zero : ℝ) ∨ b < (zero : ℝ)
  · rw [if_pos h1]; exact ⟨_, rfl⟩
  · rw [if_neg h1, if_neg (by rw [this]; simp), if_pos (mk_overstep g wps false)]; exact ⟨_, rfl⟩

/-- stepping from `a` by `b` is locating `a + b`: whenever `step` answers for a target on the track, it answers
    with `location (a + b)`. -/
theorem step_eq_location (hn : 1 ≤ wps.length) (a b : ℝ) (p : Pt ℝ)
    (h : step g (mkTrack g wps ov) a b = .ok p) (hin : a + b ≤ total (mkTrack g wps ov)) :
    location g (mkTrack g wps ov) (a + b) = .ok p := by
  unfold step at h
  by_cases h1 : a < (zero : ℝ) ∨ b < (zero : ℝ)
  · rw [if_pos h1] at h; cases h
  · rw [if_neg h1] at h
    simp only [zero_real] at h1
    push Not at h1
    have ha : inRange (mkTrack g wps ov) a = true := (mk_inRange g wps ov hn a).mpr ⟨h1.1, by linarith [h1.2]⟩
    have hab : inRange (mkTrack g wps ov) (a + b) = true :=
      (mk_inRange g wps ov hn (a + b)).mpr ⟨by linarith [h1.1, h1.2], hin⟩
    rw [if_pos ⟨ha, hab⟩] at h
    simp only [] at h
    split_ifs at h
    exact h

/-- with overstepping allowed, every step with non-negative arguments and target on the track is answered by `location`. -/
theorem step_answers_with_overstep (hn : 1 ≤ wps.length) (a b : ℝ) (ha : 0 ≤ a) (hb : 0 ≤ b)
    (hin : a + b ≤ total (mkTrack g wps true)) :
    step g (mkTrack g wps true) a b = location g (mkTrack g wps true) (a + b) := by
  have h1 : inRange (mkTrack g wps true) a = true := (mk_inRange g wps true hn a).mpr ⟨ha, by linarith⟩
  have h2 : inRange (mkTrack g wps true) (a + b) = true := (mk_inRange g wps true hn (a + b)).mpr ⟨by linarith, hin⟩
  have hz : ¬ (a < (zero : ℝ) ∨ b < (zero : ℝ)) := by simp only [zero_real]; push Not; exact ⟨ha, hb⟩
  unfold step
  rw [if_neg hz, if_pos ⟨h1, h2⟩]
  simp

/-- without overstepping, a step that stays on one leg (same bisection position) or starts exactly on a waypoint
    is answered by `location`; the only refusal on the track is the documented waypoint crossing. -/
theorem step_answers_without_overstep (hn : 1 ≤ wps.length) (a b : ℝ) (ha : 0 ≤ a) (hb : 0 ≤ b)
    (hin : a + b ≤ total (mkTrack g wps false))
    (hsame : bisectLeft (mkTrack g wps false).idx a = bisectLeft (mkTrack g wps false).idx (a + b)
      ∨ ¬ a < nth (mkTrack g wps false).idx (bisectLeft (mkTrack g wps false).idx a)) :
    step g (mkTrack g wps false) a b = location g (mkTrack g wps false) (a + b) := by
  have h1 : inRange (mkTrack g wps false) a = true := (mk_inRange g wps false hn a).mpr ⟨ha, by linarith⟩
  have h2 : inRange (mkTrack g wps false) (a + b) = true := (mk_inRange g wps false hn (a + b)).mpr ⟨by linarith, hin⟩
  have hz : ¬ (a < (zero : ℝ) ∨ b < (zero : ℝ)) := by simp only [zero_real]; push Not; exact ⟨ha, hb⟩
  unfold step
  rw [if_neg hz, if_pos ⟨h1, h2⟩]
  simp only []
  rw [if_neg]
  rintro ⟨_, hne, hlt⟩
  rcases hsame with h | h
  · exact hne h
  · exact h hlt

/-- stepping past the end (overstep allowed) stays on the last leg's geodesic: the point is the forward solution from
    the second-to-last waypoint along the last leg's azimuth, which — by the prolongation law — is the geodesic
    leaving the last waypoint in the direction of arrival, `a + b − total` further on. -/
theorem overstep_on_same_geodesic (hn : 2 ≤ wps.length) (hl : TrackLaws g wps) (a b : ℝ) (ha : 0 ≤ a) (hb : 0 ≤ b)
    (hbeyond : total (mkTrack g wps true) < a + b) :
    ∃ p, step g (mkTrack g wps true) a b = .ok p ∧
      (p.lon, p.lat) = (g.fwd (nthP wps (wps.length - 2)).1 (nthP wps (wps.length - 2)).2
                          (legAt g wps (wps.length - 2)).az12
                          (a + b - nth (mkTrack g wps true).idx (wps.length - 2))).pos ∧
      (p.lon, p.lat) = (g.fwd (nthP wps (wps.length - 1)).1 (nthP wps (wps.length - 1)).2
                          ((legAt g wps (wps.length - 2)).az21 + 180)
                          (a + b - total (mkTrack g wps true))).pos := by
  obtain ⟨m, hm⟩ : ∃ m, wps.length = m + 2 := ⟨wps.length - 2, by omega⟩
  set t := mkTrack g wps true with ht
  have hlen : t.idx.length = m + 2 := by rw [ht, mk_idx_length g wps true (by omega), hm]
  have htot : total t = nth t.idx (m + 1) := by
    rw [ht, mk_total_eq_last g wps true (by omega), hm]; rfl
  have hs : nth t.idx (m + 1) = nth t.idx m + (legAt g wps m).dist := mk_idx_succ g wps true m (by omega)
  have hazl : lastOf t.azs = (legAt g wps m).az12 := by
    have : t.azs.length = m + 1 := by rw [ht, mk_azs_length, hm]; rfl
    rw [lastOf, this]; exact mk_azs g wps true m (by omega)
  have hnot : ¬ (inRange t a = true ∧ inRange t (a + b) = true) := by
    rintro ⟨_, h2⟩
    have := (mk_inRange g wps true (by omega) (a + b)).mp h2
    linarith [this.2]
  have L := hl m (by omega)
  have hm2 : wps.length - 2 = m := by omega
  have hm1 : wps.length - 1 = m + 1 := by omega
  rw [hm2, hm1]
  refine ⟨overstepPt g t (a + b), ?_, ?_, ?_⟩
  · have hz : ¬ (a < (zero : ℝ) ∨ b < (zero : ℝ)) := by simp only [zero_real]; push Not; exact ⟨ha, hb⟩
    unfold step
    rw [if_neg hz, if_neg hnot, if_neg (by simp [ht])]
  · simp only [overstepPt, FwdR.pos]
    rw [hazl, hlen, show t.wps = wps from rfl, hm]
    simp only [Nat.add_sub_cancel]
  · have hpro := L.prolong (a + b - nth t.idx m) (by rw [htot, hs] at hbeyond; simp only [legAt] at hbeyond ⊢; linarith)
    have e : a + b - nth t.idx m - (legAt g wps m).dist = a + b - total t := by rw [htot, hs]; ring
    simp only [legAt] at e hpro ⊢
    rw [e] at hpro
    rw [hpro]
    simp only [overstepPt, FwdR.pos]
    rw [hazl, hlen, show t.wps = wps from rfl, hm]
    simp only [Nat.add_sub_cancel, legAt]

/-- azimuths are reported in the 0–360 convention: never negative, below 360, and the same direction as the
    geodesic azimuth (they differ by a whole number of turns). -/
theorem azimuth_in_range (x : ℝ) : 0 ≤ pymod360 x ∧ pymod360 x < 360 ∧ ∃ n : ℤ, pymod360 x = x - 360 * n :=
  ⟨(pymod360_range x).1, (pymod360_range x).2, ⌊x / 360⌋, pymod360_real x⟩

/-- every point `location` returns carries a normalised azimuth. -/
theorem location_azimuth_in_range (t : Track ℝ) (d : ℝ) (p : Pt ℝ) (h : location g t d = .ok p) :
    0 ≤ p.az ∧ p.az < 360 := by
  simp only [location] at h
  split_ifs at h
  all_goals (cases h; exact pymod360_range _)

/-- every point `step` returns carries a normalised azimuth. -/
theorem step_azimuth_in_range (t : Track ℝ) (a b : ℝ) (p : Pt ℝ) (h : step g t a b = .ok p) :
    0 ≤ p.az ∧ p.az < 360 := by
  simp only [step] at h
  split_ifs at h
  · exact location_azimuth_in_range g t _ p h
  · cases h; exact pymod360_range _

/-- a mission's great-circle distance is the length of the ground track between its two airports
    (the code after the `fix:` commit: longitude first). -/
theorem gc_distance_eq_track_length (o d : ℝ × ℝ) :
    gcDistance g o d = total (mkTrack g [o, d] ov) := by
  simp [gcDistance, total, mkTrack, legsOf, accumulate, lastOf, nth]

/-- … and is symmetric in origin and destination whenever the geodesic distance is. -/
theorem gc_distance_symmetric
    (hsym : ∀ p q : ℝ × ℝ, (g.inv p.1 p.2 q.1 q.2).dist = (g.inv q.1 q.2 p.1 p.2).dist) (o d : ℝ × ℝ) :
    gcDistance g o d = gcDistance g d o := hsym o d

/-- negation witness for the code as found on the pinned tree (latitude handed over as longitude): in the Manhattan
    world with 2 m per degree of longitude and 4 m per degree of latitude, the mission (0,0) → (1,0) is 2 m long
    but the as-found computation yields 4 m.  (Replayed on the real code from `corpus/C15/`; fixed by the `fix:` commit.) -/
theorem gc_distance_as_found_wrong :
    gcDistanceAsFound (manhattan (2 : ℝ) 4) (0, 0) (1, 0) ≠ total (mkTrack (manhattan (2 : ℝ) 4) [(0, 0), (1, 0)] false) := by
  simp only [gcDistanceAsFound, total, mkTrack, legsOf, lastOf, nth, manhattan, lit_real, zero_real]
  norm_num [accumulate]

/-! ### the index arithmetic of the SOURCE (`Gen.gt*`, regenerated from `trajectories/ground_track.py` on every run) -/

/-- what the translator read: `bisect_left` on the cumulative index; both shortcuts (first waypoint, last waypoint); the
    forward solution starts at `waypoints[pos − 1]` along `azimuths[pos − 1]` over `distance − index[pos − 1]` and the reported
    azimuth is from the new point to `waypoints[pos]`; overstepping continues from `waypoints[−2]` along `azimuths[−1]` over
    `distance − index[−2]`, azimuth from `waypoints[−1]` to the new point — decided by the kernel on the regenerated parameters -/
theorem src_ground_track_parameters :
    Aeic.Gen.gtBisectLeft = true ∧ Aeic.Gen.gtFirstShortcut = true ∧ Aeic.Gen.gtLastShortcut = true ∧
    Aeic.Gen.gtLocWp = -1 ∧ Aeic.Gen.gtLocAz = -1 ∧ Aeic.Gen.gtLocIdx = -1 ∧ Aeic.Gen.gtLocAfter = 0 ∧
    Aeic.Gen.gtLocInvForward = true ∧
    Aeic.Gen.gtOvWp = 2 ∧ Aeic.Gen.gtOvAz = 1 ∧ Aeic.Gen.gtOvIdx = 2 ∧ Aeic.Gen.gtOvFrom = 1 ∧ Aeic.Gen.gtOvInvFromWaypoint = true := by
  decide

theorem at'_neg_one (pos : Nat) : at' pos (-1) = pos - 1 := by unfold at'; omega
theorem at'_zero (pos : Nat) : at' pos 0 = pos := by unfold at'; omega

/-- `GroundTrack.location` as the working tree has it IS the model's `location` -/
theorem src_location_is_model (t : Track ℝ) (d : ℝ) : locationSrc g t d = location g t d := by
  obtain ⟨h1, h2, h3, h4, h5, h6, h7, h8, _⟩ := src_ground_track_parameters
  unfold locationSrc locationWith location
  rw [h1, h2, h3, h4, h5, h6, h7, h8]
  simp only [if_true, Bool.true_and, at'_neg_one, at'_zero, decide_eq_true_eq]

/-- `GroundTrack._overstep` as the working tree has it IS the model's `overstepPt` -/
theorem src_overstep_is_model (t : Track ℝ) (d : ℝ) : overstepSrc g t d = overstepPt g t d := by
  obtain ⟨_, _, _, _, _, _, _, _, k1, k2, k3, k4, k5⟩ := src_ground_track_parameters
  unfold overstepSrc overstepWith overstepPt
  rw [k1, k2, k3, k4, k5]
  simp only [if_true, lastOf]

/-- … so every distance on a track is answered by the source's `location` with the point on the leg that contains it, exactly
    `d − index[k]` from that leg's first waypoint (`location_on_track_at_d` for the source) -/
theorem src_location_on_track_at_d (hn : 2 ≤ wps.length) (hl : TrackLaws g wps) (d : ℝ)
    (hd0 : 0 ≤ d) (hd1 : d ≤ total (mkTrack g wps ov)) :
    ∃ p k, locationSrc g (mkTrack g wps ov) d = .ok p ∧ k + 1 < wps.length ∧
      nth (mkTrack g wps ov).idx k ≤ d ∧ d ≤ nth (mkTrack g wps ov).idx (k + 1) := by
  obtain ⟨p, k, h, hk, h1, h2, _⟩ := location_on_track_at_d g wps ov hn hl d hd0 hd1
  exact ⟨p, k, by rw [src_location_is_model]; exact h, hk, h1, h2⟩

/-! ### non-vacuity: the hypotheses are satisfiable (Manhattan world, the oracle of correspondence (a)) -/

/-- an axis-aligned three-waypoint track of the Manhattan world satisfies `TrackLaws`. -/
example : TrackLaws (manhattan (2 : ℝ) 4) [(0, 0), (3, 0), (3, -5)] := by
  intro k hk
  have : k = 0 ∨ k = 1 := by simp at hk; omega
  rcases this with rfl | rfl
  · exact manhattan_legLaws 2 4 (by norm_num) (by norm_num) _ _ (Or.inr rfl)
  · exact manhattan_legLaws 2 4 (by norm_num) (by norm_num) _ _ (Or.inl rfl)

/-- the symmetry hypothesis of `gc_distance_symmetric` holds in the Manhattan world. -/
example : ∀ p q : ℝ × ℝ, ((manhattan (2 : ℝ) 4).inv p.1 p.2 q.1 q.2).dist = ((manhattan (2 : ℝ) 4).inv q.1 q.2 p.1 p.2).dist :=
  manhattan_dist_symm 2 4

end C15
