/-
  C13 — Schedule import creates exactly the flight instances the schedule row implies.

  Theorems about the model `AeicModel/Schedule.lean` (helper lemmas: `AeicProofs/Lemmas/C13*.lean`).
  `Variant.fixed` = intended behaviour, `Variant.current` = the tree as it exists on branch b-c13 (open-ended ranges
  repaired; `GEOD.inv` arguments in `_distance_check` still swapped — open finding), `Variant.asIs` = pinned tree.
  All theorems quantify over arbitrary oracles (`Env`: airport table, zone offsets, geodesic), arbitrary rows and
  arbitrary database histories; nothing is bounded.
-/
import AeicProofs.Lemmas.C13Calendar
import AeicProofs.Lemmas.C13Import
import AeicProofs.Lemmas.C13Distance

set_option linter.unusedSectionVars false

namespace C13
open Aeic Aeic.Schedule

/-! ## Calendar: day numbers are the calendar count, weekdays are periodic -/

/-- Day numbers follow the calendar: 1970-01-01 is day 0 (a Thursday) and the calendar successor of a valid date has the
next day number (and is again a valid date). -/
theorem day_numbers_follow_calendar :
    epochDay ⟨1970, 1, 1⟩ = 0 ∧ isoWeekday 0 = 4 ∧
    ∀ t : Date, t.valid = true → t.y < 9999 →
      (nextDate t).valid = true ∧ epochDay (nextDate t) = epochDay t + 1 ∧
      (∀ u : Date, u.valid = true → (Date.lt t u ↔ (u = nextDate t ∨ Date.lt (nextDate t) u))) :=
  ⟨by decide, by decide, fun t ht hy =>
    ⟨nextDate_valid t ht hy, epochDay_nextDate t ht, fun u hu => nextDate_is_successor t u ht hu⟩⟩

example : (⟨2019, 2, 28⟩ : Date).valid = true ∧ nextDate ⟨2019, 2, 28⟩ = ⟨2019, 3, 1⟩ ∧
    nextDate ⟨2020, 2, 28⟩ = ⟨2020, 2, 29⟩ ∧ nextDate ⟨2019, 12, 31⟩ = ⟨2020, 1, 1⟩ := by decide

/-- Calendar order of valid dates is the order of their day numbers; in particular "the dates of the effective range" are
exactly the dates whose day number lies between the day numbers of its ends. -/
theorem date_order_is_day_order (a t b : Date) (ha : a.valid = true) (ht : t.valid = true) (hb : b.valid = true) :
    ((a = t ∨ Date.lt a t) ∧ (t = b ∨ Date.lt t b)) ↔ (epochDay a ≤ epochDay t ∧ epochDay t ≤ epochDay b) := by
  rw [epochDay_le_iff ha ht, epochDay_le_iff ht hb]

/-- distinct valid dates have distinct day numbers -/
theorem day_number_injective (a b : Date) (ha : a.valid = true) (hb : b.valid = true)
    (h : epochDay a = epochDay b) : a = b := epochDay_injective ha hb h

/-- Weekdays: always in 1..7, advance cyclically by one per day, repeat with period 7 (and only then). -/
theorem weekday_periodic (n k : Int) :
    (1 ≤ isoWeekday n ∧ isoWeekday n ≤ 7) ∧ isoWeekday (n + 1) = isoWeekday n % 7 + 1 ∧
    isoWeekday (n + 7) = isoWeekday n ∧ (isoWeekday n = isoWeekday k ↔ (n - k) % 7 = 0) :=
  ⟨isoWeekday_range n, isoWeekday_succ n, isoWeekday_add_seven n, isoWeekday_eq_iff n k⟩

example : isoWeekday (epochDay ⟨2019, 1, 15⟩) = 2 := by decide   -- the OAG sample row: 2019-01-15, day " 2" (Tuesday)

/-! ## Expansion of one row -/

/-- **One instance per matching date.**  The schedule rows of a flight are the images, in increasing date order and without
repetition, of exactly those day numbers `n` of the inclusive range `[a, b]` whose weekday is in the row's set and whose
arrival instant does not precede the departure instant. -/
theorem one_instance_per_matching_date (offO offD : Int → Int) (a b : Int) (days : List Int) (t : Times) (fid : Nat) :
    expand offO offD a b days t fid = (scheduledDays offO offD a b days t).map (mkSched offO offD t fid) ∧
    (scheduledDays offO offD a b days t).Pairwise (· < ·) ∧
    (∀ n : Int, n ∈ scheduledDays offO offD a b days t ↔
      (a ≤ n ∧ n ≤ b ∧ isoWeekday n ∈ days ∧
        localDep t n - offO (localDep t n) ≤ localArr t n - offD (localArr t n))) ∧
    (∀ n : Int, (scheduledDays offO offD a b days t).count n ≤ 1) ∧
    (expand offO offD a b days t fid).length = (scheduledDays offO offD a b days t).length := by
  refine ⟨expand_eq_map _ _ _ _ _ _ _, scheduledDays_sorted _ _ _ _ _ _, mem_scheduledDays _ _ _ _ _ _, ?_, ?_⟩
  · have hnd : (scheduledDays offO offD a b days t).Nodup :=
      (scheduledDays_sorted offO offD a b days t).imp (fun h => Int.ne_of_lt h)
    exact fun n => List.nodup_iff_count.mp hnd n
  · rw [expand_eq_map, List.length_map]

-- hypotheses-free; the expansion is non-trivial: a Sunday-only row over the first week of 1970 has exactly day 3
example : scheduledDays (fun _ => 0) (fun _ => 3600) 0 6 [7] ⟨600, 700, 0⟩ = [3] := by decide
example : expand (fun _ => 0) (fun _ => 3600) 0 6 [7] ⟨600, 700, 0⟩ 1 = [⟨295200, 297600, 3, 1⟩] := by decide
-- a mis-ordered instance is dropped
example : expand (fun _ => 0) (fun _ => 36000) 0 6 [7] ⟨600, 700, 0⟩ 1 = [] := by decide

/-- **UTC instants.**  Departure and arrival are the stated local wall-clock times (on operating day `n`, arrival shifted by
the arrival-day offset) minus the zone's offset for that local time; whenever the zone's offset at the resulting instant is
that same offset (i.e. the local time exists), converting the stored instant back to the zone shows the stated wall time.
The `day` column is the UTC day of departure. -/
theorem utc_is_local_minus_offset (offO offD : Int → Int) (t : Times) (fid : Nat) (n : Int) :
    let s := mkSched offO offD t fid n
    localDep t n = n * 86400 + t.depMin * 60 ∧ localArr t n = (n + t.arrDay) * 86400 + t.arrMin * 60 ∧
    s.dep = localDep t n - offO (localDep t n) ∧ s.arr = localArr t n - offD (localArr t n) ∧
    (∀ offUtcO : Int → Int, offUtcO s.dep = offO (localDep t n) → s.dep + offUtcO s.dep = localDep t n) ∧
    (∀ offUtcD : Int → Int, offUtcD s.arr = offD (localArr t n) → s.arr + offUtcD s.arr = localArr t n) ∧
    (86400 * s.day ≤ s.dep ∧ s.dep < 86400 * (s.day + 1)) ∧ s.flightId = fid := by
  refine ⟨rfl, rfl, rfl, rfl, ?_, ?_, ?_, rfl⟩
  · intro f h; rw [h]; simp only [mkSched]; omega
  · intro f h; rw [h]; simp only [mkSched]; omega
  · simp only [mkSched]; omega

-- the consistency hypothesis is satisfiable: a fixed-offset zone
example : (fun _ : Int => (19800 : Int)) (mkSched (fun _ => 19800) (fun _ => 0) ⟨600, 700, 0⟩ 1 3).dep
    = (fun _ => (19800 : Int)) (localDep ⟨600, 700, 0⟩ 3) := rfl

/-- **Mis-ordered instances are dropped** (no stored instance arrives before it departs) **with a warning**: the
candidate list contains a mis-ordered instance exactly when some operating day is missing from the stored days. -/
theorem misordered_dropped (offO offD : Int → Int) (a b : Int) (days : List Int) (t : Times) (fid : Nat) :
    (∀ s ∈ expand offO offD a b days t fid, s.dep ≤ s.arr) ∧
    ((candidates offO offD a b days t fid).any (fun s => s.misordered) = true ↔
      ∃ n, n ∈ operatingDays a b days ∧ n ∉ scheduledDays offO offD a b days t) :=
  ⟨expand_not_misordered _ _ _ _ _ _ _, any_misordered_iff _ _ _ _ _ _ _⟩

/-! ## Open-ended ranges -/

/-- **Open-ended means year bounds.**  A missing start (end) date is replaced by 1 January (31 December) of the data year,
and the day numbers between those two are exactly the day numbers of the valid dates of that year (365 or 366 of them). -/
theorem open_ended_means_year_bounds (year : Int) (r : Row) (hy1 : 1 ≤ year) (hy2 : year ≤ 9999) :
    (r.efffrom = none → effFrom year r = ⟨year, 1, 1⟩) ∧ (r.effto = none → effTo year r = ⟨year, 12, 31⟩) ∧
    (∀ t, r.efffrom = some t → effFrom year r = t) ∧ (∀ t, r.effto = some t → effTo year r = t) ∧
    epochDay ⟨year, 12, 31⟩ = epochDay ⟨year, 1, 1⟩ + yearLen year - 1 ∧
    (∀ n : Int, (epochDay ⟨year, 1, 1⟩ ≤ n ∧ n ≤ epochDay ⟨year, 12, 31⟩) ↔
       ∃ t : Date, t.valid = true ∧ t.y = year ∧ epochDay t = n) := by
  refine ⟨fun h => by simp [effFrom, h, yearStart], fun h => by simp [effTo, h, yearEnd],
    fun t h => by simp [effFrom, h], fun t h => by simp [effTo, h], epochDay_yearEnd year, ?_⟩
  intro n
  rw [epochDay_yearEnd]
  constructor
  · rintro ⟨h1, h2⟩
    obtain ⟨hv, hyr, he⟩ := dateOfYearDay_spec year (n - epochDay ⟨year, 1, 1⟩) hy1 hy2 (by omega) (by omega)
    exact ⟨_, hv, hyr, by rw [he]; omega⟩
  · rintro ⟨t, hv, hyr, he⟩
    obtain ⟨_, _, hm1, hm2, hd1, hd2⟩ := (valid_iff t).mp hv
    have h1 := dayOfYear_le t.y hm1 hm2
    have h2 := daysBeforeMonth_nonneg t.y t.m
    have h0 : daysBeforeMonth year 1 = 0 := by simp [daysBeforeMonth]
    subst hyr
    simp only [epochDay, ordinal] at he ⊢
    omega

example : yearLen 2019 = 365 ∧ yearLen 2020 = 366 ∧ yearLen 2100 = 365 ∧ yearLen 2000 = 366 := by decide

/-! ## Whole import: decisions, flight records, counts -/

section Import
variable {α : Type} [Add α] [Sub α] [Mul α] [Div α] [Neg α] [LT α] [LE α]
  [DecidableLT α] [DecidableLE α] [Lit α]

/-- **One flight record and exactly the implied instances.**  On any database built by the importer (airports from the
static table), a row that passes the airport and distance rules is never refused or raised on (repaired range handling):
it appends one flight record with a fresh id carrying the row's fields, the defaulted effective dates and the instance
count, and appends exactly the instances of `one_instance_per_matching_date` for the airports' zones over the defaulted
range; nothing else changes in the two tables. -/
theorem import_creates_flight_and_instances (v : Variant) (env : Env α) (st : State α) (r : Row)
    (hafe : AirportsFromEnv env st) (hv : v.rawRange = false) (hd : addDecision v env r = .imported) :
    ∃ (st' : State α) (o d : AirportRow α),
      add v env st r = .ok (st', .imported) ∧
      env.lookup r.depapt = some (o.lat, o.lon, o.tz) ∧ env.lookup r.arrapt = some (d.lat, d.lon, d.tz) ∧
      (let fid := st.flights.length + 1
       let days := scheduledDays (env.off o.tz) (env.off d.tz) (epochDay (effFrom env.year r))
                     (epochDay (effTo env.year r)) r.days (rowTimes r)
       st'.scheds = st.scheds ++ days.map (mkSched (env.off o.tz) (env.off d.tz) (rowTimes r) fid) ∧
       ∃ f : Flight α, st'.flights = st.flights ++ [f] ∧ f.id = fid ∧ f.count = days.length ∧
         f.effFrom = effFrom env.year r ∧ f.effTo = effTo env.year r ∧ f.carrier = r.carrier ∧ f.fltno = r.fltno ∧
         f.origin = o.id ∧ f.dest = d.id ∧ f.depTime = r.depMin ∧ f.arrTime = r.arrMin ∧ f.arrDay = r.arrDay ∧
         f.dowMask = dowMask r.days ∧ f.seats = r.seats ∧ f.service = r.service ∧ f.aircraft = r.inpacft) := by
  obtain ⟨st', h1, _, _, himp⟩ := add_spec v env st r hafe hv
  obtain ⟨o, d, ho, hdd, _, _, hf, hs, _⟩ := himp hd
  rw [hd] at h1
  refine ⟨st', o, d, h1, ho, hdd, ?_, _, hf, rfl, ?_, rfl, rfl, rfl, rfl, rfl, rfl, rfl, rfl, rfl, rfl, rfl, rfl, rfl⟩
  · rw [hs, rowInstances_eq, expand_eq_map]
  · simp only [rowFlight, rowInstances_eq, expand_eq_map, List.length_map]

/-- **Count field.**  For every input file, from the empty database: the import never raises, its per-row outcomes are the
stateless decisions `rowDecision`, the number of flight records equals the number of imported rows, flight ids are
1, 2, …, every schedule row references an existing flight, and every flight's `number_of_flights` equals the number of
schedule rows that reference it. -/
theorem count_field_eq_length (v : Variant) (env : Env α) (hv : v.rawRange = false) (rows : List (Nat × Raw)) :
    ∃ st' : State α,
      importAll v env {} rows = .ok (st', rows.map (fun p => rowDecision v env p.1 p.2)) ∧
      st'.flights.length = (rows.filter (fun p => rowDecision v env p.1 p.2 == .imported)).length ∧
      st'.flights.map (fun f => f.id) = List.range' 1 st'.flights.length ∧
      (∀ s ∈ st'.scheds, 1 ≤ s.flightId ∧ s.flightId ≤ st'.flights.length) ∧
      (∀ f ∈ st'.flights, f.count = (st'.scheds.filter (fun s => s.flightId == f.id)).length) := by
  obtain ⟨st', h, _, hwf, hlen⟩ :=
    importAll_spec v env hv rows {} (by intro a ha; cases ha) WF.empty
  exact ⟨st', h, (by simpa using hlen), hwf.ids, hwf.refs, hwf.counts⟩

/-- **Skipped rows leave nothing behind**, and each row's outcome does not depend on what was imported before it. -/
theorem skipped_rows_add_nothing (v : Variant) (env : Env α) (st : State α) (line : Nat) (raw : Raw)
    (hafe : AirportsFromEnv env st) (hwf : WF st) (hv : v.rawRange = false) :
    ∃ st', importRow v env st line raw = .ok (st', rowDecision v env line raw) ∧
      (rowDecision v env line raw ≠ .imported → st'.flights = st.flights ∧ st'.scheds = st.scheds) ∧
      (rowDecision v env line raw = .imported → st'.flights.length = st.flights.length + 1) := by
  obtain ⟨st', h, _, _, h1, h2⟩ := importRow_spec v env st line raw hafe hv hwf
  exact ⟨st', h, h1, h2⟩

end Import

-- the invariants' hypotheses are satisfiable: the empty database
example : AirportsFromEnv (⟨2019, fun _ => none, fun _ _ _ _ => (0 : Float), fun _ _ => 0⟩ : Env Float)
    ({} : State Float) ∧ WF ({} : State Float) :=
  ⟨(by intro a ha; cases ha), WF.empty⟩

/-! ## Why rows are skipped (distance rule over the reals) -/

/-- **The filter drops a row only for a documented code**: end-of-file marker, surface service (V/U), a stop count that is
not (a parsable) zero, non-operating carrier marker, or one of the six non-aircraft equipment codes. -/
theorem filter_only_documented_codes (raw : Raw) :
    rowFilter raw = none ↔
      (raw.carrier ≠ "\x1a" ∧ raw.service ≠ "V" ∧ raw.service ≠ "U" ∧ pyInt raw.stops = some 0 ∧
        raw.operating ≠ "N" ∧ raw.genacft ∉ ["BUS", "HOV", "LCH", "LMO", "RFS", "TRN"]) := by
  unfold rowFilter
  cases hs : pyInt raw.stops with
  | none => simp; split_ifs <;> simp
  | some k =>
    by_cases hk : k = 0
    · subst hk; simp [EXCLUDE_EQUIPMENT]; split_ifs <;> simp_all <;> grind
    · simp [hk]; split_ifs <;> simp

example : rowFilter ⟨"VT", "124", "AAA", "FAC", "1730", "1750", "", " 2", "00", "AT7", "AT7", "J", "68", "20190115",
    "20190115", "47", "", "L"⟩ = none := by decide

/-- **Rows are skipped only for the documented reasons.**  A row is not imported iff one of: a filter code applies
(end-of-file marker, surface service V/U, stops ≠ 0, non-operating carrier, non-aircraft equipment), a field does not
parse, an airport is unknown, the computed distance is below 1 km, or the stated distance is positive and differs from the
computed one by more than 50 km **and** by more than 10 %.  (`gcKmC v` is the computed distance of variant `v`.) -/
theorem skip_only_for_documented_reasons (v : Variant) (env : Env ℝ) (line : Nat) (raw : Raw) :
    rowDecision v env line raw ≠ .imported ↔
      ((rowFilter raw).isSome = true ∨ parseRaw line raw = none ∨
        ∃ r, parseRaw line raw = some r ∧
          (env.lookup r.depapt = none ∨ env.lookup r.arrapt = none ∨
            ∃ olat olon otz dlat dlon dtz,
              env.lookup r.depapt = some (olat, olon, otz) ∧ env.lookup r.arrapt = some (dlat, dlon, dtz) ∧
              (gcKmC v env olat olon dlat dlon < 1 ∨
                ((0 : ℝ) < givenKm r ∧ 50 < |givenKm r - gcKmC v env olat olon dlat dlon| ∧
                  gcKmC v env olat olon dlat dlon / 10 < |givenKm r - gcKmC v env olat olon dlat dlon|)))) := by
  unfold rowDecision
  cases hf : rowFilter raw with
  | some reason =>
    simp only [Option.isSome_some, true_or, iff_true]
    intro h
    unfold rowFilter at hf
    subst h
    repeat' split at hf
    all_goals simp at hf
  | none =>
    cases hp : parseRaw line raw with
    | none => simp
    | some r =>
      simp only [Option.isSome_none, Bool.false_eq_true, false_or, Option.some.injEq, exists_eq_left',
        reduceCtorEq]
      unfold addDecision
      cases ho : env.lookup r.depapt with
      | none => simp
      | some co =>
        obtain ⟨olat, olon, otz⟩ := co
        cases hd : env.lookup r.arrapt with
        | none => simp
        | some cd =>
          obtain ⟨dlat, dlon, dtz⟩ := cd
          simp only [reduceCtorEq, false_or, Option.some.injEq, Prod.mk.injEq]
          cases hdc : distanceCheck (gcKmC v env olat olon dlat dlon) (givenKm r : ℝ) with
          | ok =>
            have := (distanceCheck_ok_iff _ _).mp hdc
            simp only [ne_eq, not_true_eq_false, false_iff]
            rintro ⟨a, b, c, d, e, f, ⟨rfl, rfl, rfl⟩, ⟨rfl, rfl, rfl⟩, h | ⟨h1, h2, h3⟩⟩
            · exact absurd h (not_lt.mpr this.1)
            · rcases this.2 with h' | h' | h'
              · exact absurd h1 (not_lt.mpr h')
              · exact absurd h2 (not_lt.mpr h')
              · exact absurd h3 (not_lt.mpr h')
          | zero =>
            have := (distanceCheck_zero_iff _ _).mp hdc
            simp only [ne_eq, reduceCtorEq, not_false_eq_true, true_iff]
            exact ⟨_, _, _, _, _, _, ⟨rfl, rfl, rfl⟩, ⟨rfl, rfl, rfl⟩, Or.inl this⟩
          | suspicious =>
            have := (distanceCheck_suspicious_iff _ _).mp hdc
            simp only [ne_eq, reduceCtorEq, not_false_eq_true, true_iff]
            exact ⟨_, _, _, _, _, _, ⟨rfl, rfl, rfl⟩, ⟨rfl, rfl, rfl⟩, Or.inr this.2⟩

/-- the full statement of "a plausible row is never dropped", for a variant `v` of the distance computation: the
plausibility is judged on the true geodesic `geod(lon₁, lat₁, lon₂, lat₂)` -/
def PlausibleNeverDroppedStatement (v : Variant) : Prop :=
  ∀ (env : Env ℝ) (r : Row) (olat olon dlat dlon : ℝ) (otz dtz : String),
    env.lookup r.depapt = some (olat, olon, otz) → env.lookup r.arrapt = some (dlat, dlon, dtz) →
    1 ≤ env.geod olon olat dlon dlat / 1000 →
    (givenKm r ≤ (0 : ℝ) ∨ |givenKm r - env.geod olon olat dlon dlat / 1000| ≤ 50 ∨
      |givenKm r - env.geod olon olat dlon dlat / 1000| ≤ env.geod olon olat dlon dlat / 1000 / 10) →
    addDecision v env r = .imported

/-- **A plausible row is never dropped** — intended behaviour (`GEOD.inv` called with lon, lat, lon, lat). -/
theorem plausible_never_dropped : PlausibleNeverDroppedStatement Variant.fixed := by
  intro env r olat olon dlat dlon otz dtz ho hd hgc hpl
  unfold addDecision
  rw [ho, hd]
  have e : gcKmC Variant.fixed env olat olon dlat dlon = env.geod olon olat dlon dlat / 1000 := by
    simp only [gcKmC, Variant.fixed, Bool.false_eq_true, if_false, lit_real]; norm_num
  simp only [e]
  rw [(distanceCheck_ok_iff _ _).mpr ⟨hgc, hpl⟩]

/-- … and with the filter and the parser in front: a well-formed row with no filter code, known airports and a plausible
stated distance is imported. -/
theorem plausible_row_imported (env : Env ℝ) (line : Nat) (raw : Raw) (r : Row) (olat olon dlat dlon : ℝ)
    (otz dtz : String) (hf : rowFilter raw = none) (hp : parseRaw line raw = some r)
    (ho : env.lookup r.depapt = some (olat, olon, otz)) (hd : env.lookup r.arrapt = some (dlat, dlon, dtz))
    (hgc : 1 ≤ env.geod olon olat dlon dlat / 1000)
    (hpl : givenKm r ≤ (0 : ℝ) ∨ |givenKm r - env.geod olon olat dlon dlat / 1000| ≤ 50 ∨
      |givenKm r - env.geod olon olat dlon dlat / 1000| ≤ env.geod olon olat dlon dlat / 1000 / 10) :
    rowDecision Variant.fixed env line raw = .imported := by
  unfold rowDecision
  rw [hf, hp]
  exact plausible_never_dropped env r olat olon dlat dlon otz dtz ho hd hgc hpl

/-- the code as it exists (swapped arguments): the same holds, but only relative to the distance it computes,
`geod(lat₁, lon₁, lat₂, lon₂)` — the part of the statement that survives the open finding -/
theorem plausible_never_dropped_partial (env : Env ℝ) (r : Row) (olat olon dlat dlon : ℝ) (otz dtz : String)
    (ho : env.lookup r.depapt = some (olat, olon, otz)) (hd : env.lookup r.arrapt = some (dlat, dlon, dtz))
    (hgc : 1 ≤ env.geod olat olon dlat dlon / 1000)
    (hpl : givenKm r ≤ (0 : ℝ) ∨ |givenKm r - env.geod olat olon dlat dlon / 1000| ≤ 50 ∨
      |givenKm r - env.geod olat olon dlat dlon / 1000| ≤ env.geod olat olon dlat dlon / 1000 / 10) :
    addDecision Variant.current env r = .imported := by
  unfold addDecision
  rw [ho, hd]
  have e : gcKmC Variant.current env olat olon dlat dlon = env.geod olat olon dlat dlon / 1000 := by
    simp only [gcKmC, Variant.current, if_true, lit_real]; norm_num
  simp only [e]
  rw [(distanceCheck_ok_iff _ _).mpr ⟨hgc, hpl⟩]

/-- a world for the witnesses: two airports on the equator 10° of longitude apart, a "geodesic" that weighs its 1st/3rd
arguments (longitudes) 100 km per degree and its 2nd/4th (latitudes) 1 km per degree -/
noncomputable def witnessEnv : Env ℝ :=
  { year := 2019
    lookup := fun c => if c = "AAA" then some (0, 0, "UTC") else if c = "BBB" then some (0, 10, "UTC") else none
    geod := fun a b c d => 1000 * (100 * |a - c| + |b - d|)
    off := fun _ _ => 0 }

def witnessRow : Row :=
  { line := 2, carrier := "XX", fltno := 1, depapt := "AAA", arrapt := "BBB", depMin := 600, arrMin := 700, arrDay := 0,
    days := [1, 2, 3, 4, 5, 6, 7], distance := 621, inpacft := "738", service := "J", seats := 100,
    efffrom := some ⟨2019, 1, 1⟩, effto := some ⟨2019, 1, 31⟩ }

/-- non-vacuity of `plausible_never_dropped`: the witness row (621 mi ≈ 999.4 km stated, 1000 km true) satisfies its
hypotheses -/
example : witnessEnv.lookup witnessRow.depapt = some (0, 0, "UTC") ∧
    witnessEnv.lookup witnessRow.arrapt = some (0, 10, "UTC") ∧
    (1 : ℝ) ≤ witnessEnv.geod 0 0 10 0 / 1000 ∧
    |givenKm witnessRow - witnessEnv.geod 0 0 10 0 / 1000| ≤ 50 := by
  refine ⟨by simp (decide := true) [witnessEnv, witnessRow], by simp (decide := true) [witnessEnv, witnessRow], ?_, ?_⟩
  · simp only [witnessEnv]; norm_num
  · simp only [witnessEnv, witnessRow, givenKm, Gen.STATUTE_MILES_TO_KM, lit_real]; norm_num [abs_le]

/-- **Negation witness for the code as it exists** (open finding `C13-distance-check-geod-args-swapped`): with the swapped
arguments the plausible witness row is dropped as "suspicious distance". -/
theorem plausible_dropped_as_is : ¬ PlausibleNeverDroppedStatement Variant.current := by
  intro h
  have := h witnessEnv witnessRow 0 0 0 10 "UTC" "UTC" (by simp (decide := true) [witnessEnv, witnessRow])
    (by simp (decide := true) [witnessEnv, witnessRow]) (by simp [witnessEnv]; norm_num)
    (Or.inr (Or.inl (by
      simp only [witnessEnv, witnessRow, givenKm, Gen.STATUTE_MILES_TO_KM, lit_real]; norm_num [abs_le])))
  have hs : addDecision Variant.current witnessEnv witnessRow = .suspiciousDistance := by
    unfold addDecision
    have e1 : witnessEnv.lookup witnessRow.depapt = some (0, 0, "UTC") := by
      simp (decide := true) [witnessEnv, witnessRow]
    have e2 : witnessEnv.lookup witnessRow.arrapt = some (0, 10, "UTC") := by
      simp (decide := true) [witnessEnv, witnessRow]
    rw [e1, e2]
    have e : gcKmC Variant.current witnessEnv 0 0 0 10 = 10 := by
      simp only [gcKmC, Variant.current, if_true, lit_real, witnessEnv]; norm_num
    simp only [e]
    rw [(distanceCheck_suspicious_iff _ _).mpr ?_]
    simp only [witnessRow, givenKm, Gen.STATUTE_MILES_TO_KM, lit_real]
    refine ⟨by norm_num, by norm_num, ?_, ?_⟩ <;> · rw [lt_abs]; left; norm_num
  rw [hs] at this
  cases this

/-! ## The repaired defect (open-ended ranges), kept as a witness -/

/-- On the pinned tree (`Variant.asIs`) a row with an open-ended effective range could never be imported: `add` raised
after the distance check (fixed by the `fix:` commit on b-c13; `count_field_eq_length` shows the repaired code never
raises). -/
theorem open_ended_raised_as_is {α : Type} [Add α] [Sub α] [Mul α] [Div α] [Neg α] [LT α] [LE α]
    [DecidableLT α] [DecidableLE α] [Lit α] (env : Env α) (st : State α) (r : Row)
    (h : r.efffrom = none ∨ r.effto = none) :
    ∀ st', add Variant.asIs env st r ≠ .ok (st', .imported) := by
  intro st' hc
  have hb : (Variant.asIs.rawRange && (r.efffrom.isNone || r.effto.isNone)) = true := by
    rcases h with h | h <;> simp [Variant.asIs, h]
  unfold add at hc
  simp only [hb, if_true] at hc
  repeat' split at hc
  all_goals simp at hc

end C13
