/-
  C14 — Mission queries return exactly the flight instances matching the filter.

  Theorems about the model `AeicModel/Query.lean` (the repaired code: `build true`, `Filter.toConds true`),
  for ALL filters, query fields, databases and build histories; plus negation witnesses for the code as
  shipped (`… false`).  Definitions of the documented predicates (`specFilter`, `specQuery`, `legalDoc`)
  live in `AeicProofs/Lemmas/C14*.lean`.
-/
import AeicProofs.Lemmas.C14Builder
import AeicProofs.Lemmas.C14Query

set_option linter.unusedSimpArgs false
set_option linter.unusedVariables false
set_option linter.unusedSectionVars false

namespace C14
open Aeic Aeic.Query

section
variable {α : Type} [LT α] [LE α] [DecidableLT α] [DecidableLE α] [Lit α]

/-! ## Conditions mean what the documentation says -/

/-- For every accepted filter (no spatial field given as an empty list), every database with unique
    airport ids and every joined row: SQLite's truth value of the conjunction of the emitted
    conditions is the documented predicate (all given conditions, combined flavour = origin OR
    destination, directed flavours on their own end). -/
theorem conds_sem_iff_spec {db : DB α} (hu : AirportIdsUnique db) (draw : Nat → α) (f : Filter α)
    {cs : List (Cond α)} (hc : f.toConds true = .ok cs) (hne : noEmptySpatial f)
    {r : JRow α} (hj : JoinOk db r) :
    semAll db draw cs r.s r.f = true ↔ specFilter db f r := by
  obtain ⟨hn, rfl⟩ := toConds_ok hc
  obtain ⟨e1, e2, e3, e4⟩ := exclusive_of_normalizeOk f hn hne
  exact filterConds_sem_iff hu draw f e1 e2 e3 e4 hj

/-- The same for a whole query: filter, inclusive start/end dates on the UTC day of departure,
    every-nth-day counted from the start date (or the first day in the database), sampling draw. -/
theorem query_conds_sem_iff_spec {db : DB α} (hu : AirportIdsUnique db) (draw : Nat → α) {q : QSpec α}
    {cs : List (Cond α)} (hc : conditionsOf true q = .ok cs)
    (hne : ∀ f, q.filter = some f → noEmptySpatial f) {r : JRow α} (hj : JoinOk db r) :
    semAll db draw cs r.s r.f = true ↔ specQuery db draw q r :=
  conds_sem_iff_specQuery hu draw hc hne hj

/-- A bounding-box condition is sound for the true coordinates whenever the R-tree entry brackets
    them (SQLite rounds the stored interval outwards to float32). -/
theorem bbox_sound (htrans : ∀ a b c : α, a ≤ b → b ≤ c → a ≤ c) {db : DB α} {b : BBox α} {a : Airport}
    (lat lon : α)
    (hbr : ∀ e ∈ db.rtree, e.id = a.id → e.minLat ≤ lat ∧ lat ≤ e.maxLat ∧ e.minLon ≤ lon ∧ lon ≤ e.maxLon)
    (h : regionHolds db (.bbox b) a) :
    b.minLat ≤ lat ∧ lat ≤ b.maxLat ∧ b.minLon ≤ lon ∧ lon ≤ b.maxLon := by
  obtain ⟨e, he, hid, h1, h2, h3, h4⟩ := h
  obtain ⟨g1, g2, g3, g4⟩ := hbr e he hid
  exact ⟨htrans _ _ _ h1 g1, htrans _ _ _ g2 h2, htrans _ _ _ h3 g3, htrans _ _ _ g4 h4⟩

/-- … and complete when the entry is exact. -/
theorem bbox_complete_exact {db : DB α} {b : BBox α} {a : Airport} (lat lon : α)
    (hex : ∃ e ∈ db.rtree, e.id = a.id ∧ e.minLat = lat ∧ e.maxLat = lat ∧ e.minLon = lon ∧ e.maxLon = lon)
    (h : b.minLat ≤ lat ∧ lat ≤ b.maxLat ∧ b.minLon ≤ lon ∧ lon ≤ b.maxLon) :
    regionHolds db (.bbox b) a := by
  obtain ⟨e, he, hid, e1, e2, e3, e4⟩ := hex
  exact ⟨e, he, hid, by rw [e1]; exact h.1, by rw [e2]; exact h.2.1, by rw [e3]; exact h.2.2.1,
    by rw [e4]; exact h.2.2.2⟩

/-! ## Spatial compatibility rule -/

/-- A filter is refused (with the spatial-mix error, before anything else happens) exactly when it
    violates the documented rule; otherwise `to_sql` succeeds. -/
theorem illegal_spatial_mix_refused (f : Filter α) :
    (f.toConds true = .error .invalidSpatial ↔ ¬ legalDoc f) ∧
    (legalDoc f → f.toConds true = .ok (filterConds f)) := by
  rw [toConds_fixed, ← normalizeOk_iff_legalDoc]
  cases normalizeOk f <;> simp

/-! ## Placeholders, rebuilds, aliasing -/

/-- After ANY history of builds (fields may have been changed in between), a successful build returns
    an SQL text whose number of `?` equals the length of the parameter list it returns. -/
theorem placeholders_eq_params (hist : List (QSpec α)) (q : QSpec α) (st' : QState α) (b : Built)
    (h : build true q (buildAll true hist {}).1 = .ok (st', b)) :
    qmCount b.sql = (st'.deref b).length := by
  obtain ⟨new, _, hs, hd⟩ := build_fixed_deref h
  rw [hs, hd, sqlOf_qm]

/-- The same for `Filter.to_sql` on its own (any column prefix). -/
theorem filter_placeholders_eq_params (f : Filter α) (t : String) (cs : List (Cond α))
    (h : f.toConds true = .ok cs) : qmCount (andJoin t cs) = (paramsOf cs).length :=
  andJoin_qm t cs

/-- A query object is a value: what a build returns (text and parameter values, or the refusal)
    depends on the current fields only — not on the state left by any earlier builds. -/
theorem rebuild_same_answer (st : QState α) (q : QSpec α) :
    (build true q st).map (fun r => (r.2.sql, r.1.deref r.2)) =
      (build true q {}).map (fun r => (r.2.sql, r.1.deref r.2)) := by
  cases h1 : build true q st with
  | error e =>
    rw [build_fixed_eq] at h1
    rw [build_fixed_eq]
    cases hc : conditionsOf true q <;> simp_all [Except.map]
  | ok r1 =>
    obtain ⟨n1, c1, s1, d1⟩ := build_fixed_deref h1
    cases h2 : build true q {} with
    | error e =>
      rw [build_fixed_eq] at h2
      simp [c1, Except.map] at h2
    | ok r2 =>
      obtain ⟨n2, c2, s2, d2⟩ := build_fixed_deref h2
      have : n1 = n2 := by rw [c1] at c2; cases c2; rfl
      subst this
      simp [Except.map, s1, s2, d1, d2]

/-- A `(sql, params)` pair handed out earlier stays intact and consistent after any number of later
    builds on the same object. -/
theorem earlier_sql_still_valid (st st' : QState α) (q : QSpec α) (b : Built)
    (h : build true q st = .ok (st', b)) (later : List (QSpec α)) :
    let fin := (buildAll true later st').1
    fin.deref b = st'.deref b ∧ qmCount b.sql = (fin.deref b).length := by
  intro fin
  obtain ⟨new, _, _, h4, _, h6⟩ := build_fixed_ok h
  have hlt : b.ref < st'.heap.length := by rw [h4, h6]; simp
  have hk := (buildAll_fixed_preserves later st').2 b.ref hlt
  have e : fin.deref b = st'.deref b := by unfold QState.deref; exact hk
  refine ⟨e, ?_⟩
  rw [e]
  obtain ⟨new', c', s', d'⟩ := build_fixed_deref h
  rw [s', d', sqlOf_qm]

/-! ## Empty filter -/

/-- A filter with no conditions is accepted, contributes no condition and no parameter, and a query
    using it returns every joined instance (in departure order) / counts every schedule row. -/
theorem empty_filter_selects_all (f : Filter α) (hf : noConditions f) (db : DB α) (draw : Nat → α) :
    f.toConds true = .ok [] ∧
    run db draw { kind := .query, filter := some f } = .ok ((joined db).mergeSort leDep) ∧
    count db draw { kind := .count, filter := some f } = .ok db.schedules.length := by
  obtain ⟨h1, h2, h3, h4, h5, h6, h7, h8, h9, h10⟩ := hf
  have hconds : filterConds f = [] := by
    unfold filterConds
    rw [h1, h2, h3, h4, h7, h8, h9, h10]
    rcases h5 with h5 | h5 <;> rcases h6 with h6 | h6 <;>
      simp [h5, h6, optCond, inListCond, spatialConds]
  have hnorm : normalizeOk f = true := by
    unfold normalizeOk spatialCounts
    rw [h7, h8, h9, h10]
    rfl
  have hto : f.toConds true = .ok [] := by rw [toConds_fixed, hnorm, hconds]; rfl
  refine ⟨hto, ?_, ?_⟩
  · simp [run, conditionsOf, validate, commonConds, extraConds, hto, optCond, bind, Except.bind,
      runConds, window, matching_nil]
  · simp [count, conditionsOf, validate, commonConds, extraConds, hto, optCond, bind, Except.bind,
      countConds]

/-! ## Evaluators -/

/-- What a `Query` returns is the matching joined rows, sorted by departure time, cut by
    LIMIT/OFFSET: sorted, a sub-list of the sorted matching list (`= drop offset |> take limit`),
    every row satisfies the documented predicate, and without a limit it is a permutation of
    exactly the matching rows. -/
theorem run_sorted_limit_offset {db : DB α} (hu : AirportIdsUnique db) (draw : Nat → α) (q : QSpec α)
    (hne : ∀ f, q.filter = some f → noEmptySpatial f) (rows : List (JRow α))
    (h : run db draw q = .ok rows) :
    ∃ cs, conditionsOf true q = .ok cs ∧
      rows = window q.limit q.offset ((matching db draw cs).mergeSort leDep) ∧
      rows.Pairwise (fun a b => a.s.dep ≤ b.s.dep) ∧
      (∀ r ∈ rows, r ∈ joined db ∧ specQuery db draw q r) ∧
      (∀ r ∈ joined db, specQuery db draw q r → r ∈ (matching db draw cs).mergeSort leDep) ∧
      (q.limit = none → rows.Perm (matching db draw cs)) := by
  unfold run at h
  cases hc : conditionsOf true q with
  | error e => simp [hc, bind, Except.bind] at h
  | ok cs =>
    simp only [hc, bind, Except.bind, Except.ok.injEq] at h
    subst h
    refine ⟨cs, rfl, rfl, ?_, ?_, ?_, ?_⟩
    · exact (sorted_mergeSort_leDep _).sublist (window_sublist _ _ _)
    · intro r hr
      have hm : r ∈ matching db draw cs :=
        (List.mergeSort_perm _ _).mem_iff.mp ((window_sublist _ _ _).subset hr)
      obtain ⟨hj, hs⟩ := mem_matching.mp hm
      exact ⟨hj, (conds_sem_iff_specQuery hu draw hc hne (mem_joined hj).2.2).mp hs⟩
    · intro r hj hs
      apply (List.mergeSort_perm _ _).mem_iff.mpr
      exact mem_matching.mpr ⟨hj, (conds_sem_iff_specQuery hu draw hc hne (mem_joined hj).2.2).mpr hs⟩
    · intro hl
      unfold runConds
      rw [hl]
      exact List.mergeSort_perm _ _

/-- A `CountQuery` returns the number of matching joined instances — including through the
    "no conditions ⇒ count the schedules table" shortcut, given referential integrity. -/
theorem count_eq_length {db : DB α} (hint : ∀ s ∈ db.schedules, (joinRow db s).isSome = true)
    (draw : Nat → α) (q : QSpec α) (n : Nat) (h : count db draw q = .ok n) :
    ∃ cs, conditionsOf true q = .ok cs ∧ n = (matching db draw cs).length := by
  unfold count at h
  cases hc : conditionsOf true q with
  | error e => simp [hc, bind, Except.bind] at h
  | ok cs =>
    simp only [hc, bind, Except.bind, Except.ok.injEq] at h
    subst h
    refine ⟨cs, rfl, ?_⟩
    unfold countConds
    split
    · next he =>
      have : cs = [] := by simpa using he
      subst this
      rw [matching_nil]
      exact (length_filterMap_of_isSome _ _ hint).symm
    · rfl

/-- Rows of a frequent-route query: sorted by descending count, one row per route key, each with the
    true number of matching instances of that key (> 0), at most `limit` rows, nothing left out has
    a larger count than anything returned, and every route is present when the limit allows. -/
theorem frequent_counts_true_and_sorted (db : DB α) (draw : Nat → α) (cs : List (Cond α)) (limit : Int) :
    let rows := (joinedSF db).filter (fun r => semAll db draw cs r.1 r.2)
    let groups := groupCounts (rows.map (fun r => r.2.odPair))
    let res := frequentConds db draw cs limit
    res.Pairwise (fun a b => b.2 ≤ a.2) ∧
    (res.map (·.1)).Nodup ∧
    (∀ k n, (k, n) ∈ res → n = (rows.filter (fun r => r.2.odPair = k)).length ∧ 0 < n) ∧
    res.length ≤ limit.toNat ∧
    (∃ rest, (res ++ rest).Perm groups ∧ ∀ a ∈ res, ∀ b ∈ rest, b.2 ≤ a.2) ∧
    (groups.length ≤ limit.toNat → ∀ r ∈ rows, r.2.odPair ∈ res.map (·.1)) := by
  intro rows groups res
  have hres : res = (groups.mergeSort geCount).take limit.toNat := rfl
  have hsorted : (groups.mergeSort geCount).Pairwise (fun a b => b.2 ≤ a.2) := by
    refine (List.pairwise_mergeSort (le := geCount) geCount_trans geCount_total groups).imp ?_
    intro a b h; simpa [geCount] using h
  have hperm := List.mergeSort_perm groups geCount
  refine ⟨?_, ?_, ?_, ?_, ?_, ?_⟩
  · rw [hres]; exact hsorted.sublist (List.take_sublist _ _)
  · rw [hres]
    have hnd : ((groups.mergeSort geCount).map (·.1)).Nodup :=
      (List.Perm.nodup_iff (hperm.map _)).mpr (keys_nodup_groupCounts _)
    exact List.Nodup.sublist ((List.take_sublist _ _).map _) hnd
  · intro k n hkn
    rw [hres] at hkn
    have hm : (k, n) ∈ groups := hperm.mem_iff.mp (List.mem_of_mem_take hkn)
    obtain ⟨h1, h2⟩ := groupCounts_true _ hm
    refine ⟨?_, h2⟩
    rw [h1, List.count_eq_countP, List.countP_map, List.countP_eq_length_filter]
    congr 1
  · rw [hres, List.length_take]; omega
  · refine ⟨(groups.mergeSort geCount).drop limit.toNat, ?_, ?_⟩
    · rw [hres, List.take_append_drop]; exact hperm
    · intro a ha b hb
      have := hsorted
      rw [← List.take_append_drop limit.toNat (groups.mergeSort geCount), List.pairwise_append] at this
      exact this.2.2 a (by rw [hres] at ha; exact ha) b hb
  · intro hlen r hr
    have hk : r.2.odPair ∈ groups.map (·.1) :=
      groupCounts_complete _ (List.mem_map.mpr ⟨r, hr, rfl⟩)
    have hfull : res = groups.mergeSort geCount := by
      rw [hres]
      apply List.take_of_length_le
      rw [List.length_mergeSort]; exact hlen
    rw [hfull]
    exact (hperm.map _).mem_iff.mpr hk

/-- Route keys are direction independent when the table stores a symmetric key of the two airport
    codes (the importer stores `min(o, d) ++ max(o, d)`): both directions fall into one group. -/
theorem frequent_direction_independent (db : DB α) (iata : Nat → String)
    (canon : String → String → String) (hsym : ∀ a b, canon a b = canon b a)
    (hod : ∀ f ∈ db.flights, f.odPair = canon (iata f.origin) (iata f.destination))
    {f g : Flight α} (hf : f ∈ db.flights) (hg : g ∈ db.flights)
    (h : f.origin = g.destination ∧ f.destination = g.origin) : f.odPair = g.odPair := by
  rw [hod f hf, hod g hg, h.1, h.2, hsym]

/-- The full sampling clause ("a subset of the expected size"), for an expectation operator `E` over
    the random draws (`E` must be the expectation for independent uniform draws; `scale p n` is `p·n`):
    the expected number of rows of an unlimited sampled query is the fraction times the number of rows
    of the unsampled query.  Not proved: it needs a probability model of SQLite's `random()`; the
    harness checks it statistically (6-sigma binomial band). -/
def sampleSizeStatement (E : ((Nat → α) → Nat) → α) (scale : α → Nat → α) : Prop :=
  ∀ (db : DB α) (q : QSpec α) (p : α) (rows' : List (JRow α)),
    q.kind = .query → q.sample = some p → q.limit = none →
    (∀ draw, run db draw { q with sample := none } = .ok rows') →
    E (fun draw => match run db draw q with
        | .ok rows => rows.length
        | .error _ => 0) = scale p rows'.length

/-- Sampling returns a subset: for ANY values of the random draws, an unlimited sampled query returns
    (a permutation of) the rows of the unsampled query whose draw is below the fraction.
    (Partial: the expected-size clause is `sampleSizeStatement`.) -/
theorem sample_subset_partial (db : DB α) (draw : Nat → α) (q : QSpec α) (p : α)
    (hk : q.kind = .query) (hs : q.sample = some p) (hl : q.limit = none)
    (rows rows' : List (JRow α)) (h : run db draw q = .ok rows)
    (h' : run db draw { q with sample := none } = .ok rows') :
    rows.Perm (rows'.filter (fun r => decide (draw r.s.id < p))) ∧ rows.length ≤ rows'.length := by
  unfold run at h h'
  cases hc : conditionsOf true q with
  | error e => simp [hc, bind, Except.bind] at h
  | ok cs =>
    cases hc' : conditionsOf true { q with sample := none } with
    | error e => simp [hc', bind, Except.bind] at h'
    | ok cs' =>
      simp only [hc, bind, Except.bind, Except.ok.injEq] at h
      simp only [hc', bind, Except.bind, Except.ok.injEq] at h'
      subst h h'
      simp only [runConds, hl, window_none]
      obtain ⟨_, fc, hfc, rfl⟩ := conditionsOf_ok hc
      obtain ⟨_, fc', hfc', rfl⟩ := conditionsOf_ok hc'
      have hfeq : fc = fc' := by
        have : (Except.ok fc : Except Err _) = .ok fc' := by rw [← hfc, ← hfc']
        cases this; rfl
      subst hfeq
      have hsem : ∀ (s : Sched) (f : Flight α),
          semAll db draw (fc ++ optCond (fun d => Cond.depFrom (d * 86400)) q.startDay
              ++ optCond (fun d => Cond.depBefore ((d + 1) * 86400)) q.endDay ++ extraConds q) s f =
          (semAll db draw (fc ++ optCond (fun d => Cond.depFrom (d * 86400)) q.startDay
              ++ optCond (fun d => Cond.depBefore ((d + 1) * 86400)) q.endDay
              ++ extraConds { q with sample := none }) s f && decide (draw s.id < p)) := by
        intro s f
        simp only [semAll_append, extraConds, hk, hs, optCond]
        simp only [semAll, List.all_cons, List.all_nil, sem, Bool.and_true]
        cases semAll db draw fc s f <;> simp [Bool.and_comm, Bool.and_assoc, Bool.and_left_comm, semAll]
      have hmatch : matching db draw (fc ++ optCond (fun d => Cond.depFrom (d * 86400)) q.startDay
              ++ optCond (fun d => Cond.depBefore ((d + 1) * 86400)) q.endDay ++ extraConds q) =
          (matching db draw (fc ++ optCond (fun d => Cond.depFrom (d * 86400)) q.startDay
              ++ optCond (fun d => Cond.depBefore ((d + 1) * 86400)) q.endDay
              ++ extraConds { q with sample := none })).filter (fun r => decide (draw r.s.id < p)) := by
        unfold matching
        rw [List.filter_filter]
        apply List.filter_congr
        intro r _
        rw [hsem, Bool.and_comm]
      have hp : ((matching db draw (fc ++ optCond (fun d => Cond.depFrom (d * 86400)) q.startDay
              ++ optCond (fun d => Cond.depBefore ((d + 1) * 86400)) q.endDay ++ extraConds q)).mergeSort leDep).Perm
          (((matching db draw (fc ++ optCond (fun d => Cond.depFrom (d * 86400)) q.startDay
              ++ optCond (fun d => Cond.depBefore ((d + 1) * 86400)) q.endDay
              ++ extraConds { q with sample := none })).mergeSort leDep).filter
                (fun r => decide (draw r.s.id < p))) := by
        refine (List.mergeSort_perm _ _).trans ?_
        rw [hmatch]
        exact ((List.mergeSort_perm _ _).filter _).symm
      refine ⟨hp, ?_⟩
      rw [hp.length_eq]
      exact List.length_filter_le _ _

end

/-! ## The code as shipped (before the `fix:` commits) violates the property -/

/-- as shipped, `Filter().to_sql()` raises instead of selecting everything -/
theorem as_is_empty_filter_raises :
    (({} : Filter Int).toConds false = .error .emptyUnpack) ∧ (({} : Filter Int).toConds true = .ok []) := by
  constructor <;> rfl

/-- as shipped, building a query a second time changes the parameter list returned by the first
    build: the first SQL text has 1 placeholder but now 2 parameters ("Incorrect number of bindings") -/
theorem as_is_second_build_breaks_first :
    ∃ (q : QSpec Int) (st1 st2 : QState Int) (b1 b2 : Built),
      build false q {} = .ok (st1, b1) ∧ build false q st1 = .ok (st2, b2) ∧
      qmCount b1.sql = 1 ∧ (st1.deref b1).length = 1 ∧ (st2.deref b1).length = 2 := by
  refine ⟨{ kind := .count, startDay := some 17899 }, _, _, _, _, rfl, rfl, ?_, ?_, ?_⟩ <;> decide

/-- as shipped, the second build of the same object differs from the first (conditions accumulate) -/
theorem as_is_rebuild_differs :
    ∃ (q : QSpec Int) (st1 st2 : QState Int) (b1 b2 : Built),
      build false q {} = .ok (st1, b1) ∧ build false q st1 = .ok (st2, b2) ∧
      qmCount b1.sql ≠ qmCount b2.sql := by
  refine ⟨{ kind := .count, startDay := some 17899 }, _, _, _, _, rfl, rfl, ?_⟩; decide

/-- as shipped, a sample keeps or drops all instances of one flight together (for ANY draws): the draw
    was a function of the flight -/
theorem as_is_sample_per_flight {α : Type} [LT α] [DecidableLT α] (draw : Nat → α) (p : α)
    (f g : Flight α) (h : f.id = g.id) : semSampleAsIs draw p f = semSampleAsIs draw p g := by
  unfold semSampleAsIs; rw [h]

/-- repaired: the draw is per instance — two different instances (even of one flight) can be told apart
    by the sampling condition -/
theorem sample_draw_per_instance (db : DB Int) (s1 s2 : Sched) (f : Flight Int) (h : s1.id ≠ s2.id) :
    ∃ draw : Nat → Int, sem db draw (.sample 1) s1 f = true ∧ sem db draw (.sample 1) s2 f = false := by
  refine ⟨fun i => if i = s1.id then 0 else 1, ?_, ?_⟩
  · simp [sem]
  · have : ¬ s2.id = s1.id := fun e => h e.symm
    simp [sem, this]

/-! ## Non-vacuity -/

/-- an accepted filter with a legal spatial mix and no empty lists exists -/
example : ∃ f : Filter Int, f.toConds true = .ok (filterConds f) ∧ noEmptySpatial f ∧ legalDoc f ∧
    filterConds f ≠ [] := by
  refine ⟨{ minDistance := some 1000, country := { origin := some ["US"] },
            continent := { destination := some ["SA"] } }, rfl, ?_, ?_, ?_⟩
  · intro t ht o ho; simp at ht; rcases ht with rfl | rfl | rfl <;> simp at ho <;>
      rcases ho with rfl | rfl | rfl <;> simp
  · rw [← normalizeOk_iff_legalDoc]; rfl
  · simp [filterConds, optCond]

/-- an illegal mix exists and is refused -/
example : ({ country := { both := some ["US"], origin := some ["CA"] } } : Filter Int).toConds true
    = .error .invalidSpatial := rfl

example : AirportIdsUnique demoDB := by simp [AirportIdsUnique, demoDB]
example : ∀ s ∈ demoDB.schedules, (joinRow demoDB s).isSome = true := by decide
example : (joined demoDB).length = 2 := by decide
example : ∃ rows, run demoDB (fun _ => 0)
    { kind := .query, filter := some { country := { origin := some ["US"] } }, startDay := some 17897,
      endDay := some 17897 } = .ok rows := ⟨_, rfl⟩
example : count demoDB (fun _ => 0) { kind := .count } = .ok 2 := rfl
example : ∃ res, frequent demoDB (fun _ => 0) { kind := .frequent, limit := some 20 } = .ok res := ⟨_, rfl⟩
/-- the build hypotheses are satisfiable: a query builds, and rebuilds, successfully -/
example : ∃ st b, build true ({ kind := .count, startDay := some 3 } : QSpec Int) {} = .ok (st, b) :=
  ⟨_, _, rfl⟩
/-- sampled and unsampled query both valid -/
example : ∃ r r', run demoDB (fun _ => 0) ({ kind := .query, sample := some 1 } : QSpec Int) = .ok r ∧
    run demoDB (fun _ => 0) ({ ({ kind := .query, sample := some 1 } : QSpec Int) with sample := none }) = .ok r' :=
  ⟨_, _, rfl, rfl⟩

end C14
