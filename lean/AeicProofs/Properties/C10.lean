/-
  C10 — Rejected or interrupted store operations lose and corrupt nothing.
  Part 1 (this file, first half): rejected additions on the store model of `AeicModel/Store.lean`.
  Part 2: the merge protocol of `AeicModel/Merge.lean` (file-system step sequence with a fault at any step).
-/
import AeicProofs.Lemmas.StoreMain
import AeicProofs.Lemmas.MergeProto
import AeicModel.MergeProg
import AeicModel.Generated.MergeProg
import AeicProofs.Lemmas.AddProg
import AeicModel.Generated.AddProg

namespace C10
open Aeic.Store

/-- A rejected addition (whatever the reason: missing required value, different field sets, inconsistent identifier use,
    too large for the cache, in-memory store full, read-only session, no session) leaves the abstract state of the store
    — contents, length, schema, session — exactly as it was, in every reachable state. -/
theorem rejected_add_keeps_state (w : World) (hw : WInv w) (it : Item) (e : Err)
    (hrej : (step w (.add it)).2 = .err e) : absW (step w (.add it)).1 = absW w := by
  obtain ⟨_, h2⟩ := step_spec w (.add it) hw
  have hspec : (specStep (absW w) (.add it)).2 = .err e := by rw [h2]; exact hrej
  have : (specStep (absW w) (.add it)).1 = absW w := by
    simp only [specStep] at hspec ⊢
    cases hs : (absW w).sess with
    | none => rfl
    | some s =>
      simp only [hs] at hspec ⊢
      split
      · rfl
      · rename_i hmode
        rw [if_neg hmode] at hspec
        cases hr : specAddRefusal s ((absW w).items s) it with
        | some e' => rfl
        | none =>
          rw [hr] at hspec
          simp only [specAddSuccess] at hspec
          split at hspec <;> cases hspec
  rw [h2] at this
  exact this

/-- …and therefore every later operation sequence behaves exactly as if the rejected addition had never been attempted:
    same indices for later additions, same contents on every index, same length, same view after reopening. -/
theorem rejected_add_is_noop (w : World) (hw : WInv w) (it : Item) (e : Err)
    (hrej : (step w (.add it)).2 = .err e) (ops : List Op) :
    run (step w (.add it)).1 ops = run w ops := by
  rw [run_refines ops _ (step_spec w (.add it) hw).1, run_refines ops w hw,
    rejected_add_keeps_state w hw it e hrej]

/-- the same, from the initial state: in any history, deleting a rejected `add` changes no other output -/
theorem rejected_add_removable (pre post : List Op) (it : Item) (e : Err)
    (hrej : (step (finalWorld World.init pre) (.add it)).2 = .err e) :
    run (finalWorld World.init (pre ++ [.add it])) post = run (finalWorld World.init pre) post := by
  have happ : ∀ (xs : List Op) (w0 : World), finalWorld w0 (xs ++ [.add it]) = (step (finalWorld w0 xs) (.add it)).1 := by
    intro xs
    induction xs with
    | nil => intro w0; rfl
    | cons op rest ih => intro w0; simp only [List.cons_append, finalWorld]; exact ih _
  have hfw := happ pre World.init
  rw [hfw]
  exact rejected_add_is_noop _ (reachable_inv pre) it e hrej post

/-- each listed kind of invalid trajectory is indeed rejected by a linked store (so the theorems above are not vacuous) -/
theorem invalid_kinds_rejected (w : World) (hw : WInv w) (s : Sess) (hs : w.sess = some s) (hmode : s.mode ≠ .read)
    (hl : s.linked = true) (it : Item)
    (hbad : it.complete = false ∨ it.fs ≠ w.disk.fs ∨ it.fid.isSome ≠ w.disk.hasIndex) :
    (step w (.add it)).2 = .err .valueError := by
  obtain ⟨_, h2⟩ := step_spec w (.add it) hw
  have hout : (step w (.add it)).2 = (specStep (absW w) (.add it)).2 := by rw [h2]
  rw [hout]
  have hsi := hw.sess s hs
  have hm : s.mem = false := by
    cases hmm : s.mem with
    | false => rfl
    | true => have := (hsi.memShape hmm).1; rw [this] at hl; cases hl
  have hix := (hsi.linkedShape hm hl).2.2
  have hsess : (absW w).sess = some (absSess w.disk s) := by simp [absW, hs]
  have hmode' : ¬ (absSess w.disk s).mode = .read := hmode
  simp only [specStep, hsess, if_neg hmode']
  have : specAddRefusal (absSess w.disk s) ((absW w).items (absSess w.disk s)) it = some .valueError := by
    unfold specAddRefusal absSess absSchema
    simp only [hix, hl, if_true]
    rcases hbad with h | h | h
    · simp [h]
    · have : ¬ w.disk.fs = it.fs := fun hc => h hc.symm
      simp [this]
    · have : ¬ w.disk.hasIndex = it.fid.isSome := fun hc => h hc.symm
      simp [this]
  rw [this]

example : (run World.init [.create true 1, .add ⟨0, 8, some 5, 0, true⟩, .add ⟨1, 8, none, 0, true⟩,
    .add ⟨2, 8, some 6, 1, true⟩, .add ⟨3, 8, some 7, 0, false⟩, .len, .add ⟨4, 8, some 9, 0, true⟩]) =
    [.ok, .idx 0, .err .valueError, .err .valueError, .err .valueError, .len 1, .idx 1] := by decide


/-! ## Part 2 — merge: refused, interrupted by an exception at any step, or killed at any step -/
open Aeic.Merge

/-- a refused merge (any validation rule) leaves the file system exactly as it was, so it can be retried after
    correcting the cause -/
theorem refused_merge_retriable (fsys : FS) (inputs : List String) (fault : Option Nat) (r : Refusal)
    (hv : validate fsys inputs = .error r) : (merge fsys inputs fault).1 = fsys := by
  unfold merge; rw [hv]

/-- a merge interrupted by a failure at **any** file-system step (mkdir, any of the moves, the index file, the metadata
    file) or by the operating system refusing a step ends with the file system exactly as it was before: every trajectory
    is readable from its original file, and the merge can be retried -/
theorem interrupted_merge_restores (fsys : FS) (inputs : List String) (fault : Option Nat)
    (hnot : (merge fsys inputs fault).2 ≠ .ok true) : (merge fsys inputs fault).1 = fsys := by
  unfold merge at hnot ⊢
  cases hv : validate fsys inputs with
  | error r => rfl
  | ok fs =>
    rw [hv] at hnot
    simp only at hnot ⊢
    obtain ⟨hout, hall, _⟩ := validate_ok hv
    obtain ⟨h1, _, _⟩ := run_all fsys fs fault hout hall
    generalize runSteps fsys fault 0 (mergeSteps fs) = r at h1 hnot
    obtain ⟨c, b⟩ := r
    cases b with
    | true => exact absurd rfl hnot
    | false =>
      simp only at h1 ⊢
      rcases h1 with h | ⟨done, hmid⟩
      · subst h; unfold rollback; rw [hout]
      · exact hmid.rollback

/-- if the process is killed after any number of completed steps (no clean-up runs), every input store is readable from
    exactly one place: its original path, or the output directory -/
theorem killed_merge_loses_nothing (fsys : FS) (inputs : List String) (fs : List (String × StoreFile)) (k : Nat)
    (hv : validate fsys inputs = .ok fs) (n : String) (f : StoreFile) (hn : fsys.top n = some f) :
    let cur := crashAfter fsys inputs k
    (cur.top n = some f ∧ ∀ d, cur.out = some d → lookupFile d.files n = none) ∨
    (cur.top n = none ∧ ∃ d, cur.out = some d ∧ lookupFile d.files n = some f) := by
  intro cur
  obtain ⟨hout, hall, _⟩ := validate_ok hv
  obtain ⟨h1, _, _⟩ := run_all fsys fs (some k) hout hall
  have hcur : cur = (runSteps fsys (some k) 0 (mergeSteps fs)).1 := by
    show crashAfter fsys inputs k = _
    unfold crashAfter; rw [hv]
  rw [← hcur] at h1
  rcases h1 with h | ⟨done, hmid⟩
  · left; rw [h]; exact ⟨hn, by intro d hd; rw [hout] at hd; cases hd⟩
  · obtain ⟨d, hd, hfiles⟩ := hmid.out
    have hb := hmid.back n
    cases hl : lookupFile done n with
    | none =>
      left
      rw [hl] at hb; simp only at hb
      refine ⟨by rw [hb]; exact hn, ?_⟩
      intro d' hd'; rw [hd] at hd'; cases hd'; rw [hfiles]; exact hl
    | some g =>
      right
      rw [hl] at hb; simp only at hb
      have hg : g = f := by rw [hn] at hb; cases hb; rfl
      exact ⟨hmid.gone n (by simp [hl]), d, hd, by rw [hfiles, hl, hg]⟩

/-- a merged directory that announces itself as complete (its metadata file exists) — after a complete run, a fault or a
    kill at any step — really contains all parts, in order, with the recorded counts -/
theorem metadata_implies_complete (fsys : FS) (inputs : List String) (fs : List (String × StoreFile)) (fault : Option Nat)
    (hv : validate fsys inputs = .ok fs) (d : MergedDir) (md : List (String × Nat))
    (hd : (runSteps fsys fault 0 (mergeSteps fs)).1.out = some d) (hmd : d.metadata = some md) :
    d.files = fs ∧ md = mdOf fs := by
  obtain ⟨hout, hall, _⟩ := validate_ok hv
  obtain ⟨_, h2, _⟩ := run_all fsys fs fault hout hall
  exact ⟨(h2 d hd md hmd).1, (h2 d hd md hmd).2.1⟩

/-- non-vacuity: a three-input merge with a fault at the second move restores everything; without fault it completes -/
example :
    let a : StoreFile := ⟨[], 0, false⟩
    let top : String → Option StoreFile := fun n => if n = "a" ∨ n = "b" ∨ n = "c" then some a else none
    (merge ⟨top, none⟩ ["a", "b", "c"] (some 2)).2 = .ok false ∧
    (merge ⟨top, none⟩ ["a", "b", "c"] none).2 = .ok true := by
  constructor <;> rfl

/-! ## Source tie: the effect program of `TrajectoryStore.merge`, regenerated from `trajectories/store.py` on every run
    (`Aeic.Gen.mergeProg`; language: `AeicModel/MergeProg.lean`, translator: `harness/common/mergeprog.py`) -/

open Aeic.MergeProg in
/-- the shape of the source, decided by the kernel on the generated program: every refusal comes before the first effect; only the
    creation of the empty output directory is outside the `try`; each move of an input is recorded for undoing after it happened;
    the file that announces a complete store is written by the last effect; and the handler catches every kind of interruption,
    removes every file the body may have created, moves the recorded inputs back, removes the directory and re-raises -/
theorem src_merge_program_well_formed : wellFormed Aeic.Gen.mergeProg = true := by decide

open Aeic.MergeProg in
/-- **the effects of the source, in source order, ARE the step list of the protocol model** — for every list of validated
    inputs; so `refused_merge_retriable`, `interrupted_merge_restores`, `killed_merge_loses_nothing` and
    `metadata_implies_complete`, proved about `mergeSteps`, speak about the order in which the source touches the file system -/
theorem src_merge_steps_are_model (fs : List (String × StoreFile)) :
    progSteps Aeic.Gen.mergeProg fs = mergeSteps fs := by
  simp [progSteps, Aeic.Gen.mergeProg, effSteps, mergeSteps]

open Aeic.MergeProg in
/-- for ANY well-formed effect program the last step is the metadata file: a directory that announces itself complete was
    written after every other effect (a statement about the language, independent of today's program) -/
theorem well_formed_ends_with_metadata (p : Prog) (h : metadataLast p = true) (fs : List (String × StoreFile)) :
    (progSteps p fs).getLast? = some (.writeMetadata (mdOf fs)) := by
  obtain ⟨pre, body, hd⟩ := p
  unfold metadataLast at h
  unfold progSteps
  simp only at h ⊢
  cases hb : body.getLast? with
  | none => simp [hb] at h
  | some e =>
    obtain ⟨init, hinit⟩ : ∃ init, body = init ++ [e] := by
      obtain ⟨ys, hys⟩ := List.getLast?_eq_some_iff.mp hb; exact ⟨ys, hys⟩
    subst hinit
    rw [hb] at h
    have he : effSteps fs e = [.writeMetadata (mdOf fs)] := by
      cases e <;> simp_all [effSteps, isMetadataWrite]
    simp [List.flatMap_append, he]

/-! ### `TrajectoryStore.add` as the source text has it (`Gen.addProgram`, regenerated from `trajectories/store.py` on every run) -/

open Aeic.AddProg in
/-- the shape of `add` in the working tree, decided by the kernel on the regenerated program: every statement that can refuse
    precedes the first state change; the first state change is the cache insertion (which may itself still refuse, atomically),
    after which nothing can raise; and an accepted `add` does everything the store model's `commitAdd` does (next index,
    indexable decision, pending file creation before the data is written, the write, the stale mark) and returns -/
theorem src_add_program_shape :
    checksFirst Aeic.Gen.addProgram = true ∧ insertFirst Aeic.Gen.addProgram = true ∧ commitComplete Aeic.Gen.addProgram = true := by
  decide

open Aeic.AddProg in
/-- **a rejected `add` of the source changes nothing** — whichever of its checks fails (any pattern of failing checks) or
    when the cache refuses the trajectory: no attribute of the store was assigned, no helper that writes files was called -/
theorem src_rejected_add_changes_nothing (fails : Nat → Bool) (insertRefused : Bool)
    (h : (run fails insertRefused Aeic.Gen.addProgram).raised = true) :
    (run fails insertRefused Aeic.Gen.addProgram).done = [] := by
  have := raised_done fails insertRefused Aeic.Gen.addProgram [] src_add_program_shape.1 src_add_program_shape.2.1 h
  simpa [Aeic.AddProg.run] using this

open Aeic.AddProg in
/-- `add` refuses exactly when one of its checks fails or the cache refuses — there is no other way out than the `return` -/
theorem src_add_refuses_iff (fails : Nat → Bool) (insertRefused : Bool) :
    (run fails insertRefused Aeic.Gen.addProgram).raised = true ↔
      (∃ k ∈ checkIds Aeic.Gen.addProgram, fails k = true) ∨ insertRefused = true := by
  have := raised_iff fails insertRefused Aeic.Gen.addProgram [] src_add_program_shape.1 src_add_program_shape.2.1
  have hin : Ev.insert ∈ Aeic.Gen.addProgram := by decide
  simpa [Aeic.AddProg.run, hin] using this

open Aeic.AddProg in
/-- an accepted `add` performs every state change of the source, in source order -/
theorem src_accepted_add_commits (fails : Nat → Bool) (insertRefused : Bool)
    (h : (run fails insertRefused Aeic.Gen.addProgram).raised = false) :
    (run fails insertRefused Aeic.Gen.addProgram).done = mutations Aeic.Gen.addProgram := by
  have := ok_done fails insertRefused Aeic.Gen.addProgram [] h
  simpa [Aeic.AddProg.run] using this

open Aeic.AddProg in
/-- the same for ANY program of the language with that shape (a statement about the language, independent of today's source) -/
theorem well_shaped_add_is_atomic (p : List Ev) (h1 : checksFirst p = true) (h2 : insertFirst p = true)
    (fails : Nat → Bool) (insertRefused : Bool) (h : (run fails insertRefused p).raised = true) :
    (run fails insertRefused p).done = [] := by
  simpa [Aeic.AddProg.run] using raised_done fails insertRefused p [] h1 h2 h

open Aeic.AddProg in
/-- non-vacuity: the program does refuse (second check failing) and does commit (nothing failing), and a program with a state
    change BEFORE a refusal is not atomic — the hypothesis `checksFirst` is what carries the theorem -/
example :
    (run (fun k => k == 1) false Aeic.Gen.addProgram).raised = true ∧
    (run (fun _ => false) false Aeic.Gen.addProgram).raised = false ∧
    (run (fun _ => false) false Aeic.Gen.addProgram).done.length = 7 ∧
    (run (fun _ => true) false [.set "_next_index" false, .check 0, .insert, .ret]).done = [.set "_next_index" false] := by
  decide

end C10
