/-
  C12 — Emission-index and atmosphere functions follow their cited methods.

  All theorems are about the generic models of `AeicModel/EI.lean` read over ℝ (ideal arithmetic);
  rounding is covered by the correspondence check `harness/c12.py`.
-/
import AeicProofs.Lemmas.C12EI
import AeicProofs.Lemmas.KernelBridge
import AeicProofs.Lemmas.KernelBridge6
import AeicProofs.Lemmas.KernelBridge7

namespace C12
open Aeic Aeic.EI Aeic.Gen

/-! ## ISA atmosphere -/

/-- the regenerated constants are the published ISA / BADA-4 values (re-proved on every run) -/
theorem isa_constants_published :
    (T0 : ℝ) = 288.15 ∧ (p0 : ℝ) = 101325 ∧ (g0 : ℝ) = 9.80665 ∧ (R_air : ℝ) = 287.05287 ∧
    (beta_tropo : ℝ) = -0.0065 ∧ (h_p_tropo : ℝ) = 11000 ∧ (kappa : ℝ) = 1.4 :=
  ⟨T0_real, p0_real, g0_real, R_air_real, beta_real, hTrop_real, kappa_real⟩

/-- temperature is 216.65 K at and above the tropopause, and falls 6.5 K/km below it -/
theorem isa_temperature_published (h : ℝ) :
    (h ≤ 11000 → isaTemperature h = 288.15 - 0.0065 * h) ∧ (11000 < h → isaTemperature h = 216.65) := by
  constructor
  · intro hh; unfold isaTemperature; rw [hTrop_real, if_pos hh, T0_real, beta_real]; ring
  · intro hh; unfold isaTemperature; rw [hTrop_real, if_neg (not_le.mpr hh), T0_real, beta_real]; norm_num

/-- the two layers join continuously: both branch formulas give the same T and p at 11 000 m -/
theorem isa_continuous_at_tropopause :
    isaTemperature (h_p_tropo : ℝ) = tTrop ∧ isaPressure (h_p_tropo : ℝ) = pTrop ∧
    (pTrop : ℝ) * Real.exp ((-(g0 : ℝ)) / ((R_air : ℝ) * tTrop) * ((h_p_tropo : ℝ) - h_p_tropo)) = pTrop := by
  refine ⟨?_, ?_, ?_⟩
  · unfold isaTemperature; rw [if_pos le_rfl]; rfl
  · unfold isaPressure isaTemperature; rw [if_pos le_rfl, if_pos le_rfl]; rfl
  · rw [sub_self, mul_zero, Real.exp_zero, mul_one]

/-- altitude → pressure → altitude is the identity at EVERY altitude (both layers) -/
theorem pressure_altitude_inverse (h : ℝ) : isaAltitude (isaPressure h) = h := by
  rcases le_or_gt h 11000 with h1 | h1
  · apply alt_press_tropo h h1
    rw [T0_real, beta_real]; linarith
  · exact alt_press_strato h h1

/-- pressure → altitude → pressure is the identity for every positive pressure (both layers) -/
theorem altitude_pressure_inverse (p : ℝ) (hp : 0 < p) : isaPressure (isaAltitude p) = p := by
  rcases le_or_gt (pTrop : ℝ) p with h1 | h1
  · exact press_alt_tropo p h1
  · exact press_alt_strato p hp h1

example : isaPressure (isaAltitude (5000 : ℝ)) = 5000 := altitude_pressure_inverse _ (by norm_num)

theorem isa_temperature_pos (h : ℝ) : 0 < isaTemperature h := by
  unfold isaTemperature; rw [hTrop_real, T0_real, beta_real]
  split_ifs with hh <;> [linarith; norm_num]

theorem isa_pressure_pos (h : ℝ) : 0 < isaPressure h := by
  unfold isaPressure
  split_ifs with hh
  · have hT := isa_temperature_pos h
    have : 0 < isaTemperature h / (T0 : ℝ) := div_pos hT (by rw [T0_real]; norm_num)
    have h2 := Real.rpow_pos_of_pos this (isaExp : ℝ)
    have : (0 : ℝ) < p0 := by rw [p0_real]; norm_num
    simp only [tr_pow]; positivity
  · simp only [tr_exp]; exact mul_pos pTrop_pos (Real.exp_pos _)

/-- pressure falls strictly with altitude over the whole range -/
theorem isa_pressure_strictly_decreasing (h1 h2 : ℝ) (h : h1 < h2) : isaPressure h2 < isaPressure h1 := by
  -- go through the inverse: if p(h1) ≤ p(h2) then altitude(p) would not be injective-monotone; direct proof by layers
  have hc : (-(g0 : ℝ)) / ((R_air : ℝ) * tTrop) < 0 := by
    rw [g0_real, R_air_real, tTrop_real]; norm_num
  have hp0 : (0 : ℝ) < p0 := by rw [p0_real]; norm_num
  have hT0 : (0 : ℝ) < T0 := by rw [T0_real]; norm_num
  have tropo : ∀ a b : ℝ, a < b → b ≤ 11000 → isaPressure b < isaPressure a := by
    intro a b hab hb
    have ha : a ≤ 11000 := by linarith
    unfold isaPressure isaTemperature
    rw [hTrop_real, if_pos hb, if_pos ha, if_pos hb, if_pos ha]
    simp only [tr_pow]
    have hxb : 0 < ((T0 : ℝ) + beta_tropo * b) / T0 := by
      apply div_pos _ hT0; rw [T0_real, beta_real]; linarith
    have hlt : ((T0 : ℝ) + beta_tropo * b) / T0 < ((T0 : ℝ) + beta_tropo * a) / T0 := by
      apply div_lt_div_of_pos_right _ hT0; rw [beta_real]; linarith
    have := Real.rpow_lt_rpow hxb.le hlt isaExp_pos
    exact mul_lt_mul_of_pos_left this hp0
  have strato : ∀ a b : ℝ, a < b → 11000 ≤ a → isaPressure b < isaPressure a := by
    intro a b hab ha
    have hb : ¬ b ≤ 11000 := by linarith
    have hpb : isaPressure b = (pTrop : ℝ) * Real.exp ((-(g0 : ℝ)) / ((R_air : ℝ) * tTrop) * (b - 11000)) := by
      unfold isaPressure; rw [hTrop_real, if_neg hb]; rfl
    have hpa : isaPressure a = (pTrop : ℝ) * Real.exp ((-(g0 : ℝ)) / ((R_air : ℝ) * tTrop) * (a - 11000)) := by
      rcases eq_or_lt_of_le ha with he | hl
      · rw [← he, sub_self, mul_zero, Real.exp_zero, mul_one]
        have := isa_continuous_at_tropopause.2.1
        rwa [hTrop_real] at this
      · unfold isaPressure; rw [hTrop_real, if_neg (not_le.mpr hl)]; rfl
    rw [hpa, hpb]
    apply mul_lt_mul_of_pos_left _ pTrop_pos
    apply Real.exp_lt_exp.mpr
    nlinarith
  rcases le_or_gt h2 11000 with hb | hb
  · exact tropo h1 h2 h hb
  · rcases le_or_gt 11000 h1 with ha | ha
    · exact strato h1 h2 h ha
    · exact lt_trans (strato 11000 h2 hb le_rfl) (tropo h1 11000 ha le_rfl)

/-! ## Fuel Flow Method 2: sea-level-static equivalent fuel flow (eq. 40) -/

theorem sls_flow_linear (c ff P T M n : ℝ) : slsFuelFlow (c * ff) P T M n = c * slsFuelFlow ff P T M n := by
  unfold slsFuelFlow; ring

theorem sls_flow_pos (ff P T M n : ℝ) (hff : 0 < ff) (hP : 0 < P) (hT : 0 < T) (hn : 0 < n) :
    0 < slsFuelFlow ff P T M n := by
  unfold slsFuelFlow
  simp only [lit_real, tr_pow, tr_exp]
  have h1 : 0 < (T / ((28815 : ℤ) / 10 ^ 2 : ℝ)) ^ ((38 : ℤ) / 10 ^ 1 : ℝ) :=
    Real.rpow_pos_of_pos (by positivity) _
  have h2 := Real.exp_pos (((2 : ℤ) : ℝ) / 10 ^ 1 * (M * M))
  positivity

/-- at sea-level static standard conditions the correction is the identity (per-engine flow) -/
theorem sls_flow_identity_at_reference (ff n : ℝ) : slsFuelFlow ff 101325 288.15 0 n = ff / n := by
  unfold slsFuelFlow
  simp only [lit_real, tr_pow, tr_exp]
  norm_num

example : 0 < slsFuelFlow (1 : ℝ) 30000 230 0.8 2 := sls_flow_pos _ _ _ _ _ (by norm_num) (by norm_num) (by norm_num) (by norm_num)

/-! ## Cruise thrust categories: total and monotone for ANY calibration flows -/

/-- every flow gets exactly one category; the three defining regions are exhaustive and disjoint -/
theorem thrust_cat_total (ff : ℝ) (cal : Q4 ℝ) :
    (thrustCat ff cal = 0 ↔ ff ≤ (cal.i + cal.a) / 2) ∧
    (thrustCat ff cal = 2 ↔ (cal.i + cal.a) / 2 < ff ∧ (cal.a + cal.c) / 2 < ff) ∧
    (thrustCat ff cal = 1 ↔ (cal.i + cal.a) / 2 < ff ∧ ff ≤ (cal.a + cal.c) / 2) ∧
    thrustCat ff cal ≤ 2 := by
  have hd : (Lit.dec 2 0 : ℝ) = 2 := by simp only [lit_real]; norm_num
  unfold thrustCat; simp only [hd]
  by_cases h1 : ff ≤ (cal.i + cal.a) / 2
  · simp [h1]
  · by_cases h2 : (cal.a + cal.c) / 2 < ff
    · simp [h1, h2, not_le.mp h1]
    · simp [h1, h2, not_le.mp h1, not_lt.mp h2]

/-- the category never decreases when the fuel flow increases (no monotonicity of `cal` assumed) -/
theorem thrust_cat_monotone (f1 f2 : ℝ) (cal : Q4 ℝ) (h : f1 ≤ f2) : thrustCat f1 cal ≤ thrustCat f2 cal := by
  unfold thrustCat
  simp only [lit_real]; norm_num
  split_ifs <;> first | omega | (exfalso; linarith)

example : thrustCat (0.5 : ℝ) ⟨0.1, 0.3, 0.9, 1.1⟩ = 1 := by
  unfold thrustCat; simp only [lit_real]; norm_num

/-! ## SOx: stoichiometry conserves sulfur atoms -/

/-- moles of S in SO2 plus moles of S in SO4 equal the moles of fuel sulfur (per kg fuel, in g) -/
theorem sox_sulfur_conserved (s y : ℝ) : so2EI s y / 64 + so4EI s y / 96 = s / 1e6 * 1e3 / 32 := by
  unfold so2EI so4EI; simp only [lit_real, one_real]; norm_num; ring

theorem sox_total (s y : ℝ) : soxEI s y = so2EI s y + so4EI s y := rfl

theorem sox_nonneg (s y : ℝ) (hs : 0 ≤ s) (hy0 : 0 ≤ y) (hy1 : y ≤ 1) :
    0 ≤ so2EI s y ∧ 0 ≤ so4EI s y ∧ 0 ≤ soxEI s y := by
  have h1 : 0 ≤ so2EI s y := by
    unfold so2EI; simp only [lit_real, one_real]; norm_num
    have : 0 ≤ 1 - y := by linarith
    positivity
  have h2 : 0 ≤ so4EI s y := by
    unfold so4EI; simp only [lit_real]; norm_num; positivity
  exact ⟨h1, h2, add_nonneg h1 h2⟩

theorem sox_linear_in_sulfur (c s y : ℝ) : soxEI (c * s) y = c * soxEI s y := by
  unfold soxEI so2EI so4EI; ring

example : so2EI (600 : ℝ) 0.02 / 64 + so4EI (600 : ℝ) 0.02 / 96 = 600 / 1e6 * 1e3 / 32 := sox_sulfur_conserved _ _

/-! ## BFFM2 NOx -/

/-- the NOx index is non-negative for ALL inputs, and positive for physical ambient conditions -/
theorem nox_nonneg (href ff T P : ℝ) (ei cal : Q4 ℝ) : 0 ≤ bffm2NOx href ff ei cal T P :=
  mul_nonneg (noxSL_pos ff ei cal).le (correction_nonneg href T P)

theorem nox_pos (href ff T P : ℝ) (ei cal : Q4 ℝ) (hT : 0 < T) (hP : 0 < P) :
    0 < bffm2NOx href ff ei cal T P :=
  mul_pos (noxSL_pos ff ei cal) (correction_pos href T P hT hP)

/-- scaling the certification NOx indices by `c` scales the result by `c`
    (log-log fit: slope unchanged, intercept + log10 c) -/
theorem nox_scales_linearly (href ff T P c : ℝ) (ei cal : Q4 ℝ) (hc : 0 < c) (hei : posQ ei) :
    bffm2NOx href ff (scaleQ c ei) cal T P = c * bffm2NOx href ff ei cal T P := by
  have h : noxSL ff (scaleQ c ei) cal = c * noxSL ff ei cal := by
    unfold noxSL
    simp only [log10Q_scale c ei hc hei, fitSlope_shift, fitIntercept_shift, tr_pow, ten_real]
    rw [← add_assoc, ten_pow_add_log10 _ c hc]
  unfold bffm2NOx; rw [h]; ring

example : posQ ⟨30, 25, 20, 18⟩ := by unfold posQ; norm_num

/-- the closed-form fit satisfies both normal equations, hence minimises the squared log-residuals -/
theorem nox_fit_is_least_squares (x y : Q4 ℝ) (hx : sxy x x ≠ 0) (a b : ℝ) :
    (y.i - (fitSlope x y * x.i + fitIntercept x y)) ^ 2 + (y.a - (fitSlope x y * x.a + fitIntercept x y)) ^ 2
    + (y.c - (fitSlope x y * x.c + fitIntercept x y)) ^ 2 + (y.t - (fitSlope x y * x.t + fitIntercept x y)) ^ 2
    ≤ (y.i - (a * x.i + b)) ^ 2 + (y.a - (a * x.a + b)) ^ 2 + (y.c - (a * x.c + b)) ^ 2 + (y.t - (a * x.t + b)) ^ 2 := by
  have h1 := fit_residual_sum x y
  have h2 := fit_residual_orth x y hx
  generalize fitSlope x y = s at h1 h2 ⊢
  generalize fitIntercept x y = i at h1 h2 ⊢
  have key : (y.i - (a * x.i + b)) ^ 2 + (y.a - (a * x.a + b)) ^ 2 + (y.c - (a * x.c + b)) ^ 2 + (y.t - (a * x.t + b)) ^ 2
      = (y.i - (s * x.i + i)) ^ 2 + (y.a - (s * x.a + i)) ^ 2 + (y.c - (s * x.c + i)) ^ 2 + (y.t - (s * x.t + i)) ^ 2
        + (((s - a) * x.i + (i - b)) ^ 2 + ((s - a) * x.a + (i - b)) ^ 2 + ((s - a) * x.c + (i - b)) ^ 2
            + ((s - a) * x.t + (i - b)) ^ 2) := by
    linear_combination (2 * (s - a)) * h2 + (2 * (i - b)) * h1
  rw [key]
  have : 0 ≤ ((s - a) * x.i + (i - b)) ^ 2 + ((s - a) * x.a + (i - b)) ^ 2 + ((s - a) * x.c + (i - b)) ^ 2
            + ((s - a) * x.t + (i - b)) ^ 2 := by positivity
  linarith

/-- certification data that lie exactly on a log-log line are reproduced at the calibration flows -/
theorem nox_fit_reproduces_loglinear_data (a b : ℝ) (ei cal : Q4 ℝ) (hcal : posQ cal)
    (hne : sxy (log10Q cal) (log10Q cal) ≠ 0)
    (hline : log10Q ei = ⟨a * (log10Q cal).i + b, a * (log10Q cal).a + b, a * (log10Q cal).c + b,
                          a * (log10Q cal).t + b⟩) (ff : ℝ) (hff : 0 < ff) :
    noxSL ff ei cal = (10 : ℝ) ^ (a * (Real.log ff / Real.log 10) + b) := by
  obtain ⟨h1, h2, h3, h4⟩ := hcal
  have hcl : ∀ x : ℝ, 0 < x → clampPos x = x := by
    intro x hx; unfold clampPos; rw [zero_real, if_neg (not_le.mpr hx)]
  unfold noxSL
  simp only [hcl _ h1, hcl _ h2, hcl _ h3, hcl _ h4, hcl _ hff, tr_pow, ten_real, tr_log10]
  have hq : (⟨cal.i, cal.a, cal.c, cal.t⟩ : Q4 ℝ) = cal := rfl
  rw [hq, hline]
  obtain ⟨hs, hi⟩ := fit_exact a b (log10Q cal) hne
  rw [hs, hi]; ring_nf

/-- NO + NO2 + HONO fractions sum to one in every thrust category -/
theorem speciation_sums_to_one (cat : Nat) : noFrac cat + no2Frac cat + honoFrac cat = (1 : ℝ) := by
  unfold noFrac no2Frac honoFrac noL noA noH no2L no2A no2H honoL honoA honoH
  simp only [lit_real]
  split_ifs <;> norm_num

theorem speciation_nonneg (cat : Nat) : (0 : ℝ) ≤ noFrac cat ∧ (0 : ℝ) ≤ no2Frac cat ∧ (0 : ℝ) ≤ honoFrac cat := by
  unfold noFrac no2Frac honoFrac noL noA noH no2L no2A no2H honoL honoA honoH
  simp only [lit_real]
  split_ifs <;> norm_num

theorem nox_components_sum (n : ℝ) (cat : Nat) : n * noFrac cat + n * no2Frac cat + n * honoFrac cat = n := by
  rw [← mul_add, ← mul_add, speciation_sums_to_one, mul_one]

/-! ### the humidity reference: code 0.0063, DuBois & Paynter 0.00634 (open finding C12-bffm2-humidity-reference) -/

/-- FULL statement "BFFM2 NOx equals the published equations": false for the code as it exists -/
def NoxFollowsPublishedStatement : Prop :=
  ∀ (ff T P : ℝ) (ei cal : Q4 ℝ), 0 < T → 0 < P →
    bffm2NOx humRefAsIs ff ei cal T P = bffm2NOx humRefPublished ff ei cal T P

/-- as-is = published × exp(−19 · 0.00004) for every input -/
theorem nox_as_is_ratio (ff T P : ℝ) (ei cal : Q4 ℝ) :
    bffm2NOx humRefAsIs ff ei cal T P = Real.exp (-0.00076) * bffm2NOx humRefPublished ff ei cal T P := by
  unfold bffm2NOx bffm2Correction humRefAsIs humRefPublished
  simp only [tr_exp, tr_sqrt]
  have : (Lit.dec (-19) 0 : ℝ) * (specificHumidity T P - Lit.dec 63 4)
      = -0.00076 + (Lit.dec (-19) 0 : ℝ) * (specificHumidity T P - Lit.dec 634 5) := by
    simp only [lit_real]; norm_num; ring
  rw [this, Real.exp_add]; ring

/-- negation witness (for ALL physical inputs, not just one): the code's NOx index is strictly
    below the published one -/
theorem nox_humidity_fails_as_is : ¬ NoxFollowsPublishedStatement := by
  intro h
  have h1 := h 1 288.15 101325 ⟨30, 25, 20, 18⟩ ⟨0.4, 0.8, 1.2, 1.8⟩ (by norm_num) (by norm_num)
  rw [nox_as_is_ratio] at h1
  have hp := nox_pos humRefPublished 1 288.15 101325 ⟨30, 25, 20, 18⟩ ⟨0.4, 0.8, 1.2, 1.8⟩ (by norm_num) (by norm_num)
  have he : Real.exp (-0.00076) < 1 := by
    have := Real.exp_lt_exp.mpr (show (-0.00076 : ℝ) < 0 by norm_num); rwa [Real.exp_zero] at this
  nlinarith

/-- what does hold for the code as it exists: it is the published value times a constant in [0.99924, 1) -/
theorem nox_follows_published_partial (ff T P : ℝ) (ei cal : Q4 ℝ) (hT : 0 < T) (hP : 0 < P) :
    0.99924 * bffm2NOx humRefPublished ff ei cal T P ≤ bffm2NOx humRefAsIs ff ei cal T P ∧
    bffm2NOx humRefAsIs ff ei cal T P < bffm2NOx humRefPublished ff ei cal T P := by
  have hp := nox_pos humRefPublished ff T P ei cal hT hP
  rw [nox_as_is_ratio]
  have he : Real.exp (-0.00076) < 1 := by
    have := Real.exp_lt_exp.mpr (show (-0.00076 : ℝ) < 0 by norm_num); rwa [Real.exp_zero] at this
  have hl : (0.99924 : ℝ) ≤ Real.exp (-0.00076) := by
    have := Real.add_one_le_exp (-0.00076 : ℝ); linarith
  constructor <;> nlinarith

/-! ## BFFM2 HC / CO -/

theorem hcco_factorisation (ff T P : ℝ) (ei cal : Q4 ℝ) :
    hccoEI ff ei cal T P = hccoSL (hccoParams ei cal) cal.i ff * hccoAmbient T P := rfl

/-- HC / CO indices are non-negative for ALL calibration data and flows (zero and negative flows included) -/
theorem hcco_nonneg (ff T P : ℝ) (ei cal : Q4 ℝ) (hT : 0 ≤ T) (hP : 0 ≤ P) : 0 ≤ hccoEI ff ei cal T P :=
  mul_nonneg (hccoSL_nonneg _ _ _) (hccoAmbient_nonneg T P hT hP)

/-- scaling the certification HC (or CO) indices by `c` scales the result by `c`, on every branch of
    the SAGE rules, including the low-thrust (ACRP) region -/
theorem hcco_scales_linearly (ff T P c : ℝ) (ei cal : Q4 ℝ) (hc : 0 < c) (hei : posQ ei) :
    hccoEI ff (scaleQ c ei) cal T P = c * hccoEI ff ei cal T P := by
  have h : hccoSL (hccoParams (scaleQ c ei) cal) cal.i ff = c * hccoSL (hccoParams ei cal) cal.i ff := by
    rw [hccoParams_scale c ei cal hc hei]
    unfold hccoSL acrp
    simp only [hccoLogSL_shift]
    generalize hccoLogSL (hccoParams ei cal) (decide (zero < ff)) (hccoLogFlow ff) = o
    have hv : pow10Opt (o.map (· + Real.log c / Real.log 10)) = c * pow10Opt o := by
      cases o with
      | none => simp [pow10Opt]
      | some l => simp only [Option.map_some, pow10Opt, tr_pow, ten_real]; exact ten_pow_add_log10 l c hc
    rw [hv]
    split_ifs <;> ring
  rw [hcco_factorisation, hcco_factorisation, h]; ring

/-- high-power level of the bilinear fit: geometric mean of the climb-out and take-off indices -/
noncomputable def hcHigh (ei : Q4 ℝ) : ℝ := Real.sqrt (ei.c * ei.t)

/-- Documented clamping: for increasing idle < approach < climb calibration flows and any flow at or
    above idle, the sea-level HC/CO index lies between the smallest and the largest of the idle index,
    the approach index and the high-power level √(EI_climb · EI_takeoff) — on every branch. -/
theorem hcco_clamped (ei cal : Q4 ℝ) (ff : ℝ) (hei : posQ ei) (hcal : posQ cal)
    (h01 : cal.i < cal.a) (h12 : cal.a < cal.c) (hff : cal.i ≤ ff) :
    min (min ei.i ei.a) (hcHigh ei) ≤ hccoSL (hccoParams ei cal) cal.i ff ∧
    hccoSL (hccoParams ei cal) cal.i ff ≤ max (max ei.i ei.a) (hcHigh ei) := by
  obtain ⟨e1, e2, e3, e4⟩ := hei
  obtain ⟨c1, c2, c3, c4⟩ := hcal
  have hffpos : 0 < ff := lt_of_lt_of_le c1 hff
  have h10 : 0 < Real.log 10 := Real.log_pos (by norm_num)
  have hlog : ∀ a b : ℝ, 0 < a → a < b → Real.log a / Real.log 10 < Real.log b / Real.log 10 :=
    fun a b ha hab => div_lt_div_of_pos_right (Real.log_lt_log ha hab) h10
  have hlogle : ∀ a b : ℝ, 0 < a → a ≤ b → Real.log a / Real.log 10 ≤ Real.log b / Real.log 10 :=
    fun a b ha hab => div_le_div_of_nonneg_right (Real.log_le_log ha hab) h10.le
  -- log-space bounds
  have hb := hccoBranch_bounds
    (hccoSlope (Real.log cal.i / Real.log 10) (Real.log cal.a / Real.log 10)
      (Real.log ei.i / Real.log 10) (Real.log ei.a / Real.log 10))
    (hccoXInt (hccoSlope (Real.log cal.i / Real.log 10) (Real.log cal.a / Real.log 10)
      (Real.log ei.i / Real.log 10) (Real.log ei.a / Real.log 10))
      (Real.log cal.i / Real.log 10) (Real.log cal.a / Real.log 10) (Real.log ei.i / Real.log 10)
      (Real.log ei.c / Real.log 10) (Real.log ei.t / Real.log 10))
    ((Lit.dec 5 1 : ℝ) * (Real.log ei.c / Real.log 10 + Real.log ei.t / Real.log 10))
    (Real.log cal.i / Real.log 10) (Real.log cal.a / Real.log 10) (Real.log cal.c / Real.log 10)
    (Real.log ei.i / Real.log 10) (Real.log ei.a / Real.log 10) (Real.log ff / Real.log 10)
    (hlog _ _ c1 h01) (hlog _ _ c2 h12) (hlogle _ _ c1 hff)
    (hccoSlope_fact _ _ _ _ (hlog _ _ c1 h01)) (hccoXInt_fact _ _ _ _ _ _)
  -- the value the code returns is 10 ^ l
  have hval : hccoSL (hccoParams ei cal) cal.i ff = (10 : ℝ) ^
      (if Real.log ff / Real.log 10 < (hccoParams ei cal).xInt then
        (hccoParams ei cal).slope * (Real.log ff / Real.log 10 - (hccoParams ei cal).baseLogFuel)
          + (hccoParams ei cal).baseLogEI
       else (hccoParams ei cal).horz) := by
    unfold hccoSL acrp hccoLogFlow
    have hpos : decide ((zero : ℝ) < ff) = true := by simp [zero_real, hffpos]
    have hpos' : (zero : ℝ) < ff := by simp [zero_real, hffpos]
    rw [hpos, if_pos hpos', if_neg (not_lt.mpr hff)]
    simp only [tr_log10, hccoLogSL_pos, pow10Opt, tr_pow, ten_real]
  rw [hval]
  have hP : hccoParams ei cal = hccoBranch
      (hccoSlope (Real.log cal.i / Real.log 10) (Real.log cal.a / Real.log 10)
        (Real.log ei.i / Real.log 10) (Real.log ei.a / Real.log 10))
      (hccoXInt (hccoSlope (Real.log cal.i / Real.log 10) (Real.log cal.a / Real.log 10)
        (Real.log ei.i / Real.log 10) (Real.log ei.a / Real.log 10))
        (Real.log cal.i / Real.log 10) (Real.log cal.a / Real.log 10) (Real.log ei.i / Real.log 10)
        (Real.log ei.c / Real.log 10) (Real.log ei.t / Real.log 10))
      ((Lit.dec 5 1 : ℝ) * (Real.log ei.c / Real.log 10 + Real.log ei.t / Real.log 10))
      (Real.log cal.i / Real.log 10) (Real.log cal.a / Real.log 10) (Real.log cal.c / Real.log 10)
      (Real.log ei.i / Real.log 10) (Real.log ei.a / Real.log 10) := rfl
  rw [hP]
  simp only at hb
  generalize (if Real.log ff / Real.log 10 < (hccoBranch _ _ _ _ _ _ _ _).xInt then _ else _) = l at hb ⊢
  have hmono : ∀ a b : ℝ, a ≤ b → (10 : ℝ) ^ a ≤ (10 : ℝ) ^ b :=
    fun a b hab => Real.rpow_le_rpow_of_exponent_le (by norm_num) hab
  have t1 := ten_pow_log10 ei.i e1
  have t2 := ten_pow_log10 ei.a e2
  have t3 : (10 : ℝ) ^ ((Lit.dec 5 1 : ℝ) * (Real.log ei.c / Real.log 10 + Real.log ei.t / Real.log 10)) = hcHigh ei :=
    ten_pow_half_sum _ _ e3 e4
  obtain ⟨hlo, hhi⟩ := hb
  constructor
  · rcases hlo with h | h | h
    · have := hmono _ _ h; rw [t1] at this
      exact le_trans (le_trans (min_le_left _ _) (min_le_left _ _)) this
    · have := hmono _ _ h; rw [t2] at this
      exact le_trans (le_trans (min_le_left _ _) (min_le_right _ _)) this
    · have := hmono _ _ h; rw [t3] at this
      exact le_trans (min_le_right _ _) this
  · rcases hhi with h | h | h
    · have := hmono _ _ h; rw [t1] at this
      exact le_trans this (le_trans (le_max_left _ _) (le_max_left _ _))
    · have := hmono _ _ h; rw [t2] at this
      exact le_trans this (le_trans (le_max_right _ _) (le_max_left _ _))
    · have := hmono _ _ h; rw [t3] at this
      exact le_trans this (le_max_right _ _)

example : posQ ⟨100, 50, 10, 8⟩ ∧ posQ ⟨0.2, 0.6, 1.5, 2.0⟩ ∧ (0.2 : ℝ) < 0.6 ∧ (0.6 : ℝ) < 1.5 := by
  unfold posQ; norm_num

/-- ACRP low-thrust rule: below the idle calibration flow the bilinear value is multiplied by
    `1 + 52 (ff_idle − ff)` (> 1), at or above it the bilinear value is returned unchanged -/
theorem hcco_low_thrust_factor (p : HCParams ℝ) (ff0 ff : ℝ) :
    (ff < ff0 → ∃ v : ℝ, 0 ≤ v ∧ hccoSL p ff0 ff = v * (1 + 52 * (ff0 - ff)) ∧ 1 < 1 + 52 * (ff0 - ff)) := by
  intro h
  unfold hccoSL acrp
  simp only [if_pos h]
  refine ⟨pow10Opt (hccoLogSL p (decide (zero < ff)) (hccoLogFlow ff)), pow10Opt_nonneg _, ?_, by linarith⟩
  have e : (one : ℝ) + (Lit.dec (-52) 0 : ℝ) * (ff - ff0) = 1 + 52 * (ff0 - ff) := by
    simp only [lit_real, one_real]; norm_num; ring
  rw [e]

/-! ## Volatile PM: FOA3 and the fuel-flow method -/

/-- the interpolated FOA3 δ never leaves the range of the four tabulated values, for ANY thrust -/
theorem foa3_within_deltas (thrust : ℝ) : 6.17 ≤ foa3Delta thrust ∧ foa3Delta thrust ≤ 115 := by
  unfold foa3Delta
  apply interp_between
  · exact ⟨by simp [foa3Thrust], by simp [foa3Deltas]⟩
  · intro y hy
    simp only [foa3Deltas, List.mem_cons, List.not_mem_nil, or_false, lit_real] at hy
    rcases hy with h | h | h | h <;> (rw [h]; norm_num)

/-- at the four ICAO thrust settings the tabulated δ is returned -/
theorem foa3_at_icao_points :
    foa3Delta (7 : ℝ) = 6.17 ∧ foa3Delta (30 : ℝ) = 56.25 ∧ foa3Delta (85 : ℝ) = 76 ∧ foa3Delta (100 : ℝ) = 115 := by
  unfold foa3Delta foa3Thrust foa3Deltas
  simp only [interp, interpGo, lit_real]
  norm_num

theorem foa3_scales_linearly (c thrust hc : ℝ) : foa3 thrust (c * hc) = c * foa3 thrust hc := by
  unfold foa3; ring

theorem foa3_nonneg (thrust hc : ℝ) (h : 0 ≤ hc) : 0 ≤ foa3 thrust hc := by
  unfold foa3
  have := (foa3_within_deltas thrust).1
  simp only [lit_real]; norm_num
  have : 0 ≤ foa3Delta thrust := by linarith
  positivity

theorem pmvol_fuelflow_values (cat : Nat) :
    (cat = 0 → pmvolFuelFlow cat = (0.02 / 0.85 : ℝ)) ∧ (cat ≠ 0 → pmvolFuelFlow cat = (0.04 : ℝ)) ∧
    (0 : ℝ) < pmvolFuelFlow cat ∧ (ocicFuelFlow : ℝ) = 0.02 := by
  unfold pmvolFuelFlow ocicFuelFlow
  simp only [lit_real, one_real]
  by_cases h : cat = 0 <;> simp [h] <;> norm_num

/-! ## Non-volatile PM: SCOPE11 and MEEM -/

/-- SCOPE11 mass index is non-negative for every smoke number, engine type and bypass ratio ≥ 0 -/
theorem scope11_nonneg (mode etype : Nat) (sn bpr : ℝ) (hb : 0 ≤ bpr) : 0 ≤ scope11Mode mode etype sn bpr := by
  unfold scope11Mode
  have ha := afr_pos mode
  have h1b : (0 : ℝ) ≤ one + bpr := by rw [one_real]; linarith
  have h1000 : (0 : ℝ) < d% 1000 := by simp only [lit_real]; norm_num
  have hc := cbc_pos (smin sn (d% 40))
  have h767 : (0 : ℝ) ≤ d% 0.767 := by simp only [lit_real]; norm_num
  have h776 : (0 : ℝ) ≤ d% 0.776 := by simp only [lit_real]; norm_num
  split_ifs with h0 h1 h2
  · simp [zero_real]
  · dsimp only
    have hk := kslm_nonneg (cbc (smin sn (d% 40))) (one + bpr) hc.le h1b
    have hq : (0 : ℝ) ≤ d% 0.776 * afr mode * (one + bpr) + d% 0.767 :=
      add_nonneg (mul_nonneg (mul_nonneg h776 ha.le) h1b) h767
    exact div_nonneg (mul_nonneg (mul_nonneg hk hc.le) hq) h1000.le
  · dsimp only
    have hk := kslm_nonneg_tf (cbc (smin sn (d% 40))) hc.le
    have hq : (0 : ℝ) ≤ d% 0.776 * afr mode + d% 0.767 := add_nonneg (mul_nonneg h776 ha.le) h767
    exact div_nonneg (mul_nonneg (mul_nonneg hk hc.le) hq) h1000.le
  · dsimp only
    simp [zero_real]

/-- MEEM mass index is non-negative for ALL inputs (the final clamp) -/
theorem meem_mass_nonneg (valid : Bool) (kind : Nat) (mm : Q4 ℝ) (mmax : ℝ) (pt : MeemPoint ℝ) :
    0 ≤ meemMass valid kind mm mmax pt := by
  unfold meemMass
  simp only [zero_real]
  split_ifs with h1 h2 <;> first | exact le_rfl | exact not_lt.mp ‹_›

/-- MEEM mass index scales linearly with the certification nvPM mass indices (and their maximum) -/
theorem meem_mass_scales_linearly (c : ℝ) (hc : 0 < c) (valid : Bool) (kind : Nat) (mm : Q4 ℝ) (mmax : ℝ)
    (pt : MeemPoint ℝ) :
    meemMass valid kind (scaleQ c mm) (c * mmax) pt = c * meemMass valid kind mm mmax pt := by
  unfold meemMass
  simp only [meemVals_scale, interp_scale, zero_real]
  generalize interp pt.fg (meemGrid kind) (meemVals kind mm mmax) = r
  generalize Transc.pow (pt.p3 / pt.p3ref) (d% 1.35) = A
  generalize Transc.pow (d% 1.1 : ℝ) (d% 2.5) = B
  cases valid
  · simp
  · simp only [if_true]
    have e : (d% 1e-3 : ℝ) * (c * r) * A * B = c * ((d% 1e-3 : ℝ) * r * A * B) := by ring
    rw [e]
    by_cases h : (d% 1e-3 : ℝ) * r * A * B < 0
    · have : c * ((d% 1e-3 : ℝ) * r * A * B) < 0 := mul_neg_of_pos_of_neg hc h
      rw [if_pos this, if_pos h, mul_zero]
    · have : ¬ c * ((d% 1e-3 : ℝ) * r * A * B) < 0 := by
        rw [not_lt] at *; positivity
      rw [if_neg this, if_neg h]

/-- certification mass indices that are all non-negative are used as they are (no reconstruction) -/
theorem meem_modes_passthrough (isMTF : Bool) (sn mass : Q4 ℝ) (bpr : ℝ)
    (h : 0 ≤ mass.i ∧ 0 ≤ mass.a ∧ 0 ≤ mass.c ∧ 0 ≤ mass.t) : meemMassModes isMTF sn mass bpr = mass := by
  unfold meemMassModes min4
  have : ¬ smin (smin (smin mass.i mass.a) mass.c) mass.t < (zero : ℝ) := by
    simp only [smin_real, zero_real, not_lt]
    exact le_min (le_min (le_min h.1 h.2.1) h.2.2.1) h.2.2.2
  rw [if_neg this]

/-- mass indices reconstructed from smoke numbers are non-negative -/
theorem meem_reconstructed_nonneg (mode : Nat) (isMTF : Bool) (sn bpr : ℝ) (hb : 0 ≤ bpr) :
    0 ≤ meemMassFromSN mode isMTF sn bpr := by
  unfold meemMassFromSN
  dsimp only
  have hc := cbc_pos sn
  have ha := afr_pos mode
  have hw : (0 : ℝ) ≤ one + (if isMTF = true then bpr else zero) := by
    cases isMTF <;> simp [one_real, zero_real]; linarith
  have hk := kslm_nonneg (cbc sn) (one + (if isMTF = true then bpr else zero)) hc.le hw
  have hq : (0 : ℝ) ≤ d% 0.776 * afr mode * (one + (if isMTF = true then bpr else zero)) + d% 0.767 := by
    have : (0 : ℝ) ≤ d% 0.776 * afr mode * (one + (if isMTF = true then bpr else zero)) :=
      mul_nonneg (mul_nonneg (by simp only [lit_real]; norm_num) ha.le) hw
    have : (0 : ℝ) ≤ d% 0.767 := by simp only [lit_real]; norm_num
    linarith
  exact mul_nonneg (mul_nonneg hc.le hq) hk

/-- the geometric mean diameter stays within the tabulated 20–40 nm -/
theorem meem_gmd_within (pt : MeemPoint ℝ) : 20 ≤ meemGMD true pt ∧ meemGMD true pt ≤ 40 := by
  unfold meemGMD
  simp only [if_true]
  apply interp_between
  · exact ⟨by simp [meemGrid], by simp⟩
  · intro y hy
    simp only [List.mem_cons, List.not_mem_nil, or_false, lit_real] at hy
    rcases hy with h | h | h | h | h | h <;> (rw [h]; norm_num)

/-! ### MEEM combustor-inlet pressure (open finding C12-meem-pressure-coefficient-unbounded) -/

/-- FULL statement: the estimated combustor inlet pressure P3 is positive on the whole stated domain
    (needed for `(P3/Pt)^((κ−1)/κ)` to be defined, i.e. for finite indices) -/
def MeemInletPressurePositiveStatement (clip : Bool) : Prop :=
  ∀ (pr alt altPrev maxAlt T P M : ℝ), 1 ≤ pr → 0 < P → 0 ≤ alt → alt ≤ maxAlt → maxAlt ≤ 25000 →
    0 < (meemPoint clip pr alt altPrev maxAlt T P M).p3

/-- with the intended (clipped) altitude ratio the statement holds for ALL inputs -/
theorem meem_inlet_pressure_pos_intended : MeemInletPressurePositiveStatement true := by
  intro pr alt altPrev maxAlt T P M hpr hP _ _ _
  have hpt := meem_total_pressure_pos P M hP
  obtain ⟨hl0, hl1⟩ := meemLin_clip_bounds alt maxAlt
  unfold meemPoint
  dsimp only
  apply mul_pos hpt
  generalize meemLin true alt maxAlt = lin at hl0 hl1
  have hpc : (0 : ℝ) ≤ (if (zero : ℝ) < alt - altPrev then d% 0.85 + (d% 1.15 - d% 0.85) * lin
      else if (zero : ℝ) ≤ alt - altPrev then d% 0.95 else d% 0.12) := by
    simp only [lit_real]
    split_ifs <;> norm_num
    nlinarith
  have : 0 ≤ pr - one := by rw [one_real]; linarith
  rw [one_real] at *
  nlinarith [mul_nonneg hpc this]

/-- negation witness for the code as it exists: a climbing point at 1 000 m of a flight that tops out
    at 2 500 m gets a NEGATIVE combustor inlet pressure (the code then returns NaN indices) -/
theorem meem_inlet_pressure_fails_as_is : ¬ MeemInletPressurePositiveStatement false := by
  intro h
  have h1 := h 20 1000 500 2500 280 90000 0.3 (by norm_num) (by norm_num) (by norm_num) (by norm_num) (by norm_num)
  have hpt := meem_total_pressure_pos 90000 0.3 (by norm_num)
  unfold meemPoint meemLin at h1
  dsimp only at h1
  have hneg : (one : ℝ) + (if (zero : ℝ) < 1000 - 500 then
        d% 0.85 + (d% 1.15 - d% 0.85) * (((1000 : ℝ) - d% 3000) / smax one (2500 - d% 3000))
      else if (zero : ℝ) ≤ 1000 - 500 then d% 0.95 else d% 0.12) * (20 - one) < 0 := by
    simp only [lit_real, zero_real, one_real, smax_real]
    norm_num
  simp only [Bool.false_eq_true, if_false] at h1
  nlinarith


/-! ## Source tie: the same statements about the definitions regenerated from `/repo`'s Python source
    (`Aeic.Kern.*`, written by `harness/common/pykern.py` on every run; related to the models by
    `AeicProofs/Lemmas/KernelBridge.lean`).  These re-check on every `lake build` that what the source text says *now*
    still has the property; the `Float` evaluation of the same generated definitions is compared with the running
    implementation by `harness/kernels.py`. -/

/-- the ISA functions of `utils/standard_atmosphere.py`, as translated, are the models of this file -/
theorem src_isa_is_model (x y : ℝ) :
    Kern.isa_temperature x = isaTemperature x ∧ Kern.isa_pressure x = isaPressure x ∧
    Kern.isa_altitude x = isaAltitude x ∧ Kern.speed_of_sound x = speedOfSound x ∧
    Kern.speed_of_sound_at_altitude x = speedOfSound (isaTemperature x) ∧ Kern.air_density x y = airDensity x y :=
  ⟨KernelBridge.isa_temperature x, KernelBridge.isa_pressure x, KernelBridge.isa_altitude x,
   KernelBridge.speed_of_sound x, KernelBridge.speed_of_sound_at_altitude x, KernelBridge.air_density x y⟩

/-- altitude → pressure → altitude is the identity, for the source as translated -/
theorem src_pressure_altitude_inverse (h : ℝ) : Kern.isa_altitude (Kern.isa_pressure h) = h := by
  rw [KernelBridge.isa_pressure, KernelBridge.isa_altitude]; exact pressure_altitude_inverse h

theorem src_altitude_pressure_inverse (p : ℝ) (hp : 0 < p) : Kern.isa_pressure (Kern.isa_altitude p) = p := by
  rw [KernelBridge.isa_altitude, KernelBridge.isa_pressure]; exact altitude_pressure_inverse p hp

theorem src_isa_temperature_published (h : ℝ) :
    (h ≤ 11000 → Kern.isa_temperature h = 288.15 - 0.0065 * h) ∧ (11000 < h → Kern.isa_temperature h = 216.65) := by
  rw [KernelBridge.isa_temperature]; exact isa_temperature_published h

theorem src_isa_pressure_strictly_decreasing (h1 h2 : ℝ) (h : h1 < h2) : Kern.isa_pressure h2 < Kern.isa_pressure h1 := by
  rw [KernelBridge.isa_pressure, KernelBridge.isa_pressure]; exact isa_pressure_strictly_decreasing h1 h2 h

/-- Fuel Flow Method 2 eq. 40 as the source computes it: linear in the flow, identity at the reference state -/
theorem src_sls_flow (c ff P T M n : ℝ) :
    Kern.sls_fuel_flow (c * ff) P T M n = c * Kern.sls_fuel_flow ff P T M n ∧
    Kern.sls_fuel_flow ff 101325 288.15 0 n = ff / n := by
  rw [KernelBridge.sls_fuel_flow, KernelBridge.sls_fuel_flow, KernelBridge.sls_fuel_flow]
  exact ⟨sls_flow_linear c ff P T M n, sls_flow_identity_at_reference ff n⟩

/-- sulfur is conserved by `EI_SOx` as the source computes it (fuel attributes `fuel_sulfur_content_nom`, `sulfate_yield_nom`) -/
theorem src_sox_sulfur_conserved (s y : ℝ) :
    Kern.sox_so2 (KernelBridge.fuelEnv s y) / 64 + Kern.sox_so4 (KernelBridge.fuelEnv s y) / 96 = s / 1e6 * 1e3 / 32 ∧
    Kern.sox_total (KernelBridge.fuelEnv s y)
      = Kern.sox_so2 (KernelBridge.fuelEnv s y) + Kern.sox_so4 (KernelBridge.fuelEnv s y) := by
  rw [KernelBridge.sox_so2, KernelBridge.sox_so4, KernelBridge.sox_total]
  exact ⟨sox_sulfur_conserved s y, rfl⟩

/-- the speciation percentages in the source add up to 100 in every thrust regime, and are the model's -/
theorem src_speciation_sums :
    (Kern.nox_spec_no_L + Kern.nox_spec_no2_L + Kern.nox_spec_hono_L : ℝ) = 100 ∧
    (Kern.nox_spec_no_A + Kern.nox_spec_no2_A + Kern.nox_spec_hono_A : ℝ) = 100 ∧
    (Kern.nox_spec_no_H + Kern.nox_spec_no2_H + Kern.nox_spec_hono_H : ℝ) = 100 := by
  obtain ⟨a, b, c, d, e, f, g, h, i⟩ := KernelBridge.nox_spec
  rw [a, b, c, d, e, f, g, h, i]
  refine ⟨?_, ?_, ?_⟩ <;> simp only [noL, noA, noH, no2L, no2A, no2H, honoL, honoA, honoH, lit_real] <;> norm_num

/-- the BFFM2 humidity correction the source computes is eq. 45 with the as-is humidity reference (open finding
    `C12-bffm2-humidity-reference`, today) or with the published one (after a repair): either way it is DuBois & Paynter's eq. 45,
    and the specific humidity is the model's -/
theorem src_nox_correction_variant :
    ((∀ T P : ℝ, Kern.nox_correction T P = bffm2Correction humRefAsIs T P) ∨
     (∀ T P : ℝ, Kern.nox_correction T P = bffm2Correction humRefPublished T P)) ∧
    (∀ T P : ℝ, Kern.nox_humidity_omega T P = specificHumidity T P) :=
  ⟨KernelBridge.nox_correction, KernelBridge.nox_humidity_omega⟩

theorem src_hcco_ambient (T P : ℝ) : Kern.hcco_ambient_factor T P = hccoAmbient T P := KernelBridge.hcco_ambient_factor T P

/-- the MEEM compressor chain of the source (altitude rate and maximum altitude as inputs) is the model's `meemPoint`, with the
    pressure coefficient unbounded (as-is, open finding `C12-meem-pressure-coefficient-unbounded`) or clipped (after a repair) -/
theorem src_meem_point :
    ∃ clip : Bool, ∀ alt rate maxAlt T P M pr : ℝ,
    Kern.meem_point_fg alt rate maxAlt T P M pr = (meemPoint clip pr alt (alt - rate) maxAlt T P M).fg ∧
    Kern.meem_point_p3 alt rate maxAlt T P M pr = (meemPoint clip pr alt (alt - rate) maxAlt T P M).p3 ∧
    Kern.meem_point_p3_ref alt rate maxAlt T P M pr = (meemPoint clip pr alt (alt - rate) maxAlt T P M).p3ref :=
  KernelBridge.meem_point

example : Kern.isa_altitude (Kern.isa_pressure (9000 : ℝ)) = 9000 := src_pressure_altitude_inverse _

/-! ## Source tie for the whole HC / CO fit: `EI_HCCO` regenerated for one evaluation point (`Aeic.Kern.hcco_ei`, and in two
    stages `hcco_param_*` / `hcco_point`); `KernelBridge6.hcEnv ei cal` is the attribute environment of the two
    `ThrustModeValues` arguments -/

/-- `EI_HCCO` of the source text — slanted and horizontal segments in log space, the `np.isclose` tests, the SAGE v1.5 clamping
    rules as the `if / elif / elif` chain, the masked evaluation, the ACRP low-thrust factor, the ambient factor — is the model's
    `hccoEI`, for every calibration data set, flow, temperature and pressure -/
theorem src_hcco_is_model (ff T P : ℝ) (ei cal : Q4 ℝ) :
    Kern.hcco_ei (KernelBridge6.hcEnv ei cal) ff T P = hccoEI ff ei cal T P := KernelBridge6.hcco_ei ff T P ei cal

/-- the HC / CO index the source computes is non-negative for ALL calibration data and flows -/
theorem src_hcco_nonneg (ff T P : ℝ) (ei cal : Q4 ℝ) (hT : 0 ≤ T) (hP : 0 ≤ P) :
    0 ≤ Kern.hcco_ei (KernelBridge6.hcEnv ei cal) ff T P := by
  rw [src_hcco_is_model]; exact hcco_nonneg ff T P ei cal hT hP

/-- … scales linearly with the certification indices it is calibrated on, on every branch of the clamping rules -/
theorem src_hcco_scales_linearly (ff T P c : ℝ) (ei cal : Q4 ℝ) (hc : 0 < c) (hei : posQ ei) :
    Kern.hcco_ei (KernelBridge6.hcEnv (scaleQ c ei) cal) ff T P = c * Kern.hcco_ei (KernelBridge6.hcEnv ei cal) ff T P := by
  rw [src_hcco_is_model, src_hcco_is_model]; exact hcco_scales_linearly ff T P c ei cal hc hei

/-- … and the five fit parameters of the source after the clamping rules are the model's (so `hcco_clamped`, proved about
    `hccoParams`, bounds what the source evaluates) -/
theorem src_hcco_params_are_model (ei cal : Q4 ℝ) :
    Kern.hcco_param_slope (KernelBridge6.hcEnv ei cal) = (hccoParams ei cal).slope ∧
    Kern.hcco_param_base_log_fuel (KernelBridge6.hcEnv ei cal) = (hccoParams ei cal).baseLogFuel ∧
    Kern.hcco_param_base_log_EI (KernelBridge6.hcEnv ei cal) = (hccoParams ei cal).baseLogEI ∧
    Kern.hcco_param_x_horzline (KernelBridge6.hcEnv ei cal) = (hccoParams ei cal).horz ∧
    Kern.hcco_param_x_intercept (KernelBridge6.hcEnv ei cal) = (hccoParams ei cal).xInt := KernelBridge6.hcco_params ei cal

/-! ## Source tie for volatile PM, the cruise thrust category and SCOPE11 (`Aeic.Kern.pmvol_*`, `thrust_cat`, `scope11_*`) -/

/-- the thrust category the source assigns (index of the `ThrustMode` member `np.select` picks) is the model's: every flow gets
    exactly one category, and the category never decreases when the fuel flow increases — for ANY calibration flows -/
theorem src_thrust_cat (cal : Q4 ℝ) (f1 f2 : ℝ) (h : f1 ≤ f2) :
    Kern.thrust_cat (KernelBridge7.calEnv cal) f1 = thrustCat f1 cal ∧
    Kern.thrust_cat (KernelBridge7.calEnv cal) f1 ≤ 2 ∧
    Kern.thrust_cat (KernelBridge7.calEnv cal) f1 ≤ Kern.thrust_cat (KernelBridge7.calEnv cal) f2 := by
  rw [KernelBridge7.thrust_cat, KernelBridge7.thrust_cat]
  exact ⟨rfl, (thrust_cat_total f1 cal).2.2.2, thrust_cat_monotone f1 f2 cal h⟩

/-- FOA3 of the source: the interpolated organic-carbon delta stays within the tabulated values, the index scales linearly with the
    HC index and is non-negative; the fuel-flow method returns the documented constants -/
theorem src_pmvol (A : String → ℝ) (thrust hc c : ℝ) (idle : Bool) :
    Kern.pmvol_foa3 A thrust hc = foa3 thrust hc ∧
    Kern.pmvol_foa3 A thrust (c * hc) = c * Kern.pmvol_foa3 A thrust hc ∧
    (0 ≤ hc → 0 ≤ Kern.pmvol_foa3 A thrust hc) ∧
    Kern.pmvol_foa3_ocic A thrust hc = Kern.pmvol_foa3 A thrust hc ∧
    (0 : ℝ) < Kern.pmvol_ff_pmvol A idle ∧ Kern.pmvol_ff_ocic A idle = 0.02 := by
  obtain ⟨h1, h2, h3, h4⟩ := KernelBridge7.pmvol A thrust hc idle
  obtain ⟨h1', _, _, _⟩ := KernelBridge7.pmvol A thrust (c * hc) idle
  refine ⟨h1, ?_, ?_, ?_, ?_, ?_⟩
  · rw [h1', h1]; exact foa3_scales_linearly c thrust hc
  · intro hh; rw [h1]; exact foa3_nonneg thrust hc hh
  · rw [h2, h1]
  · rw [h3]; exact (pmvol_fuelflow_values _).2.2.1
  · rw [h4]; exact (pmvol_fuelflow_values 0).2.2.2

/-- SCOPE11 of the source is the model's `scope11Mode` for the three engine-type cases and all four modes, hence non-negative for
    every smoke number (invalid ones included) and every bypass ratio ≥ 0 -/
theorem src_scope11 (sn : Q4 ℝ) (bpr : ℝ) (hb : 0 ≤ bpr) :
    0 ≤ Kern.scope11_mtf_IDLE (KernelBridge7.snEnv sn) bpr ∧ 0 ≤ Kern.scope11_mtf_TAKEOFF (KernelBridge7.snEnv sn) bpr ∧
    0 ≤ Kern.scope11_tf_APPROACH (KernelBridge7.snEnv sn) bpr ∧ 0 ≤ Kern.scope11_tf_CLIMB (KernelBridge7.snEnv sn) bpr ∧
    0 ≤ Kern.scope11_other_IDLE (KernelBridge7.snEnv sn) bpr ∧ Kern.scope11_other_CLIMB (KernelBridge7.snEnv sn) bpr = scope11Mode 2 2 sn.c bpr := by
  obtain ⟨m1, _, _, m4⟩ := KernelBridge7.scope11_mtf sn bpr
  obtain ⟨_, t2, t3, _⟩ := KernelBridge7.scope11_tf sn bpr
  obtain ⟨o1, _, o3, _⟩ := KernelBridge7.scope11_other sn bpr
  rw [m1, m4, t2, t3, o1, o3]
  exact ⟨scope11_nonneg _ _ _ _ hb, scope11_nonneg _ _ _ _ hb, scope11_nonneg _ _ _ _ hb, scope11_nonneg _ _ _ _ hb,
    scope11_nonneg _ _ _ _ hb, rfl⟩

end C12
