/-
  C02 — Simulated trajectories obey mass, time, distance and route bookkeeping.

  Models: `AeicModel/Container.lean` (growable buffers), `AeicModel/Builder.lean` (legacy builder,
  `np.interp` resampling).  Flight theorems are over ℝ, for *every* performance function `perf`, ground
  track `track`, schedule, step counts and masses; hypotheses on `perf` are collected in `PerfOK`.
-/
import AeicProofs.RealInst
import AeicProofs.Lemmas.C02Container
import AeicProofs.Lemmas.C02Flight
import AeicProofs.Lemmas.C02Interp
import AeicProofs.Lemmas.KernelBridge2
import AeicProofs.Lemmas.KernelBridge3

namespace C02
open Aeic Aeic.Builder Aeic.Container

/-! ### the container refines the plain list of appended points -/

/-- For every sequence of appended points (any length: across every capacity expansion): all appends
    succeed, reading the fields back gives exactly the appended columns, and `make_point(idx)` returns
    row `idx` for every valid Python index (in particular `-1`, the phase hand-over). -/
theorem container_refines_list {β : Type} [Inhabited β] (ncols : ℕ) (rows : List (List β))
    (h : ∀ r ∈ rows, r.length = ncols) :
    ∃ c : Cont β, appendAll (empty ncols) rows = .ok c ∧ c.size = rows.length ∧
      get c = (List.range ncols).map (column rows) ∧
      ∀ (idx : Int) (hlo : -(rows.length : Int) ≤ idx) (hhi : idx < rows.length),
        makePoint c idx = .ok (rows[pyIdx rows.length idx]'(by unfold pyIdx; split <;> omega)) := by
  obtain ⟨c, hc, hrep, _⟩ := rep_appendAll (ncols := ncols) rows (rep_empty ncols) rfl h
  simp only [List.nil_append] at hrep
  exact ⟨c, hc, hrep.size, rep_get hrep, fun idx hlo hhi => rep_makePoint hrep h idx hlo hhi⟩

/-- the hand-over between flight phases, `traj.make_point(-1)`, is the last appended point -/
theorem container_handover_is_last {β : Type} [Inhabited β] (ncols : ℕ) (rows : List (List β))
    (h : ∀ r ∈ rows, r.length = ncols) (hne : rows ≠ []) :
    ∃ c : Cont β, appendAll (empty ncols) rows = .ok c ∧ makePoint c (-1) = .ok (rows.getLast hne) := by
  obtain ⟨c, hc, _, _, hmp⟩ := container_refines_list ncols rows h
  have hlen : 0 < rows.length := List.length_pos_iff.mpr hne
  refine ⟨c, hc, ?_⟩
  rw [hmp (-1) (by omega) (by omega)]
  congr 1
  rw [List.getLast_eq_getElem]
  congr 1
  unfold pyIdx; simp; omega

example : ∃ c : Cont ℕ, appendAll (empty 2) [[1, 2], [3, 4], [5, 6]] = .ok c ∧ makePoint c (-1) = .ok [5, 6] :=
  ⟨_, rfl, by decide⟩

/-- appending keeps working after any prefix (interleaved reads do not change the state): continuing
    from a container that represents `rows` with `more` represents `rows ++ more`. -/
theorem container_append_continues {β : Type} [Inhabited β] (ncols : ℕ) (rows more : List (List β))
    (h : ∀ r ∈ rows, r.length = ncols) (h' : ∀ r ∈ more, r.length = ncols) :
    ∃ c c' : Cont β, appendAll (empty ncols) rows = .ok c ∧ appendAll c more = .ok c' ∧
      get c' = (List.range ncols).map (column (rows ++ more)) := by
  obtain ⟨c, hc, hrep, hext⟩ := rep_appendAll (ncols := ncols) rows (rep_empty ncols) rfl h
  simp only [List.nil_append] at hrep
  obtain ⟨c', hc', hrep', _⟩ := rep_appendAll more hrep hext h'
  exact ⟨c, c', hc, hc', rep_get hrep'⟩

/-- Negation witness for the code as found (`val[idx]` on the capacity buffer): after three appends
    `make_point(-1)` returned slot 49 of the buffer (0) instead of the last point.  Replayed against the
    implementation by the harness (corpus/C02); repaired by a `fix:` commit, `makePoint` models the repair. -/
theorem make_point_as_found_wrong :
    ∃ c : Cont ℕ, appendAll (empty 1) [[7], [8], [9]] = .ok c ∧ makePointAsIs c (-1) = .ok [0] ∧
      makePoint c (-1) = .ok [9] :=
  ⟨_, rfl, by decide, by decide⟩

/-! ### flights -/

section flight
variable {perf : PerfFn ℝ} {track : Track ℝ} {s : Sched ℝ} {st : Steps} {lhv sm tfm : ℝ}
  {traj : List (Pt ℝ)} {res : ℝ}

/-- Aircraft mass minus remaining fuel mass is the same at every point (no hypothesis on the
    performance model or the track). -/
theorem mass_minus_fuel_const (h : flyIteration perf track s st lhv sm tfm = .ok (traj, res)) :
    ∀ p ∈ traj, p.mass - p.fuel = sm - tfm := by
  have := flight_forall (I := fun p => p.mass - p.fuel = sm - tfm) h (by simp [startPoint])
    (fun rule a dl k i pt pts hpt hl p hp => by
      have := levelSteps_bal _ _ _ _ _ _ _ _ _ _ hl p hp; unfold Bal at this; linarith)
    (fun last hl => by simpa [crzStartPt] using hl)
    (fun alt step k pt pts hpt hl p hp => by
      have := cruiseSteps_bal _ _ _ _ _ _ _ hl p hp; unfold Bal at this; linarith)
  exact this

/-- Fuel and aircraft mass never increase, elapsed time and ground distance never decrease — between
    *any* two points of the trajectory, hand-overs included. -/
theorem bookkeeping_monotone {o d m : ℝ} (hs : schedule o d m = .ok s) (hp : PerfOK perf)
    (h : flyIteration perf track s st lhv sm tfm = .ok (traj, res)) :
    traj.Pairwise (fun a b => b.mass ≤ a.mass ∧ b.fuel ≤ a.fuel ∧ a.time ≤ b.time ∧ a.gd ≤ b.gd) :=
  flight_adv hs hp h

theorem mass_fuel_nonincreasing {o d m : ℝ} (hs : schedule o d m = .ok s) (hp : PerfOK perf)
    (h : flyIteration perf track s st lhv sm tfm = .ok (traj, res)) :
    traj.Pairwise (fun a b => b.mass ≤ a.mass ∧ b.fuel ≤ a.fuel) :=
  (flight_adv hs hp h).imp (fun hab => ⟨hab.1, hab.2.1⟩)

theorem time_dist_nondecreasing {o d m : ℝ} (hs : schedule o d m = .ok s) (hp : PerfOK perf)
    (h : flyIteration perf track s st lhv sm tfm = .ok (traj, res)) :
    traj.Pairwise (fun a b => a.time ≤ b.time ∧ a.gd ≤ b.gd) :=
  (flight_adv hs hp h).imp (fun hab => ⟨hab.2.2.1, hab.2.2.2⟩)

/-- non-vacuity of `PerfOK` and of a successful flight: constant performance, a track that is defined
    everywhere, sea-level airports, ceiling 12 km, two points per phase. -/
example : PerfOK (fun r _ _ => .ok ⟨200, match r with | .climb => 10 | .cruise => 0 | .descend => -10, 1⟩) :=
  ⟨fun r a m p h => by cases h; norm_num, fun r a m p h => by cases h; norm_num,
   fun a m p h => by cases h; norm_num, fun a m p h => by cases h; norm_num⟩

example : ∃ s : Sched ℝ, schedule (0:ℝ) 0 12000 = .ok s := by
  unfold schedule; simp only [lit_real, zero_real, feet_real]; norm_num

/-- The first point carries the starting mass and fuel load of the iteration, time 0, distance 0, the
    first waypoint and the climb start altitude. -/
theorem first_point_is_start (h : flyIteration perf track s st lhv sm tfm = .ok (traj, res)) :
    ∃ p rest, traj = p :: rest ∧ p.mass = sm ∧ p.fuel = tfm ∧ p.time = 0 ∧ p.gd = 0 ∧
      p.alt = s.clmStart ∧ p.lon = track.start.lon ∧ p.lat = track.start.lat := by
  obtain ⟨clm, crz, des, rfl, n1, _, _, l1, _, _, h1, _, _, _⟩ := flight_phases h
  obtain ⟨k, hk⟩ : ∃ k, st.nClm - 1 = k + 1 := ⟨st.nClm - 2, by omega⟩
  rw [hk] at h1
  obtain ⟨p, pe, g, rest, _, _, _, _, rfl⟩ := levelSteps_succ _ _ _ _ _ _ h1
  exact ⟨_, rest ++ (crz ++ des), rfl, by simp [lvlAppended, lvlSnap, startPoint]⟩

/-- What `fly` reports is what was flown: the returned trajectory is the iteration at the reported
    starting mass and fuel load (so `first_point_is_start` speaks about the reported values). -/
theorem reported_masses_are_flown (o : Opts ℝ) (mi : MissionIn ℝ) (r : Res ℝ (List (Pt ℝ)))
    (h : flyLegacy o perf track mi = .ok r) :
    ∃ s res, schedule mi.origAlt mi.destAlt mi.maxAlt = .ok s ∧
      flyIteration perf track s mi.steps mi.lhv r.startingMass r.totalFuel = .ok (r.traj, res) := by
  unfold flyLegacy fly at h
  cases hc : (legacyMission perf track mi).ctor with
  | error e => rw [hc] at h; cases h
  | ok s =>
    rw [hc] at h
    have hs : schedule mi.origAlt mi.destAlt mi.maxAlt = .ok s := by
      simp only [legacyMission] at hc
      split_ifs at hc
      exact hc
    simp only [flyBody] at h
    cases hg : (legacyMission perf track mi).givenMass with
    | some g => rw [hg] at h; split_ifs at h
    | none =>
      rw [hg] at h
      cases hm : (legacyMission perf track mi).calcMass s with
      | error e => rw [hm] at h; cases h
      | ok p =>
        obtain ⟨sm0, tfm0⟩ := p
        rw [hm] at h
        simp only at h
        split_ifs at h with h1 h2
        · cases hi : iterateMass ((legacyMission perf track mi).flyIt s) o.tol o.maxIters sm0 tfm0 with
          | error e => rw [hi] at h; cases h
          | ok q =>
            obtain ⟨t, a, b⟩ := q
            rw [hi] at h; cases h
            obtain ⟨res, hres⟩ : ∃ res, (legacyMission perf track mi).flyIt s a b = .ok (t, res) := by
              unfold iterateMass at hi
              cases hf : (legacyMission perf track mi).flyIt s sm0 tfm0 with
              | error e => rw [hf] at hi; cases hi
              | ok r0 =>
                rw [hf] at hi
                exact iterLoop_returns _ _ _ _ _ _ _ _ _ hf hi
            exact ⟨s, res, hs, hres⟩
        · cases hf : (legacyMission perf track mi).flyIt s sm0 tfm0 with
          | error e => rw [hf] at h; cases h
          | ok q =>
            obtain ⟨t, res⟩ := q
            rw [hf] at h; cases h
            exact ⟨s, res, hs, hf⟩

/-- Every point lies on the ground track at exactly its recorded ground distance (`hstart`: the
    track's first waypoint is its point at distance 0 — a law of `GroundTrack`, checked by the harness). -/
theorem positions_on_track (hstart : track.loc 0 = .ok track.start)
    (h : flyIteration perf track s st lhv sm tfm = .ok (traj, res)) :
    ∀ p ∈ traj, track.loc p.gd = .ok ⟨p.lon, p.lat, p.az⟩ :=
  flight_forall (I := OnTrack track) h (by simpa [OnTrack, startPoint] using hstart)
    (fun rule a dl k i pt pts hpt hl => levelSteps_ontrack _ _ _ _ _ _ _ _ _ _ hpt hl)
    (fun last hl => by simpa [OnTrack, crzStartPt] using hl)
    (fun alt step k pt pts hpt hl => cruiseSteps_ontrack _ _ _ _ _ _ _ hpt hl)

/-- The altitude profile: the trajectory is climb ++ cruise ++ descent with the requested point counts;
    climb point `j` is at `clmStart + j·(crzStart − clmStart)/(nClm − 1)`, every cruise point at `crzStart`,
    descent point `j` at `crzStart + j·(desEnd − crzStart)/(nDes − 1)`. -/
theorem altitude_profile {o d m : ℝ} (hs : schedule o d m = .ok s)
    (h : flyIteration perf track s st lhv sm tfm = .ok (traj, res)) :
    ∃ clm crz des, traj = clm ++ (crz ++ des) ∧
      clm.length = st.nClm ∧ crz.length = st.nCrz ∧ des.length = st.nDes ∧
      (∀ (j : ℕ) (hj : j < clm.length),
        (clm[j]).alt = s.clmStart + (j : ℝ) * ((s.crzStart - s.clmStart) / ((st.nClm - 1 : ℕ) : ℝ))) ∧
      (∀ p ∈ crz, p.alt = s.crzStart) ∧
      (∀ (j : ℕ) (hj : j < des.length),
        (des[j]).alt = s.crzStart + (j : ℝ) * ((s.desEnd - s.crzStart) / ((st.nDes - 1 : ℕ) : ℝ))) := by
  obtain ⟨_, _, hds, _, _, _, _, _, _⟩ := schedule_ok hs
  obtain ⟨clm, crz, des, rfl, n1, n2, n3, l1, l2, l3, h1, h2, h3, _⟩ := flight_phases h
  refine ⟨clm, crz, des, rfl, l1, l2, l3, ?_, ?_, ?_⟩
  · intro j hj
    have := levelSteps_alt _ _ _ _ _ _ _ _ _ _ h1 j hj
    simpa using this
  · intro p hp
    rw [cruiseSteps_alt _ _ _ _ _ _ _ h2 p hp]; simp [crzStartPt]
  · intro j hj
    have := levelSteps_alt _ _ _ _ _ _ _ _ _ _ h3 j hj
    rw [hds] at this
    simpa using this

/-- Altitude starts at the origin's +3000 ft level (the origin's own elevation if that level reaches the
    ceiling), never decreases in climb, is constant in cruise, never increases in descent, ends at the
    destination's +3000 ft level (clamped to the ceiling), and never exceeds the cruise level, which
    never exceeds the ceiling `m`. -/
theorem altitude_schedule {o d m : ℝ} (hs : schedule o d m = .ok s)
    (h : flyIteration perf track s st lhv sm tfm = .ok (traj, res)) :
    s.clmStart = (if m ≤ o + 3000 * 0.3048 then o else o + 3000 * 0.3048) ∧
    s.desEnd = (if m ≤ d + 3000 * 0.3048 then m else d + 3000 * 0.3048) ∧
    s.crzStart ≤ m ∧
    ∃ clm crz des, traj = clm ++ (crz ++ des) ∧
      clm.Pairwise (fun a b => a.alt ≤ b.alt) ∧ (∀ p ∈ crz, p.alt = s.crzStart) ∧
      des.Pairwise (fun a b => b.alt ≤ a.alt) ∧
      (∀ p ∈ traj, p.alt ≤ s.crzStart ∧ min s.clmStart s.desEnd ≤ p.alt) ∧
      (∃ p0, clm.head? = some p0 ∧ p0.alt = s.clmStart) ∧
      (∃ pl, des.getLast? = some pl ∧ pl.alt = s.desEnd) := by
  obtain ⟨e1, e2, hds, hcc, hde, hcm, _, _, _⟩ := schedule_ok hs
  obtain ⟨clm, crz, des, rfl, l1, l2, l3, a1, a2, a3⟩ := altitude_profile hs h
  obtain ⟨_, _, _, _, n1, _, n3, _⟩ := flight_phases h
  have hN1 : (0:ℝ) < ((st.nClm - 1 : ℕ) : ℝ) := by exact_mod_cast (by omega : 0 < st.nClm - 1)
  have hN3 : (0:ℝ) < ((st.nDes - 1 : ℕ) : ℝ) := by exact_mod_cast (by omega : 0 < st.nDes - 1)
  have hd1 : 0 ≤ (s.crzStart - s.clmStart) / ((st.nClm - 1 : ℕ) : ℝ) := div_nonneg (by linarith) hN1.le
  have hd3 : (s.desEnd - s.crzStart) / ((st.nDes - 1 : ℕ) : ℝ) ≤ 0 :=
    div_nonpos_of_nonpos_of_nonneg (by linarith) hN3.le
  -- bounds for climb / descent points by index
  have hclm_le : ∀ (j : ℕ) (hj : j < clm.length), s.clmStart ≤ (clm[j]).alt ∧ (clm[j]).alt ≤ s.crzStart := by
    intro j hj
    rw [a1 j hj]
    have hjn : (j : ℝ) ≤ ((st.nClm - 1 : ℕ) : ℝ) := by exact_mod_cast (by omega : j ≤ st.nClm - 1)
    constructor
    · nlinarith [mul_nonneg (Nat.cast_nonneg j : (0:ℝ) ≤ j) hd1]
    · have : (j : ℝ) * ((s.crzStart - s.clmStart) / ((st.nClm - 1 : ℕ) : ℝ))
          ≤ ((st.nClm - 1 : ℕ) : ℝ) * ((s.crzStart - s.clmStart) / ((st.nClm - 1 : ℕ) : ℝ)) :=
        mul_le_mul_of_nonneg_right hjn hd1
      rw [mul_div_cancel₀ _ hN1.ne'] at this
      linarith
  have hdes_le : ∀ (j : ℕ) (hj : j < des.length), s.desEnd ≤ (des[j]).alt ∧ (des[j]).alt ≤ s.crzStart := by
    intro j hj
    rw [a3 j hj]
    have hjn : (j : ℝ) ≤ ((st.nDes - 1 : ℕ) : ℝ) := by exact_mod_cast (by omega : j ≤ st.nDes - 1)
    constructor
    · have : ((st.nDes - 1 : ℕ) : ℝ) * ((s.desEnd - s.crzStart) / ((st.nDes - 1 : ℕ) : ℝ))
          ≤ (j : ℝ) * ((s.desEnd - s.crzStart) / ((st.nDes - 1 : ℕ) : ℝ)) :=
        mul_le_mul_of_nonpos_right hjn hd3
      rw [mul_div_cancel₀ _ hN3.ne'] at this
      linarith
    · nlinarith [mul_nonneg (Nat.cast_nonneg j : (0:ℝ) ≤ j) (neg_nonneg.mpr hd3)]
  refine ⟨e1, e2, hcm, clm, crz, des, rfl, ?_, a2, ?_, ?_, ?_, ?_⟩
  · rw [List.pairwise_iff_getElem]
    intro i j hi hj hij
    rw [a1 i hi, a1 j hj]
    have : (i : ℝ) ≤ j := by exact_mod_cast hij.le
    nlinarith [mul_le_mul_of_nonneg_right this hd1]
  · rw [List.pairwise_iff_getElem]
    intro i j hi hj hij
    rw [a3 i hi, a3 j hj]
    have : (i : ℝ) ≤ j := by exact_mod_cast hij.le
    nlinarith [mul_le_mul_of_nonpos_right this hd3]
  · intro p hp
    simp only [List.mem_append] at hp
    rcases hp with hp | hp | hp
    · obtain ⟨j, hj, rfl⟩ := List.mem_iff_getElem.mp hp
      exact ⟨(hclm_le j hj).2, (min_le_left _ _).trans (hclm_le j hj).1⟩
    · rw [a2 p hp]; exact ⟨le_refl _, (min_le_left _ _).trans hcc⟩
    · obtain ⟨j, hj, rfl⟩ := List.mem_iff_getElem.mp hp
      exact ⟨(hdes_le j hj).2, (min_le_right _ _).trans (hdes_le j hj).1⟩
  · have h0 : 0 < clm.length := by omega
    refine ⟨clm[0], by simp [List.head?_eq_getElem?, h0], ?_⟩
    rw [a1 0 h0]; simp
  · have hl : st.nDes - 1 < des.length := by omega
    refine ⟨des[st.nDes - 1], ?_, ?_⟩
    · rw [List.getLast?_eq_getElem?, l3]; simp [hl]
    · rw [a3 _ hl, mul_div_cancel₀ _ hN3.ne']; ring

/-- An origin above the aircraft ceiling is refused. -/
theorem origin_above_ceiling_rejected (o d m : ℝ) (h : m < o) :
    schedule o d m = .error .originAboveCruise := by
  unfold schedule
  simp only [lit_real, zero_real, feet_real]
  norm_num
  have h1 : m ≤ o + 4572 / 5 := by linarith
  have h2 : m - 10668 / 5 < o := by linarith
  simp [h1, h2, h]

/-- A destination whose +3000 ft level is above the cruise level is refused (ordinary origin: its
    +3000 ft level is at or below the nominal cruise level, ceiling − 7000 ft). -/
theorem dest_above_cruise_rejected (o d m : ℝ) (ho : o + 3000 * 0.3048 ≤ m - 7000 * 0.3048)
    (hd : m - 7000 * 0.3048 < d + 3000 * 0.3048) : schedule o d m = .error .destAboveCruise := by
  unfold schedule
  simp only [lit_real, zero_real, feet_real]
  norm_num at ho hd ⊢
  have h1 : ¬ m ≤ o + 4572 / 5 := by linarith
  have h2 : ¬ m - 10668 / 5 < o + 4572 / 5 := by linarith
  have h3 : ¬ m < m - 10668 / 5 := by linarith
  simp only [h1, h2, h3, if_false]
  split_ifs <;> first | rfl | (exfalso; linarith)

/-- Refusals of the context constructor, the starting-mass calculation and the iterations are what
    `fly` returns: no trajectory comes back from an unflyable mission.  In particular: -/
theorem unflyable_rejected (o : Opts ℝ) (mi : MissionIn ℝ) (e : Builder.Err)
    (h : schedule mi.origAlt mi.destAlt mi.maxAlt = .error e) :
    flyLegacy o perf track mi = .error (if !mi.originKnown || !mi.destKnown then .unknownAirport else e) := by
  unfold flyLegacy fly
  simp only [legacyMission]
  split_ifs with hk
  · rfl
  · rw [h]

/-- A cruise leg that would have to fly backwards (route shorter than climb + descent) never yields a
    trajectory: a returned flight has a non-negative cruise distance step. -/
theorem negative_cruise_rejected (h : flyIteration perf track s st lhv sm tfm = .ok (traj, res)) :
    ∃ clm, 0 ≤ (track.total - s.descentDist - (lastOr (startPoint track s sm tfm) clm).gd) /
      ((st.nCrz - 1 : ℕ) : ℝ) := by
  obtain ⟨clm, crz, des, _, _, n2, _, _, _, _, _, h2, _, _⟩ := flight_phases h
  obtain ⟨k, hk⟩ : ∃ k, st.nCrz = k + 1 := ⟨st.nCrz - 1, by omega⟩
  rw [hk] at h2
  exact ⟨clm, cruiseSteps_step_nonneg _ _ _ _ (by simpa [hk] using h2)⟩

/-- Every climb and descent point of a returned trajectory carries the performance of its own
    (altitude, mass): a state outside the performance envelope cannot appear in a returned trajectory,
    because the first refusal of `perf` aborts the flight. -/
theorem level_points_in_envelope (h : flyIteration perf track s st lhv sm tfm = .ok (traj, res)) :
    ∃ clm crz des, traj = clm ++ (crz ++ des) ∧
      (∀ p ∈ clm, perf .climb p.alt p.mass = .ok ⟨p.tas, p.roc, p.ff⟩) ∧
      (∀ p ∈ des, perf .descend p.alt p.mass = .ok ⟨p.tas, p.roc, p.ff⟩) := by
  obtain ⟨clm, crz, des, rfl, _, _, _, _, _, _, h1, _, h3, _⟩ := flight_phases h
  exact ⟨clm, crz, des, rfl, levelSteps_envelope _ _ _ _ _ _ _ _ _ _ h1,
    levelSteps_envelope _ _ _ _ _ _ _ _ _ _ h3⟩

end flight

/-! ### resampling (`interpolate_time` = `np.interp` per field, repaired code: sliced buffers) -/

/-- Resampling at one of the trajectory's own time points gives the field value back, for every field
    that takes the same value at all points sharing that time (always the case when time is strictly
    increasing; at a duplicated hand-over time: for the fields equal at both copies). -/
theorem resample_identity (nan : ℝ) (t f : List ℝ) (ht : t.Pairwise (· ≤ ·)) (hl : t.length = f.length)
    (i : ℕ) (hi : i < t.length)
    (hdup : ∀ (j : ℕ) (hj : j < t.length), t[j] = t[i] → f[j]'(hl ▸ hj) = f[i]'(hl ▸ hi)) :
    interp1 nan t f t[i] = f[i]'(hl ▸ hi) := by
  have hi' : i < f.length := hl ▸ hi
  have hs : SortedP (t.zip f) := by
    unfold SortedP
    rw [List.pairwise_iff_getElem]
    intro a b ha hb hab
    simp only [List.getElem_zip]
    exact (List.pairwise_iff_getElem.mp ht) a b _ _ hab
  have hmem : (t[i], f[i]) ∈ t.zip f := by
    rw [List.mem_iff_getElem]
    exact ⟨i, by simp [hi, hi'], by simp⟩
  rw [interp1_inside nan hs hmem hmem (le_refl _) (le_refl _)]
  apply interpAux_at nan _ hs _ _ hmem
  intro q hq hqx
  obtain ⟨j, hj, rfl⟩ := List.mem_iff_getElem.mp hq
  simp only [List.length_zip] at hj
  simp only [List.getElem_zip] at hqx ⊢
  exact hdup j (by omega) hqx

/-- strictly increasing time: resampling at the own time points is the identity -/
theorem resample_identity_strict (nan : ℝ) (t f : List ℝ) (ht : t.Pairwise (· < ·)) (hl : t.length = f.length)
    (i : ℕ) (hi : i < t.length) : interp1 nan t f t[i] = f[i]'(hl ▸ hi) := by
  apply resample_identity nan t f (ht.imp le_of_lt) hl i hi
  intro j hj hji
  have : j = i := by
    rcases Nat.lt_trichotomy j i with h | h | h
    · exact absurd hji (ne_of_lt ((List.pairwise_iff_getElem.mp ht) j i hj hi h))
    · exact h
    · exact absurd hji.symm (ne_of_lt ((List.pairwise_iff_getElem.mp ht) i j hi hj h))
  subst this; rfl

/-- Strictly between two neighbouring time points the resampled value is the linear interpolation
    between the neighbouring field values. -/
theorem resample_linear (nan : ℝ) (t f : List ℝ) (ht : t.Pairwise (· ≤ ·)) (hl : t.length = f.length)
    (i : ℕ) (hi : i + 1 < t.length) (x : ℝ) (h1 : t[i] < x) (h2 : x < t[i + 1]) :
    interp1 nan t f x =
      (f[i + 1]'(hl ▸ hi) - f[i]'(by omega)) / (t[i + 1] - t[i]) * (x - t[i]) + f[i]'(by omega) := by
  have hi0 : i < t.length := by omega
  have hf0 : i < f.length := by omega
  have hf1 : i + 1 < f.length := by omega
  have hs : SortedP (t.zip f) := by
    unfold SortedP
    rw [List.pairwise_iff_getElem]
    intro a b ha hb hab
    simp only [List.getElem_zip]
    exact (List.pairwise_iff_getElem.mp ht) a b _ _ hab
  have hm0 : (t[i], f[i]) ∈ t.zip f := by
    rw [List.mem_iff_getElem]; exact ⟨i, by simp [hi0, hf0], by simp⟩
  have hm1 : (t[i + 1], f[i + 1]) ∈ t.zip f := by
    rw [List.mem_iff_getElem]; exact ⟨i + 1, by simp [hi, hf1], by simp⟩
  rw [interp1_inside nan hs hm0 hm1 h1.le h2.le]
  have hlen : i + 1 < (t.zip f).length := by simp; omega
  have hsplit : t.zip f = (t.zip f).take i ++ (t[i], f[i]) :: (t[i + 1], f[i + 1]) :: (t.zip f).drop (i + 2) := by
    have e1 : (t.zip f).drop i = (t.zip f)[i]'(by omega) :: (t.zip f).drop (i + 1) := List.drop_eq_getElem_cons (by omega)
    have e2 : (t.zip f).drop (i + 1) = (t.zip f)[i + 1]'hlen :: (t.zip f).drop (i + 2) := List.drop_eq_getElem_cons hlen
    conv_lhs => rw [← List.take_append_drop i (t.zip f), e1, e2]
    simp [List.getElem_zip]
  rw [hsplit] at hs ⊢
  exact interpAux_between nan _ _ _ _ _ _ x hs h1 h2

example : interp1 (0:ℝ) [0, 10, 10, 20] [1, 2, 2, 4] 15 = 3 := by
  simp [interp1, interpAux]; norm_num


/-! ## Source tie: the altitude schedule and the starting mass as regenerated from `trajectories/builders/legacy.py`
    by the symbolic translator (`Aeic.Kern.legacy_*`) -/

open KernelBridge2 in
/-- whenever the mission is accepted, the five values `LegacyContext.__init__` assigns are the model's schedule -/
theorem src_schedule_is_model (o d m : ℝ) (s : Sched ℝ) (h : schedule o d m = .ok s) :
    Kern.legacy_clm_start_altitude (schedEnv o d m) = s.clmStart ∧ Kern.legacy_crz_start_altitude (schedEnv o d m) = s.crzStart ∧
    Kern.legacy_des_start_altitude (schedEnv o d m) = s.desStart ∧ Kern.legacy_des_end_altitude (schedEnv o d m) = s.desEnd ∧
    Kern.legacy_descent_dist_approx (schedEnv o d m) = s.descentDist := legacy_schedule o d m s h

open KernelBridge2 in
/-- the climb of the source text starts 3000 ft above the origin, or at the origin's elevation when that reaches the ceiling; the
    descent ends 3000 ft above the destination, clamped to the ceiling; the cruise level never exceeds the ceiling and descent
    starts at the cruise level — for EVERY origin / destination elevation and ceiling -/
theorem src_schedule_clamps (o d m : ℝ) :
    Kern.legacy_clm_start_altitude (schedEnv o d m) = (if m ≤ o + 3000 * 0.3048 then o else o + 3000 * 0.3048) ∧
    Kern.legacy_des_end_altitude (schedEnv o d m) = (if m ≤ d + 3000 * 0.3048 then m else d + 3000 * 0.3048) ∧
    Kern.legacy_crz_start_altitude (schedEnv o d m) ≤ m ∧
    Kern.legacy_des_start_altitude (schedEnv o d m) = Kern.legacy_crz_start_altitude (schedEnv o d m) := by
  obtain ⟨e1, e2, e3⟩ := schedEnv_eval o d m
  have hf : (Gen.FEET_TO_METERS : ℝ) = 0.3048 := by simp only [Gen.FEET_TO_METERS, lit_real]; norm_num
  refine ⟨?_, ?_, ?_, ?_⟩
  · simp only [Kern.legacy_clm_start_altitude, e1, e3, hf, lit_real]; norm_num
  · simp only [Kern.legacy_des_end_altitude, e2, e3, hf, lit_real]; norm_num
  · simp only [Kern.legacy_crz_start_altitude, e1, e3]
    split_ifs <;> linarith
  · simp only [Kern.legacy_des_start_altitude, Kern.legacy_crz_start_altitude]

open KernelBridge2 in
/-- the starting mass of the source text never exceeds the maximum take-off mass (the MTOM clamp), whatever the performance -/
theorem src_starting_mass_le_mtom (ac : Aircraft ℝ) (total lf : ℝ) (p : Perf ℝ) :
    Kern.legacy_starting_mass (massEnv ac total lf p) ≤ ac.maxMass := by
  obtain ⟨e1, e2, e3, e4, e5, e6, e7⟩ := massEnv_eval ac total lf p
  simp only [Kern.legacy_starting_mass, e1, e2, e3, e4, e5, e6, e7]
  split_ifs <;> linarith

open KernelBridge2 in
/-- … and it is the model's `calcStartingMass` (trip fuel included) -/
theorem src_starting_mass_is_model (perf : PerfFn ℝ) (ac : Aircraft ℝ) (total lf crz : ℝ) (p : Perf ℝ)
    (hp : perf .cruise crz ac.maxMass = .ok p) :
    calcStartingMass perf ac total lf crz =
      .ok (Kern.legacy_starting_mass (massEnv ac total lf p), Kern.legacy_total_fuel_mass (massEnv ac total lf p)) :=
  legacy_starting_mass perf ac total lf crz p hp

/-! ## Source tie: ONE generic iteration of the level-change loop and of the cruise loop, as regenerated from
    `trajectories/builders/legacy.py` by the symbolic translator in loop mode (`Aeic.Kern.lvl_step_*`, `Aeic.Kern.crz_step_*`).
    The first four theorems are statements about the source text alone — they hold for EVERY attribute environment `A` (every
    running point, every performance answer, every heating value), with no reference to the model. -/

/-- the same segment fuel is subtracted from the fuel mass and from the aircraft mass: one iteration of the level-change loop
    of the source leaves `aircraft_mass − fuel_mass` unchanged, whatever the state and the performance -/
theorem src_level_step_keeps_mass_minus_fuel (A : String → ℝ) (i s delta gs : ℝ) :
    Kern.lvl_step_aircraft_mass A i s delta gs - Kern.lvl_step_fuel_mass A i s delta gs
      = A "pt.aircraft_mass" - A "pt.fuel_mass" := by
  simp only [Kern.lvl_step_aircraft_mass, Kern.lvl_step_fuel_mass]; ring

/-- the non-negative clamp on the segment fuel: one iteration of the level-change loop of the source never increases fuel mass or
    aircraft mass — for every state, every performance answer (decelerating segments included) -/
theorem src_level_step_never_gains_fuel (A : String → ℝ) (i s delta gs : ℝ) :
    0 ≤ Kern.lvl_step_seg_fuel A i s delta gs ∧
    Kern.lvl_step_fuel_mass A i s delta gs ≤ A "pt.fuel_mass" ∧
    Kern.lvl_step_aircraft_mass A i s delta gs ≤ A "pt.aircraft_mass" := by
  simp only [Kern.lvl_step_seg_fuel, Kern.lvl_step_fuel_mass, Kern.lvl_step_aircraft_mass, lit_real]
  refine ⟨?_, ?_, ?_⟩ <;> split_ifs with h <;> norm_num at h ⊢ <;> linarith

/-- the cruise loop of the source subtracts the same segment fuel from both masses -/
theorem src_cruise_step_keeps_mass_minus_fuel (A : String → ℝ) (step gs : ℝ) :
    Kern.crz_step_aircraft_mass A step gs - Kern.crz_step_fuel_mass A step gs = A "pt.aircraft_mass" - A "pt.fuel_mass" := by
  simp only [Kern.crz_step_aircraft_mass, Kern.crz_step_fuel_mass]; ring

/-- with a non-negative fuel flow, a non-negative distance step and a positive ground speed, one cruise iteration of the source
    never increases the masses and never decreases time and distance -/
theorem src_cruise_step_monotone (A : String → ℝ) (step gs : ℝ) (hff : 0 ≤ A "perf.fuel_flow") (hs : 0 ≤ step) (hg : 0 < gs) :
    Kern.crz_step_fuel_mass A step gs ≤ A "pt.fuel_mass" ∧ Kern.crz_step_aircraft_mass A step gs ≤ A "pt.aircraft_mass" ∧
    A "pt.flight_time" ≤ Kern.crz_step_flight_time A step gs ∧ A "pt.ground_distance" ≤ Kern.crz_step_ground_distance A step gs := by
  have hq : 0 ≤ step / gs := div_nonneg hs hg.le
  have hm : 0 ≤ A "perf.fuel_flow" * (step / gs) := mul_nonneg hff hq
  simp only [Kern.crz_step_fuel_mass, Kern.crz_step_aircraft_mass, Kern.crz_step_flight_time, Kern.crz_step_ground_distance]
  refine ⟨?_, ?_, ?_, ?_⟩ <;> linarith

/-- one level-change iteration advances time by `Δh / ROC` and distance by `ground speed · Δh / ROC`: non-decreasing whenever the
    altitude step and the rate of climb have the same sign (climb: both positive; descent: both negative) -/
theorem src_level_step_time_dist (A : String → ℝ) (i s delta gs : ℝ) (h : 0 ≤ delta / A "perf.rate_of_climb") (hg : 0 ≤ gs) :
    A "pt.flight_time" ≤ Kern.lvl_step_flight_time A i s delta gs ∧
    A "pt.ground_distance" ≤ Kern.lvl_step_ground_distance A i s delta gs := by
  simp only [Kern.lvl_step_flight_time, Kern.lvl_step_ground_distance]
  exact ⟨by linarith, by nlinarith [mul_nonneg hg h]⟩

open KernelBridge3 in
/-- … and the iteration of the source IS the step function of the model (`lvlNext`: fuel, mass, distance, time, ground speed
    with the weather off), so the flight theorems above — proved about the folds `levelSteps` / `cruiseSteps` of exactly these
    step functions — speak about the loops of the source text -/
theorem src_level_step_is_model (pt : Pt ℝ) (alt : ℝ) (p pe : Perf ℝ) (g : Pos ℝ) (delta lhv i s0 : ℝ) :
    Kern.lvl_step_fuel_mass (lvlEnv pt p pe lhv) i s0 delta (lvlFwd p) = (lvlNext pt alt p pe g delta lhv).fuel ∧
    Kern.lvl_step_aircraft_mass (lvlEnv pt p pe lhv) i s0 delta (lvlFwd p) = (lvlNext pt alt p pe g delta lhv).mass ∧
    Kern.lvl_step_ground_distance (lvlEnv pt p pe lhv) i s0 delta (lvlFwd p) = (lvlNext pt alt p pe g delta lhv).gd ∧
    Kern.lvl_step_flight_time (lvlEnv pt p pe lhv) i s0 delta (lvlFwd p) = (lvlNext pt alt p pe g delta lhv).time ∧
    Kern.lvl_step_seg_fuel (lvlEnv pt p pe lhv) i s0 delta (lvlFwd p) = lvlSegFuel pt p pe delta lhv ∧
    Kern.lvl_step_ground_speed_still_air (lvlEnv pt p pe lhv) i s0 delta = (lvlNext pt alt p pe g delta lhv).gs :=
  level_step pt alt p pe g delta lhv i s0

open KernelBridge3 in
theorem src_cruise_step_is_model (pt : Pt ℝ) (step : ℝ) (p : Perf ℝ) (g : Pos ℝ) :
    Kern.crz_step_fuel_mass (crzEnv pt p) step pt.tas = (crzNext pt step p g).fuel ∧
    Kern.crz_step_aircraft_mass (crzEnv pt p) step pt.tas = (crzNext pt step p g).mass ∧
    Kern.crz_step_ground_distance (crzEnv pt p) step pt.tas = (crzNext pt step p g).gd ∧
    Kern.crz_step_flight_time (crzEnv pt p) step pt.tas = (crzNext pt step p g).time ∧
    Kern.crz_step_true_airspeed (crzEnv pt p) step pt.tas = (crzNext pt step p g).tas ∧
    Kern.crz_step_ground_speed_still_air (crzEnv pt p) step = (crzNext pt step p g).gs :=
  cruise_step pt step p g

/-- the `i`-th level-change iteration of the source flies at `start + i·Δh` -/
theorem src_level_step_altitude (A : String → ℝ) (i s delta gs : ℝ) :
    Kern.lvl_step_altitude A i s delta gs = s + i * delta := KernelBridge3.level_altitude A i s delta gs

/-- non-vacuity: a decelerating climb segment whose kinetic-energy credit exceeds the burn — the clamp is what keeps the fuel -/
example : Kern.lvl_step_seg_fuel (KernelBridge3.lvlEnv ⟨1, 60000, 8000, 0, 1000, 0, 10, 0, 0, 0, 0, 0, 200, 200⟩ ⟨200, 10, 1⟩
    ⟨100, 10, 1⟩ 43000000) 0 1000 100 199 = (0 : ℝ) := by
  simp only [Kern.lvl_step_seg_fuel, KernelBridge3.lvlEnv, String.reduceEq, if_true, if_false, lit_real]; norm_num

end C02
