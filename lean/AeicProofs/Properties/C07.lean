/-
  C07 — Store indices follow insertion order across sessions and cache evictions.

  Model: `AeicModel/Store.lean` (`World`, `step`, `run`): TrajectoryStore sessions, next-index counter, LRU cache with
  reload from the file, in-memory no-eviction flag.  Specification: `Spec`/`specStep`/`specRun` — a plain append-only list
  per file plus one per in-memory store.  Property theorems only; helper lemmas live in `AeicProofs/Lemmas/Store*.lean`.
-/
import AeicProofs.Lemmas.StoreMain
import AeicProofs.Lemmas.AddProg
import AeicModel.Generated.AddProg

namespace C07
open Aeic.Store

/-- **Refinement.** For every sequence of create / add / get / len / iter / sync / get_flight / close / reopen operations,
    with any cache sizes and any trajectories (valid or not), the store produces exactly the outputs of the list
    specification. No bound on the length of the history. -/
theorem store_refines_list (ops : List Op) : run World.init ops = specRun Spec.init ops := by
  rw [run_refines ops World.init init_inv, abs_init]

/-- every reachable state satisfies the store invariant (cache ⊆ file, next index = file length, …) -/
theorem reachable_states_consistent (ops : List Op) : WInv (finalWorld World.init ops) := reachable_inv ops

/-! The specification really is an append-only list: -/

/-- in the specification the file contents change only by appending the accepted item at the end (whose reported index is its
    position), or by being discarded when a new file is created -/
theorem spec_file_append_only (sp : Spec) (op : Op) :
    (specStep sp op).1.fileItems = sp.fileItems ∨
    (∃ it, op = .add it ∧ (specStep sp op).1.fileItems = sp.fileItems ++ [it] ∧
        (specStep sp op).2 = .idx sp.fileItems.length) ∨
    ((∃ n, op = .create true n) ∧ (specStep sp op).1.fileItems = []) ∨
    (op = .save ∧ (specStep sp op).1.fileItems = sp.memItems ∧ (specStep sp op).1.memItems = []) := by
  cases op with
  | create f n =>
    by_cases hf : f = true
    · right; right; left; subst hf; exact ⟨⟨n, rfl⟩, by simp [specStep]⟩
    · left; simp [specStep, hf, specClose]
  | openRead n => left; simp only [specStep, specClose]; by_cases h : sp.present = true <;> simp [h]
  | openAppend n => left; simp only [specStep, specClose]; by_cases h : sp.present = true <;> simp [h]
  | close => left; rfl
  | add it =>
    simp only [specStep]
    cases hs : sp.sess with
    | none => left; rfl
    | some s =>
      simp only
      split
      · left; rfl
      · split
        · left; rfl
        · unfold specAddSuccess
          by_cases hm : s.mem = true
          · left; simp [hm]
          · right; left; exact ⟨it, rfl, by simp [hm], by simp [hm]⟩
  | get i => left; simp only [specStep]; split <;> rfl
  | len => left; simp only [specStep]; split <;> rfl
  | iter => left; simp only [specStep]; split <;> rfl
  | sync => left; simp only [specStep]; split <;> (try split) <;> rfl
  | getFlight id => left; simp only [specStep]; split <;> (try split) <;> rfl
  | save =>
    simp only [specStep]
    cases hs : sp.sess with
    | none => left; rfl
    | some s =>
      simp only
      split
      · left; rfl
      · split
        · left; rfl
        · split
          · left; rfl
          · right; right; right; simp

/-- saving an in-memory store keeps the list a reader sees: the session that was in memory is now file-backed and its
    visible items are exactly those it held before -/
theorem spec_save_keeps_list (sp : Spec) (s : SpecSess) (hs : sp.sess = some s)
    (hok : (specStep sp .save).2 = .ok) :
    ∃ s', (specStep sp .save).1.sess = some s' ∧ s'.mem = false ∧ (specStep sp .save).1.items s' = sp.items s := by
  simp only [specStep, hs] at hok ⊢
  split at hok
  · cases hok
  · rename_i hm
    split at hok
    · cases hok
    · split at hok
      · cases hok
      · rename_i a b hmi
        have hm' : s.mem = true := by simpa using hm
        rename_i hp _
        simp [hm, hmi, Spec.items, hm', hp]

/-- reading index `i` in the specification is list indexing: the `i`-th item (unless it cannot fit the cache at all),
    out of range beyond the end -/
theorem spec_get_is_nth (sp : Spec) (s : SpecSess) (i : Nat) :
    specGet sp s i = match (sp.items s)[i]? with
      | none => .err .indexError
      | some it => if tooLarge s it then .err .valueError else .item it := rfl

/-- iteration in the specification yields the items in insertion order (when each fits the cache) -/
theorem spec_iter_all (s : SpecSess) (l : List Item) (h : ∀ it ∈ l, tooLarge s it = false) (acc : List Item) :
    specIter s l acc = .items (acc.reverse ++ l) := by
  induction l generalizing acc with
  | nil => simp [specIter]
  | cons it rest ih =>
    have h1 := h it (by simp)
    simp only [specIter, h1]
    rw [ih (fun x hx => h x (by simp [hx]))]
    simp

/-- an in-memory store that would have to evict refuses the addition (which a file-backed store would accept) and keeps
    its contents -/
theorem mem_store_refuses_eviction (sp : Spec) (s : SpecSess) (it : Item)
    (hs : sp.sess = some s) (hm : s.mem = true) (hmode : s.mode ≠ .read)
    (hschema : ∀ fs ix, s.schema = some (fs, ix) → fs = it.fs ∧ ix = it.fid.isSome)
    (hc : it.complete = true) (hsz : it.bytes ≤ s.maxBytes)
    (hfull : ((sp.items s).map (·.bytes)).sum + it.bytes > s.maxBytes) :
    specStep sp (.add it) = (sp, .err .evictionRefused) := by
  have : specAddRefusal s (sp.items s) it = some .evictionRefused := by
    unfold specAddRefusal
    have h2 : ¬ it.bytes > s.maxBytes := by omega
    cases hsch : s.schema with
    | none => simp [hc, h2, hm, hfull]
    | some p =>
      obtain ⟨fs, ix⟩ := p
      have := hschema fs ix hsch
      simp [this.1, this.2, hc, h2, hm, hfull]
  simp only [specStep, hs, if_neg hmode, this]

/-! The code as it was before the fix (stale `size_index` snapshot, negative local index): kernel-checked witness. -/

def t (n : Nat) : Item := ⟨n, 400, none, 0, true⟩

/-- APPEND session opened on a one-trajectory file (`snap = 1`), one trajectory added: index 0 loads the *new* trajectory. -/
theorem as_is_returns_wrong_item :
    loadAsIs ⟨true, [t 0, t 3], 0, false, []⟩ 1 0 = some (t 3) ∧ load ⟨true, [t 0, t 3], 0, false, []⟩ 0 = some (t 0) := by
  decide

/-- …and the newly added trajectory cannot be loaded at all once it has left the cache -/
theorem as_is_loses_new_item : loadAsIs ⟨true, [t 0, t 3], 0, false, []⟩ 1 1 = none := by decide

/-! Non-vacuity: a concrete history with an eviction, an append session and a read session. -/
example : run World.init
    [.create true 0, .add ⟨0, 0, none, 0, true⟩, .add ⟨1, 0, none, 0, true⟩, .openAppend 0, .add ⟨2, 0, none, 0, true⟩,
     .get 0, .len, .openRead 0, .iter, .get 3] =
    [.ok, .idx 0, .idx 1, .ok, .idx 2, .item ⟨0, 0, none, 0, true⟩, .len 3, .ok,
     .items [⟨0, 0, none, 0, true⟩, ⟨1, 0, none, 0, true⟩, ⟨2, 0, none, 0, true⟩], .err .indexError] := by decide

/-! ### the index bookkeeping of `TrajectoryStore.add` as the source text has it (regenerated on every run) -/

open Aeic.AddProg in
/-- **every accepted `add` of the source advances the next index exactly once, unconditionally, right after the cache took the
    trajectory** (and a refused one not at all: `C10.src_rejected_add_changes_nothing`) — so the indices handed out are
    0, 1, 2, … in insertion order, whatever else the call does -/
theorem src_add_advances_index_once :
    (mutations Aeic.Gen.addProgram).count (.set "_next_index" false) = 1 ∧
    (mutations Aeic.Gen.addProgram).take 2 = [.insert, .set "_next_index" false] ∧
    ∀ fails insertRefused, (run fails insertRefused Aeic.Gen.addProgram).raised = false →
      (run fails insertRefused Aeic.Gen.addProgram).done = mutations Aeic.Gen.addProgram := by
  refine ⟨by decide, by decide, fun fails ir h => ?_⟩
  simpa [Aeic.AddProg.run] using ok_done fails ir Aeic.Gen.addProgram [] h

end C07
