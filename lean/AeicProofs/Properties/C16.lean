/-
  C16 — Ground speed is the length of airspeed vector plus wind vector.

  `Wind.groundSpeed` is the intended reading (heading clockwise from north), `Wind.groundSpeedAsIs` the code on the
  pinned tree (open finding C16-heading-components-swapped).  All statements are over ℝ and for all inputs.
-/
import AeicProofs.Lemmas.C16Wind
import AeicProofs.Lemmas.KernelBridge2

namespace C16
open Aeic Aeic.Wind

/-! ### intended decomposition: every clause of the property -/

/-- no wind: ground speed = airspeed, for every heading. -/
theorem zero_wind_is_tas (tas hdg : ℝ) (ht : 0 ≤ tas) : groundSpeed tas hdg 0 0 = tas := by
  rw [groundSpeed_real]
  have : (tas * Real.sin (deg2rad hdg) + 0) * (tas * Real.sin (deg2rad hdg) + 0)
      + (tas * Real.cos (deg2rad hdg) + 0) * (tas * Real.cos (deg2rad hdg) + 0)
      = tas ^ 2 * (Real.sin (deg2rad hdg) ^ 2 + Real.cos (deg2rad hdg) ^ 2) := by ring
  rw [this, Real.sin_sq_add_cos_sq, mul_one, Real.sqrt_sq ht]

/-- a wind of speed `W` blowing exactly along the heading (east part `W sin h`, north part `W cos h`) adds in full. -/
theorem tailwind_adds (tas W hdg : ℝ) (ht : 0 ≤ tas) (hW : 0 ≤ W) :
    groundSpeed tas hdg (W * Real.sin (deg2rad hdg)) (W * Real.cos (deg2rad hdg)) = tas + W := by
  rw [groundSpeed_real]
  have : (tas * Real.sin (deg2rad hdg) + W * Real.sin (deg2rad hdg)) * (tas * Real.sin (deg2rad hdg) + W * Real.sin (deg2rad hdg))
      + (tas * Real.cos (deg2rad hdg) + W * Real.cos (deg2rad hdg)) * (tas * Real.cos (deg2rad hdg) + W * Real.cos (deg2rad hdg))
      = (tas + W) ^ 2 * (Real.sin (deg2rad hdg) ^ 2 + Real.cos (deg2rad hdg) ^ 2) := by ring
  rw [this, Real.sin_sq_add_cos_sq, mul_one, Real.sqrt_sq (by linarith)]

/-- a wind of speed `W` blowing exactly against the heading subtracts in full. -/
theorem headwind_subtracts (tas W hdg : ℝ) :
    groundSpeed tas hdg (-(W * Real.sin (deg2rad hdg))) (-(W * Real.cos (deg2rad hdg))) = |tas - W| := by
  rw [groundSpeed_real]
  have : (tas * Real.sin (deg2rad hdg) + -(W * Real.sin (deg2rad hdg))) * (tas * Real.sin (deg2rad hdg) + -(W * Real.sin (deg2rad hdg)))
      + (tas * Real.cos (deg2rad hdg) + -(W * Real.cos (deg2rad hdg))) * (tas * Real.cos (deg2rad hdg) + -(W * Real.cos (deg2rad hdg)))
      = (tas - W) ^ 2 * (Real.sin (deg2rad hdg) ^ 2 + Real.cos (deg2rad hdg) ^ 2) := by ring
  rw [this, Real.sin_sq_add_cos_sq, mul_one, Real.sqrt_sq_eq_abs]

/-- turning the heading by `φ` degrees and the wind vector by the same compass angle leaves the ground speed unchanged. -/
theorem rotation_invariant (tas hdg φ u v : ℝ) :
    groundSpeed tas (hdg + φ)
        (u * Real.cos (deg2rad φ) + v * Real.sin (deg2rad φ))
        (-(u * Real.sin (deg2rad φ)) + v * Real.cos (deg2rad φ))
      = groundSpeed tas hdg u v := by
  rw [groundSpeed_real, groundSpeed_real, deg2rad_add, Real.sin_add, Real.cos_add]
  congr 1
  set sh := Real.sin (deg2rad hdg); set ch := Real.cos (deg2rad hdg)
  set sp := Real.sin (deg2rad φ) with hsp; set cp := Real.cos (deg2rad φ) with hcp
  have h1 : sp ^ 2 + cp ^ 2 = 1 := Real.sin_sq_add_cos_sq _
  have : (tas * (sh * cp + ch * sp) + (u * cp + v * sp)) * (tas * (sh * cp + ch * sp) + (u * cp + v * sp))
      + (tas * (ch * cp - sh * sp) + (-(u * sp) + v * cp)) * (tas * (ch * cp - sh * sp) + (-(u * sp) + v * cp))
      = ((tas * sh + u) * (tas * sh + u) + (tas * ch + v) * (tas * ch + v)) * (sp ^ 2 + cp ^ 2) := by ring
  rw [this, h1, mul_one]

/-- triangle inequality: the ground speed lies between |TAS − W| and TAS + W, W the wind speed. -/
theorem between_bounds (tas hdg u v : ℝ) (ht : 0 ≤ tas) :
    |tas - hypot u v| ≤ groundSpeed tas hdg u v ∧ groundSpeed tas hdg u v ≤ tas + hypot u v := by
  rw [groundSpeed_real, hypot_real]
  exact unit_plus_wind_bounds tas u v _ _ (Real.sin_sq_add_cos_sq _) ht

/-- the interpolated wind component is a convex combination of the eight node values around the target:
    the three brackets contain the target and whatever interval holds the eight corners holds the result. -/
theorem interp_within_corner_values (ps lats lons : List ℝ) (g : List (List (List ℝ))) (p la lo w : ℝ)
    (h : trilinear ps lats lons g p la lo = some w) :
    ∃ i j k p0 p1 a0 a1 o0 o1,
      ps[i]? = some p0 ∧ ps[i + 1]? = some p1 ∧ p0 ≤ p ∧ p ≤ p1 ∧
      lats[j]? = some a0 ∧ lats[j + 1]? = some a1 ∧ a0 ≤ la ∧ la ≤ a1 ∧
      lons[k]? = some o0 ∧ lons[k + 1]? = some o1 ∧ o0 ≤ lo ∧ lo ≤ o1 ∧
      ∃ c000 c001 c010 c011 c100 c101 c110 c111,
        corner g i j k = some c000 ∧ corner g i j (k + 1) = some c001 ∧
        corner g i (j + 1) k = some c010 ∧ corner g i (j + 1) (k + 1) = some c011 ∧
        corner g (i + 1) j k = some c100 ∧ corner g (i + 1) j (k + 1) = some c101 ∧
        corner g (i + 1) (j + 1) k = some c110 ∧ corner g (i + 1) (j + 1) (k + 1) = some c111 ∧
        ∀ lo' hi', (∀ c ∈ [c000, c001, c010, c011, c100, c101, c110, c111], lo' ≤ c ∧ c ≤ hi') → lo' ≤ w ∧ w ≤ hi' := by
  unfold trilinear at h
  simp only [Option.bind_eq_bind, Option.pure_def] at h
  cases hp : locate ps p with
  | none => simp [hp] at h
  | some ip =>
  cases hl : locate lats la with
  | none => simp [hp, hl] at h
  | some jl =>
  cases ho : locate lons lo with
  | none => simp [hp, hl, ho] at h
  | some ko =>
  obtain ⟨i, tp⟩ := ip; obtain ⟨j, tl⟩ := jl; obtain ⟨k, tw⟩ := ko
  simp only [hp, hl, ho, Option.bind_some] at h
  cases e0 : corner g i j k with
  | none => simp [e0] at h
  | some c000 =>
  cases e1 : corner g i j (k + 1) with
  | none => simp [e0, e1] at h
  | some c001 =>
  cases e2 : corner g i (j + 1) k with
  | none => simp [e0, e1, e2] at h
  | some c010 =>
  cases e3 : corner g i (j + 1) (k + 1) with
  | none => simp [e0, e1, e2, e3] at h
  | some c011 =>
  cases e4 : corner g (i + 1) j k with
  | none => simp [e0, e1, e2, e3, e4] at h
  | some c100 =>
  cases e5 : corner g (i + 1) j (k + 1) with
  | none => simp [e0, e1, e2, e3, e4, e5] at h
  | some c101 =>
  cases e6 : corner g (i + 1) (j + 1) k with
  | none => simp [e0, e1, e2, e3, e4, e5, e6] at h
  | some c110 =>
  cases e7 : corner g (i + 1) (j + 1) (k + 1) with
  | none => simp [e0, e1, e2, e3, e4, e5, e6, e7] at h
  | some c111 =>
  simp only [e0, e1, e2, e3, e4, e5, e6, e7, Option.bind_some, Option.some.injEq] at h
  obtain ⟨p0, p1, hp0, hp1, hpa, hpb, _, tp0, tp1⟩ := locate_spec ps p i tp hp
  obtain ⟨a0, a1, ha0, ha1, haa, hab, _, tl0, tl1⟩ := locate_spec lats la j tl hl
  obtain ⟨o0, o1, ho0, ho1, hoa, hob, _, to0, to1⟩ := locate_spec lons lo k tw ho
  refine ⟨i, j, k, p0, p1, a0, a1, o0, o1, hp0, hp1, hpa, hpb, ha0, ha1, haa, hab, ho0, ho1, hoa, hob,
    c000, c001, c010, c011, c100, c101, c110, c111, e0, e1, e2, e3, e4, e5, e6, e7, ?_⟩
  intro lo' hi' hall
  have b := fun c hc => hall c hc
  subst h
  apply lerp_between _ _ _ _ _ tp0 tp1
  · apply lerp_between _ _ _ _ _ tl0 tl1
    · exact lerp_between _ _ _ _ _ to0 to1 (b c000 (by simp)) (b c001 (by simp))
    · exact lerp_between _ _ _ _ _ to0 to1 (b c010 (by simp)) (b c011 (by simp))
  · apply lerp_between _ _ _ _ _ tl0 tl1
    · exact lerp_between _ _ _ _ _ to0 to1 (b c100 (by simp)) (b c101 (by simp))
    · exact lerp_between _ _ _ _ _ to0 to1 (b c110 (by simp)) (b c111 (by simp))

/-- global form: if every node value of the field lies in `[lo', hi']`, so does the interpolated value. -/
theorem interp_within_field_range (ps lats lons : List ℝ) (g : List (List (List ℝ))) (p la lo w lo' hi' : ℝ)
    (hg : ∀ a ∈ g, ∀ b ∈ a, ∀ c ∈ b, lo' ≤ c ∧ c ≤ hi')
    (h : trilinear ps lats lons g p la lo = some w) : lo' ≤ w ∧ w ≤ hi' := by
  obtain ⟨i, j, k, _, _, _, _, _, _, _, _, _, _, _, _, _, _, _, _, _, _,
    c000, c001, c010, c011, c100, c101, c110, c111, e0, e1, e2, e3, e4, e5, e6, e7, hb⟩ :=
    interp_within_corner_values ps lats lons g p la lo w h
  apply hb
  have m : ∀ i j k c, corner g i j k = some c → lo' ≤ c ∧ c ≤ hi' := by
    intro i j k c e
    obtain ⟨a, ha, b, hb', hc⟩ := corner_mem g i j k c e
    exact hg a ha b hb' c hc
  intro c hc
  simp only [List.mem_cons, List.not_mem_nil, or_false] at hc
  rcases hc with rfl | rfl | rfl | rfl | rfl | rfl | rfl | rfl
  exacts [m _ _ _ _ e0, m _ _ _ _ e1, m _ _ _ _ e2, m _ _ _ _ e3, m _ _ _ _ e4, m _ _ _ _ e5, m _ _ _ _ e6, m _ _ _ _ e7]

/-- a point whose latitude, longitude or pressure level is beyond every node of the respective axis, or whose
    altitude exceeds 25 km, is refused — whichever decomposition is used. -/
theorem outside_domain_refused (air : ℝ → ℝ → ℝ × ℝ) (f : Wind.Field ℝ) (hour : Nat) (alt lat lon tas hdg : ℝ)
    (hout : (25000 : ℝ) < alt
      ∨ (∀ y ∈ f.ps, y < isaPressure alt / 100) ∨ (∀ y ∈ f.ps, isaPressure alt / 100 < y)
      ∨ (∀ y ∈ f.lats, y < lat) ∨ (∀ y ∈ f.lats, lat < y)
      ∨ (∀ y ∈ f.lons, y < lon) ∨ (∀ y ∈ f.lons, lon < y)) :
    ∀ gs, getGroundSpeedWith air f hour alt lat lon tas hdg ≠ .ok gs := by
  intro gs
  unfold getGroundSpeedWith pressureLevel
  simp only [lit_real]
  by_cases ha : (25000 : ℝ) < alt
  · have : ((25000 : ℤ) : ℝ) / 10 ^ 0 < alt := by norm_num; exact ha
    rw [if_pos this]
    intro h; simp [bind, Except.bind] at h
  · have hna : ¬ (((25000 : ℤ) : ℝ) / 10 ^ 0 < alt) := by norm_num; exact not_lt.mp ha
    have hpl : (((100 : ℤ) : ℝ) / 10 ^ 0) = 100 := by norm_num
    simp only [hna, if_false, hpl]
    have tri : ∀ s : List (List (List ℝ)), trilinear f.ps f.lats f.lons s (isaPressure alt / 100) lat lon = none := by
      intro s
      unfold trilinear
      rcases hout with h | h | h | h | h | h | h
      · exact absurd h ha
      · simp [locate_none_of_outside f.ps _ (Or.inl h)]
      · simp [locate_none_of_outside f.ps _ (Or.inr h)]
      · simp [locate_none_of_outside f.lats _ (Or.inl h)]
      · simp [locate_none_of_outside f.lats _ (Or.inr h)]
      · simp [locate_none_of_outside f.lons _ (Or.inl h)]
      · simp [locate_none_of_outside f.lons _ (Or.inr h)]
    cases hsu : slab f f.u hour <;> cases hsv : slab f f.v hour <;>
      simp [tri, bind, Except.bind, pure, Except.pure]

/-- an answered query is the vector sum of the airspeed vector and the interpolated wind. -/
theorem ground_speed_is_vector_sum (f : Wind.Field ℝ) (hour : Nat) (alt lat lon tas hdg gs : ℝ)
    (h : getGroundSpeedWith airIntended f hour alt lat lon tas hdg = .ok gs) :
    ∃ su sv wu wv, slab f f.u hour = some su ∧ slab f f.v hour = some sv ∧
      trilinear f.ps f.lats f.lons su (isaPressure alt / 100) lat lon = some wu ∧
      trilinear f.ps f.lats f.lons sv (isaPressure alt / 100) lat lon = some wv ∧
      gs = Real.sqrt ((tas * Real.sin (deg2rad hdg) + wu) ^ 2 + (tas * Real.cos (deg2rad hdg) + wv) ^ 2) := by
  unfold getGroundSpeedWith pressureLevel at h
  simp only [lit_real] at h
  have hpl : (((100 : ℤ) : ℝ) / 10 ^ 0) = 100 := by norm_num
  split_ifs at h with ha
  · simp [bind, Except.bind] at h
  · simp only [hpl, bind, Except.bind, pure, Except.pure] at h
    cases hsu : slab f f.u hour with
    | none => simp [hsu] at h
    | some su =>
    cases hsv : slab f f.v hour with
    | none => simp [hsu, hsv] at h
    | some sv =>
    simp only [hsu, hsv] at h
    cases hu : trilinear f.ps f.lats f.lons su (isaPressure alt / 100) lat lon with
    | none => simp [hu] at h
    | some wu =>
    cases hv : trilinear f.ps f.lats f.lons sv (isaPressure alt / 100) lat lon with
    | none => simp [hu, hv] at h
    | some wv =>
    simp only [hu, hv, Except.ok.injEq] at h
    refine ⟨su, sv, wu, wv, rfl, rfl, hu, hv, ?_⟩
    rw [← h]
    show groundSpeed tas hdg wu wv = _
    rw [groundSpeed_real]; congr 1; ring

/-! ### the code as it exists (as-is decomposition) -/

/-- holds for the code as it is. -/
theorem zero_wind_is_tas_as_is (tas hdg : ℝ) (ht : 0 ≤ tas) : groundSpeedAsIs tas hdg 0 0 = tas := by
  rw [groundSpeedAsIs_real]
  have : (tas * Real.cos (deg2rad hdg) + 0) * (tas * Real.cos (deg2rad hdg) + 0)
      + (tas * Real.sin (deg2rad hdg) + 0) * (tas * Real.sin (deg2rad hdg) + 0)
      = tas ^ 2 * (Real.sin (deg2rad hdg) ^ 2 + Real.cos (deg2rad hdg) ^ 2) := by ring
  rw [this, Real.sin_sq_add_cos_sq, mul_one, Real.sqrt_sq ht]

/-- holds for the code as it is. -/
theorem between_bounds_as_is (tas hdg u v : ℝ) (ht : 0 ≤ tas) :
    |tas - hypot u v| ≤ groundSpeedAsIs tas hdg u v ∧ groundSpeedAsIs tas hdg u v ≤ tas + hypot u v := by
  rw [groundSpeedAsIs_real, hypot_real]
  exact unit_plus_wind_bounds tas u v _ _ (by rw [add_comm]; exact Real.sin_sq_add_cos_sq _) ht

/-- negation witness (open finding C16-heading-components-swapped): heading 090 (due east), TAS 200 m/s and a
    50 m/s wind blowing due east (u = 50, v = 0): the code returns √(50² + 200²) ≈ 206.16, not 250. -/
theorem tailwind_fails_as_is : groundSpeedAsIs (200 : ℝ) 90 50 0 ≠ 200 + 50 := by
  rw [groundSpeedAsIs_real]
  have h90 : deg2rad (90 : ℝ) = Real.pi / 2 := by rw [deg2rad_real]; ring
  rw [h90, Real.cos_pi_div_two, Real.sin_pi_div_two]
  intro h
  have h2 : Real.sqrt ((200 * 0 + 50) * (200 * 0 + 50) + (200 * 1 + 0) * (200 * 1 + 0)) ^ 2 = ((200 : ℝ) + 50) ^ 2 := by rw [h]
  rw [Real.sq_sqrt (by norm_num)] at h2
  norm_num at h2

/-- the same input under the intended reading gives the 250 m/s the property demands. -/
theorem tailwind_witness_intended : groundSpeed (200 : ℝ) 90 50 0 = 200 + 50 := by
  have h := tailwind_adds 200 50 90 (by norm_num) (by norm_num)
  have h90 : deg2rad (90 : ℝ) = Real.pi / 2 := by rw [deg2rad_real]; ring
  rw [h90, Real.cos_pi_div_two, Real.sin_pi_div_two] at h
  simpa using h

/-! ### non-vacuity -/

/-- the hypotheses of `outside_domain_refused` are satisfiable, and inside the domain an answer exists:
    a 2×2×2 uniform field of value `c` answers `c` for a query in its interior. -/
example (c : ℝ) : trilinear [(200 : ℝ), 300] [40, 42] [-80, -75] [[[c, c], [c, c]], [[c, c], [c, c]]] 250 41 (-77) = some c := by
  have h1 : locate [(200 : ℝ), 300] 250 = some (0, 1 / 2) := by norm_num [locate]
  have h2 : locate [(40 : ℝ), 42] 41 = some (0, 1 / 2) := by norm_num [locate]
  have h3 : locate [(-80 : ℝ), -75] (-77) = some (0, 3 / 5) := by norm_num [locate]
  unfold trilinear
  rw [h1, h2, h3]
  simp only [Option.bind_eq_bind, Option.bind_some, corner, List.getElem?_cons_zero, List.getElem?_cons_succ, Option.pure_def]
  simp [lerp]

example : locate [(200 : ℝ), 300] 301 = none :=
  locate_none_of_outside _ _ (Or.inl (by intro y hy; simp at hy; rcases hy with rfl | rfl <;> norm_num))


/-! ## Source tie: the last lines of `Weather.get_ground_speed` as regenerated from `weather.py` (`Aeic.Kern.weather_ground_speed`,
    inputs: true airspeed, heading in radians, interpolated wind components) -/

/-- the source text computes the model's ground speed with one of the two heading decompositions: the **as-is** one today
    (`u_air = tas·cos h`, `v_air = tas·sin h`: the open finding `C16-heading-components-swapped` is a theorem about the source text,
    re-checked on every run), or the intended one once it is repaired -/
theorem src_ground_speed_variant (A : String → ℝ) :
    (∀ tas hdg u v : ℝ, Kern.weather_ground_speed A tas (deg2rad hdg) u v = groundSpeedAsIs tas hdg u v) ∨
    (∀ tas hdg u v : ℝ, Kern.weather_ground_speed A tas (deg2rad hdg) u v = groundSpeed tas hdg u v) := by
  rcases KernelBridge2.weather_ground_speed A with h | h
  · left; intro tas hdg u v; rw [h]; rfl
  · right; intro tas hdg u v; rw [h]; rfl

/-- the clauses that hold for both decompositions, stated about the source text: no wind ⇒ the airspeed; always between
    |tas − W| and tas + W -/
theorem src_zero_wind_and_bounds (A : String → ℝ) (tas hdg u v : ℝ) (ht : 0 ≤ tas) :
    Kern.weather_ground_speed A tas (deg2rad hdg) 0 0 = tas ∧
    |tas - hypot u v| ≤ Kern.weather_ground_speed A tas (deg2rad hdg) u v ∧
    Kern.weather_ground_speed A tas (deg2rad hdg) u v ≤ tas + hypot u v := by
  rcases src_ground_speed_variant A with h | h
  · rw [h, h]; exact ⟨zero_wind_is_tas_as_is tas hdg ht, between_bounds_as_is tas hdg u v ht⟩
  · rw [h, h]; exact ⟨zero_wind_is_tas tas hdg ht, between_bounds tas hdg u v ht⟩

/-- as long as the source is the as-is decomposition, the tail-wind clause fails on it: heading 090, 200 m/s, 50 m/s of tailwind -/
theorem src_tailwind_fails_if_as_is (A : String → ℝ)
    (h : ∀ tas hdg u v : ℝ, Kern.weather_ground_speed A tas (deg2rad hdg) u v = groundSpeedAsIs tas hdg u v) :
    Kern.weather_ground_speed A (200 : ℝ) (deg2rad 90) 50 0 ≠ 200 + 50 := by
  rw [h]; exact tailwind_fails_as_is

end C16
