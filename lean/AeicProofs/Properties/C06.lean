/-
  C06 — The performance model reproduces its table and never extrapolates.

  All theorems are about `Aeic.PerfTable` (lean/AeicModel/PerfTable.lean) read over ℝ; `tol` is `ZERO_ROCD_TOL`
  (any value; `0 ≤ tol` where stated), `t` the table rows, `p` the phase.  "Usable phase" means
  `validate tol (sub tol p t) = .ok ()` — exactly what `subset()` checks when the phase is first evaluated.
  Unit factors are the constants regenerated from `AEIC/units.py`.
-/
import AeicProofs.Lemmas.C06Topo
import AeicProofs.Lemmas.C06Ptf

namespace C06
open Aeic Aeic.PerfTable List

/-! ## unit factors -/

/-- the library's metres→flight-level and flight-level→metres factors are exact inverses -/
theorem fl_metres_roundtrip : (Gen.FL_TO_METERS : ℝ) * Gen.METERS_TO_FL = 1 := by
  simp only [Gen.FL_TO_METERS, Gen.METERS_TO_FL, Gen.METERS_TO_FEET, Gen.FEET_TO_METERS, lit_real]
  norm_num

/-- negation witness for the constant before the fix (`METERS_TO_FEET = 3.28084`): 1.000000032 -/
theorem rounded_factor_does_not_roundtrip : ((100 : ℝ) * 0.3048) * (3.28084 / 100) ≠ 1 := by norm_num

/-! ## tabulated nodes are reproduced exactly -/

/-- evaluating at a tabulated (flight level, mass) of the selected phase returns that row's three values -/
theorem node_exact (tol : ℝ) (t : List (Row ℝ)) (p : Phase) (r : Row ℝ)
    (hv : validate tol (sub tol p t) = .ok ()) (hr : r ∈ t) (hp : inPhase tol p r = true) :
    evalFL tol t r.fl (.val r.mass) p = .ok ⟨r.tas, r.rocd, r.ff⟩ := by
  unfold evalFL
  rw [prep_of_valid tol t p hv]
  exact evalPrepared_node _ (validate_sub_grid tol t p hv) r ((mem_sub tol p t r).mpr ⟨hr, hp⟩)

/-- … also when the flight level is given as an altitude in metres by the library's own factor -/
theorem node_exact_in_metres (tol : ℝ) (t : List (Row ℝ)) (p : Phase) (r : Row ℝ)
    (hv : validate tol (sub tol p t) = .ok ()) (hr : r ∈ t) (hp : inPhase tol p r = true) :
    evaluate tol t (r.fl * Gen.FL_TO_METERS) (.val r.mass) p = .ok ⟨r.tas, r.rocd, r.ff⟩ := by
  unfold evaluate
  rw [mul_assoc, fl_metres_roundtrip, mul_one]
  exact node_exact tol t p r hv hr hp

/-! ## between nodes: bounded by the surrounding table values -/

/-- every returned value lies between the values of (at most) four rows of the phase table that surround the
    query: two flight levels `r00.fl ≤ fl ≤ r10.fl`, and (mass-dependent phases) two masses around the mass -/
theorem bounded_by_corner_values (tol : ℝ) (t : List (Row ℝ)) (p : Phase) (fl : ℝ) (ms : MassSpec ℝ) (perf : Perf ℝ)
    (h : evalFL tol t fl ms p = .ok perf) :
    ∀ fld ∈ [(fun r : Row ℝ => r.tas, perf.tas), (fun r => r.rocd, perf.rocd), (fun r => r.ff, perf.ff)],
      ∃ r00 ∈ sub tol p t, ∃ r01 ∈ sub tol p t, ∃ r10 ∈ sub tol p t, ∃ r11 ∈ sub tol p t,
        r00.fl = r01.fl ∧ r10.fl = r11.fl ∧ r00.mass = r10.mass ∧ r01.mass = r11.mass ∧
        r00.fl ≤ fl ∧ fl ≤ r10.fl ∧
        ((masses (sub tol p t)).length > 1 → r00.mass ≤ resolveMass t ms ∧ resolveMass t ms ≤ r01.mass) ∧
        min (min (fld.1 r00) (fld.1 r01)) (min (fld.1 r10) (fld.1 r11)) ≤ fld.2 ∧
        fld.2 ≤ max (max (fld.1 r00) (fld.1 r01)) (max (fld.1 r10) (fld.1 r11)) := by
  unfold evalFL at h
  cases hpr : prep tol t p with
  | error e => simp [hpr] at h
  | ok pr =>
    obtain ⟨hv, rfl⟩ := prep_ok tol t p pr hpr
    have g := validate_sub_grid tol t p hv
    simp only [hpr] at h
    have e : (⟨sub tol p t, fls (sub tol p t), masses (sub tol p t)⟩ : Prepared ℝ) = prepOf (sub tol p t) := rfl
    rw [e] at h
    unfold evalPrepared at h
    cases h1 : interpField (prepOf (sub tol p t)) (·.tas) fl (resolveMass t ms) with
    | error e => simp [h1] at h
    | ok a =>
      cases h2 : interpField (prepOf (sub tol p t)) (·.rocd) fl (resolveMass t ms) with
      | error e => simp [h1, h2] at h
      | ok b =>
        cases h3 : interpField (prepOf (sub tol p t)) (·.ff) fl (resolveMass t ms) with
        | error e => simp [h1, h2, h3] at h
        | ok c =>
          simp only [h1, h2, h3, Except.ok.injEq] at h
          subst h
          intro fld hf
          simp only [mem_cons, not_mem_nil, or_false] at hf
          rcases hf with rfl | rfl | rfl
          · exact interpField_bounded _ g _ _ _ _ h1
          · exact interpField_bounded _ g _ _ _ _ h2
          · exact interpField_bounded _ g _ _ _ _ h3

/-! ## continuity: neighbouring pieces agree where they meet -/

/-- inside a grid cell a mass-dependent phase returns the bilinear polynomial of that cell (a continuous function
    of flight level and mass) -/
theorem value_is_bilinear_piece (gx gm : List ℝ) (v : ℝ → ℝ → ℝ) (x m y : ℝ) (hx : gx.length ≠ 1)
    (h : interp2 gx gm v x m = .ok y) : y = bilin v (bracket gx x) (bracket gm m) x m := by
  obtain ⟨hbx, hbm⟩ := interp2_ok_inBounds gx gm v x m y h
  unfold interp2 at h
  simp only [hbx, hbm, Bool.not_true, Bool.false_eq_true, ↓reduceIte, beq_iff_eq, hx] at h
  injection h with h; exact h.symm

/-- two cells that share the face `fl = f1` give the same value everywhere on it (and likewise for a shared
    mass face): the piecewise bilinear interpolant is continuous across cell boundaries -/
theorem agree_on_shared_edges (v : ℝ → ℝ → ℝ) (f0 f1 f2 m0 m1 m2 x m : ℝ)
    (hf01 : f0 < f1) (hf12 : f1 < f2) (hm01 : m0 < m1) (hm12 : m1 < m2) :
    bilin v (f0, f1) (m0, m1) f1 m = bilin v (f1, f2) (m0, m1) f1 m ∧
    bilin v (f0, f1) (m0, m1) x m1 = bilin v (f0, f1) (m1, m2) x m1 := by
  obtain ⟨a, b⟩ := bilin_shared_fl_edge v f0 f1 f2 (m0, m1) m hf01 hf12
  obtain ⟨c, d⟩ := bilin_shared_mass_edge v (f0, f1) m0 m1 m2 x hm01 hm12
  exact ⟨a.trans b.symm, c.trans d.symm⟩

/-- single-mass phase: the two linear pieces meeting at a level both give the node value there -/
theorem agree_at_shared_nodes_1d (v : ℝ → ℝ) (a b c : ℝ) (hab : a < b) (_hbc : b < c) :
    v a * (1 - ndist (a, b) b) + v b * ndist (a, b) b = v b ∧
    v b * (1 - ndist (b, c) b) + v c * ndist (b, c) b = v b := by
  rw [ndist_right (a, b) hab, ndist_left (b, c)]; simp

/-- on every CLOSED cell between neighbouring tabulated levels and masses the value is that cell's bilinear
    polynomial — also on the faces, where the interval search may pick the neighbouring cell -/
theorem value_on_closed_cell (gx gm : List ℝ) (v : ℝ → ℝ → ℝ) (x m f0 f1 m0 m1 : ℝ)
    (hsx : gx.Pairwise (· < ·)) (hsm : gm.Pairwise (· < ·))
    (hf : Adjacent gx f0 f1) (hm : Adjacent gm m0 m1) (hx : f0 ≤ x ∧ x ≤ f1) (hmm : m0 ≤ m ∧ m ≤ m1) :
    interp2 gx gm v x m = .ok (bilin v (f0, f1) (m0, m1) x m) :=
  interp2_on_closed_cell gx gm v x m f0 f1 m0 m1 hsx hsm hf hm hx hmm

/-- mass-dependent phase (climb, cruise): each of the three outputs is a continuous function of
    (flight level, mass) on the whole envelope of the phase table -/
theorem continuous_in_level_and_mass (tol : ℝ) (t : List (Row ℝ)) (p : Phase)
    (hv : validate tol (sub tol p t) = .ok ()) (h2 : (masses (sub tol p t)).length > 1)
    (hF : 2 ≤ (fls (sub tol p t)).length) :
    ∀ proj ∈ [Perf.tas, Perf.rocd, Perf.ff],
      ContinuousOn (fun q : ℝ × ℝ => perfVal (evalFL tol t q.1 (.val q.2) p) proj)
        {q | inBounds (fls (sub tol p t)) q.1 = true ∧ inBounds (masses (sub tol p t)) q.2 = true} := by
  have hM : 2 ≤ (masses (sub tol p t)).length := h2
  intro proj hproj
  simp only [mem_cons, not_mem_nil, or_false] at hproj
  rcases hproj with rfl | rfl | rfl
  · refine (val2_continuousOn _ _ (cell (sub tol p t) (·.tas)) (fls_sorted _) (masses_sorted _) hF hM).congr ?_
    intro q hq
    simp only [evalFL_eq_vals_2d tol t p q.1 q.2 hv h2 hq.1 hq.2, perfVal]
  · refine (val2_continuousOn _ _ (cell (sub tol p t) (·.rocd)) (fls_sorted _) (masses_sorted _) hF hM).congr ?_
    intro q hq
    simp only [evalFL_eq_vals_2d tol t p q.1 q.2 hv h2 hq.1 hq.2, perfVal]
  · refine (val2_continuousOn _ _ (cell (sub tol p t) (·.ff)) (fls_sorted _) (masses_sorted _) hF hM).congr ?_
    intro q hq
    simp only [evalFL_eq_vals_2d tol t p q.1 q.2 hv h2 hq.1 hq.2, perfVal]

/-- single-mass phase (descent): each output is a continuous function of the flight level on the envelope -/
theorem continuous_in_level_single_mass (tol : ℝ) (t : List (Row ℝ)) (p : Phase) (ms : MassSpec ℝ)
    (hv : validate tol (sub tol p t) = .ok ()) (h2 : ¬ (masses (sub tol p t)).length > 1)
    (hF : 2 ≤ (fls (sub tol p t)).length) :
    ∀ proj ∈ [Perf.tas, Perf.rocd, Perf.ff],
      ContinuousOn (fun fl : ℝ => perfVal (evalFL tol t fl ms p) proj) {fl | inBounds (fls (sub tol p t)) fl = true} := by
  intro proj hproj
  simp only [mem_cons, not_mem_nil, or_false] at hproj
  rcases hproj with rfl | rfl | rfl
  · refine (val1_continuousOn _ (cell1 (sub tol p t) (·.tas)) (fls_sorted _) hF).congr ?_
    intro x hx
    simp only [evalFL_eq_vals_1d tol t p x ms hv h2 hx, perfVal]
  · refine (val1_continuousOn _ (cell1 (sub tol p t) (·.rocd)) (fls_sorted _) hF).congr ?_
    intro x hx
    simp only [evalFL_eq_vals_1d tol t p x ms hv h2 hx, perfVal]
  · refine (val1_continuousOn _ (cell1 (sub tol p t) (·.ff)) (fls_sorted _) hF).congr ?_
    intro x hx
    simp only [evalFL_eq_vals_1d tol t p x ms hv h2 hx, perfVal]

/-! ## depends only on altitude, mass and phase -/

/-- any history of `evaluate` calls on one table object (lazily filled interpolator cache) returns, call by call,
    what a fresh evaluation of the pure function of (altitude, mass, phase) returns -/
theorem depends_only_on_alt_mass_phase (tol : ℝ) (t : List (Row ℝ)) (qs : List (ℝ × MassSpec ℝ × Phase)) :
    runCached tol t Cache.empty qs = qs.map (fun q => evaluate tol t q.1 q.2.1 q.2.2) :=
  runCached_spec tol t Cache.empty (fun _ _ h => by simp [Cache.empty] at h) qs

/-- a phase whose table has a single mass ignores the mass -/
theorem single_mass_phase_ignores_mass (tol : ℝ) (t : List (Row ℝ)) (p : Phase) (fl : ℝ) (ms ms' : MassSpec ℝ)
    (h1 : ¬ (masses (sub tol p t)).length > 1) : evalFL tol t fl ms p = evalFL tol t fl ms' p := by
  unfold evalFL
  cases hpr : prep tol t p with
  | error e => rfl
  | ok pr =>
    obtain ⟨_, rfl⟩ := prep_ok tol t p pr hpr
    simp only
    unfold evalPrepared
    have e := fun fld => interpField_mass_ignored (sub tol p t) fld fl (resolveMass t ms) (resolveMass t ms') h1
    simp only [prepOf] at e
    rw [e, e, e]

/-! ## outside the envelope: rejected, never extrapolated -/

/-- a flight level below every / above every tabulated level of the phase is refused -/
theorem outside_altitude_rejected (tol : ℝ) (t : List (Row ℝ)) (p : Phase) (fl : ℝ) (ms : MassSpec ℝ)
    (h : (∀ r ∈ t, inPhase tol p r = true → fl < r.fl) ∨ (∀ r ∈ t, inPhase tol p r = true → r.fl < fl)) :
    ∃ e, evalFL tol t fl ms p = .error e := by
  unfold evalFL
  cases hpr : prep tol t p with
  | error e => exact ⟨e, rfl⟩
  | ok pr =>
    obtain ⟨_, rfl⟩ := prep_ok tol t p pr hpr
    have hb : inBounds (fls (sub tol p t)) fl = false := by
      apply inBounds_false_of_outside
      rcases h with h | h
      · left; intro a ha
        obtain ⟨r, hr, rfl⟩ := (mem_fls _ _).mp ha
        exact h r ((mem_sub tol p t r).mp hr).1 ((mem_sub tol p t r).mp hr).2
      · right; intro a ha
        obtain ⟨r, hr, rfl⟩ := (mem_fls _ _).mp ha
        exact h r ((mem_sub tol p t r).mp hr).1 ((mem_sub tol p t r).mp hr).2
    refine ⟨.oobFl, ?_⟩
    simp only
    unfold evalPrepared
    have := interpField_oob_fl (sub tol p t) (·.tas) fl (resolveMass t ms) hb
    simp only [prepOf] at this
    rw [this]

/-- in a phase whose table depends on mass, a mass below / above every tabulated mass of the phase is refused -/
theorem outside_mass_rejected (tol : ℝ) (t : List (Row ℝ)) (p : Phase) (fl m : ℝ)
    (h2 : (masses (sub tol p t)).length > 1)
    (h : (∀ r ∈ t, inPhase tol p r = true → m < r.mass) ∨ (∀ r ∈ t, inPhase tol p r = true → r.mass < m)) :
    ∃ e, evalFL tol t fl (.val m) p = .error e := by
  unfold evalFL
  cases hpr : prep tol t p with
  | error e => exact ⟨e, rfl⟩
  | ok pr =>
    obtain ⟨_, rfl⟩ := prep_ok tol t p pr hpr
    have hb : inBounds (masses (sub tol p t)) m = false := by
      apply inBounds_false_of_outside
      rcases h with h | h
      · left; intro a ha
        obtain ⟨r, hr, rfl⟩ := (mem_masses _ _).mp ha
        exact h r ((mem_sub tol p t r).mp hr).1 ((mem_sub tol p t r).mp hr).2
      · right; intro a ha
        obtain ⟨r, hr, rfl⟩ := (mem_masses _ _).mp ha
        exact h r ((mem_sub tol p t r).mp hr).1 ((mem_sub tol p t r).mp hr).2
    simp only [resolveMass]
    unfold evalPrepared
    by_cases hx : inBounds (fls (sub tol p t)) fl = true
    · have := interpField_oob_mass (sub tol p t) (·.tas) fl m h2 hx hb
      simp only [prepOf] at this
      exact ⟨.oobMass, by rw [this]⟩
    · simp only [Bool.not_eq_true] at hx
      have := interpField_oob_fl (sub tol p t) (·.tas) fl m hx
      simp only [prepOf] at this
      exact ⟨.oobFl, by rw [this]⟩

/-- a usable phase answers every state inside its envelope (no spurious refusal) -/
theorem inside_accepted (tol : ℝ) (t : List (Row ℝ)) (p : Phase) (fl : ℝ) (ms : MassSpec ℝ)
    (hv : validate tol (sub tol p t) = .ok ())
    (hfl : inBounds (fls (sub tol p t)) fl = true)
    (hm : (masses (sub tol p t)).length > 1 → inBounds (masses (sub tol p t)) (resolveMass t ms) = true) :
    ∃ perf, evalFL tol t fl ms p = .ok perf := by
  unfold evalFL
  rw [prep_of_valid tol t p hv]
  have e : (⟨sub tol p t, fls (sub tol p t), masses (sub tol p t)⟩ : Prepared ℝ) = prepOf (sub tol p t) := rfl
  simp only [e]
  unfold evalPrepared
  obtain ⟨a, ha⟩ := interpField_ok_of_inBounds (sub tol p t) (·.tas) fl (resolveMass t ms) hfl hm
  obtain ⟨b, hb⟩ := interpField_ok_of_inBounds (sub tol p t) (·.rocd) fl (resolveMass t ms) hfl hm
  obtain ⟨c, hc⟩ := interpField_ok_of_inBounds (sub tol p t) (·.ff) fl (resolveMass t ms) hfl hm
  exact ⟨⟨a, b, c⟩, by rw [ha, hb, hc]⟩

/-! ## symbolic masses -/

/-- `'min'` / `'max'` are the smallest / largest mass of the table -/
theorem min_max_are_extremes (t : List (Row ℝ)) (hne : t ≠ []) :
    (∃ r ∈ t, r.mass = resolveMass t .min) ∧ (∀ r ∈ t, resolveMass t .min ≤ r.mass) ∧
    (∃ r ∈ t, r.mass = resolveMass t .max) ∧ (∀ r ∈ t, r.mass ≤ resolveMass t .max) := by
  have hm : masses t ≠ [] := by
    unfold masses; rw [Ne, sortU_eq_nil]; simpa using hne
  obtain ⟨a, ha⟩ : ∃ a, (masses t).head? = some a := by
    cases h : masses t with
    | nil => exact absurd h hm
    | cons x xs => exact ⟨x, rfl⟩
  obtain ⟨b, hb⟩ : ∃ b, (masses t).getLast? = some b := by
    cases h : (masses t).getLast? with
    | none => rw [getLast?_eq_none_iff] at h; exact absurd h hm
    | some b => exact ⟨b, rfl⟩
  simp only [resolveMass, ha, hb, Option.getD_some]
  refine ⟨(mem_masses t a).mp (mem_of_mem_head? ha) |>.imp fun r h => ⟨h.1, h.2⟩, ?_,
    (mem_masses t b).mp (mem_of_mem_getLast? hb) |>.imp fun r h => ⟨h.1, h.2⟩, ?_⟩
  · intro r hr
    exact sorted_head_le _ (masses_sorted t) a ha _ ((mem_masses t _).mpr ⟨r, hr, rfl⟩)
  · intro r hr
    exact sorted_le_last _ (masses_sorted t) b hb _ ((mem_masses t _).mpr ⟨r, hr, rfl⟩)

/-- in a phase that tabulates as many masses as the whole table (climb and cruise of a loadable table: three),
    the phase's mass axis is the table's mass axis, so `'min'`/`'max'` are the ends of the axis interpolated on -/
theorem symbolic_mass_is_end_of_phase_axis (tol : ℝ) (t : List (Row ℝ)) (p : Phase)
    (h : (masses t).length ≤ (masses (sub tol p t)).length) : masses (sub tol p t) = masses t :=
  sorted_eq_of_subset_of_length _ _ (masses_sorted _) (masses_sorted _) (masses_sub_subset tol p t) h

/-! ## incomplete grids are refused at load -/

/-- a table accepted at load has, in every phase, each (flight level, mass) pair at most once and every
    combination of a tabulated flight level with a tabulated mass of that phase present -/
theorem incomplete_grid_refused (tol : ℝ) (t : List (Row ℝ)) (h : validate tol t = .ok ()) (p : Phase) :
    ((sub tol p t).map fun r => (r.fl, r.mass)).Nodup ∧
    ∀ f ∈ fls (sub tol p t), ∀ m ∈ masses (sub tol p t), ∃ r ∈ sub tol p t, r.fl = f ∧ r.mass = m :=
  let g := validate_grid tol t p h
  ⟨g.nodup, g.complete⟩

/-- negation witness for the check before the fix (row count only): a duplicate plus a hole passes -/
theorem count_only_check_accepts_hole :
    ∃ s : List (Row ℝ), coverageOkCountOnly s = true ∧ coverageOk s = false ∧
      ¬ ∃ r ∈ s, r.fl = 1 ∧ r.mass = 2 := by
  refine ⟨[⟨0, 1, 0, 0, 0⟩, ⟨0, 2, 0, 0, 0⟩, ⟨1, 1, 0, 0, 0⟩, ⟨1, 1, 0, 0, 0⟩], ?_, ?_, ?_⟩
  · norm_num [coverageOkCountOnly, fls, masses, sortU, insertU]
  · norm_num [coverageOk, hasDupP, memP, seq]
  · norm_num

/-- OPEN FINDING C06-phase-mass-count-checked-lazily, negation witness on the code as it is: a table with a
    three-mass descent section (and a one-mass cruise section) passes the load check, the intended check refuses
    it, and every descent evaluation of the loaded table is refused -/
theorem lazy_mass_count_as_is :
    ∃ t : List (Row ℝ), validate (1 / 1000000) t = .ok () ∧ validateIntended (1 / 1000000) t = .error .massCount ∧
      ∀ fl m : ℝ, evalFL (1 / 1000000) t fl (.val m) .descend = .error .massCount := by
  refine ⟨[⟨0, 1, 5, -1, 1⟩, ⟨0, 2, 5, -1, 1⟩, ⟨0, 3, 5, -1, 1⟩, ⟨0, 1, 5, 0, 1⟩], ?_, ?_, ?_⟩
  · rw [validate_iff]
    norm_num [Checks, masses, sortU, insertU, nMassExpected, sub, inPhase, coverageOk, hasDupP, memP, seq, fls,
      flOnlyOk, dedupP, sabs, zero]
  · have h : validate (1 / 1000000) ([⟨0, 1, 5, -1, 1⟩, ⟨0, 2, 5, -1, 1⟩, ⟨0, 3, 5, -1, 1⟩, ⟨0, 1, 5, 0, 1⟩] : List (Row ℝ))
        = .ok () := by
      rw [validate_iff]
      norm_num [Checks, masses, sortU, insertU, nMassExpected, sub, inPhase, coverageOk, hasDupP, memP, seq, fls,
        flOnlyOk, dedupP, sabs, zero]
    unfold validateIntended
    rw [h]
    norm_num [masses, sortU, insertU, sub, inPhase, phaseMasses]
  · intro fl m
    norm_num [evalFL, prep, validate, masses, sortU, insertU, nMassExpected, sub, inPhase, sabs, zero]

/-- OPEN FINDING (intended): the per-phase mass count is only checked when the phase is first evaluated.
    Intended load check: every present phase is usable afterwards. -/
theorem intended_load_makes_present_phases_usable (tol : ℝ) (h0 : 0 ≤ tol) (t : List (Row ℝ)) (p : Phase)
    (h : validateIntended tol t = .ok ()) (hne : sub tol p t ≠ []) : validate tol (sub tol p t) = .ok () := by
  unfold validateIntended at h
  cases hv : validate tol t with
  | error e => simp [hv] at h
  | ok u =>
    simp only [hv] at h
    split_ifs at h with hall
    simp only [all_cons, all_nil, Bool.and_true, Bool.and_eq_true, Bool.or_eq_true, List.isEmpty_iff,
      beq_iff_eq] at hall
    have hcount : (masses (sub tol p t)).length = phaseMasses p := by
      cases p
      · exact hall.2.1.resolve_left hne
      · exact hall.1.resolve_left hne
      · exact hall.2.2.resolve_left hne
    obtain ⟨_, ⟨cz, cc, cd⟩, fz, fc1, fc2, fd1, fd2, fd3⟩ := (validate_iff tol t).mp hv
    rw [validate_iff]
    refine ⟨by rw [hcount, nMassExpected_sub tol h0 p t hne], ?_, ?_⟩
    · cases p
      · rw [sub_sub_self, sub_other_nil tol h0 .climb .cruise (by decide), sub_other_nil tol h0 .climb .descend (by decide)]
        exact ⟨coverageOk_nil, cc, coverageOk_nil⟩
      · rw [sub_sub_self, sub_other_nil tol h0 .cruise .climb (by decide), sub_other_nil tol h0 .cruise .descend (by decide)]
        exact ⟨cz, coverageOk_nil, coverageOk_nil⟩
      · rw [sub_sub_self, sub_other_nil tol h0 .descend .cruise (by decide), sub_other_nil tol h0 .descend .climb (by decide)]
        exact ⟨coverageOk_nil, coverageOk_nil, cd⟩
    · cases p
      · rw [sub_sub_self, sub_other_nil tol h0 .climb .cruise (by decide), sub_other_nil tol h0 .climb .descend (by decide)]
        exact ⟨flOnlyOk_nil _, fc1, fc2, flOnlyOk_nil _, flOnlyOk_nil _, flOnlyOk_nil _⟩
      · rw [sub_sub_self, sub_other_nil tol h0 .cruise .climb (by decide), sub_other_nil tol h0 .cruise .descend (by decide)]
        exact ⟨fz, flOnlyOk_nil _, flOnlyOk_nil _, flOnlyOk_nil _, flOnlyOk_nil _, flOnlyOk_nil _⟩
      · rw [sub_sub_self, sub_other_nil tol h0 .descend .cruise (by decide), sub_other_nil tol h0 .descend .climb (by decide)]
        exact ⟨flOnlyOk_nil _, flOnlyOk_nil _, flOnlyOk_nil _, fd1, fd2, fd3⟩

/-! ## PTF-generated model files -/

/-- (building block of `ptf_rows_reproduced`, with weaker hypotheses: only usability of the phase is needed)
    Every climb row of the PTF is reproduced (all three mass columns), after unit conversion, by the model file
    built from it — provided the built table's climb phase is usable (i.e. the file loads and evaluates) and the
    converted rates of climb are classified as climb -/
theorem ptf_rows_reproduced_climb (tol : ℝ) (P : Ptf ℝ) (c : PtfClimb ℝ) (hc : c ∈ P.climb)
    (hv : validate tol (sub tol .climb (buildRows P)) = .ok ())
    (hlo : tol < fpm c.rocdLo) (hnom : tol < fpm c.rocdNom) (hhi : tol < fpm c.rocdHi) :
    evaluate tol (buildRows P) (c.fl * Gen.FL_TO_METERS) (.val P.lo) .climb = .ok ⟨kts c.tas, fpm c.rocdLo, perMin c.ff⟩ ∧
    evaluate tol (buildRows P) (c.fl * Gen.FL_TO_METERS) (.val P.nom) .climb = .ok ⟨kts c.tas, fpm c.rocdNom, perMin c.ff⟩ ∧
    evaluate tol (buildRows P) (c.fl * Gen.FL_TO_METERS) (.val P.hi) .climb = .ok ⟨kts c.tas, fpm c.rocdHi, perMin c.ff⟩ := by
  refine ⟨?_, ?_, ?_⟩
  · exact node_exact_in_metres tol _ .climb ⟨c.fl, P.lo, kts c.tas, fpm c.rocdLo, perMin c.ff⟩ hv
      (climb_mem P c hc _ (by simp [climbRows])) (by simpa [inPhase] using hlo)
  · exact node_exact_in_metres tol _ .climb ⟨c.fl, P.nom, kts c.tas, fpm c.rocdNom, perMin c.ff⟩ hv
      (climb_mem P c hc _ (by simp [climbRows])) (by simpa [inPhase] using hnom)
  · exact node_exact_in_metres tol _ .climb ⟨c.fl, P.hi, kts c.tas, fpm c.rocdHi, perMin c.ff⟩ hv
      (climb_mem P c hc _ (by simp [climbRows])) (by simpa [inPhase] using hhi)

theorem ptf_rows_reproduced_cruise (tol : ℝ) (h0 : 0 ≤ tol) (P : Ptf ℝ) (c : PtfCruise ℝ) (hc : c ∈ P.cruise)
    (hv : validate tol (sub tol .cruise (buildRows P)) = .ok ()) :
    evaluate tol (buildRows P) (c.fl * Gen.FL_TO_METERS) (.val P.lo) .cruise = .ok ⟨kts c.tas, 0, perMin c.ffLo⟩ ∧
    evaluate tol (buildRows P) (c.fl * Gen.FL_TO_METERS) (.val P.nom) .cruise = .ok ⟨kts c.tas, 0, perMin c.ffNom⟩ ∧
    evaluate tol (buildRows P) (c.fl * Gen.FL_TO_METERS) (.val P.hi) .cruise = .ok ⟨kts c.tas, 0, perMin c.ffHi⟩ := by
  have hz : inPhase tol .cruise (⟨c.fl, P.lo, kts c.tas, zero, perMin c.ffLo⟩ : Row ℝ) = true := by
    simp [inPhase, h0]
  refine ⟨?_, ?_, ?_⟩
  · have := node_exact_in_metres tol _ .cruise ⟨c.fl, P.lo, kts c.tas, zero, perMin c.ffLo⟩ hv
      (cruise_mem P c hc _ (by simp [cruiseRows])) (by simp [inPhase, h0])
    simpa using this
  · have := node_exact_in_metres tol _ .cruise ⟨c.fl, P.nom, kts c.tas, zero, perMin c.ffNom⟩ hv
      (cruise_mem P c hc _ (by simp [cruiseRows])) (by simp [inPhase, h0])
    simpa using this
  · have := node_exact_in_metres tol _ .cruise ⟨c.fl, P.hi, kts c.tas, zero, perMin c.ffHi⟩ hv
      (cruise_mem P c hc _ (by simp [cruiseRows])) (by simp [inPhase, h0])
    simpa using this

theorem ptf_rows_reproduced_descent (tol : ℝ) (P : Ptf ℝ) (d : PtfDescent ℝ) (hd : d ∈ P.descent)
    (hv : validate tol (sub tol .descend (buildRows P)) = .ok ()) (hneg : fpm (-d.rocd) < -tol) :
    evaluate tol (buildRows P) (d.fl * Gen.FL_TO_METERS) (.val P.nom) .descend
      = .ok ⟨kts d.tas, fpm (-d.rocd), perMin d.ff⟩ :=
  node_exact_in_metres tol _ .descend (descentRow P d) hv (descent_mem P d hd)
    (by simp only [inPhase, descentRow]; exact decide_eq_true hneg)

/-- the table built from a well-formed PTF (ascending masses, distinct levels per phase, climb rates classified as
    climb, descent rates as descent, at least one climb line) passes the load check — even the intended, stricter one -/
theorem ptf_built_table_loads (tol : ℝ) (P : Ptf ℝ) (wf : PtfWellFormed tol P) :
    validateIntended tol (buildRows P) = .ok () ∧ validate tol (buildRows P) = .ok () := by
  have h := buildRows_validateIntended tol P wf
  refine ⟨h, ?_⟩
  unfold validateIntended at h
  cases hv : validate tol (buildRows P) with
  | error e => simp [hv] at h
  | ok u => rfl

/-- FULL statement: the model file generated from a well-formed PTF loads and reproduces every PTF row — all three
    mass columns of climb and cruise, the descent column — after unit conversion, at `fl * FL_TO_METERS` metres -/
theorem ptf_rows_reproduced : PtfRowsReproducedStatement := by
  intro tol P wf
  obtain ⟨hvi, hv⟩ := ptf_built_table_loads tol P wf
  have h0 : 0 ≤ tol := wf.1
  have usable : ∀ p (r : Row ℝ), r ∈ buildRows P → inPhase tol p r = true →
      validate tol (sub tol p (buildRows P)) = .ok () := by
    intro p r hr hp
    apply intended_load_makes_present_phases_usable tol h0 _ p hvi
    intro hnil
    have := (mem_sub tol p _ r).mpr ⟨hr, hp⟩
    rw [hnil] at this; simp at this
  obtain ⟨_, _, _, _, _, _, hc, hd, _⟩ := wf
  refine ⟨hv, ?_, ?_, ?_⟩
  · intro c hcm
    have hcl := hc c hcm
    exact ptf_rows_reproduced_climb tol P c hcm
      (usable .climb ⟨c.fl, P.lo, kts c.tas, fpm c.rocdLo, perMin c.ff⟩ (climb_mem P c hcm _ (by simp [climbRows]))
        (by simpa [inPhase] using hcl.1)) hcl.1 hcl.2.1 hcl.2.2
  · intro c hcm
    exact ptf_rows_reproduced_cruise tol h0 P c hcm
      (usable .cruise ⟨c.fl, P.lo, kts c.tas, zero, perMin c.ffLo⟩ (cruise_mem P c hcm _ (by simp [cruiseRows]))
        (by simp [inPhase, h0]))
  · intro d hdm
    exact ptf_rows_reproduced_descent tol P d hdm
      (usable .descend (descentRow P d) (descent_mem P d hdm)
        (by simp only [inPhase, descentRow]; exact decide_eq_true (hd d hdm))) (hd d hdm)

/-! ## non-vacuity: a concrete table satisfies the hypotheses used above -/

example : validate (1 / 1000000) exampleTable = .ok () := by
  rw [validate_iff]
  norm_num [exampleTable, Checks, masses, sortU, insertU, nMassExpected, sub, inPhase, coverageOk, hasDupP, memP, seq,
    fls, flOnlyOk, dedupP, sabs, zero]

example : validateIntended (1 / 1000000) exampleTable = .ok () := by
  have h : validate (1 / 1000000) exampleTable = .ok () := by
    rw [validate_iff]
    norm_num [exampleTable, Checks, masses, sortU, insertU, nMassExpected, sub, inPhase, coverageOk, hasDupP, memP, seq,
      fls, flOnlyOk, dedupP, sabs, zero]
  unfold validateIntended
  rw [h]
  norm_num [exampleTable, masses, sortU, insertU, sub, inPhase, phaseMasses]

/-- hypotheses of `node_exact` (usable phase, row of the phase) hold for the climb and the descent section -/
example : validate (1 / 1000000) (sub (1 / 1000000) .climb exampleTable) = .ok () ∧
    (⟨100, 2, 200, 5, 2⟩ : Row ℝ) ∈ exampleTable ∧ inPhase (1 / 1000000) .climb (⟨100, 2, 200, 5, 2⟩ : Row ℝ) = true := by
  refine ⟨?_, ?_, ?_⟩
  · rw [validate_iff]
    norm_num [exampleTable, Checks, masses, sortU, insertU, nMassExpected, sub, inPhase, coverageOk, hasDupP, memP,
      seq, fls, flOnlyOk, dedupP, sabs, zero]
  · simp [exampleTable]
  · norm_num [inPhase]

example : validate (1 / 1000000) (sub (1 / 1000000) .descend exampleTable) = .ok () := by
  rw [validate_iff]
  norm_num [exampleTable, Checks, masses, sortU, insertU, nMassExpected, sub, inPhase, coverageOk, hasDupP, memP,
    seq, fls, flOnlyOk, dedupP, sabs, zero]

/-- an interior state evaluates (hypothesis of `bounded_by_corner_values` is satisfiable), here to the value one
    computes by hand: FL 50 halfway, mass 1.5 halfway -/
example : evalFL (1 / 1000000) exampleTable 50 (.val (3 / 2)) .climb = .ok ⟨150, 4, 3 / 2⟩ := by
  norm_num [evalFL, prep, validate, exampleTable, masses, sortU, insertU, nMassExpected, sub, inPhase, coverageOk,
    hasDupP, memP, seq, fls, flOnlyOk, dedupP, sabs, zero, evalPrepared, interpField, interp2, inBounds, bracket,
    bilin, ndist, cell, one, resolveMass]

/-- outside states exist and are refused (hypotheses of `outside_altitude_rejected` / `outside_mass_rejected`) -/
example : evalFL (1 / 1000000) exampleTable 101 (.val 2) .climb = .error .oobFl ∧
    evalFL (1 / 1000000) exampleTable 50 (.val 4) .climb = .error .oobMass ∧
    evalFL (1 / 1000000) exampleTable 50 (.val 4) .descend = .ok ⟨135, -6, 3 / 8⟩ := by
  refine ⟨?_, ?_, ?_⟩ <;>
  norm_num [evalFL, prep, validate, exampleTable, masses, sortU, insertU, nMassExpected, sub, inPhase, coverageOk,
    hasDupP, memP, seq, fls, flOnlyOk, dedupP, sabs, zero, evalPrepared, interpField, interp1, interp2, inBounds,
    bracket, bilin, ndist, cell, cell1, one, resolveMass]

/-- hypotheses of the continuity theorems hold for the climb (mass-dependent) and descent (single-mass) sections -/
example : (masses (sub (1 / 1000000) .climb exampleTable)).length > 1 ∧
    2 ≤ (fls (sub (1 / 1000000) .climb exampleTable)).length := by
  norm_num [exampleTable, masses, fls, sortU, insertU, sub, inPhase]

example : ¬ (masses (sub (1 / 1000000) .descend exampleTable)).length > 1 ∧
    2 ≤ (fls (sub (1 / 1000000) .descend exampleTable)).length := by
  norm_num [exampleTable, masses, fls, sortU, insertU, sub, inPhase]

example : Adjacent [0, 100] 0 100 := by
  refine ⟨by simp, by simp, by norm_num, ?_⟩
  intro c hc
  simp only [mem_cons, not_mem_nil, or_false] at hc
  rcases hc with rfl | rfl
  · left; exact le_refl _
  · right; exact le_refl _

/-- a well-formed PTF exists (hypothesis of `ptf_rows_reproduced` / `ptf_built_table_loads`) -/
example : PtfWellFormed (1 / 1000000)
    (⟨1, 2, 3, [⟨0, 100, 3000, 2000, 1000, 60⟩], [⟨0, 200, 50, 60, 70⟩], [⟨0, 100, 1000, 30⟩]⟩ : Ptf ℝ) := by
  norm_num [PtfWellFormed, fpm, Gen.FPM_TO_MPS, Gen.FEET_TO_METERS, Gen.MINUTES_TO_SECONDS]

/-- a PTF with one line: the built table's climb phase is usable (hypothesis of `ptf_rows_reproduced_climb`) -/
example : validate (1 / 1000000) (sub (1 / 1000000) .climb
    (buildRowsUnsorted (⟨1, 2, 3, [⟨0, 100, 3000, 2000, 1000, 60⟩], [], [⟨0, 100, 1000, 30⟩]⟩ : Ptf ℝ))) = .ok () := by
  rw [validate_iff]
  norm_num [buildRowsUnsorted, climbRows, descentRow, kts, fpm, perMin, Gen.KNOTS_TO_MPS, Gen.FPM_TO_MPS,
    Gen.FEET_TO_METERS, Gen.MINUTES_TO_SECONDS, Checks, masses, sortU, insertU, nMassExpected, sub, inPhase,
    coverageOk, hasDupP, memP, seq, fls, flOnlyOk, dedupP, sabs, zero]

end C06
