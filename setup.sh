#!/bin/sh
# MANIFEST.setup_cmd: build the Lean package offline (models, proofs, driver).
set -e
cd "$(dirname "$0")"
/venv/bin/python -c "import sys; sys.path.insert(0,'.'); from harness.common import translator; translator.regenerate(); translator.regenerate_guard(); from harness.common import pykern; pykern.regenerate(); from harness.common import cfgprog; cfgprog.regenerate(); from harness.common import mergeprog; mergeprog.regenerate(); from harness.common import addprog; addprog.regenerate(); from harness.common import locprog; locprog.regenerate(); from harness.common import fidprog; fidprog.regenerate(); from harness.common import dispprog; dispprog.regenerate(); from harness.common import gtprog; gtprog.regenerate()"
cd lean
lake build
