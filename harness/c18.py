"""C18 — exactly one immutable configuration is active, and a failed load leaves none."""
from __future__ import annotations

import json
import shutil
import tempfile
import tomllib
from pathlib import Path

from harness.common import REPO

RULE = ('op sequences (4..14 ops) over {load valid (plain / keyword overlay / config-file overlay / both), load failing at each '
        'stage (unreadable config file, TOML syntax error, invalid enum value, wrong type, missing performance-model file, '
        'missing engine file, missing weather directory), get, reset, proxy read, attribute assignment on the proxy / on the '
        'object / on nested weather and emissions settings} run against Config.load/get/reset and the config proxy and against '
        'the Lean state machine (outputs compared exactly); overlay: random nested dictionaries through deep_update and random '
        '(defaults, file, kwargs) settings through Config.load compared with the Lean `effective`; non-trivial = the sequence '
        'contains a failing load followed by another load; distinct = distinct op sequences')
TRUSTED = ['Lean 4.33 kernel', 'axioms: propext, Classical.choice, Quot.sound (audited per theorem each run)',
           'correspondence harness harness/c18.py', 'pydantic (field validation, frozen models, validator order) and tomllib as the staged oracle of AeicModel/Config.lean']
ASSUME = ['in-place mutation of list-valued settings (config.path.append) is outside the property as checked: attribute assignment at every nesting level is what is exercised',
          'one process, one thread']

VALID_KW = [
    {},
    {'emissions': {'sox_enabled': False}},
    {'emissions': {'nox_method': 'p3t3', 'apu_enabled': False}, 'weather': {'use_weather': False}},
    {'weather': {'use_weather': False}},
]
FAIL_KINDS = ['missing_config_file', 'bad_toml', 'bad_enum', 'bad_type', 'missing_perf', 'missing_engine', 'missing_weather_dir']
STAGE = {  # which stage of the model's LoadSpec fails
    'missing_config_file': 'file', 'bad_toml': 'file', 'bad_enum': 'fields', 'bad_type': 'fields',
    'missing_perf': 'resolve', 'missing_engine': 'resolve', 'missing_weather_dir': 'resolve',
}


class RealConfig:
    def __init__(self, tmp: Path):
        import os

        os.environ['AEIC_PATH'] = str(REPO / 'tests' / 'data')
        from AEIC.config import Config, config

        self.Config, self.proxy = Config, config
        self.tmp = tmp
        self.ids: dict[str, int] = {}
        (tmp / 'bad.toml').write_text('[emissions\nsox_enabled = ')
        self.nfile = 0

    def cfg_id(self, c) -> str:
        key = json.dumps([c.emissions.sox_enabled, str(c.emissions.nox_method), c.emissions.apu_enabled, c.weather.use_weather,
                          str(c.emissions.climb_descent_mode)])
        return key

    def do(self, op: dict) -> str:
        from pydantic import ValidationError

        C = self.Config
        k = op['op']
        try:
            if k == 'load':
                kw = json.loads(json.dumps(op.get('kwargs', {})))
                cf = None
                if op.get('file') is not None:
                    # one file per content, written once: later loads of the same configuration file reuse it unchanged
                    import hashlib

                    txt = render_toml(op['file'])
                    cf = self.tmp / ('cfg_' + hashlib.md5(txt.encode()).hexdigest()[:10] + '.toml')
                    if not cf.exists():
                        cf.write_text(txt)
                kind = op.get('fail')
                if kind == 'missing_config_file':
                    cf = self.tmp / 'does-not-exist.toml'
                elif kind == 'bad_toml':
                    cf = self.tmp / 'bad.toml'
                elif kind == 'bad_enum':
                    kw.setdefault('emissions', {})['nox_method'] = 'no-such-method'
                elif kind == 'bad_type':
                    kw.setdefault('weather', {})['use_weather'] = {'not': 'a bool'}
                elif kind == 'missing_perf':
                    kw['performance_model'] = 'no/such/performance-model.toml'
                elif kind == 'missing_engine':
                    kw['engine_file'] = 'no/such/engine-file.toml'
                elif kind == 'missing_weather_dir':
                    kw.setdefault('weather', {})['weather_data_dir'] = 'no/such/weather-dir'
                c = C.load(config_file=cf, data_path_overrides=[REPO / 'tests' / 'data'], **kw)
                return 'cfg:' + self.cfg_id(c)
            if k == 'get':
                return 'cfg:' + self.cfg_id(C.get())
            if k == 'reset':
                C.reset()
                return 'ok'
            if k == 'read':
                _ = self.proxy.emissions.nox_method
                return 'cfg:' + self.cfg_id(C.get())
            if k == 'mutate':
                where = op['where']
                if where == 'proxy_outer':
                    self.proxy.performance_model = None
                elif where == 'proxy_weather':
                    self.proxy.weather.use_weather = not self.proxy.weather.use_weather
                elif where == 'proxy_emissions':
                    self.proxy.emissions.sox_enabled = not self.proxy.emissions.sox_enabled
                elif where == 'object_outer':
                    C.get().engine_file = None
                elif where == 'object_emissions':
                    C.get().emissions.apu_enabled = not C.get().emissions.apu_enabled
                elif where == 'object_weather_dir':
                    C.get().weather.weather_data_dir = None
                return 'mutated'  # the assignment was accepted: a violation
            return 'bad_op'
        except ValidationError:
            return 'err:frozen' if k == 'mutate' else 'err:validation'
        except FileNotFoundError:
            return 'err:read' if op.get('fail') == 'missing_config_file' else 'err:file_not_found'
        except tomllib.TOMLDecodeError:
            return 'err:read'
        except RuntimeError:
            return 'err:already'
        except ValueError as e:
            return 'err:not_set' if 'not set' in str(e) else 'err:value:' + type(e).__name__
        except Exception as e:  # noqa: BLE001
            return 'err:internal:' + type(e).__name__


def render_toml(d: dict) -> str:
    out = []
    for sec, kv in d.items():
        out.append(f'[{sec}]')
        for k, v in kv.items():
            out.append(f'{k} = {json.dumps(v)}' if not isinstance(v, bool) else f'{k} = {"true" if v else "false"}')
    return '\n'.join(out) + '\n'


def gen_ops(rng):
    n = int(rng.integers(4, 15))
    ops = []
    for _ in range(n):
        r = rng.random()
        if r < 0.30:
            kw = VALID_KW[int(rng.integers(0, len(VALID_KW)))]
            f = None
            if rng.random() < 0.4:
                f = {'emissions': {'sox_enabled': bool(rng.random() < 0.5), 'climb_descent_mode': str(rng.choice(['trajectory', 'trajectory', 'lto']))}}
            ops.append({'op': 'load', 'kwargs': kw, 'file': f})
        elif r < 0.55:
            kind = FAIL_KINDS[int(rng.integers(0, len(FAIL_KINDS)))]
            f = None
            if rng.random() < 0.4:
                f = {'emissions': {'sox_enabled': bool(rng.random() < 0.5), 'climb_descent_mode': 'trajectory'}}
            ops.append({'op': 'load', 'kwargs': VALID_KW[int(rng.integers(0, len(VALID_KW)))], 'file': f, 'fail': kind})
        elif r < 0.67:
            ops.append({'op': 'get'})
        elif r < 0.80:
            ops.append({'op': 'reset'})
        elif r < 0.88:
            ops.append({'op': 'read'})
        else:
            ops.append({'op': 'mutate', 'where': str(rng.choice(['proxy_outer', 'proxy_weather', 'proxy_emissions', 'object_outer',
                                                                  'object_emissions', 'object_weather_dir']))})
    return ops


def model_ops(ops, ids: dict):
    """Model view: each valid load gets the identity of the configuration it would produce (from a reference run)."""
    out = []
    for o in ops:
        if o['op'] == 'load':
            st = STAGE.get(o.get('fail'))
            out.append({'op': 'load', 'file_ok': st != 'file', 'fields_ok': st != 'fields', 'resolve_ok': st != 'resolve',
                        'cfg': ids[json.dumps([o.get('kwargs', {}), o.get('file')], sort_keys=True)]})
        else:
            out.append({'op': o['op']})
    return out


def expected_effective(defaults: dict, file: dict | None, kwargs: dict) -> dict:
    """Independent statement of the documented precedence for the settings the id is built from."""
    def pick(sec, key):
        for src in (kwargs, file or {}):
            if sec in src and key in src[sec]:
                return src[sec][key]
        return defaults[sec][key]
    return {'sox_enabled': pick('emissions', 'sox_enabled'), 'nox_method': str(pick('emissions', 'nox_method')).lower(),
            'apu_enabled': pick('emissions', 'apu_enabled'), 'use_weather': pick('weather', 'use_weather'),
            'climb_descent_mode': str(pick('emissions', 'climb_descent_mode')).lower()}


def to_pairs(d):
    if isinstance(d, dict):
        return [[k, to_pairs(v)] for k, v in d.items()]
    return json.dumps(d)


def from_pairs(t):
    if isinstance(t, list):
        return {k: from_pairs(v) for k, v in t}
    return json.loads(t)


def ref_overlay(base: dict, over: dict) -> dict:
    """The documented overlay, written independently: every key of the higher layer wins; two mappings are overlaid key by key."""
    out = dict(base)
    for k, v in over.items():
        if isinstance(v, dict) and isinstance(out.get(k), dict):
            out[k] = ref_overlay(out[k], v)
        else:
            out[k] = json.loads(json.dumps(v))
    return out


def rand_dict(rng, depth=0):
    d = {}
    for k in rng.choice(['a', 'b', 'c', 'd', 'e'], size=int(rng.integers(0, 4)), replace=False):
        if depth < 3 and rng.random() < 0.45:
            d[str(k)] = rand_dict(rng, depth + 1)
        elif rng.random() < 0.25:
            # falsy / null values are values like any other: an overlay that sets None, False, 0, '' or [] wins (seed C18_4)
            d[str(k)] = [None, False, 0, '', [], 0.0][int(rng.integers(0, 6))]
        else:
            d[str(k)] = int(rng.integers(0, 9))
    return d


def main(ctx):
    ctx.proofs()
    tmp = Path(tempfile.mkdtemp(prefix='aeicverif_c18_'))
    try:
        import sys

        sys.path.insert(0, str(REPO / 'src'))
        import warnings

        warnings.filterwarnings('ignore')
        rc = RealConfig(tmp)
        from AEIC.config.core import deep_update

        rc.Config.reset()
        defaults = tomllib.loads((REPO / 'src' / 'AEIC' / 'data' / 'default_config.toml').read_text())
        # reference ids for every valid (kwargs, file) combination used
        seqs = []
        from harness.common import CORPUS_DIR

        cd = CORPUS_DIR / 'C18'
        if cd.exists():
            for p in sorted(cd.glob('*.json')):
                seqs.append(json.loads(p.read_text())['ops'])
        seqs += [gen_ops(ctx.rng) for _ in range(ctx.scale(quick=400, thorough=12000))]
        combos = {}
        for ops in seqs:
            for o in ops:
                if o['op'] == 'load':
                    combos[json.dumps([o.get('kwargs', {}), o.get('file')], sort_keys=True)] = (o.get('kwargs', {}), o.get('file'))
        ids, idstr = {}, {}
        for n, (key, (kw, f)) in enumerate(sorted(combos.items())):
            rc.Config.reset()
            r = rc.do({'op': 'load', 'kwargs': kw, 'file': f})
            ids[key] = n
            idstr[n] = r
            # overlay precedence clause on the implementation
            want = expected_effective(defaults, f, kw)
            if r.startswith('cfg:'):
                c = rc.Config.get()
                got = {'sox_enabled': c.emissions.sox_enabled, 'nox_method': str(c.emissions.nox_method.value).lower(),
                       'apu_enabled': c.emissions.apu_enabled, 'use_weather': c.weather.use_weather,
                       'climb_descent_mode': str(c.emissions.climb_descent_mode.value).lower()}
                if got != want:
                    ctx.clause_fail('overlay_precedence', {'kwargs': kw, 'file': f, 'impl': got, 'expected': want},
                                    detail='effective settings are not defaults < file < keyword arguments')
            else:
                ctx.clause_fail('valid_load_succeeds', {'kwargs': kw, 'file': f, 'impl': r}, detail='a valid load on a reset system failed')
        rc.Config.reset()
        model = ctx.driver.outs([{'op': 'c18.run', 'ops': model_ops(ops, ids)} for ops in seqs])
        for ops, m in zip(seqs, model):
            rc.Config.reset()
            outs = [rc.do(o) for o in ops]
            rc.Config.reset()
            want = [('cfg:' + idstr[int(x[4:])][4:]) if x.startswith('cfg:') else x for x in m]
            names = [o['op'] + (':' + o['fail'] if o.get('fail') else '') for o in ops]
            nontriv = any(o.get('fail') for i, o in enumerate(ops) if any(p['op'] == 'load' for p in ops[i + 1:]))
            ctx.case(json.dumps(ops, sort_keys=True), nontrivial=nontriv, sample={'ops': names, 'impl': [x[:24] for x in outs]})
            for nm in names:
                ctx.count('op:' + nm)
            if outs != want:
                i = next(i for i, (a, b) in enumerate(zip(outs, want)) if a != b)
                # is it a clause failure? classify against the three-state reference machine stated in the property
                ref = reference_machine(ops, idstr, ids)
                if outs != ref:
                    j = next(j for j, (a, b) in enumerate(zip(outs, ref)) if a != b)
                    small = shrink(rc, ops, idstr, ids)
                    so = [rc.do(o) for o in (rc.Config.reset() or small)]
                    rc.Config.reset()
                    ctx.clause_fail(clause_of(ops[j], outs[j]), {'ops': small, 'impl': so, 'expected': reference_machine(small, idstr, ids)},
                                    detail=f'op #{j} {names[j]}: implementation {outs[j][:60]}, three-state reference machine {ref[j][:60]}')
                else:
                    ctx.diverge('config state machine: model vs implementation', {'ops': ops, 'impl': outs, 'model': want},
                                detail=f'op #{i}')
        # every documented setting with several malformed values: whatever stage rejects it (also validators this
        # harness knows nothing about), a load that raises must leave the system unconfigured and loadable
        bad_values = ['zz-unknown-zz', 12345, 'no/such/path/x.toml', {'nested': 1}, [], -1, '']
        settings = [(None, k) for k, v in defaults.items() if not isinstance(v, dict)]
        settings += [(sec, k) for sec, v in defaults.items() if isinstance(v, dict) for k in v]
        settings += [('emissions', 'fuel'), ('weather', 'weather_data_dir'), (None, 'path')]
        for sec, key in settings:
            for bv in bad_values:
                kw = {key: bv} if sec is None else {sec: {key: bv}}
                rc.Config.reset()
                r = rc.do({'op': 'load', 'kwargs': kw, 'file': None})
                ctx.case('fieldwise:' + json.dumps([sec, key, bv], default=str), nontrivial=r.startswith('err:'),
                         sample=None)
                ctx.count('fieldwise:' + ('rejected' if r.startswith('err:') else 'accepted'))
                if r.startswith('err:'):
                    g = rc.do({'op': 'get'})
                    nxt = rc.do({'op': 'load', 'kwargs': {}, 'file': None})
                    if g != 'err:not_set' or not nxt.startswith('cfg:'):
                        ctx.clause_fail('failed_load_leaves_none',
                                        {'ops': [{'op': 'load', 'kwargs': kw, 'file': None}, {'op': 'get'}, {'op': 'load', 'kwargs': {}, 'file': None}],
                                         'impl': [r, g[:40], nxt[:40]], 'expected': [r, 'err:not_set', 'cfg:…']},
                                        detail=f'load with {sec}.{key}={bv!r} raised ({r}) but left a configuration active '
                                               f'(get -> {g[:30]}, next valid load -> {nxt[:30]})')
        rc.Config.reset()
        # keyword arguments whose value is None: `weather.weather_data_dir = None` is a documented setting ("use the current
        # directory") that only a keyword argument can express, so it must win over the file and the defaults; a None for a
        # required setting is an invalid load and must be refused, leaving nothing active
        try:
            cfgfile = tmp / 'none_kw.toml'
            wdir = tmp / 'wx_dir'
            wdir.mkdir(exist_ok=True)
            cfgfile.write_text(f'[weather]\nweather_data_dir = "{wdir}"\n')
            for label, kwargs in (('kwargs over file', dict(config_file=cfgfile, weather={'weather_data_dir': None})),
                                  ('kwargs over defaults + sibling', dict(weather={'weather_data_dir': None, 'use_weather': False}))):
                rc.Config.reset()
                ctx.case('none_kw:' + label)
                c = rc.Config.load(data_path_overrides=[REPO / 'tests' / 'data'], **kwargs)
                if c.weather.weather_data_dir is not None:
                    ctx.clause_fail('overlay_precedence', {'scenario': label, 'impl': str(c.weather.weather_data_dir), 'expected': None},
                                    detail='a keyword argument weather.weather_data_dir=None does not override the lower layers')
            rc.Config.reset()
            ctx.case('none_kw:required')
            try:
                rc.Config.load(data_path_overrides=[REPO / 'tests' / 'data'], performance_model=None)
                ctx.clause_fail('load_outcome', {'scenario': 'performance_model=None'},
                                detail='a load with performance_model=None (a required setting) is accepted')
            except ValueError:
                g = rc.do({'op': 'get'})
                if g != 'err:not_set':
                    ctx.clause_fail('failed_load_leaves_none', {'scenario': 'performance_model=None', 'get': g[:40]},
                                    detail='a refused load left a configuration active')
        except Exception as e:  # noqa: BLE001  (the scenario itself could not be run: not a verdict)
            ctx.notes.append(f'None-kwarg scenario not run: {type(e).__name__}: {e}')
        rc.Config.reset()
        # deep_update correspondence + precedence on random nested dictionaries
        reqs, cases = [], []
        for _ in range(ctx.scale(quick=300, thorough=8000)):
            d, f, k = rand_dict(ctx.rng), rand_dict(ctx.rng), rand_dict(ctx.rng)
            cases.append((d, f, k))
            reqs.append({'op': 'c18.overlay', 'defaults': to_pairs(d), 'file': to_pairs(f), 'kwargs': to_pairs(k)})
        outs = ctx.driver.outs(reqs)
        for (d, f, k), m in zip(cases, outs):
            impl = deep_update(json.loads(json.dumps(d)), deep_update(json.loads(json.dumps(f)), json.loads(json.dumps(k))))
            ctx.case('ov:' + json.dumps([d, f, k], sort_keys=True), nontrivial=bool(f or k), sample={'d': d, 'f': f, 'k': k} if len(ctx.samples) < 8 else None)
            want = ref_overlay(json.loads(json.dumps(d)), ref_overlay(json.loads(json.dumps(f)), k))  # the association Config.load uses
            if impl != want:
                ctx.clause_fail('overlay_precedence', {'defaults': d, 'file': f, 'kwargs': k, 'impl': impl, 'expected': want},
                                detail='deep_update(defaults, deep_update(file, kwargs)) is not "defaults overlaid by the file '
                                       'overlaid by the keyword arguments" (a value set by a higher layer must win, whatever it is)')
            elif impl != from_pairs(m):
                ctx.diverge('deep_update: model vs implementation', {'defaults': d, 'file': f, 'kwargs': k, 'impl': impl, 'model': from_pairs(m)})
    finally:
        shutil.rmtree(tmp, ignore_errors=True)
    return ctx.finish(RULE, TRUSTED, ASSUME)


def clause_of(op, out):
    if op['op'] == 'mutate':
        return 'mutation_refused'
    if op['op'] == 'load':
        return 'failed_load_leaves_none' if out == 'err:already' else 'load_outcome'
    return 'get_reflects_state'


def reference_machine(ops, idstr, ids):
    """The property's three-state reference machine (none / active), written independently of the Lean model."""
    active = None
    out = []
    for o in ops:
        k = o['op']
        if k == 'load':
            st = STAGE.get(o.get('fail'))
            if st == 'file':
                out.append('err:read')
            elif st == 'fields':
                out.append('err:validation')
            elif active is not None:
                out.append('err:already')
            elif st == 'resolve':
                out.append('err:file_not_found')
            else:
                active = idstr[ids[json.dumps([o.get('kwargs', {}), o.get('file')], sort_keys=True)]]
                out.append(active)
        elif k in ('get', 'read'):
            out.append(active if active is not None else 'err:not_set')
        elif k == 'reset':
            active = None
            out.append('ok')
        elif k == 'mutate':
            out.append('err:frozen' if active is not None else 'err:not_set')
    return out


def shrink(rc, ops, idstr, ids):
    def fails(c):
        rc.Config.reset()
        o = [rc.do(x) for x in c]
        rc.Config.reset()
        return o != reference_machine(c, idstr, ids)
    cur = list(ops)
    changed = True
    while changed:
        changed = False
        for i in range(len(cur)):
            c = cur[:i] + cur[i + 1:]
            if c and fails(c):
                cur = c
                changed = True
                break
    return cur


def replay(ctx, path):
    tmp = Path(tempfile.mkdtemp(prefix='aeicverif_c18_'))
    try:
        import sys

        sys.path.insert(0, str(REPO / 'src'))
        rc = RealConfig(tmp)
        j = json.loads(open(path).read())
        case = j.get('first', j).get('case', j)
        rc.Config.reset()
        bad = 0
        for o, e in zip(case['ops'], case.get('expected', [''] * len(case['ops']))):
            r = rc.do(o)
            print(o, '->', r[:70], '' if not e or r == e else f'   <-- expected {e[:40]}')
            bad += bool(e and r != e)
        rc.Config.reset()
        return 1 if bad else 0
    finally:
        shutil.rmtree(tmp, ignore_errors=True)
