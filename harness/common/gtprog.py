"""Translator for the index arithmetic of `GroundTrack` (C15): `trajectories/ground_track.py` ->
`lean/AeicModel/Generated/GroundTrackParams.lean` (generic definitions: `AeicModel/GeoSrc.lean`, theorems: `Properties/C15.lean`).

AST only. Reads

  lookup_waypoint   return bisect_left | bisect_right (self.index, distance)                               -> which bisect
  location          pos = self.lookup_waypoint(distance); the shortcuts `pos == 0` (first waypoint, azimuths[0]) and
                    `distance >= self.index[-1]` (last waypoint, azimuths[-1]); then
                    wp_before = self.waypoints[pos + a]; GEOD.fwd(wp_before.longitude, wp_before.latitude,
                    self.azimuths[pos + b], distance - self.index[pos + c]); wp_after = self.waypoints[pos + e];
                    GEOD.inv(lon, lat, wp_after.longitude, wp_after.latitude)                                -> a, b, c, e, direction
  _overstep         GEOD.fwd(self.waypoints[-k1].longitude, .latitude, self.azimuths[-k2], distance - self.index[-k3]);
                    GEOD.inv(self.waypoints[-k4].longitude, .latitude, lon, lat)                             -> k1..k4, direction

Anything else raises `GroundTrackTranslationError` (a broken obligation for C15).
"""
from __future__ import annotations

import ast

from . import LEAN_DIR, REPO

OUT = LEAN_DIR / 'AeicModel' / 'Generated' / 'GroundTrackParams.lean'


class GroundTrackTranslationError(Exception):
    pass


def _off(e: ast.AST, var: str) -> int:
    """`var + k` / `var - k` / `var` -> k"""
    if isinstance(e, ast.Name) and e.id == var:
        return 0
    if isinstance(e, ast.BinOp) and isinstance(e.op, (ast.Add, ast.Sub)) and isinstance(e.left, ast.Name) and e.left.id == var \
            and isinstance(e.right, ast.Constant) and isinstance(e.right.value, int):
        return e.right.value if isinstance(e.op, ast.Add) else -e.right.value
    raise GroundTrackTranslationError(f'`{ast.unparse(e)}` is not `{var} + k`')


def _neg(e: ast.AST) -> int:
    """`-k` -> k (an index from the end)"""
    if isinstance(e, ast.UnaryOp) and isinstance(e.op, ast.USub) and isinstance(e.operand, ast.Constant) and isinstance(e.operand.value, int):
        return e.operand.value
    raise GroundTrackTranslationError(f'`{ast.unparse(e)}` is not a constant index from the end')


def _self_sub(e: ast.AST, attr: str):
    """`self.<attr>[<slice>]` -> slice node"""
    if isinstance(e, ast.Subscript) and ast.unparse(e.value) == f'self.{attr}':
        return e.slice
    return None


def translate() -> tuple[str, dict]:
    tree = ast.parse((REPO / 'src' / 'AEIC' / 'trajectories' / 'ground_track.py').read_text())
    cls = next((n for n in tree.body if isinstance(n, ast.ClassDef) and n.name == 'GroundTrack'), None)
    if cls is None:
        raise GroundTrackTranslationError('class GroundTrack not found')
    M = {b.name: b for b in cls.body if isinstance(b, ast.FunctionDef)}
    P: dict = {}
    # lookup_waypoint
    lw = M.get('lookup_waypoint')
    ret = next((s for s in ast.walk(lw) if isinstance(s, ast.Return) and isinstance(s.value, ast.Call)), None) if lw else None
    if ret is None or ast.unparse(ret.value.func).split('.')[-1] not in ('bisect_left', 'bisect_right') \
            or len(ret.value.args) != 2 or ast.unparse(ret.value.args[0]) != 'self.index' or ast.unparse(ret.value.args[1]) != lw.args.args[1].arg:
        raise GroundTrackTranslationError('lookup_waypoint: not `return bisect_…(self.index, distance)`')
    P['left'] = ast.unparse(ret.value.func).split('.')[-1] == 'bisect_left'
    # location
    loc = M.get('location')
    if loc is None:
        raise GroundTrackTranslationError('GroundTrack.location not found')
    dvar = loc.args.args[1].arg
    pos_assign = next((s for s in loc.body if isinstance(s, ast.Assign) and isinstance(s.value, ast.Call)
                       and ast.unparse(s.value.func) == 'self.lookup_waypoint'), None)
    if pos_assign is None or ast.unparse(pos_assign.value.args[0]) != dvar:
        raise GroundTrackTranslationError('location: no `pos = self.lookup_waypoint(distance)`')
    pos = pos_assign.targets[0].id
    tests = [ast.unparse(s.test).replace(' ', '') for s in loc.body if isinstance(s, ast.If)]
    P['first_shortcut'] = f'{pos}==0' in tests
    P['last_shortcut'] = f'{dvar}>=self.index[-1]' in tests
    env: dict[str, ast.AST] = {}
    fwd = inv = None
    for s in loc.body:
        if isinstance(s, ast.Assign) and isinstance(s.targets[0], ast.Name):
            env[s.targets[0].id] = s.value
        if isinstance(s, ast.Assign) and isinstance(s.value, ast.Call) and ast.unparse(s.value.func).endswith('.fwd'):
            fwd = s
        if isinstance(s, ast.Assign) and isinstance(s.value, ast.Call) and ast.unparse(s.value.func).endswith('.inv'):
            inv = s
    if fwd is None or inv is None or len(fwd.value.args) != 4 or len(inv.value.args) != 4:
        raise GroundTrackTranslationError('location: the fwd / inv calls are not in the expected form')

    def wp_of(e: ast.AST):
        """`<name>.longitude` / `.latitude` with name bound to self.waypoints[…], or self.waypoints[…].longitude -> (slice, coord)"""
        if isinstance(e, ast.Attribute) and e.attr in ('longitude', 'latitude'):
            b = e.value
            if isinstance(b, ast.Name) and b.id in env:
                b = env[b.id]
            sl = _self_sub(b, 'waypoints')
            if sl is not None:
                return sl, e.attr
        return None

    a0, a1 = wp_of(fwd.value.args[0]), wp_of(fwd.value.args[1])
    if not (a0 and a1 and a0[1] == 'longitude' and a1[1] == 'latitude' and ast.unparse(a0[0]) == ast.unparse(a1[0])):
        raise GroundTrackTranslationError('location: fwd does not start at (waypoint.longitude, waypoint.latitude)')
    P['loc_wp'] = _off(a0[0], pos)
    az = _self_sub(fwd.value.args[2], 'azimuths')
    if az is None:
        raise GroundTrackTranslationError('location: fwd azimuth is not self.azimuths[…]')
    P['loc_az'] = _off(az, pos)
    dist = fwd.value.args[3]
    if not (isinstance(dist, ast.BinOp) and isinstance(dist.op, ast.Sub) and ast.unparse(dist.left) == dvar and _self_sub(dist.right, 'index') is not None):
        raise GroundTrackTranslationError('location: fwd distance is not `distance - self.index[…]`')
    P['loc_idx'] = _off(_self_sub(dist.right, 'index'), pos)
    outs = [t.id for t in fwd.targets[0].elts[:2]] if isinstance(fwd.targets[0], ast.Tuple) else []
    ia = [ast.unparse(x) for x in inv.value.args]
    b2, b3 = wp_of(inv.value.args[2]), wp_of(inv.value.args[3])
    if len(outs) == 2 and ia[0] == outs[0] and ia[1] == outs[1] and b2 and b3 and b2[1] == 'longitude' and b3[1] == 'latitude':
        P['loc_inv_forward'] = True
        P['loc_after'] = _off(b2[0], pos)
    else:
        raise GroundTrackTranslationError('location: inv is not (lon, lat) -> (waypoint after)')
    # _overstep
    ov = M.get('_overstep')
    if ov is None:
        raise GroundTrackTranslationError('GroundTrack._overstep not found')
    odvar = ov.args.args[1].arg
    fwd = next((s for s in ov.body if isinstance(s, ast.Assign) and isinstance(s.value, ast.Call) and ast.unparse(s.value.func).endswith('.fwd')), None)
    inv = next((s for s in ov.body if isinstance(s, ast.Assign) and isinstance(s.value, ast.Call) and ast.unparse(s.value.func).endswith('.inv')), None)
    if fwd is None or inv is None:
        raise GroundTrackTranslationError('_overstep: no fwd / inv calls')
    env = {}
    a0, a1 = wp_of(fwd.value.args[0]), wp_of(fwd.value.args[1])
    if not (a0 and a1 and ast.unparse(a0[0]) == ast.unparse(a1[0])):
        raise GroundTrackTranslationError('_overstep: fwd does not start at a waypoint')
    P['ov_wp'] = _neg(a0[0])
    az = _self_sub(fwd.value.args[2], 'azimuths')
    P['ov_az'] = _neg(az) if az is not None else None
    dist = fwd.value.args[3]
    if not (isinstance(dist, ast.BinOp) and isinstance(dist.op, ast.Sub) and ast.unparse(dist.left) == odvar and _self_sub(dist.right, 'index') is not None):
        raise GroundTrackTranslationError('_overstep: fwd distance is not `distance - self.index[…]`')
    P['ov_idx'] = _neg(_self_sub(dist.right, 'index'))
    outs = [t.id for t in fwd.targets[0].elts[:2]] if isinstance(fwd.targets[0], ast.Tuple) else []
    b0, b1 = wp_of(inv.value.args[0]), wp_of(inv.value.args[1])
    ia = [ast.unparse(x) for x in inv.value.args]
    if b0 and b1 and len(outs) == 2 and ia[2] == outs[0] and ia[3] == outs[1]:
        P['ov_inv_from_waypoint'] = True
        P['ov_from'] = _neg(b0[0])
    else:
        raise GroundTrackTranslationError('_overstep: inv is not (waypoint) -> (lon, lat)')
    if P['ov_az'] is None:
        raise GroundTrackTranslationError('_overstep: fwd azimuth is not self.azimuths[-k]')
    b = lambda x: 'true' if x else 'false'  # noqa: E731
    text = ('/- GENERATED by harness/common/gtprog.py from /repo\'s working tree (trajectories/ground_track.py) on every check run.\n'
            '   Do not edit. -/\nnamespace Aeic.Gen\n\n'
            f'def gtBisectLeft : Bool := {b(P["left"])}\n'
            f'def gtFirstShortcut : Bool := {b(P["first_shortcut"])}\ndef gtLastShortcut : Bool := {b(P["last_shortcut"])}\n'
            f'/-- `location`: fwd from `waypoints[pos + gtLocWp]` along `azimuths[pos + gtLocAz]` by `distance - index[pos + gtLocIdx]`,\n'
            f'    then inv from the new point to `waypoints[pos + gtLocAfter]` -/\n'
            f'def gtLocWp : Int := {P["loc_wp"]}\ndef gtLocAz : Int := {P["loc_az"]}\ndef gtLocIdx : Int := {P["loc_idx"]}\n'
            f'def gtLocAfter : Int := {P["loc_after"]}\ndef gtLocInvForward : Bool := {b(P["loc_inv_forward"])}\n'
            f'/-- `_overstep`: fwd from `waypoints[-gtOvWp]` along `azimuths[-gtOvAz]` by `distance - index[-gtOvIdx]`, then inv from\n'
            f'    `waypoints[-gtOvFrom]` to the new point -/\n'
            f'def gtOvWp : Nat := {P["ov_wp"]}\ndef gtOvAz : Nat := {P["ov_az"]}\ndef gtOvIdx : Nat := {P["ov_idx"]}\n'
            f'def gtOvFrom : Nat := {P["ov_from"]}\ndef gtOvInvFromWaypoint : Bool := {b(P["ov_inv_from_waypoint"])}\n\nend Aeic.Gen\n')
    return text, P


def regenerate() -> dict:
    text, P = translate()
    OUT.parent.mkdir(parents=True, exist_ok=True)
    if not OUT.exists() or OUT.read_text() != text:
        OUT.write_text(text)
    return P
