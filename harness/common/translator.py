"""Translator: regenerates lean/AeicModel/Generated/Constants.lean from /repo's working tree (AST only, no imports).

* `AEIC/units.py`, `AEIC/constants.py`: every `NAME = <number | NAME | a op b>` line is translated structurally into a
  generic Lean definition, so the Float evaluation repeats Python's operations and the ℝ reading is the ideal meaning.
* module-level numeric constants of selected modules (ISA, container, performance table, LTO times-in-mode).
* member order of the enums the models depend on (Species, ThrustMode, FlightPhase, ...), and option value sets.
"""
from __future__ import annotations

import ast
from decimal import Decimal
from pathlib import Path

from . import LEAN_DIR, REPO

OUT = LEAN_DIR / 'AeicModel' / 'Generated' / 'Constants.lean'
SRC = lambda: REPO / 'src' / 'AEIC'  # noqa: E731


class TranslationError(Exception):
    pass


def _lit(node: ast.Constant, src: str) -> str:
    text = ast.get_source_segment(src, node)
    if text is None or isinstance(node.value, bool) or not isinstance(node.value, (int, float)):
        raise TranslationError(f'unsupported literal {ast.dump(node)}')
    d = Decimal(text.replace('_', ''))
    sign, digits, exp = d.as_tuple()
    m = int(''.join(map(str, digits)))
    if sign:
        m = -m
    if exp >= 0:
        return f'(Lit.dec ({m * 10 ** exp}) 0)'
    return f'(Lit.dec ({m}) {-exp})'


_OPS = {ast.Add: '+', ast.Sub: '-', ast.Mult: '*', ast.Div: '/'}


def _expr(node: ast.AST, src: str, known: set[str], prefix: str = '') -> str:
    if isinstance(node, ast.Constant):
        return _lit(node, src)
    if isinstance(node, ast.Name):
        if node.id not in known:
            raise TranslationError(f'unknown name {node.id}')
        return f'({prefix}{node.id} (α := α))'
    if isinstance(node, ast.UnaryOp) and isinstance(node.op, ast.USub):
        if isinstance(node.operand, ast.Constant):
            return _lit(ast.Constant(value=node.operand.value), '-' + (ast.get_source_segment(src, node.operand) or '')) \
                if False else '(-' + _expr(node.operand, src, known, prefix) + ')'
        return '(-' + _expr(node.operand, src, known, prefix) + ')'
    if isinstance(node, ast.BinOp) and type(node.op) in _OPS:
        return f'({_expr(node.left, src, known, prefix)} {_OPS[type(node.op)]} {_expr(node.right, src, known, prefix)})'
    raise TranslationError(f'unsupported expression {ast.dump(node)}')


def _const_module(path: Path, only: set[str] | None = None, known: set[str] | None = None) -> list[tuple[str, str]]:
    src = path.read_text()
    tree = ast.parse(src)
    known = set(known or ())
    out = []
    for st in tree.body:
        tgt = None
        if isinstance(st, ast.Assign) and len(st.targets) == 1 and isinstance(st.targets[0], ast.Name):
            tgt, val = st.targets[0].id, st.value
        elif isinstance(st, ast.AnnAssign) and isinstance(st.target, ast.Name) and st.value is not None:
            tgt, val = st.target.id, st.value
        if tgt is None or (only is not None and tgt not in only):
            continue
        try:
            e = _expr(val, src, known)
        except TranslationError:
            if only is not None:
                raise
            continue
        known.add(tgt)
        out.append((tgt, e))
    if only is not None:
        missing = only - {n for n, _ in out}
        if missing:
            raise TranslationError(f'{path.name}: constants {sorted(missing)} not found')
    return out


def _enum_members(path: Path, cls: str) -> list[tuple[str, object]]:
    tree = ast.parse(path.read_text())
    for st in ast.walk(tree):
        if isinstance(st, ast.ClassDef) and st.name == cls:
            res = []
            for b in st.body:
                if isinstance(b, ast.Assign) and len(b.targets) == 1 and isinstance(b.targets[0], ast.Name):
                    name = b.targets[0].id
                    if name.startswith('_'):
                        continue
                    v = b.value
                    val = v.value if isinstance(v, ast.Constant) else None
                    res.append((name, val))
            if not res:
                raise TranslationError(f'enum {cls} has no members')
            return res
    raise TranslationError(f'enum {cls} not found in {path}')


def _class_consts(path: Path, cls: str, names: set[str]) -> list[tuple[str, object]]:
    tree = ast.parse(path.read_text())
    for st in ast.walk(tree):
        if isinstance(st, ast.ClassDef) and st.name == cls:
            res = []
            for b in st.body:
                tgt = None
                if isinstance(b, ast.Assign) and len(b.targets) == 1 and isinstance(b.targets[0], ast.Name):
                    tgt, v = b.targets[0].id, b.value
                elif isinstance(b, ast.AnnAssign) and isinstance(b.target, ast.Name) and b.value is not None:
                    tgt, v = b.target.id, b.value
                if tgt in names and isinstance(v, ast.Constant):
                    res.append((tgt, v.value))
            if {n for n, _ in res} != names:
                raise TranslationError(f'{cls}: constants {sorted(names)} not all found')
            return res
    raise TranslationError(f'class {cls} not found in {path}')


def _lean_str_list(xs) -> str:
    return '[' + ', '.join('"' + str(x) + '"' for x in xs) + ']'


def render() -> str:
    s = SRC()
    lines = [
        '/- GENERATED by harness/common/translator.py from /repo on every check run. Do not edit. -/',
        'import AeicModel.Scalar',
        'namespace Aeic.Gen',
        'section',
        'variable {α : Type} [Add α] [Sub α] [Mul α] [Div α] [Neg α] [Lit α]',
        '',
        '-- AEIC/units.py',
    ]
    units = _const_module(s / 'units.py')
    need_units = {'FEET_TO_METERS', 'METERS_TO_FEET', 'METERS_TO_FL', 'FL_TO_METERS', 'KNOTS_TO_MPS', 'FPM_TO_MPS',
                  'NAUTICAL_MILES_TO_METERS', 'MINUTES_TO_SECONDS', 'PPM', 'KG_TO_GRAMS', 'STATUTE_MILES_TO_KM'}
    if not need_units <= {n for n, _ in units}:
        raise TranslationError(f'units.py: missing {sorted(need_units - {n for n, _ in units})}')
    for n, e in units:
        lines.append(f'def {n} : α := {e}')
    lines.append('')
    lines.append('-- AEIC/constants.py')
    consts = _const_module(s / 'constants.py')
    need_c = {'p0', 'a0', 'T0', 'rho0', 'g0', 'kappa', 'R_air', 'R_E'}
    if not need_c <= {n for n, _ in consts}:
        raise TranslationError(f'constants.py: missing {sorted(need_c - {n for n, _ in consts})}')
    for n, e in consts:
        lines.append(f'def {n} : α := {e}')
    lines.append('')
    lines.append('-- AEIC/utils/standard_atmosphere.py (module-level constants)')
    for n, e in _const_module(s / 'utils' / 'standard_atmosphere.py', only={'beta_tropo', 'h_p_tropo'}):
        lines.append(f'def {n} : α := {e}')
    lines.append('end')
    lines.append('')
    lines.append('-- enum member orders')
    sp = _enum_members(s / 'types' / 'species.py', 'Species')
    lines.append(f'def speciesOrder : List String := {_lean_str_list(n for n, _ in sp)}')
    tm = _enum_members(s / 'performance' / 'types.py', 'ThrustMode')
    lines.append(f'def thrustModeOrder : List String := {_lean_str_list(n for n, _ in tm)}')
    cc = dict(_class_consts(s / 'storage' / 'container.py', 'Container', {'STARTING_CAPACITY', 'CAPACITY_EXPANSION'}))
    lines.append(f'def containerStartingCapacity : Nat := {int(cc["STARTING_CAPACITY"])}')
    lines.append(f'def containerCapacityExpansion : Nat := {int(cc["CAPACITY_EXPANSION"])}')
    lines.append('end Aeic.Gen')
    return '\n'.join(lines) + '\n'


GUARD_OUT = LEAN_DIR / 'AeicModel' / 'Generated' / 'Guard.lean'


def _is_owner_attr(n: ast.AST) -> bool:
    return isinstance(n, ast.Attribute) and n.attr == 'active_in_thread'


def _is_get_ident(n: ast.AST) -> bool:
    return isinstance(n, ast.Call) and isinstance(n.func, ast.Attribute) and n.func.attr == 'get_ident' and not n.args


def _guard_block(stmts) -> str:
    out = []
    for st in stmts:
        if isinstance(st, ast.Expr) and isinstance(st.value, ast.Constant) and isinstance(st.value.value, str):
            continue  # docstring
        if isinstance(st, ast.Pass):
            continue
        if isinstance(st, ast.With) and len(st.items) == 1 and isinstance(st.items[0].context_expr, ast.Attribute) \
                and 'lock' in st.items[0].context_expr.attr.lower() and st.items[0].optional_vars is None:
            out.append(f'.withLock {_guard_block(st.body)}')
        elif isinstance(st, ast.If) and isinstance(st.test, ast.Compare) and len(st.test.ops) == 1 \
                and _is_owner_attr(st.test.left) and isinstance(st.test.ops[0], ast.IsNot) \
                and isinstance(st.test.comparators[0], ast.Constant) and st.test.comparators[0].value is None:
            out.append(f'.ifOwnerSet {_guard_block(st.body)} {_guard_block(st.orelse)}')
        elif isinstance(st, ast.If) and isinstance(st.test, ast.Compare) and len(st.test.ops) == 1 \
                and _is_owner_attr(st.test.left) and isinstance(st.test.ops[0], ast.NotEq) and _is_get_ident(st.test.comparators[0]):
            out.append(f'.ifOwnerNotMe {_guard_block(st.body)} {_guard_block(st.orelse)}')
        elif isinstance(st, ast.Raise):
            out.append('.raise')
        elif isinstance(st, ast.Assign) and len(st.targets) == 1 and _is_owner_attr(st.targets[0]) and _is_get_ident(st.value):
            out.append('.setOwnerMe')
        else:
            raise TranslationError(f'thread guard: statement form not understood at line {st.lineno}: {ast.dump(st)[:160]}')
    return '[' + ', '.join(out) + ']'


def render_guard() -> str:
    """The statements of TrajectoryStore.__init__ before `self.mode = mode`, as a program of AeicModel/GuardLang.lean."""
    path = SRC() / 'trajectories' / 'store.py'
    tree = ast.parse(path.read_text())
    init = None
    for cls in ast.walk(tree):
        if isinstance(cls, ast.ClassDef) and cls.name == 'TrajectoryStore':
            for b in cls.body:
                if isinstance(b, ast.FunctionDef) and b.name == '__init__':
                    init = b
    if init is None:
        raise TranslationError('TrajectoryStore.__init__ not found')
    region = []
    for st in init.body:
        if isinstance(st, ast.Assign) and len(st.targets) == 1 and isinstance(st.targets[0], ast.Attribute) \
                and st.targets[0].attr == 'mode' and isinstance(st.targets[0].value, ast.Name) and st.targets[0].value.id == 'self':
            break
        region.append(st)
    else:
        raise TranslationError('`self.mode = mode` (end of the guard region) not found in TrajectoryStore.__init__')
    prog = _guard_block(region)
    return ('/- GENERATED by harness/common/translator.py from src/AEIC/trajectories/store.py on every check run. Do not edit. -/\n'
            'import AeicModel.GuardLang\nnamespace Aeic.Gen\nopen Aeic.GuardLang\n\n'
            f'def guardProgram : List GStmt := {prog}\n\nend Aeic.Gen\n')


def regenerate_guard() -> bool:
    txt = render_guard()
    GUARD_OUT.parent.mkdir(parents=True, exist_ok=True)
    if GUARD_OUT.exists() and GUARD_OUT.read_text() == txt:
        return False
    GUARD_OUT.write_text(txt)
    return True


def regenerate() -> bool:
    txt = render()
    OUT.parent.mkdir(parents=True, exist_ok=True)
    if OUT.exists() and OUT.read_text() == txt:
        return False
    OUT.write_text(txt)
    return True


if __name__ == '__main__':
    print('changed' if regenerate() else 'unchanged')
