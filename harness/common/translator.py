"""Translator: regenerates lean/AeicModel/Generated/Constants.lean from /repo's working tree (AST only, no imports).

* `AEIC/units.py`, `AEIC/constants.py`: every `NAME = <number | NAME | a op b>` line is translated structurally into a
  generic Lean definition, so the Float evaluation repeats Python's operations and the ℝ reading is the ideal meaning.
* module-level numeric constants of selected modules (ISA, container, performance table, LTO times-in-mode).
* member order of the enums the models depend on (Species, ThrustMode, FlightPhase, ...), and option value sets.
"""
from __future__ import annotations

import ast
from decimal import Decimal
from pathlib import Path

from . import LEAN_DIR, REPO

OUT = LEAN_DIR / 'AeicModel' / 'Generated' / 'Constants.lean'
SRC = lambda: REPO / 'src' / 'AEIC'  # noqa: E731


class TranslationError(Exception):
    pass


def _lit(node: ast.Constant, src: str) -> str:
    text = ast.get_source_segment(src, node)
    if text is None or isinstance(node.value, bool) or not isinstance(node.value, (int, float)):
        raise TranslationError(f'unsupported literal {ast.dump(node)}')
    d = Decimal(text.replace('_', ''))
    sign, digits, exp = d.as_tuple()
    m = int(''.join(map(str, digits)))
    if sign:
        m = -m
    if exp >= 0:
        return f'(Lit.dec ({m * 10 ** exp}) 0)'
    return f'(Lit.dec ({m}) {-exp})'


_OPS = {ast.Add: '+', ast.Sub: '-', ast.Mult: '*', ast.Div: '/'}


def _expr(node: ast.AST, src: str, known: set[str], prefix: str = '') -> str:
    if isinstance(node, ast.Constant):
        return _lit(node, src)
    if isinstance(node, ast.Name):
        if node.id not in known:
            raise TranslationError(f'unknown name {node.id}')
        return f'({prefix}{node.id} (α := α))'
    if isinstance(node, ast.UnaryOp) and isinstance(node.op, ast.USub):
        if isinstance(node.operand, ast.Constant):
            return _lit(ast.Constant(value=node.operand.value), '-' + (ast.get_source_segment(src, node.operand) or '')) \
                if False else '(-' + _expr(node.operand, src, known, prefix) + ')'
        return '(-' + _expr(node.operand, src, known, prefix) + ')'
    if isinstance(node, ast.BinOp) and type(node.op) in _OPS:
        return f'({_expr(node.left, src, known, prefix)} {_OPS[type(node.op)]} {_expr(node.right, src, known, prefix)})'
    raise TranslationError(f'unsupported expression {ast.dump(node)}')


def _const_module(path: Path, only: set[str] | None = None, known: set[str] | None = None) -> list[tuple[str, str]]:
    src = path.read_text()
    tree = ast.parse(src)
    known = set(known or ())
    out = []
    for st in tree.body:
        tgt = None
        if isinstance(st, ast.Assign) and len(st.targets) == 1 and isinstance(st.targets[0], ast.Name):
            tgt, val = st.targets[0].id, st.value
        elif isinstance(st, ast.AnnAssign) and isinstance(st.target, ast.Name) and st.value is not None:
            tgt, val = st.target.id, st.value
        if tgt is None or (only is not None and tgt not in only):
            continue
        try:
            e = _expr(val, src, known)
        except TranslationError:
            if only is not None:
                raise
            continue
        known.add(tgt)
        out.append((tgt, e))
    if only is not None:
        missing = only - {n for n, _ in out}
        if missing:
            raise TranslationError(f'{path.name}: constants {sorted(missing)} not found')
    return out


def _enum_members(path: Path, cls: str) -> list[tuple[str, object]]:
    tree = ast.parse(path.read_text())
    for st in ast.walk(tree):
        if isinstance(st, ast.ClassDef) and st.name == cls:
            res = []
            for b in st.body:
                if isinstance(b, ast.Assign) and len(b.targets) == 1 and isinstance(b.targets[0], ast.Name):
                    name = b.targets[0].id
                    if name.startswith('_'):
                        continue
                    v = b.value
                    val = v.value if isinstance(v, ast.Constant) else None
                    res.append((name, val))
            if not res:
                raise TranslationError(f'enum {cls} has no members')
            return res
    raise TranslationError(f'enum {cls} not found in {path}')


def _class_consts(path: Path, cls: str, names: set[str]) -> list[tuple[str, object]]:
    tree = ast.parse(path.read_text())
    for st in ast.walk(tree):
        if isinstance(st, ast.ClassDef) and st.name == cls:
            res = []
            for b in st.body:
                tgt = None
                if isinstance(b, ast.Assign) and len(b.targets) == 1 and isinstance(b.targets[0], ast.Name):
                    tgt, v = b.targets[0].id, b.value
                elif isinstance(b, ast.AnnAssign) and isinstance(b.target, ast.Name) and b.value is not None:
                    tgt, v = b.target.id, b.value
                if tgt in names and isinstance(v, ast.Constant):
                    res.append((tgt, v.value))
            if {n for n, _ in res} != names:
                raise TranslationError(f'{cls}: constants {sorted(names)} not all found')
            return res
    raise TranslationError(f'class {cls} not found in {path}')


def _lean_str_list(xs) -> str:
    return '[' + ', '.join('"' + str(x) + '"' for x in xs) + ']'


def render() -> str:
    s = SRC()
    lines = [
        '/- GENERATED by harness/common/translator.py from /repo on every check run. Do not edit. -/',
        'import AeicModel.Scalar',
        'namespace Aeic.Gen',
        'section',
        'variable {α : Type} [Add α] [Sub α] [Mul α] [Div α] [Neg α] [Lit α]',
        '',
        '-- AEIC/units.py',
    ]
    units = _const_module(s / 'units.py')
    need_units = {'FEET_TO_METERS', 'METERS_TO_FEET', 'METERS_TO_FL', 'FL_TO_METERS', 'KNOTS_TO_MPS', 'FPM_TO_MPS',
                  'NAUTICAL_MILES_TO_METERS', 'MINUTES_TO_SECONDS', 'PPM', 'KG_TO_GRAMS', 'STATUTE_MILES_TO_KM'}
    if not need_units <= {n for n, _ in units}:
        raise TranslationError(f'units.py: missing {sorted(need_units - {n for n, _ in units})}')
    for n, e in units:
        lines.append(f'def {n} : α := {e}')
    lines.append('')
    lines.append('-- AEIC/constants.py')
    consts = _const_module(s / 'constants.py')
    need_c = {'p0', 'a0', 'T0', 'rho0', 'g0', 'kappa', 'R_air', 'R_E'}
    if not need_c <= {n for n, _ in consts}:
        raise TranslationError(f'constants.py: missing {sorted(need_c - {n for n, _ in consts})}')
    for n, e in consts:
        lines.append(f'def {n} : α := {e}')
    lines.append('')
    lines.append('-- AEIC/utils/standard_atmosphere.py (module-level constants)')
    for n, e in _const_module(s / 'utils' / 'standard_atmosphere.py', only={'beta_tropo', 'h_p_tropo'}):
        lines.append(f'def {n} : α := {e}')
    lines.append('end')
    lines.append('')
    lines.append('-- enum member orders')
    sp = _enum_members(s / 'types' / 'species.py', 'Species')
    lines.append(f'def speciesOrder : List String := {_lean_str_list(n for n, _ in sp)}')
    tm = _enum_members(s / 'performance' / 'types.py', 'ThrustMode')
    lines.append(f'def thrustModeOrder : List String := {_lean_str_list(n for n, _ in tm)}')
    cc = dict(_class_consts(s / 'storage' / 'container.py', 'Container', {'STARTING_CAPACITY', 'CAPACITY_EXPANSION'}))
    lines.append(f'def containerStartingCapacity : Nat := {int(cc["STARTING_CAPACITY"])}')
    lines.append(f'def containerCapacityExpansion : Nat := {int(cc["CAPACITY_EXPANSION"])}')
    lines.append('end Aeic.Gen')
    return '\n'.join(lines) + '\n'


def regenerate() -> bool:
    txt = render()
    OUT.parent.mkdir(parents=True, exist_ok=True)
    if OUT.exists() and OUT.read_text() == txt:
        return False
    OUT.write_text(txt)
    return True


if __name__ == '__main__':
    print('changed' if regenerate() else 'unchanged')
