"""Translator: regenerates lean/AeicModel/Generated/Constants.lean from /repo's working tree (AST only, no imports).

* `AEIC/units.py`, `AEIC/constants.py`: every `NAME = <number | NAME | a op b>` line is translated structurally into a
  generic Lean definition, so the Float evaluation repeats Python's operations and the ℝ reading is the ideal meaning.
* module-level numeric constants of selected modules (ISA, container, performance table, LTO times-in-mode).
* member order of the enums the models depend on (Species, ThrustMode, FlightPhase, ...), and option value sets.
"""
from __future__ import annotations

import ast
from decimal import Decimal
from pathlib import Path

from . import LEAN_DIR, REPO

OUT = LEAN_DIR / 'AeicModel' / 'Generated' / 'Constants.lean'
SRC = lambda: REPO / 'src' / 'AEIC'  # noqa: E731


class TranslationError(Exception):
    pass


def _lit(node: ast.Constant, src: str) -> str:
    text = ast.get_source_segment(src, node)
    if text is None or isinstance(node.value, bool) or not isinstance(node.value, (int, float)):
        raise TranslationError(f'unsupported literal {ast.dump(node)}')
    d = Decimal(text.replace('_', ''))
    sign, digits, exp = d.as_tuple()
    m = int(''.join(map(str, digits)))
    if sign:
        m = -m
    if exp >= 0:
        return f'(Lit.dec ({m * 10 ** exp}) 0)'
    return f'(Lit.dec ({m}) {-exp})'


_OPS = {ast.Add: '+', ast.Sub: '-', ast.Mult: '*', ast.Div: '/'}


def _expr(node: ast.AST, src: str, known: set[str], prefix: str = '') -> str:
    if isinstance(node, ast.Constant):
        return _lit(node, src)
    if isinstance(node, ast.Name):
        if node.id not in known:
            raise TranslationError(f'unknown name {node.id}')
        return f'({prefix}{node.id} (α := α))'
    if isinstance(node, ast.UnaryOp) and isinstance(node.op, ast.USub):
        if isinstance(node.operand, ast.Constant):
            return _lit(ast.Constant(value=node.operand.value), '-' + (ast.get_source_segment(src, node.operand) or '')) \
                if False else '(-' + _expr(node.operand, src, known, prefix) + ')'
        return '(-' + _expr(node.operand, src, known, prefix) + ')'
    if isinstance(node, ast.BinOp) and type(node.op) in _OPS:
        return f'({_expr(node.left, src, known, prefix)} {_OPS[type(node.op)]} {_expr(node.right, src, known, prefix)})'
    raise TranslationError(f'unsupported expression {ast.dump(node)}')


def _const_module(path: Path, only: set[str] | None = None, known: set[str] | None = None) -> list[tuple[str, str]]:
    src = path.read_text()
    tree = ast.parse(src)
    known = set(known or ())
    out = []
    for st in tree.body:
        tgt = None
        if isinstance(st, ast.Assign) and len(st.targets) == 1 and isinstance(st.targets[0], ast.Name):
            tgt, val = st.targets[0].id, st.value
        elif isinstance(st, ast.AnnAssign) and isinstance(st.target, ast.Name) and st.value is not None:
            tgt, val = st.target.id, st.value
        if tgt is None or (only is not None and tgt not in only):
            continue
        try:
            e = _expr(val, src, known)
        except TranslationError:
            if only is not None:
                raise
            continue
        known.add(tgt)
        out.append((tgt, e))
    if only is not None:
        missing = only - {n for n, _ in out}
        if missing:
            raise TranslationError(f'{path.name}: constants {sorted(missing)} not found')
    return out


def _enum_members(path: Path, cls: str) -> list[tuple[str, object]]:
    tree = ast.parse(path.read_text())
    for st in ast.walk(tree):
        if isinstance(st, ast.ClassDef) and st.name == cls:
            res = []
            for b in st.body:
                if isinstance(b, ast.Assign) and len(b.targets) == 1 and isinstance(b.targets[0], ast.Name):
                    name = b.targets[0].id
                    if name.startswith('_'):
                        continue
                    v = b.value
                    val = v.value if isinstance(v, ast.Constant) else None
                    res.append((name, val))
            if not res:
                raise TranslationError(f'enum {cls} has no members')
            return res
    raise TranslationError(f'enum {cls} not found in {path}')


def _class_consts(path: Path, cls: str, names: set[str]) -> list[tuple[str, object]]:
    tree = ast.parse(path.read_text())
    for st in ast.walk(tree):
        if isinstance(st, ast.ClassDef) and st.name == cls:
            res = []
            for b in st.body:
                tgt = None
                if isinstance(b, ast.Assign) and len(b.targets) == 1 and isinstance(b.targets[0], ast.Name):
                    tgt, v = b.targets[0].id, b.value
                elif isinstance(b, ast.AnnAssign) and isinstance(b.target, ast.Name) and b.value is not None:
                    tgt, v = b.target.id, b.value
                if tgt in names and isinstance(v, ast.Constant):
                    res.append((tgt, v.value))
            if {n for n, _ in res} != names:
                raise TranslationError(f'{cls}: constants {sorted(names)} not all found')
            return res
    raise TranslationError(f'class {cls} not found in {path}')


def _lean_str_list(xs) -> str:
    return '[' + ', '.join('"' + str(x) + '"' for x in xs) + ']'


def render() -> str:
    s = SRC()
    lines = [
        '/- GENERATED by harness/common/translator.py from /repo on every check run. Do not edit. -/',
        'import AeicModel.Scalar',
        'namespace Aeic.Gen',
        'section',
        'variable {α : Type} [Add α] [Sub α] [Mul α] [Div α] [Neg α] [Lit α]',
        '',
        '-- AEIC/units.py',
    ]
    units = _const_module(s / 'units.py')
    need_units = {'FEET_TO_METERS', 'METERS_TO_FEET', 'METERS_TO_FL', 'FL_TO_METERS', 'KNOTS_TO_MPS', 'FPM_TO_MPS',
                  'NAUTICAL_MILES_TO_METERS', 'MINUTES_TO_SECONDS', 'PPM', 'KG_TO_GRAMS', 'STATUTE_MILES_TO_KM'}
    if not need_units <= {n for n, _ in units}:
        raise TranslationError(f'units.py: missing {sorted(need_units - {n for n, _ in units})}')
    for n, e in units:
        lines.append(f'def {n} : α := {e}')
    lines.append('')
    lines.append('-- AEIC/constants.py')
    consts = _const_module(s / 'constants.py')
    need_c = {'p0', 'a0', 'T0', 'rho0', 'g0', 'kappa', 'R_air', 'R_E'}
    if not need_c <= {n for n, _ in consts}:
        raise TranslationError(f'constants.py: missing {sorted(need_c - {n for n, _ in consts})}')
    for n, e in consts:
        lines.append(f'def {n} : α := {e}')
    lines.append('')
    lines.append('-- AEIC/utils/standard_atmosphere.py (module-level constants)')
    for n, e in _const_module(s / 'utils' / 'standard_atmosphere.py', only={'beta_tropo', 'h_p_tropo'}):
        lines.append(f'def {n} : α := {e}')
    lines.append('end')
    lines.append('')
    lines.append('-- enum member orders')
    sp = _enum_members(s / 'types' / 'species.py', 'Species')
    lines.append(f'def speciesOrder : List String := {_lean_str_list(n for n, _ in sp)}')
    tm = _enum_members(s / 'performance' / 'types.py', 'ThrustMode')
    lines.append(f'def thrustModeOrder : List String := {_lean_str_list(n for n, _ in tm)}')
    cc = dict(_class_consts(s / 'storage' / 'container.py', 'Container', {'STARTING_CAPACITY', 'CAPACITY_EXPANSION'}))
    lines.append(f'def containerStartingCapacity : Nat := {int(cc["STARTING_CAPACITY"])}')
    lines.append(f'def containerCapacityExpansion : Nat := {int(cc["CAPACITY_EXPANSION"])}')
    lines.append('end Aeic.Gen')
    return '\n'.join(lines) + '\n'


GUARD_OUT = LEAN_DIR / 'AeicModel' / 'Generated' / 'Guard.lean'
GUARD_REACH_OUT = LEAN_DIR / 'AeicModel' / 'Generated' / 'GuardReach.lean'

# ---------------------------------------------------------------------------------------------------------------------
# Thread-ownership code of TrajectoryStore.__init__  ->  program of AeicModel/GuardLang.lean
#
# What is translated: every statement of `__init__` (and, inlined, of the class's own helper methods it calls without
# arguments) that reads or writes `<Class>.active_in_thread`, takes or releases a class-level lock, or assigns a local
# that holds such a value. Reads of the shared attribute are hoisted into temporaries, one atomic instruction each.
# Statements that touch none of these are skipped (they cannot change who owns the stores); conditions on anything else
# and `try` bodies that may raise become nondeterministic choices; the end of the constructor may raise.
# A statement that does touch the ownership state in a form not understood is a TranslationError.
# ---------------------------------------------------------------------------------------------------------------------
OWNER = 'active_in_thread'

def is_owner_attr(n): return isinstance(n, ast.Attribute) and n.attr == OWNER
def is_lock_expr(n): return isinstance(n, ast.Attribute) and 'lock' in n.attr.lower()
def is_get_ident(n):
    return isinstance(n, ast.Call) and not n.args and not n.keywords and (
        (isinstance(n.func, ast.Attribute) and n.func.attr == 'get_ident') or (isinstance(n.func, ast.Name) and n.func.id == 'get_ident'))

class G:
    def __init__(self, cls: ast.ClassDef):
        self.cls = cls
        self.methods = {b.name: b for b in cls.body if isinstance(b, ast.FunctionDef)}
        self.locals: dict[str, int] = {}
        self.ntmp = 0
        self.inlining: list[str] = []

    # ---- relevance
    def relevant(self, node) -> bool:
        for n in ast.walk(node):
            if is_owner_attr(n) or is_lock_expr(n):
                return True
            if isinstance(n, ast.Name) and n.id in self.locals:
                return True
            if isinstance(n, ast.Call) and self.method_call(n) is not None and self.method_relevant(self.method_call(n)):
                return True
        return False

    def eliminate_returns(self, body, helper: str):
        """Early `return`s of an inlined helper (no value) are removed by the usual structured rewriting: a thread-local flag
        `__returned_<helper>` starts as None, `return` sets it (to the thread's own identifier: a value the guard language
        has), and the statements that follow a statement which may return run only while the flag is still None. The result is
        ordinary code for this translator (`with lock:` blocks are left through their normal exit, so the lock is released)."""
        flag = f'__returned_{helper}_{self.ntmp}'
        self.ntmp += 1

        def may_return(st):
            return any(isinstance(n, ast.Return) for n in ast.walk(st))

        def parse1(text):
            return ast.parse(text).body[0]

        def elim(stmts):
            out = []
            for i, st in enumerate(stmts):
                if isinstance(st, ast.Return):
                    if st.value is not None and not (isinstance(st.value, ast.Constant) and st.value.value is None):
                        raise TranslationError(f'helper {helper} returns a value at line {st.lineno}')
                    out.append(ast.copy_location(parse1(f'{flag} = threading.get_ident()'), st))
                    return out          # the rest of this block is unreachable
                if may_return(st):
                    if isinstance(st, ast.If):
                        new = ast.If(test=st.test, body=elim(st.body) or [ast.Pass()], orelse=elim(st.orelse))
                    elif isinstance(st, ast.With):
                        new = ast.With(items=st.items, body=elim(st.body) or [ast.Pass()])
                    else:
                        raise TranslationError(f'early return inside a {type(st).__name__} statement of helper {helper} at line {st.lineno}')
                    out.append(ast.fix_missing_locations(ast.copy_location(new, st)))
                    rest = elim(stmts[i + 1:])
                    if rest:
                        guard = ast.If(test=ast.parse(f'{flag} is None', mode='eval').body, body=rest, orelse=[])
                        out.append(ast.fix_missing_locations(ast.copy_location(guard, st)))
                    return out
                out.append(st)
            return out

        first = ast.copy_location(parse1(f'{flag} = None'), body[0])
        return [first] + elim(body)

    def method_call(self, call: ast.Call):
        f = call.func
        if isinstance(f, ast.Attribute) and isinstance(f.value, ast.Name) and f.value.id in ('self', 'cls', self.cls.name) \
                and f.attr in self.methods and f.attr != '__init__':
            return f.attr
        return None

    def method_relevant(self, name, seen=None) -> bool:
        seen = seen or set()
        if name in seen:
            return False
        seen.add(name)
        for n in ast.walk(self.methods[name]):
            if is_owner_attr(n) or is_lock_expr(n):
                return True
            if isinstance(n, ast.Call):
                m = self.method_call(n)
                if m is not None and self.method_relevant(m, seen):
                    return True
        return False

    # ---- expressions
    def loc(self, name: str) -> int:
        if name not in self.locals:
            self.locals[name] = len(self.locals)
        return self.locals[name]

    def tmp(self) -> int:
        self.ntmp += 1
        return self.loc(f'%t{self.ntmp}')

    def pexpr(self, e, pre: list) -> str:
        """pure expression; owner reads are hoisted into `pre` (in evaluation order)"""
        if isinstance(e, ast.Constant) and e.value is None:
            return '.none'
        if is_get_ident(e):
            return '.me'
        if is_owner_attr(e):
            t = self.tmp()
            pre.append(f'.readOwner {t}')
            return f'(.loc {t})'
        if isinstance(e, ast.Name) and e.id in self.locals:
            return f'(.loc {self.locals[e.id]})'
        raise TranslationError(f'expression not understood at line {getattr(e, "lineno", "?")}: {ast.dump(e)[:120]}')

    def cond(self, c, pre: list) -> str:
        if isinstance(c, ast.Constant) and c.value is True:
            return '.tt'
        if isinstance(c, ast.BoolOp):
            parts = [self.cond(v, pre) for v in c.values]
            op = '.and' if isinstance(c.op, ast.And) else '.or'
            r = parts[0]
            for p in parts[1:]:
                r = f'({op} {r} {p})'
            return r
        if isinstance(c, ast.UnaryOp) and isinstance(c.op, ast.Not):
            return f'(.not {self.cond(c.operand, pre)})'
        if isinstance(c, ast.Compare) and len(c.ops) == 1:
            op, a, b = c.ops[0], c.left, c.comparators[0]
            if isinstance(op, (ast.In, ast.NotIn)) and isinstance(b, (ast.Tuple, ast.List, ast.Set)) and b.elts:
                pa = self.pexpr(a, pre)
                alts = [f'(.eq {pa} {self.pexpr(x, pre)})' for x in b.elts]
                r = alts[0]
                for p in alts[1:]:
                    r = f'(.or {r} {p})'
                return r if isinstance(op, ast.In) else f'(.not {r})'
            if isinstance(op, (ast.Is, ast.Eq, ast.IsNot, ast.NotEq)):
                pa, pb = self.pexpr(a, pre), self.pexpr(b, pre)
                if pb == '.none':
                    r = f'(.isNone {pa})'
                elif pa == '.none':
                    r = f'(.isNone {pb})'
                else:
                    r = f'(.eq {pa} {pb})'
                return r if isinstance(op, (ast.Is, ast.Eq)) else f'(.not {r})'
        if isinstance(c, (ast.Name, ast.Attribute, ast.Call)):
            return f'(.truthy {self.pexpr(c, pre)})'
        raise TranslationError(f'condition not understood at line {getattr(c, "lineno", "?")}: {ast.dump(c)[:120]}')

    # ---- statements
    def block(self, stmts) -> list[str]:
        out: list[str] = []
        for st in stmts:
            out += self.stmt(st)
        return out

    def stmt(self, st) -> list[str]:
        if isinstance(st, ast.Expr) and isinstance(st.value, ast.Constant):
            return []
        if isinstance(st, ast.Pass):
            return []
        if isinstance(st, ast.Raise):
            return ['.raise']
        if isinstance(st, ast.Return) and st.value is None and self.inlining:
            raise TranslationError(f'early return inside an inlined helper at line {st.lineno}')
        if isinstance(st, ast.With) and len(st.items) == 1 and is_lock_expr(st.items[0].context_expr) and st.items[0].optional_vars is None:
            return [f'.withLock {fmt(self.block(st.body))}']
        if isinstance(st, ast.Expr) and isinstance(st.value, ast.Call):
            call = st.value
            f = call.func
            if isinstance(f, ast.Attribute) and f.attr in ('acquire', 'release') and is_lock_expr(f.value) and not call.args and not call.keywords:
                return ['.' + f.attr]
            m = self.method_call(call)
            if m is not None and self.method_relevant(m):
                if call.args or call.keywords:
                    raise TranslationError(f'helper {m} called with arguments at line {st.lineno}')
                if m in self.inlining:
                    raise TranslationError(f'recursive helper {m}')
                self.inlining.append(m)
                try:
                    body = list(self.methods[m].body)
                    if body and isinstance(body[-1], ast.Return) and body[-1].value is None:
                        body = body[:-1]
                    if any(isinstance(n, ast.Return) for b in body for n in ast.walk(b)):
                        body = self.eliminate_returns(body, m)
                    return self.block(body)
                finally:
                    self.inlining.pop()
        if isinstance(st, ast.Expr):
            # any other expression statement can only READ the owner attribute or tracked locals (logging, assertions on
            # values): it cannot change who owns the stores
            for n in ast.walk(st):
                if isinstance(n, ast.NamedExpr) or (isinstance(n, ast.Call) and isinstance(n.func, ast.Name) and n.func.id in ('setattr', 'delattr')):
                    raise TranslationError(f'thread guard: expression statement with side effects at line {st.lineno}')
                if isinstance(n, ast.Call) and isinstance(n.func, ast.Attribute) and is_lock_expr(n.func.value):
                    raise TranslationError(f'thread guard: lock operation not understood at line {st.lineno}: {ast.unparse(st)[:100]!r}')
            return []
        if isinstance(st, ast.Try):
            if not self.relevant(st):
                return []
            if any(self.relevant(x) for x in st.body) or st.finalbody or st.orelse:
                raise TranslationError(f'thread guard: try statement with guard code in its body/finally at line {st.lineno}')
            # the body does not touch the guard but may raise: each handler may run
            out = []
            for h in st.handlers:
                out.append(f'.choice [] {fmt(self.block(h.body))}')
            return out
        if isinstance(st, ast.If):
            if not self.relevant(st):
                return []
            test_relevant = any(is_owner_attr(n) or (isinstance(n, ast.Name) and n.id in self.locals) for n in ast.walk(st.test))
            if not test_relevant:
                # the condition is about something else (mode, arguments): either branch may be taken
                return [f'.choice {fmt(self.block(st.body))} {fmt(self.block(st.orelse))}']
            pre: list[str] = []
            c = self.cond(st.test, pre)
            return pre + [f'.ite {c} {fmt(self.block(st.body))} {fmt(self.block(st.orelse))}']
        if isinstance(st, (ast.Assign, ast.AnnAssign)):
            targets = st.targets if isinstance(st, ast.Assign) else [st.target]
            value = st.value
            if len(targets) == 1 and is_owner_attr(targets[0]):
                base = targets[0].value
                if not (isinstance(base, ast.Name) and base.id == self.cls.name):
                    raise TranslationError(f'line {st.lineno}: the owner is assigned through `{ast.unparse(base)}`, not through the class '
                                           f'`{self.cls.name}` (creates a shadowing attribute on a subclass or instance)')
                pre = []
                e = self.pexpr(value, pre)
                return pre + [f'.setOwner {e}']
            if len(targets) == 1 and isinstance(targets[0], ast.Name) and value is not None and \
                    (is_owner_attr(value) or is_get_ident(value) or (isinstance(value, ast.Constant) and value.value is None)
                     or (isinstance(value, ast.Name) and value.id in self.locals)):
                if is_owner_attr(value):
                    return [f'.readOwner {self.loc(targets[0].id)}']
                pre = []
                e = self.pexpr(value, pre)
                return pre + [f'.setLoc {self.loc(targets[0].id)} {e}']
        if self.relevant(st):
            raise TranslationError(f'thread guard: statement form not understood at line {st.lineno}: {ast.unparse(st)[:120]!r}')
        return []   # does not touch the owner attribute, the lock or a tracked local

def fmt(xs): return '[' + ', '.join(xs) + ']'



def guard_program_text() -> str:
    """The ownership code of TrajectoryStore.__init__ as a `List GStmt` literal."""
    path = SRC() / 'trajectories' / 'store.py'
    tree = ast.parse(path.read_text())
    cls = next((c for c in ast.walk(tree) if isinstance(c, ast.ClassDef) and c.name == 'TrajectoryStore'), None)
    if cls is None:
        raise TranslationError('class TrajectoryStore not found')
    g = G(cls)
    init = g.methods.get('__init__')
    if init is None:
        raise TranslationError('TrajectoryStore.__init__ not found')
    prog = g.block(init.body)
    if not prog:
        raise TranslationError('TrajectoryStore.__init__ contains no thread-ownership code at all')
    # whatever comes after (argument checks, opening files) may raise
    return fmt(prog + ['.choice [] [.raise]'])


CANONICAL_GUARD = ('[.withLock [.readOwner 0, .ite (.not (.isNone (.loc 0))) [.readOwner 1, .ite (.not (.eq (.loc 1) .me)) '
                   '[.raise] []] [.setOwner .me]], .choice [] [.raise]]')


def render_guard() -> str:
    prog = guard_program_text()
    return ('/- GENERATED by harness/common/translator.py from src/AEIC/trajectories/store.py on every check run. Do not edit. -/\n'
            'import AeicModel.GuardLang\nnamespace Aeic.Gen\nopen Aeic.GuardLang\n\n'
            f'def guardProgram : List GStmt := {prog}\n\nend Aeic.Gen\n')


def regenerate_guard() -> bool:
    """Writes Generated/Guard.lean (the program) and, when the program changed, Generated/GuardReach.lean (candidate
    invariant set computed by Scripts/GuardReachGen.lean; checked by the kernel in Properties/C20.lean)."""
    import hashlib
    import subprocess

    txt = render_guard()
    tag = hashlib.sha256(txt.encode()).hexdigest()[:16]
    GUARD_OUT.parent.mkdir(parents=True, exist_ok=True)
    changed = not (GUARD_OUT.exists() and GUARD_OUT.read_text() == txt)
    if changed:
        GUARD_OUT.write_text(txt)
    stale = not GUARD_REACH_OUT.exists() or f'-- program: {tag}' not in GUARD_REACH_OUT.read_text()[:400]
    if stale:
        r = subprocess.run(['lake', 'build', 'AeicModel.Generated.Guard'], cwd=LEAN_DIR, capture_output=True, text=True)
        if r.returncode != 0:
            raise TranslationError('generated guard program does not build: ' + (r.stdout + r.stderr)[-400:])
        r = subprocess.run(['lake', 'env', 'lean', '--run', 'Scripts/GuardReachGen.lean', tag], cwd=LEAN_DIR, capture_output=True, text=True)
        if r.returncode != 0 or 'def guardReach' not in r.stdout:
            raise TranslationError('reachable-set generation failed: ' + (r.stdout + r.stderr)[-400:])
        GUARD_REACH_OUT.write_text(r.stdout)
    return changed or stale


def guard_witness():
    """The model-level counterexample schedule printed by the generator, if the generated program is unsafe."""
    import json as _json
    if not GUARD_REACH_OUT.exists():
        return None
    for ln in GUARD_REACH_OUT.read_text()[:20000].splitlines()[:8]:
        if ln.startswith('-- WITNESS: '):
            return _json.loads(ln[len('-- WITNESS: '):])
    return None


def regenerate() -> bool:
    txt = render()
    OUT.parent.mkdir(parents=True, exist_ok=True)
    if OUT.exists() and OUT.read_text() == txt:
        return False
    OUT.write_text(txt)
    return True


if __name__ == '__main__':
    print('changed' if regenerate() else 'unchanged')
