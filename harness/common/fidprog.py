"""Translator for the flight-identifier lookup of `TrajectoryStore` (C08): `trajectories/store.py` ->
`lean/AeicModel/Generated/FlightLookup.lean` (generic definition: `AeicModel/FlightLookup.lean`, theorems: `Properties/C08.lean`).

AST only. Reads

  get_flight                   idx = bisect.bisect_left | bisect_right (<ids>, <the identifier parameter>)       -> which bisect
                               if idx >= len(<ids>) or <ids>[idx] != <identifier>: return None                   -> the two guards
                               return self[<indexes>[idx + s]]                                                   -> the offset s
  _reindex / _create_merged_store_index   whether the tables are built in the form `sorted(<pairs>, key=lambda x: x[1])` — informational
                               only: that the identifier column is sorted and the index column is the stable sort of the identifiers in
                               store order is validated on real stores (c08.trace_get_flight), whichever way the source spells it

The two guards of `get_flight` are read by their presence (a comparison of the position with the table length, a comparison of the
entry at the position with the identifier), in whatever arrangement; which way they decide is validated on real lookups.
A `get_flight` without a recognisable bisect / answer raises `FlightLookupTranslationError` (a broken obligation for C08).
"""
from __future__ import annotations

import ast

from . import LEAN_DIR, REPO

OUT = LEAN_DIR / 'AeicModel' / 'Generated' / 'FlightLookup.lean'


class FlightLookupTranslationError(Exception):
    pass


def _sorted_by_second(call: ast.AST, what: str) -> str:
    """`sorted(<pairs>, key=lambda x: x[1])` -> source text of <pairs>"""
    if not (isinstance(call, ast.Call) and ast.unparse(call.func) == 'sorted' and len(call.args) == 1):
        raise FlightLookupTranslationError(f'{what}: the table is not built with sorted(…)')
    kw = {k.arg: k.value for k in call.keywords}
    if set(kw) - {'key', 'reverse'} or 'key' not in kw:
        raise FlightLookupTranslationError(f'{what}: sorted(…) without a key, or with unknown arguments')
    if 'reverse' in kw and not (isinstance(kw['reverse'], ast.Constant) and kw['reverse'].value is False):
        raise FlightLookupTranslationError(f'{what}: sorted(…, reverse=…)')
    k = kw['key']
    ok = (isinstance(k, ast.Lambda) and len(k.args.args) == 1 and isinstance(k.body, ast.Subscript)
          and isinstance(k.body.value, ast.Name) and k.body.value.id == k.args.args[0].arg
          and isinstance(k.body.slice, ast.Constant) and k.body.slice.value == 1)
    if not ok:
        raise FlightLookupTranslationError(f'{what}: the sort key `{ast.unparse(k)}` is not the second component of the pair')
    return ast.unparse(call.args[0])


def translate() -> tuple[str, dict]:
    src = (REPO / 'src' / 'AEIC' / 'trajectories' / 'store.py').read_text()
    tree = ast.parse(src)
    cls = next((n for n in tree.body if isinstance(n, ast.ClassDef) and n.name == 'TrajectoryStore'), None)
    if cls is None:
        raise FlightLookupTranslationError('class TrajectoryStore not found')
    methods = {b.name: b for b in cls.body if isinstance(b, ast.FunctionDef)}
    P: dict = {}
    # ---- get_flight
    gf = methods.get('get_flight')
    if gf is None:
        raise FlightLookupTranslationError('TrajectoryStore.get_flight not found')
    idp = gf.args.args[1].arg
    bis = next((st for st in ast.walk(gf) if isinstance(st, ast.Assign) and isinstance(st.value, ast.Call)
                and ast.unparse(st.value.func).split('.')[-1] in ('bisect_left', 'bisect_right', 'bisect')), None)
    if bis is None or len(bis.value.args) != 2 or bis.value.keywords or not isinstance(bis.targets[0], ast.Name):
        raise FlightLookupTranslationError('get_flight: no `idx = bisect…(ids, id)` statement')
    if ast.unparse(bis.value.args[1]) != idp:
        raise FlightLookupTranslationError(f'get_flight: the needle `{ast.unparse(bis.value.args[1])}` is not the identifier `{idp}`')
    ivar, ids = bis.targets[0].id, ast.unparse(bis.value.args[0])
    P['left'] = ast.unparse(bis.value.func).split('.')[-1] == 'bisect_left'
    P['vars'] = (idp, ivar, ids)
    P['line'] = bis.lineno
    # the two guards: the position is compared with the length of the table, and the entry at the position with the identifier —
    # in whatever arrangement (one `if … or …: return None`, nested early returns, the positive test wrapping the answer); WHICH
    # way they decide is validated against real lookups (c08.trace_get_flight), here only their presence is read
    guard_len = guard_eq = False
    for x in ast.walk(gf):
        if isinstance(x, ast.Compare) and getattr(x, 'lineno', 0) > bis.lineno and len(x.ops) == 1:
            l, r = ast.unparse(x.left).replace(' ', ''), ast.unparse(x.comparators[0]).replace(' ', '')
            if {l, r} == {ivar, f'len({ids})'} and isinstance(x.ops[0], (ast.GtE, ast.Lt, ast.Eq, ast.NotEq, ast.LtE, ast.Gt)):
                guard_len = True
            if {l, r} == {f'{ids}[{ivar}]', idp} and isinstance(x.ops[0], (ast.Eq, ast.NotEq)):
                guard_eq = True
    P['guard_len'], P['guard_eq'] = guard_len, guard_eq
    ret = next((st for st in ast.walk(gf) if isinstance(st, ast.Return) and st.lineno > bis.lineno and st.value is not None
                and isinstance(st.value, ast.Subscript) and ast.unparse(st.value.value) == 'self'), None)
    if ret is None or not isinstance(ret.value.slice, ast.Subscript):
        raise FlightLookupTranslationError('get_flight: no `return self[<indexes>[idx]]`')
    sub = ret.value.slice.slice
    if isinstance(sub, ast.Name) and sub.id == ivar:
        P['shift'] = 0
    elif isinstance(sub, ast.BinOp) and isinstance(sub.op, (ast.Add, ast.Sub)) and ast.unparse(sub.left) == ivar \
            and isinstance(sub.right, ast.Constant) and isinstance(sub.right.value, int):
        P['shift'] = sub.right.value if isinstance(sub.op, ast.Add) else -sub.right.value
    else:
        raise FlightLookupTranslationError(f'get_flight: the position `{ast.unparse(sub)}` is not `{ivar} + s`')
    # ---- how the tables are built (informational: the tables themselves are validated against real stores, c08.trace_get_flight —
    # identifier column sorted, index column the stable sort of the identifiers in store order)
    def recognised(fn_name, pairs_prefix):
        fn = methods.get(fn_name)
        if fn is None:
            return False
        srt = next((st for st in ast.walk(fn) if isinstance(st, ast.Assign) and isinstance(st.value, ast.Call)
                    and ast.unparse(st.value.func) == 'sorted'), None)
        if srt is None:
            return False
        try:
            return _sorted_by_second(srt.value, fn_name).startswith(pairs_prefix)
        except FlightLookupTranslationError:
            return False

    P['table_recognised'] = recognised('_reindex', 'enumerate(')
    P['merged_recognised'] = recognised('_create_merged_store_index', 'zip(')
    b = lambda x: 'true' if x else 'false'  # noqa: E731
    text = ('/- GENERATED by harness/common/fidprog.py from /repo\'s working tree (trajectories/store.py: get_flight, _reindex,\n'
            '   _create_merged_store_index) on every check run. Do not edit. -/\nnamespace Aeic.Gen\n\n'
            f'/-- `bisect_left` (true) or `bisect_right` (false) on the sorted identifiers -/\ndef flBisectLeft : Bool := {b(P["left"])}\n'
            f'/-- `idx >= len(ids)` gives `None` -/\ndef flGuardLen : Bool := {b(P["guard_len"])}\n'
            f'/-- `ids[idx] != id` gives `None` -/\ndef flGuardEq : Bool := {b(P["guard_eq"])}\n'
            f'/-- the trajectory index is read at position `idx + flShift` -/\ndef flShift : Int := {P["shift"]}\n'
            '/-- (informational) `_reindex` builds its table as `sorted(enumerate(ids in file order), key = identifier)` -/\n'
            f'def flTableFormRecognised : Bool := {b(P["table_recognised"])}\n'
            '/-- (informational) the merged table is built as `sorted(zip(shifted indexes, ids), key = identifier)` -/\n'
            f'def flMergedFormRecognised : Bool := {b(P["merged_recognised"])}\n\nend Aeic.Gen\n')
    return text, P


def regenerate() -> dict:
    text, P = translate()
    OUT.parent.mkdir(parents=True, exist_ok=True)
    if not OUT.exists() or OUT.read_text() != text:
        OUT.write_text(text)
    return P
