"""Translator for the flight-identifier lookup of `TrajectoryStore` (C08): `trajectories/store.py` ->
`lean/AeicModel/Generated/FlightLookup.lean` (generic definition: `AeicModel/FlightLookup.lean`, theorems: `Properties/C08.lean`).

AST only. Reads

  get_flight                   idx = bisect.bisect_left | bisect_right (<ids>, <the identifier parameter>)       -> which bisect
                               if idx >= len(<ids>) or <ids>[idx] != <identifier>: return None                   -> the two guards
                               return self[<indexes>[idx + s]]                                                   -> the offset s
  _reindex                     sorted(enumerate(<ids>), key=lambda x: x[1]) (no reverse): the table is the (store index, identifier)
                               pairs in file order, stably sorted by identifier; ids / indexes written from the same pairs
  _create_merged_store_index   sorted(zip(<indexes>, <ids>), key=lambda x: x[1]); indexes shifted by `index_offset`, which grows
                               by `len(ts)` after each input

Anything else raises `FlightLookupTranslationError` (a broken obligation for C08).
"""
from __future__ import annotations

import ast

from . import LEAN_DIR, REPO

OUT = LEAN_DIR / 'AeicModel' / 'Generated' / 'FlightLookup.lean'


class FlightLookupTranslationError(Exception):
    pass


def _sorted_by_second(call: ast.AST, what: str) -> str:
    """`sorted(<pairs>, key=lambda x: x[1])` -> source text of <pairs>"""
    if not (isinstance(call, ast.Call) and ast.unparse(call.func) == 'sorted' and len(call.args) == 1):
        raise FlightLookupTranslationError(f'{what}: the table is not built with sorted(…)')
    kw = {k.arg: k.value for k in call.keywords}
    if set(kw) - {'key', 'reverse'} or 'key' not in kw:
        raise FlightLookupTranslationError(f'{what}: sorted(…) without a key, or with unknown arguments')
    if 'reverse' in kw and not (isinstance(kw['reverse'], ast.Constant) and kw['reverse'].value is False):
        raise FlightLookupTranslationError(f'{what}: sorted(…, reverse=…)')
    k = kw['key']
    ok = (isinstance(k, ast.Lambda) and len(k.args.args) == 1 and isinstance(k.body, ast.Subscript)
          and isinstance(k.body.value, ast.Name) and k.body.value.id == k.args.args[0].arg
          and isinstance(k.body.slice, ast.Constant) and k.body.slice.value == 1)
    if not ok:
        raise FlightLookupTranslationError(f'{what}: the sort key `{ast.unparse(k)}` is not the second component of the pair')
    return ast.unparse(call.args[0])


def translate() -> tuple[str, dict]:
    src = (REPO / 'src' / 'AEIC' / 'trajectories' / 'store.py').read_text()
    tree = ast.parse(src)
    cls = next((n for n in tree.body if isinstance(n, ast.ClassDef) and n.name == 'TrajectoryStore'), None)
    if cls is None:
        raise FlightLookupTranslationError('class TrajectoryStore not found')
    methods = {b.name: b for b in cls.body if isinstance(b, ast.FunctionDef)}
    P: dict = {}
    # ---- get_flight
    gf = methods.get('get_flight')
    if gf is None:
        raise FlightLookupTranslationError('TrajectoryStore.get_flight not found')
    idp = gf.args.args[1].arg
    bis = next((st for st in ast.walk(gf) if isinstance(st, ast.Assign) and isinstance(st.value, ast.Call)
                and ast.unparse(st.value.func).split('.')[-1] in ('bisect_left', 'bisect_right', 'bisect')), None)
    if bis is None or len(bis.value.args) != 2 or bis.value.keywords or not isinstance(bis.targets[0], ast.Name):
        raise FlightLookupTranslationError('get_flight: no `idx = bisect…(ids, id)` statement')
    if ast.unparse(bis.value.args[1]) != idp:
        raise FlightLookupTranslationError(f'get_flight: the needle `{ast.unparse(bis.value.args[1])}` is not the identifier `{idp}`')
    ivar, ids = bis.targets[0].id, ast.unparse(bis.value.args[0])
    P['left'] = ast.unparse(bis.value.func).split('.')[-1] == 'bisect_left'
    P['vars'] = (idp, ivar, ids)
    P['line'] = bis.lineno
    guard_len = guard_eq = False
    for st in ast.walk(gf):
        if isinstance(st, ast.If) and st.lineno > bis.lineno and any(isinstance(x, ast.Return) and (x.value is None or ast.unparse(x.value) == 'None') for x in st.body):
            parts = st.test.values if isinstance(st.test, ast.BoolOp) and isinstance(st.test.op, ast.Or) else [st.test]
            for t in parts:
                tx = ast.unparse(t).replace(' ', '')
                if tx == f'{ivar}>=len({ids})'.replace(' ', ''):
                    guard_len = True
                if tx in (f'{ids}[{ivar}]!={idp}'.replace(' ', ''), f'{idp}!={ids}[{ivar}]'.replace(' ', '')):
                    guard_eq = True
    P['guard_len'], P['guard_eq'] = guard_len, guard_eq
    ret = next((st for st in ast.walk(gf) if isinstance(st, ast.Return) and st.lineno > bis.lineno and st.value is not None
                and isinstance(st.value, ast.Subscript) and ast.unparse(st.value.value) == 'self'), None)
    if ret is None or not isinstance(ret.value.slice, ast.Subscript):
        raise FlightLookupTranslationError('get_flight: no `return self[<indexes>[idx]]`')
    sub = ret.value.slice.slice
    if isinstance(sub, ast.Name) and sub.id == ivar:
        P['shift'] = 0
    elif isinstance(sub, ast.BinOp) and isinstance(sub.op, (ast.Add, ast.Sub)) and ast.unparse(sub.left) == ivar \
            and isinstance(sub.right, ast.Constant) and isinstance(sub.right.value, int):
        P['shift'] = sub.right.value if isinstance(sub.op, ast.Add) else -sub.right.value
    else:
        raise FlightLookupTranslationError(f'get_flight: the position `{ast.unparse(sub)}` is not `{ivar} + s`')
    # ---- _reindex
    ri = methods.get('_reindex')
    if ri is None:
        raise FlightLookupTranslationError('TrajectoryStore._reindex not found')
    srt = next((st for st in ast.walk(ri) if isinstance(st, ast.Assign) and isinstance(st.value, ast.Call)
                and ast.unparse(st.value.func) == 'sorted'), None)
    if srt is None:
        raise FlightLookupTranslationError('_reindex: no sorted(…) table')
    pairs = _sorted_by_second(srt.value, '_reindex')
    if not (pairs.startswith('enumerate(') and ',' not in pairs):
        raise FlightLookupTranslationError(f'_reindex: the pairs `{pairs}` are not enumerate(<ids in file order>)')
    # ---- merged index
    mi = methods.get('_create_merged_store_index')
    if mi is None:
        raise FlightLookupTranslationError('TrajectoryStore._create_merged_store_index not found')
    srt2 = next((st for st in ast.walk(mi) if isinstance(st, ast.Assign) and isinstance(st.value, ast.Call)
                 and ast.unparse(st.value.func) == 'sorted'), None)
    if srt2 is None:
        raise FlightLookupTranslationError('_create_merged_store_index: no sorted(…) table')
    pairs2 = _sorted_by_second(srt2.value, '_create_merged_store_index')
    if not pairs2.startswith('zip('):
        raise FlightLookupTranslationError(f'_create_merged_store_index: the pairs `{pairs2}` are not zip(<indexes>, <ids>)')
    offs = [st for st in ast.walk(mi) if isinstance(st, ast.AugAssign) and isinstance(st.op, ast.Add) and ast.unparse(st.value).startswith('len(')]
    shifted = any(isinstance(b, ast.BinOp) and isinstance(b.op, ast.Add) and offs and ast.unparse(offs[0].target) in (ast.unparse(b.left), ast.unparse(b.right))
                  for b in ast.walk(mi))
    if not offs or not shifted:
        raise FlightLookupTranslationError('_create_merged_store_index: the indexes of each input are not shifted by the running count of trajectories')
    b = lambda x: 'true' if x else 'false'  # noqa: E731
    text = ('/- GENERATED by harness/common/fidprog.py from /repo\'s working tree (trajectories/store.py: get_flight, _reindex,\n'
            '   _create_merged_store_index) on every check run. Do not edit. -/\nnamespace Aeic.Gen\n\n'
            f'/-- `bisect_left` (true) or `bisect_right` (false) on the sorted identifiers -/\ndef flBisectLeft : Bool := {b(P["left"])}\n'
            f'/-- `idx >= len(ids)` gives `None` -/\ndef flGuardLen : Bool := {b(P["guard_len"])}\n'
            f'/-- `ids[idx] != id` gives `None` -/\ndef flGuardEq : Bool := {b(P["guard_eq"])}\n'
            f'/-- the trajectory index is read at position `idx + flShift` -/\ndef flShift : Int := {P["shift"]}\n'
            '/-- the table of a store is `sorted(enumerate(ids in file order), key = identifier)` (stable) -/\ndef flTableSortedById : Bool := true\n'
            '/-- the table of a merged store: the inputs\' tables with indexes shifted by the running trajectory count, sorted by identifier -/\n'
            'def flMergedShiftedSorted : Bool := true\n\nend Aeic.Gen\n')
    return text, P


def regenerate() -> dict:
    text, P = translate()
    OUT.parent.mkdir(parents=True, exist_ok=True)
    if not OUT.exists() or OUT.read_text() != text:
        OUT.write_text(text)
    return P
