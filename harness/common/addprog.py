"""Translator for the event program of `TrajectoryStore.add` (C07 / C10): `trajectories/store.py` ->
`lean/AeicModel/Generated/AddProg.lean` (language and semantics: `AeicModel/AddProg.lean`).

AST only. Walks the body of `add` in source order (statements nested under `if` / `for` included); helper methods of the class
called through `self` are read as well. Classification:

    check k     a statement subtree that contains a `raise` and no state change: `if …: raise …`, a loop whose body refuses, a call of
                a helper of the class that can raise and changes nothing (k counts the checks in source order)
    insert      a subscript store `self._trajectories[…] = …` (the cache insertion, which may refuse)
    set f c     an assignment / augmented assignment whose target is rooted at `self` (attribute `f`; `f[]` for a subscript store
                into another attribute); c = it sits under an `if` / inside a loop
    effect m c  a call `self.m(…)` of a helper that changes something: its body (helpers it calls included, four levels) stores into an
                attribute or a subscript of anything that is not a plain local name, or deletes such a thing; a helper that assigns
                attributes of the store DIRECTLY is not summarised but read in place (its own checks / sets / effects in order)
    ret         `return`

Local assignments, `assert`, docstrings and pure expressions produce no event. A statement that mixes a `raise` with a state change
in one subtree is split by recursion (its parts appear in source order), so a mutation hidden before a refusal inside an `if`
shows up as `…, set …, check k, …` and fails `checksFirst`. `try` statements inside `add` are outside the language
(`AddTranslationError`: a broken obligation). The line number of every event is kept for the harness, which compares the
program with the lines real calls execute (`harness/c10.py: check_add_program`).
"""
from __future__ import annotations

import ast

from . import LEAN_DIR, REPO

OUT = LEAN_DIR / 'AeicModel' / 'Generated' / 'AddProg.lean'
CACHE_ATTR = '_trajectories'


class AddTranslationError(Exception):
    pass


def lean_str(s: str) -> str:
    return '"' + s.replace('\\', '\\\\').replace('"', '\\"') + '"'


def _root(t: ast.AST):
    while isinstance(t, (ast.Attribute, ast.Subscript, ast.Starred)):
        t = t.value
    return t


def _self_attr(t: ast.AST) -> str | None:
    """name of the attribute of `self` a store target goes through (`self.x`, `self.x[k]`, `self.x.y`), else None"""
    chain = []
    while isinstance(t, (ast.Attribute, ast.Subscript)):
        chain.append(t)
        t = t.value
    if isinstance(t, ast.Name) and t.id == 'self' and chain:
        first = chain[-1]
        if isinstance(first, ast.Attribute):
            return first.attr + ('[]' if len(chain) > 1 and isinstance(chain[-2], ast.Subscript) else '')
    return None


class T:
    def __init__(self, cls: ast.ClassDef):
        self.methods = {b.name: b for b in cls.body if isinstance(b, ast.FunctionDef)}
        self.nchecks = 0
        self.depth = 0
        self._effect_cache: dict[str, bool] = {}
        self._raise_cache: dict[str, bool] = {}

    # ---- helpers
    def stores_nonlocal(self, n: ast.AST) -> bool:
        for x in ast.walk(n):
            tgts = []
            if isinstance(x, ast.Assign):
                tgts = x.targets
            elif isinstance(x, (ast.AugAssign, ast.AnnAssign)) and getattr(x, 'value', None) is not None:
                tgts = [x.target]
            elif isinstance(x, ast.Delete):
                tgts = x.targets
            for t in tgts:
                for tt in (t.elts if isinstance(t, (ast.Tuple, ast.List)) else [t]):
                    if not isinstance(tt, ast.Name):
                        return True
        return False

    def direct_self_store(self, fn: ast.AST) -> bool:
        for x in ast.walk(fn):
            tgts = x.targets if isinstance(x, (ast.Assign, ast.Delete)) else (
                [x.target] if isinstance(x, (ast.AugAssign, ast.AnnAssign)) and getattr(x, 'value', None) is not None else [])
            for t in tgts:
                for tt in (t.elts if isinstance(t, (ast.Tuple, ast.List)) else [t]):
                    if _self_attr(tt) is not None:
                        return True
        return False

    def self_calls(self, n: ast.AST) -> list[str]:
        out = []
        for c in ast.walk(n):
            if isinstance(c, ast.Call) and isinstance(c.func, ast.Attribute) and isinstance(c.func.value, ast.Name) \
                    and c.func.value.id == 'self' and c.func.attr in self.methods:
                out.append(c.func.attr)
        return out

    def helper_has_effect(self, name: str, depth: int = 0) -> bool:
        if name in self._effect_cache:
            return self._effect_cache[name]
        fn = self.methods.get(name)
        r = False
        if fn is not None and depth <= 4:
            self._effect_cache[name] = False          # (recursion guard)
            r = self.stores_nonlocal(fn) or any(self.helper_has_effect(m, depth + 1) for m in self.self_calls(fn))
        self._effect_cache[name] = r
        return r

    def helper_can_raise(self, name: str, depth: int = 0) -> bool:
        if name in self._raise_cache:
            return self._raise_cache[name]
        fn = self.methods.get(name)
        r = False
        if fn is not None and depth <= 4:
            self._raise_cache[name] = False
            r = any(isinstance(x, ast.Raise) for x in ast.walk(fn)) or any(self.helper_can_raise(m, depth + 1) for m in self.self_calls(fn))
        self._raise_cache[name] = r
        return r

    def mutates(self, n: ast.AST) -> bool:
        """does this subtree change state (a store rooted at self, or a call of an effectful helper)?"""
        for x in ast.walk(n):
            tgts = []
            if isinstance(x, ast.Assign):
                tgts = x.targets
            elif isinstance(x, (ast.AugAssign, ast.AnnAssign)) and getattr(x, 'value', None) is not None:
                tgts = [x.target]
            elif isinstance(x, ast.Delete):
                tgts = x.targets
            for t in tgts:
                for tt in (t.elts if isinstance(t, (ast.Tuple, ast.List)) else [t]):
                    if _self_attr(tt) is not None:
                        return True
        return any(self.helper_has_effect(m) for m in self.self_calls(n))

    def refuses(self, n: ast.AST) -> bool:
        return any(isinstance(x, ast.Raise) for x in ast.walk(n)) or any(self.helper_can_raise(m) for m in self.self_calls(n))

    # ---- statements
    def check(self, line: int):
        k = self.nchecks
        self.nchecks += 1
        return (f'.check {k}', line)

    def call_events(self, n: ast.AST, cond: bool, line: int) -> list:
        evs = []
        for m in self.self_calls(n):
            if self.helper_has_effect(m):
                fn = self.methods[m]
                if self.direct_self_store(fn) and self.depth < 3:
                    # a helper that assigns attributes of the store itself (the commit factored out, say): its statements are
                    # read in place, so that the order of its refusals and state changes stays visible
                    self.depth += 1
                    try:
                        for s_ in fn.body:
                            evs += [e for e in self.stmt(s_, cond) if e[0] != '.ret']
                    finally:
                        self.depth -= 1
                else:
                    evs.append((f'.effect {lean_str(m)} {"true" if cond else "false"}', line))
            elif self.helper_can_raise(m):
                evs.append(self.check(line))
        return evs

    def stmt(self, st: ast.AST, cond: bool) -> list:
        line = getattr(st, 'lineno', 0)
        if isinstance(st, (ast.Pass, ast.Assert, ast.Global, ast.Nonlocal, ast.Import, ast.ImportFrom)):
            return []
        if isinstance(st, ast.Expr) and isinstance(st.value, ast.Constant):
            return []
        if isinstance(st, ast.Try) or isinstance(st, ast.With) and self.mutates(st):
            raise AddTranslationError(f'line {line}: {type(st).__name__} statement with state changes inside `add`')
        if isinstance(st, ast.Return):
            return (self.call_events(st.value, cond, line) if st.value is not None else []) + [('.ret', line)]
        if isinstance(st, ast.Raise):
            return [self.check(line)]
        if isinstance(st, (ast.If, ast.For, ast.While, ast.With)):
            if not self.mutates(st):
                return [self.check(line)] if self.refuses(st) else []
            head = st.test if isinstance(st, (ast.If, ast.While)) else (st.iter if isinstance(st, ast.For) else None)
            evs = self.call_events(head, cond, line) if head is not None else []
            inner = True
            for s in st.body:
                evs += self.stmt(s, inner)
            for s in getattr(st, 'orelse', []):
                evs += self.stmt(s, inner)
            return evs
        if isinstance(st, (ast.Assign, ast.AugAssign, ast.AnnAssign)):
            if getattr(st, 'value', None) is None:
                return []
            evs = self.call_events(st.value, cond, line)
            tgts = st.targets if isinstance(st, ast.Assign) else [st.target]
            for t in tgts:
                for tt in (t.elts if isinstance(t, (ast.Tuple, ast.List)) else [t]):
                    a = _self_attr(tt)
                    if a is None:
                        if not isinstance(tt, ast.Name) and not isinstance(_root(tt), ast.Name):
                            raise AddTranslationError(f'line {line}: store target {ast.unparse(tt)}')
                        if not isinstance(tt, ast.Name) and isinstance(_root(tt), ast.Name) and _root(tt).id != 'self':
                            # a store into an object reached through a local / parameter (`trajectory.x = …`): a state change too
                            evs.append((f'.set {lean_str(ast.unparse(tt))} {"true" if cond else "false"}', line))
                        continue
                    if a == CACHE_ATTR + '[]':
                        evs.append(('.insert', line))
                    else:
                        evs.append((f'.set {lean_str(a)} {"true" if cond else "false"}', line))
            return evs
        if isinstance(st, ast.Delete):
            return [(f'.set {lean_str(ast.unparse(t))} {"true" if cond else "false"}', line) for t in st.targets if not isinstance(t, ast.Name)]
        if isinstance(st, ast.Expr):
            return self.call_events(st.value, cond, line)
        raise AddTranslationError(f'line {line}: statement {type(st).__name__} outside the event language')


def translate() -> tuple[str, list]:
    src = (REPO / 'src' / 'AEIC' / 'trajectories' / 'store.py').read_text()
    tree = ast.parse(src)
    cls = next((n for n in tree.body if isinstance(n, ast.ClassDef) and n.name == 'TrajectoryStore'), None)
    if cls is None:
        raise AddTranslationError('class TrajectoryStore not found')
    t = T(cls)
    fn = t.methods.get('add')
    if fn is None:
        raise AddTranslationError('TrajectoryStore.add not found')
    evs = []
    for st in fn.body:
        evs += t.stmt(st, False)
    text = ('/- GENERATED by harness/common/addprog.py from /repo\'s working tree (trajectories/store.py: TrajectoryStore.add) on every\n'
            '   check run. Do not edit. -/\nimport AeicModel.AddProg\nnamespace Aeic.Gen\nopen Aeic.AddProg\n\n'
            '/-- the events of `TrajectoryStore.add` in source order -/\n'
            'def addProgram : List Ev := [' + ', '.join(e for e, _ in evs) + ']\n\n'
            '/-- source line of every event (for the harness) -/\n'
            'def addProgramLines : List Nat := [' + ', '.join(str(ln) for _, ln in evs) + ']\n\nend Aeic.Gen\n')
    return text, evs


def regenerate() -> list:
    text, evs = translate()
    OUT.parent.mkdir(parents=True, exist_ok=True)
    if not OUT.exists() or OUT.read_text() != text:
        OUT.write_text(text)
    return evs
