"""PyKern: translator from the *pointwise numerical* subset of AEIC's Python source to generic-scalar Lean definitions.

Every kernel listed in `KERNELS` is re-translated from /repo's working tree (AST only, nothing is imported) into
`lean/AeicModel/Generated/Kernels.lean` on every check run.  A kernel is a function (or method) of the source together
with a *target* (its return value, one keyword of the returned record, or a named local variable) and a list of *inputs*
(parameters and, for slices out of longer functions, "cut" variables).  The translator walks the top-level statements of
the function in order, keeps an environment `python name -> translated?`, translates every assignment whose right-hand
side lies in the supported subset, prunes the assignments the target does not depend on and emits a `let` chain.

Supported subset (semantics on one array element = a scalar):
  numbers; names (locals, parameters, module-level numeric constants of the same file, names imported from
  AEIC.constants / AEIC.units); attribute chains rooted at a parameter or at `self` (looked up in the attribute
  environment `A : String -> α`); `+ - * /`, unary minus; `x ** 2` (= x*x, what numpy's square fast path computes),
  `x ** 0.5` (= sqrt), other powers (= pow); comparisons and `& | ~` inside conditions; `np.where(c, a, b)`;
  `np.exp log log10 sqrt sin cos`, `np.clip`, `np.maximum`, `np.minimum`, `np.abs`; `np.asarray(x, ...)`, `float(x)`,
  `x.copy()` (identity on an element); `np.divide(a, b, out=np.zeros_like(a), where=c)` (= if c then a/b else 0);
  masked stores `x[cond] = v` (= where(cond, v, x)); calls of other translatable functions of the same file or imported
  from another AEIC module, `self.method(...)` (resolved through the MRO of the concrete class the kernel is generated
  for) and `self.engine_model.method(...)` (resolved in the engine class named by the kernel spec).
  `if <cond>: raise ...` guards are skipped for the value (their conditions are listed in the generated file).

Everything else makes the assigned names *unknown*; a kernel whose target depends on an unknown name fails to translate
(`KernelError`), which the checks treat as a broken correspondence (DESIGN section 1, classification rule).

What is trusted here: this translator (its reading of numpy's pointwise semantics).  It is validated on every check run
by executing the generated definitions on `Float` next to the real functions (harness/kernels.py).
"""
from __future__ import annotations

import ast
import json
from dataclasses import dataclass, field
from decimal import Decimal
from pathlib import Path

from . import LEAN_DIR, REPO

OUT = LEAN_DIR / 'AeicModel' / 'Generated' / 'Kernels.lean'
SRC = lambda: REPO / 'src' / 'AEIC'  # noqa: E731


class KernelError(Exception):
    pass


class Untranslatable(Exception):
    pass


@dataclass
class Kernel:
    name: str                      # Lean name (in namespace Aeic.Kern)
    file: str                      # path relative to src/AEIC
    func: str                      # 'f' or 'Class.method'
    inputs: list                   # names; ('name', 'bool') for boolean inputs
    target: str = 'return'         # 'return' | 'return.<kw>' | 'return[i]' | local variable name
    cls: str | None = None         # concrete class the method is generated for (default: the defining class)
    engine: str | None = None      # class that `self.engine_model` is an instance of
    doc: str = ''
    prefer_sym: bool = False       # translate with the symbolic evaluator first (callees inlined: the bridge proofs then never
                                   # mention helper definitions, so extracting / inlining helpers in the source does not break them)


# --------------------------------------------------------------------------- kernel list
ATM = 'utils/standard_atmosphere.py'
BADA = 'BADA/model.py'
KERNELS: list[Kernel] = [
    # ISA atmosphere (C12, C16, C19)
    Kernel('isa_temperature', ATM, 'temperature_at_altitude_isa_bada4', ['altitude']),
    Kernel('isa_pressure', ATM, 'pressure_at_altitude_isa_bada4', ['altitude']),
    Kernel('isa_altitude', ATM, 'altitude_from_pressure_isa_bada4', ['pressure']),
    Kernel('speed_of_sound', ATM, 'calculate_speed_of_sound', ['temperature']),
    Kernel('speed_of_sound_at_altitude', ATM, 'speed_of_sound_at_altitude', ['altitude']),
    Kernel('air_density', ATM, 'calculate_air_density', ['pressure', 'temperature']),
    # SOx stoichiometry (C12, C01)
    Kernel('sox_so2', 'emissions/ei/sox.py', 'EI_SOx', [], 'return.EI_SO2'),
    Kernel('sox_so4', 'emissions/ei/sox.py', 'EI_SOx', [], 'return.EI_SO4'),
    Kernel('sox_total', 'emissions/ei/sox.py', 'EI_SOx', [], 'return.EI_SOx'),
    # Fuel Flow Method 2 (C12)
    Kernel('sls_fuel_flow', 'emissions/utils.py', 'get_SLS_equivalent_fuel_flow',
           ['fuel_flow', 'Pamb', 'Tamb', 'mach_number', 'n_eng']),
    # BFFM2 NOx: regression evaluation, humidity correction (C12)
    Kernel('nox_sl', 'emissions/ei/nox.py', 'BFFM2_EINOx', ['sls_equiv_fuel_flow', 'slope', 'intercept'], 'NOxEI_sl'),
    Kernel('nox_humidity_omega', 'emissions/ei/nox.py', 'BFFM2_EINOx', ['Tamb', 'Pamb'], 'omega'),
    Kernel('nox_correction', 'emissions/ei/nox.py', 'BFFM2_EINOx', ['Tamb', 'Pamb'], 'correction'),
    # NOx speciation percentages (C12, C01)
    Kernel('nox_spec_no_L', 'emissions/ei/nox.py', 'NOx_speciation', [], 'noLnom'),
    Kernel('nox_spec_no_A', 'emissions/ei/nox.py', 'NOx_speciation', [], 'noAnom'),
    Kernel('nox_spec_no_H', 'emissions/ei/nox.py', 'NOx_speciation', [], 'noHnom'),
    Kernel('nox_spec_no2_L', 'emissions/ei/nox.py', 'NOx_speciation', [], 'no2Lnom'),
    Kernel('nox_spec_no2_A', 'emissions/ei/nox.py', 'NOx_speciation', [], 'no2Anom'),
    Kernel('nox_spec_no2_H', 'emissions/ei/nox.py', 'NOx_speciation', [], 'no2Hnom'),
    Kernel('nox_spec_hono_L', 'emissions/ei/nox.py', 'NOx_speciation', [], 'honoLnom'),
    Kernel('nox_spec_hono_A', 'emissions/ei/nox.py', 'NOx_speciation', [], 'honoAnom'),
    Kernel('nox_spec_hono_H', 'emissions/ei/nox.py', 'NOx_speciation', [], 'honoHnom'),
    # HC/CO ambient factor (C12)
    Kernel('hcco_ambient_factor', 'emissions/ei/hcco.py', 'EI_HCCO', ['Tamb', 'Pamb'], 'factor'),
    # MEEM compressor model (C12)
    Kernel('meem_tt_amb', 'emissions/ei/pmnvol.py', 'PMnvol_MEEM', ['Tamb_cruise', 'machFlight'], 'Tt_amb'),
    Kernel('meem_pt_amb', 'emissions/ei/pmnvol.py', 'PMnvol_MEEM', ['Pamb_cruise', 'machFlight'], 'Pt_amb'),
    Kernel('meem_eta_comp', 'emissions/ei/pmnvol.py', 'PMnvol_MEEM', ['alt_rate'], 'eta_comp'),
    Kernel('meem_pressure_coef', 'emissions/ei/pmnvol.py', 'PMnvol_MEEM', ['altitudes', 'alt_rate', 'max_alt'], 'pressure_coef'),
    Kernel('meem_point_p3', 'emissions/ei/pmnvol.py', 'PMnvol_MEEM',
           ['altitudes', 'alt_rate', 'max_alt', 'Tamb_cruise', 'Pamb_cruise', 'machFlight', 'max_pr'], 'P3'),
    Kernel('meem_point_p3_ref', 'emissions/ei/pmnvol.py', 'PMnvol_MEEM',
           ['altitudes', 'alt_rate', 'max_alt', 'Tamb_cruise', 'Pamb_cruise', 'machFlight', 'max_pr'], 'P3_ref'),
    Kernel('meem_point_fg', 'emissions/ei/pmnvol.py', 'PMnvol_MEEM',
           ['altitudes', 'alt_rate', 'max_alt', 'Tamb_cruise', 'Pamb_cruise', 'machFlight', 'max_pr'], 'FG_over_Foo'),
    Kernel('meem_p3', 'emissions/ei/pmnvol.py', 'PMnvol_MEEM', ['Pamb_cruise', 'machFlight', 'pressure_coef', 'max_pr'], 'P3'),
    Kernel('meem_t3', 'emissions/ei/pmnvol.py', 'PMnvol_MEEM',
           ['Tamb_cruise', 'Pamb_cruise', 'machFlight', 'pressure_coef', 'max_pr', 'eta_comp'], 'T3'),
    Kernel('meem_fg_over_foo', 'emissions/ei/pmnvol.py', 'PMnvol_MEEM',
           ['Tamb_cruise', 'Pamb_cruise', 'machFlight', 'pressure_coef', 'max_pr', 'eta_comp'], 'FG_over_Foo'),
    Kernel('meem_ei_mass', 'emissions/ei/pmnvol.py', 'PMnvol_MEEM',
           ['Tamb_cruise', 'Pamb_cruise', 'machFlight', 'pressure_coef', 'max_pr', 'eta_comp', 'EI_ref_mass'], 'EI_mass@1'),
]
for _cls, _tag in (('Bada3JetEngineModel', 'jet'), ('Bada3TurbopropEngineModel', 'turboprop'),
                   ('Bada3PistonEngineModel', 'piston')):
    _n0 = len(KERNELS)
    KERNELS += [
        Kernel(f'bada_{_tag}_max_climb_isa', BADA, 'Bada3EngineModel.calculate_max_climb_thrust_isa', ['altitude', 'v_tas'], cls=_cls),
        Kernel(f'bada_{_tag}_max_climb', BADA, 'Bada3EngineModel.calculate_max_climb_thrust',
               ['altitude', 'v_tas', 'temperature'], cls=_cls),
        Kernel(f'bada_{_tag}_max_cruise', BADA, 'Bada3EngineModel.calculate_max_cruise_thrust',
               ['altitude', 'v_tas', 'temperature'], cls=_cls),
        Kernel(f'bada_{_tag}_descent_high', BADA, 'Bada3EngineModel.calculate_descent_thrust_high',
               ['altitude', 'v_tas', 'temperature'], cls=_cls),
        Kernel(f'bada_{_tag}_descent_low', BADA, 'Bada3EngineModel.calculate_descent_thrust_low',
               ['altitude', 'v_tas', 'temperature'], cls=_cls),
        Kernel(f'bada_{_tag}_nominal_fuel_flow', BADA, 'Bada3EngineModel.calculate_nominal_fuel_flow', ['thrust', 'v_tas'], cls=_cls),
        Kernel(f'bada_{_tag}_cruise_fuel_flow', BADA, 'Bada3EngineModel.calculate_cruise_fuel_flow', ['thrust', 'v_tas'], cls=_cls),
        Kernel(f'bada_{_tag}_thrust', BADA, 'Bada3FuelBurnModel.calculate_thrust',
               ['mass', 'temperature', 'altitude', 'v_tas', 'rocd', 'acceleration', ('in_cruise', 'bool')], engine=_cls),
        Kernel(f'bada_{_tag}_sgr', BADA, 'Bada3FuelBurnModel.calculate_specific_ground_range',
               ['mass', 'temperature', 'altitude', 'v_tas', 'rocd', 'acceleration', ('in_cruise', 'bool'), 'groundspeed'],
               engine=_cls),
    ]
for _k in KERNELS:
    if _k.file == BADA:
        _k.prefer_sym = True
KERNELS += [
    Kernel('bada_jet_sfc', BADA, 'Bada3JetEngineModel.calculate_specific_fuel_consumption', ['v_tas']),
    Kernel('bada_turboprop_sfc', BADA, 'Bada3TurbopropEngineModel.calculate_specific_fuel_consumption', ['v_tas']),
    Kernel('bada_cl', BADA, 'Bada3FuelBurnModel.calculate_cl', ['mass', 'rho', 'v_tas']),
    Kernel('bada_cd', BADA, 'Bada3FuelBurnModel.calculate_cd', ['cl']),
    Kernel('bada_drag', BADA, 'Bada3FuelBurnModel.calculate_drag', ['cd', 'rho', 'v_tas']),
    Kernel('bada_te_thrust', BADA, 'Bada3FuelBurnModel.calculate_thrust_by_total_energy',
           ['drag', 'mass', 'v_tas', 'rocd', 'acceleration']),
]

BOOL_PARAMS = {'in_cruise'}  # parameters that are boolean masks wherever they occur
CONST_MODULES = {'AEIC.constants': 'constants.py', 'AEIC.units': 'units.py'}
NP_UNARY = {'exp': 'Transc.exp', 'log': 'Transc.log', 'log10': 'Transc.log10', 'sqrt': 'Transc.sqrt',
            'sin': 'Transc.sin', 'cos': 'Transc.cos'}
LEAN_KEYWORDS = {'at', 'from', 'fun', 'let', 'in', 'do', 'then', 'else', 'if', 'end', 'open', 'def', 'theorem', 'have',
                 'show', 'with', 'match', 'where', 'by', 'type', 'Type', 'instance', 'class', 'structure', 'variable',
                 'section', 'namespace', 'import', 'for', 'mut', 'return', 'true', 'false', 'deriving', 'prefix', 'local'}


def lean_ident(n: str) -> str:
    return n + "'" if n in LEAN_KEYWORDS else n


def lit(node: ast.Constant, src: str) -> str:
    text = ast.get_source_segment(src, node)
    if text is None or isinstance(node.value, bool) or not isinstance(node.value, (int, float)):
        raise Untranslatable(f'literal {ast.dump(node)}')
    d = Decimal(text.replace('_', ''))
    sign, digits, exp = d.as_tuple()
    m = int(''.join(map(str, digits)))
    if sign:
        m = -m
    if exp >= 0:
        return f'(Lit.dec ({m * 10 ** exp}) 0 : α)'
    return f'(Lit.dec ({m}) {-exp} : α)'


# --------------------------------------------------------------------------- module model
class Module:
    _cache: dict[str, 'Module'] = {}

    def __init__(self, rel: str):
        self.rel = rel
        self.path = SRC() / rel
        self.src = self.path.read_text()
        self.tree = ast.parse(self.src)
        self.tag = Path(rel).stem
        self.funcs: dict[str, ast.FunctionDef] = {}
        self.classes: dict[str, ast.ClassDef] = {}
        self.consts: dict[str, ast.AST] = {}
        self.imports: dict[str, tuple[str, str]] = {}  # local name -> (module, original name)
        for st in self.tree.body:
            if isinstance(st, ast.FunctionDef):
                self.funcs[st.name] = st
            elif isinstance(st, ast.ClassDef):
                self.classes[st.name] = st
            elif isinstance(st, ast.Assign) and len(st.targets) == 1 and isinstance(st.targets[0], ast.Name):
                self.consts[st.targets[0].id] = st.value
            elif isinstance(st, ast.AnnAssign) and isinstance(st.target, ast.Name) and st.value is not None:
                self.consts[st.target.id] = st.value
            elif isinstance(st, ast.ImportFrom) and st.module:
                mod = st.module
                if st.level:  # relative import inside AEIC
                    base = ['AEIC'] + list(Path(rel).parent.parts)
                    base = base[: len(base) - (st.level - 1)]
                    mod = '.'.join(base + ([st.module] if st.module else []))
                for a in st.names:
                    self.imports[a.asname or a.name] = (mod, a.name)

    @classmethod
    def get(cls, rel: str) -> 'Module':
        key = str(SRC() / rel)
        if key not in cls._cache:
            cls._cache[key] = Module(rel)
        return cls._cache[key]

    @classmethod
    def reset(cls):
        cls._cache.clear()

    def mro(self, cname: str) -> list[ast.ClassDef]:
        out = []
        c = self.classes.get(cname)
        while c is not None:
            out.append(c)
            nxt = None
            for b in c.bases:
                if isinstance(b, ast.Name) and b.id in self.classes:
                    nxt = self.classes[b.id]
                    break
            c = nxt
        return out

    def method_x(self, cname: str, mname: str):
        """(module, class name, function) of `mname` for class `cname`: own MRO first, then base classes imported from other
        AEIC modules (`class Bada3FuelBurnModel(BaseFuelBurnModel)` with `BaseFuelBurnModel` in BADA/fuel_burn_base.py)"""
        r = self.method(cname, mname)
        if r is not None:
            return self, r[0], r[1]
        for c in self.mro(cname):
            for b in c.bases:
                if isinstance(b, ast.Name) and b.id not in self.classes and b.id in self.imports:
                    m, orig = self.imports[b.id]
                    rel = module_rel_of(m)
                    if rel is not None:
                        other = Module.get(rel)
                        rr = other.method_x(orig, mname)
                        if rr is not None:
                            return rr
        return None

    def method(self, cname: str, mname: str) -> tuple[str, ast.FunctionDef] | None:
        for c in self.mro(cname):
            for st in c.body:
                if isinstance(st, ast.FunctionDef) and st.name == mname:
                    return c.name, st
        return None


def module_rel_of(dotted: str) -> str | None:
    """AEIC.utils.standard_atmosphere -> utils/standard_atmosphere.py (if it exists)."""
    if not dotted.startswith('AEIC'):
        return None
    parts = dotted.split('.')[1:]
    p = SRC().joinpath(*parts)
    if p.with_suffix('.py').exists():
        return '/'.join(parts) + '.py'
    if (p / '__init__.py').exists():
        return '/'.join(parts) + '/__init__.py'
    return None


# --------------------------------------------------------------------------- translation
@dataclass
class Gen:
    """Accumulates generated definitions (in dependency order)."""
    defs: dict[str, str] = field(default_factory=dict)        # lean name -> text
    uses_attr: dict[str, bool] = field(default_factory=dict)  # lean name -> needs A
    sig: dict[str, list] = field(default_factory=dict)        # lean name -> [(pname, kind)]
    guards: dict[str, list[str]] = field(default_factory=dict)
    attr_keys: dict[str, list[str]] = field(default_factory=dict)
    in_progress: set = field(default_factory=set)
    origin: dict[str, str] = field(default_factory=dict)


class FnTranslator:
    def __init__(self, g: Gen, mod: Module, fn: ast.FunctionDef, lean_name: str, inputs: list, target: str,
                 cls: str | None, engine: str | None):
        self.g, self.mod, self.fn, self.lean_name = g, mod, fn, lean_name
        self.inputs = [(i, 'real') if isinstance(i, str) else tuple(i) for i in inputs]
        self.target, self.cls, self.engine = target, cls, engine
        self.env: dict[str, str] = {}      # python name -> 'real' | 'bool'
        self.lets: list[tuple[str, str, str, set]] = []  # (name, kind, lean expr, deps)
        self.uses_attr = False
        self.attr_keys: list[str] = []
        self.params = [a.arg for a in fn.args.args if a.arg != 'self']
        self.guards: list[str] = []
        self.why: dict[str, str] = {}
        self.nbind: dict[str, int] = {}
        self.stop = False

    # ---- expressions
    def expr(self, e: ast.AST, deps: set) -> str:
        s = self.mod.src
        if isinstance(e, ast.Constant):
            return lit(e, s)
        if isinstance(e, ast.Name):
            n = e.id
            if n in self.env:
                if self.env[n] != 'real':
                    raise Untranslatable(f'{n} is not a real')
                deps.add(n)
                return lean_ident(n)
            return self.global_name(n)
        if isinstance(e, ast.Attribute):
            return self.attribute(e)
        if isinstance(e, ast.UnaryOp) and isinstance(e.op, ast.USub):
            return f'(-{self.expr(e.operand, deps)})'
        if isinstance(e, ast.UnaryOp) and isinstance(e.op, ast.UAdd):
            return self.expr(e.operand, deps)
        if isinstance(e, ast.BinOp):
            if isinstance(e.op, ast.Pow):
                b = self.expr(e.left, deps)
                if isinstance(e.right, ast.Constant) and not isinstance(e.right.value, bool):
                    if e.right.value == 2:
                        return f'({b} * {b})'
                    if e.right.value == 0.5:
                        return f'(Transc.sqrt {b})'
                return f'(Transc.pow {b} {self.expr(e.right, deps)})'
            ops = {ast.Add: '+', ast.Sub: '-', ast.Mult: '*', ast.Div: '/'}
            if type(e.op) in ops:
                return f'({self.expr(e.left, deps)} {ops[type(e.op)]} {self.expr(e.right, deps)})'
            raise Untranslatable(f'operator {type(e.op).__name__}')
        if isinstance(e, ast.Call):
            return self.call(e, deps)
        if isinstance(e, ast.IfExp):
            return f'(if {self.cond(e.test, deps)} then {self.expr(e.body, deps)} else {self.expr(e.orelse, deps)})'
        raise Untranslatable(f'expression {type(e).__name__}')

    def global_name(self, n: str) -> str:
        if n in self.mod.consts:
            name = f'{self.mod.tag}__{n}'
            if name not in self.g.defs:
                try:
                    sub = FnTranslator(self.g, self.mod, self.fn, name, [], 'return', None, None)
                    sub.env = {}
                    body = sub.expr(self.mod.consts[n], set())
                except Untranslatable as ex:
                    raise Untranslatable(f'module constant {n}: {ex}')
                self.g.defs[name] = f'/-- `{self.mod.rel}`: `{n} = {ast.unparse(self.mod.consts[n])}` -/\ndef {name} : α := {body}\n'
                self.g.uses_attr[name] = False
                self.g.sig[name] = []
                self.g.origin[name] = f'{self.mod.rel}:{n}'
            return f'({name} (α := α))'
        if n in self.mod.imports:
            m, orig = self.mod.imports[n]
            if m in CONST_MODULES:
                return f'(Gen.{orig} (α := α))'
            rel = module_rel_of(m)
            if rel is not None:
                other = Module.get(rel)
                if orig in other.consts:
                    sub = FnTranslator(self.g, other, self.fn, '', [], 'return', None, None)
                    return sub.global_name(orig)
        raise Untranslatable(f'unknown name {n}')

    def attr_chain(self, e: ast.AST) -> list[str] | None:
        parts = []
        while isinstance(e, ast.Attribute):
            parts.append(e.attr)
            e = e.value
        if isinstance(e, ast.Name):
            parts.append(e.id)
            return parts[::-1]
        return None

    def attribute(self, e: ast.Attribute) -> str:
        ch = self.attr_chain(e)
        if ch is None:
            raise Untranslatable('attribute of a non-name')
        root = ch[0]
        if root == 'self' or (root in self.params and root not in self.env):
            key = '.'.join(ch[1:] if root == 'self' else ch)
            self.uses_attr = True
            if key not in self.attr_keys:
                self.attr_keys.append(key)
            return f'(A "{key}")'
        raise Untranslatable(f'attribute chain {".".join(ch)}')

    def cond(self, c: ast.AST, deps: set) -> str:
        if isinstance(c, ast.Compare) and len(c.ops) == 1:
            a, b = self.expr(c.left, deps), self.expr(c.comparators[0], deps)
            op = c.ops[0]
            if isinstance(op, ast.LtE):
                return f'({a} ≤ {b})'
            if isinstance(op, ast.Lt):
                return f'({a} < {b})'
            if isinstance(op, ast.GtE):
                return f'({b} ≤ {a})'
            if isinstance(op, ast.Gt):
                return f'({b} < {a})'
            if isinstance(op, ast.NotEq):
                return f'({a} < {b} ∨ {b} < {a})'
            if isinstance(op, ast.Eq):
                return f'({a} ≤ {b} ∧ {b} ≤ {a})'
            raise Untranslatable('comparison operator')
        if isinstance(c, ast.Name) and self.env.get(c.id) == 'bool':
            deps.add(c.id)
            return f'({lean_ident(c.id)} = true)'
        if isinstance(c, ast.BinOp) and isinstance(c.op, (ast.BitAnd, ast.BitOr)):
            j = '∧' if isinstance(c.op, ast.BitAnd) else '∨'
            return f'({self.cond(c.left, deps)} {j} {self.cond(c.right, deps)})'
        if isinstance(c, ast.BoolOp):
            j = '∧' if isinstance(c.op, ast.And) else '∨'
            return '(' + f' {j} '.join(self.cond(v, deps) for v in c.values) + ')'
        if isinstance(c, ast.UnaryOp) and isinstance(c.op, (ast.Invert, ast.Not)):
            return f'(¬ {self.cond(c.operand, deps)})'
        raise Untranslatable(f'condition {ast.unparse(c)}')

    def np_name(self, f: ast.AST) -> str | None:
        if isinstance(f, ast.Attribute) and isinstance(f.value, ast.Name) and f.value.id in ('np', 'numpy', 'math'):
            return f.attr
        return None

    def call(self, e: ast.Call, deps: set) -> str:
        f = e.func
        npf = self.np_name(f)
        args = e.args
        if npf is not None:
            if npf in NP_UNARY and len(args) == 1:
                return f'({NP_UNARY[npf]} {self.expr(args[0], deps)})'
            if npf in ('asarray', 'array', 'float64', 'atleast_1d') and len(args) >= 1:
                return self.expr(args[0], deps)
            if npf == 'where' and len(args) == 3:
                return f'(if {self.cond(args[0], deps)} then {self.expr(args[1], deps)} else {self.expr(args[2], deps)})'
            if npf == 'maximum' and len(args) == 2:
                return f'(smax {self.expr(args[0], deps)} {self.expr(args[1], deps)})'
            if npf == 'minimum' and len(args) == 2:
                return f'(smin {self.expr(args[0], deps)} {self.expr(args[1], deps)})'
            if npf == 'clip' and len(args) == 3:
                return f'(smin (smax {self.expr(args[0], deps)} {self.expr(args[1], deps)}) {self.expr(args[2], deps)})'
            if npf in ('abs', 'absolute', 'fabs') and len(args) == 1:
                return f'(sabs {self.expr(args[0], deps)})'
            if npf == 'divide' and len(args) == 2:
                kw = {k.arg: k.value for k in e.keywords}
                if set(kw) == {'out', 'where'} and isinstance(kw['out'], ast.Call) and self.np_name(kw['out'].func) == 'zeros_like':
                    return (f'(if {self.cond(kw["where"], deps)} then ({self.expr(args[0], deps)} / {self.expr(args[1], deps)}) '
                            f'else (Lit.dec 0 0 : α))')
            raise Untranslatable(f'numpy function {npf}')
        if isinstance(f, ast.Name) and f.id == 'float' and len(args) == 1:
            return self.expr(args[0], deps)
        if isinstance(f, ast.Name) and f.id in ('max', 'min') and len(args) == 2 and not e.keywords and f.id not in self.env:
            return f'({"smax" if f.id == "max" else "smin"} {self.expr(args[0], deps)} {self.expr(args[1], deps)})'
        if isinstance(f, ast.Attribute) and f.attr == 'copy' and not args:
            return self.expr(f.value, deps)
        # calls of other source functions
        if isinstance(f, ast.Name):
            callee = self.resolve_function(f.id)
            if callee is not None:
                return self.emit_call(callee, e, deps)
        if isinstance(f, ast.Attribute):
            ch = self.attr_chain(f)
            if ch and ch[0] == 'self' and len(ch) == 2 and self.cls:
                r = self.mod.method(self.cls, ch[1])
                if r is None:
                    raise Untranslatable(f'method {ch[1]} not found in {self.cls}')
                name = sub_kernel(self.g, self.mod, r[1], f'{self.cls}__{ch[1]}' + (f'__{self.engine}' if self.engine else ''),
                                  cls=self.cls, engine=self.engine)
                return self.emit_call(name, e, deps)
            if ch and ch[0] == 'self' and len(ch) == 3 and ch[1] == 'engine_model' and self.engine:
                r = self.mod.method(self.engine, ch[2])
                if r is None:
                    raise Untranslatable(f'method {ch[2]} not found in {self.engine}')
                name = sub_kernel(self.g, self.mod, r[1], f'{self.engine}__{ch[2]}', cls=self.engine, engine=None)
                return self.emit_call(name, e, deps)
        raise Untranslatable(f'call {ast.unparse(e.func)}')

    def resolve_function(self, n: str) -> str | None:
        if n in self.env:
            return None
        if n in self.mod.funcs:
            return sub_kernel(self.g, self.mod, self.mod.funcs[n], f'{self.mod.tag}__{n}')
        if n in self.mod.imports:
            m, orig = self.mod.imports[n]
            rel = module_rel_of(m)
            if rel is not None:
                other = Module.get(rel)
                if orig in other.funcs:
                    return sub_kernel(self.g, other, other.funcs[orig], f'{other.tag}__{orig}')
        return None

    def emit_call(self, name: str, e: ast.Call, deps: set) -> str:
        sig = self.g.sig[name]
        if e.keywords or len(e.args) != len(sig):
            raise Untranslatable(f'call of {name} with {len(e.args)} positional args / keywords (expects {len(sig)})')
        parts = []
        for a, (_, kind) in zip(e.args, sig):
            if kind == 'bool':
                if isinstance(a, ast.Name) and self.env.get(a.id) == 'bool':
                    deps.add(a.id)
                    parts.append(lean_ident(a.id))
                else:
                    raise Untranslatable('boolean argument that is not a boolean name')
            else:
                parts.append(self.expr(a, deps))
        if self.g.uses_attr[name]:
            self.uses_attr = True
            for k in self.g.attr_keys.get(name, []):
                if k not in self.attr_keys:
                    self.attr_keys.append(k)
            return f'({name} A ' + ' '.join(parts) + ')' if parts else f'({name} A)'
        return f'({name} ' + ' '.join(parts) + ')' if parts else f'({name} (α := α))'

    # ---- statements
    def assigned_names(self, st: ast.AST) -> set[str]:
        out = set()
        for n in ast.walk(st):
            if isinstance(n, ast.Name) and isinstance(n.ctx, ast.Store):
                out.add(n.id)
            elif isinstance(n, (ast.Subscript, ast.Attribute)) and isinstance(n.ctx, ast.Store):
                b = n
                while isinstance(b, (ast.Subscript, ast.Attribute)):
                    b = b.value
                if isinstance(b, ast.Name):
                    out.add(b.id)
            elif isinstance(n, ast.Call) and isinstance(n.func, ast.Attribute) and n.func.attr in ('fill', 'sort', 'append'):
                b = n.func.value
                if isinstance(b, ast.Name):
                    out.add(b.id)
        return out

    def bind(self, name: str, kind: str, text: str, deps: set):
        self.lets.append((name, kind, text, set(deps)))
        self.env[name] = kind
        self.nbind[name] = self.nbind.get(name, 0) + 1
        if '@' in self.target and not self.stop:
            n, k = self.target.split('@')
            if n == name and self.nbind[name] == int(k):
                self.stop = True

    def forget(self, names):
        inputs = dict(self.inputs)
        for n in names:
            if n in inputs:
                # a cut variable: from here on it is an input of the kernel
                self.env[n] = inputs[n]
                self.lets.append((n, 'cut', '', set()))
            else:
                self.env.pop(n, None)
                self.lets.append((n, 'unknown', '', set()))

    def run(self) -> str:
        inputs = dict(self.inputs)
        for p in self.params:
            if p in inputs:
                self.env[p] = inputs[p]
        # default values of parameters that are not inputs become lets
        args = [a for a in self.fn.args.args if a.arg != 'self']
        defaults = self.fn.args.defaults
        for a, d in zip(args[len(args) - len(defaults):], defaults):
            if a.arg not in inputs:
                try:
                    deps: set = set()
                    self.bind(a.arg, 'real', self.expr(d, deps), deps)
                except Untranslatable:
                    pass
        result = None
        for st in self.fn.body:
            if self.stop:
                break
            if isinstance(st, ast.Expr) and isinstance(st.value, ast.Constant):
                continue  # docstring
            if isinstance(st, ast.Return):
                if self.target.startswith('return'):
                    result = self.return_expr(st.value)
                break
            if isinstance(st, ast.If) and all(isinstance(b, ast.Raise) for b in st.body) and not st.orelse:
                self.guards.append(ast.unparse(st.test))
                continue
            if isinstance(st, ast.If) and not st.orelse and all(
                    isinstance(b, ast.Expr) and isinstance(b.value, ast.Call) and 'warn' in ast.unparse(b.value.func)
                    for b in st.body):
                continue
            tgt = val = None
            if isinstance(st, ast.Assign) and len(st.targets) == 1:
                tgt, val = st.targets[0], st.value
            elif isinstance(st, ast.AnnAssign) and st.value is not None:
                tgt, val = st.target, st.value
            elif isinstance(st, ast.AugAssign) and isinstance(st.target, ast.Name):
                tgt, val = st.target, ast.BinOp(left=ast.Name(id=st.target.id, ctx=ast.Load()), op=st.op, right=st.value)
            if tgt is not None and isinstance(tgt, ast.Tuple) and isinstance(val, ast.Tuple) and len(tgt.elts) == len(val.elts) \
                    and all(isinstance(t, ast.Name) for t in tgt.elts):
                # a, b = e1, e2  (right-hand sides are evaluated before any name is bound)
                new = []
                for t, v in zip(tgt.elts, val.elts):
                    try:
                        deps = set()
                        new.append((t.id, self.expr(v, deps), deps))
                    except Untranslatable:
                        new.append((t.id, None, None))
                if len({n for n, _, _ in new} & set().union(*[d for _, _, d in new if d is not None])) > 0:
                    self.forget([n for n, _, _ in new])  # simultaneous assignment reading its own targets: not expressed
                else:
                    for n, text, deps in new:
                        if text is None:
                            self.forget([n])
                        else:
                            self.bind(n, 'real', text, deps)
                continue
            if tgt is not None and isinstance(tgt, ast.Name) and (
                    isinstance(val, (ast.Compare, ast.BoolOp)) or
                    (isinstance(val, ast.UnaryOp) and isinstance(val.op, (ast.Invert, ast.Not))) or
                    (isinstance(val, ast.BinOp) and isinstance(val.op, (ast.BitAnd, ast.BitOr)))):
                # a named condition (boolean mask): `in_troposphere = altitude <= h_p_tropo`
                try:
                    deps = set()
                    c = self.cond(val, deps)
                    self.bind(tgt.id, 'bool', f'(decide {c})', deps)
                except Untranslatable as ex:
                    self.why[tgt.id] = str(ex)
                    self.forget([tgt.id])
                continue
            if tgt is not None and isinstance(tgt, ast.Name):
                try:
                    deps = set()
                    text = self.expr(val, deps)
                    self.bind(tgt.id, 'real', text, deps)
                except Untranslatable as ex:
                    self.why[tgt.id] = str(ex)
                    self.forget([tgt.id])
                continue
            if tgt is not None and isinstance(tgt, ast.Subscript) and isinstance(tgt.value, ast.Name) \
                    and self.env.get(tgt.value.id) == 'real':
                # masked store x[cond] = v
                try:
                    deps = {tgt.value.id}
                    c = self.cond(tgt.slice, deps)
                    v = self.expr(val, deps)
                    x = lean_ident(tgt.value.id)
                    self.bind(tgt.value.id, 'real', f'(if {c} then {v} else {x})', deps)
                except Untranslatable:
                    self.forget([tgt.value.id])
                continue
            self.forget(self.assigned_names(st))
        if not self.target.startswith('return'):
            tname = self.target.split('@')[0]
            if '@' in self.target and not self.stop:
                raise KernelError(f'{self.lean_name}: `{tname}` is not assigned {self.target.split("@")[1]} time(s) in '
                                  f'{self.mod.rel}:{self.fn.name}')
            if self.env.get(tname) != 'real':
                raise KernelError(f'{self.lean_name}: target `{self.target}` of {self.mod.rel}:{self.fn.name} is not translatable '
                                  f'(it depends on code outside the pointwise subset, or no longer exists)')
            result = (lean_ident(tname), {tname})
        if result is None:
            raise KernelError(f'{self.lean_name}: no return value found in {self.mod.rel}:{self.fn.name}')
        return self.emit(result)

    def return_expr(self, v: ast.AST):
        t = self.target
        try:
            deps: set = set()
            if t == 'return':
                return self.expr(v, deps), deps
            if t.startswith('return.'):
                kw = t.split('.', 1)[1]
                if isinstance(v, ast.Call):
                    for k in v.keywords:
                        if k.arg == kw:
                            return self.expr(k.value, deps), deps
                raise Untranslatable(f'no keyword {kw} in the returned record')
            if t.startswith('return['):
                i = int(t[7:-1])
                if isinstance(v, ast.Tuple):
                    return self.expr(v.elts[i], deps), deps
                raise Untranslatable('returned value is not a tuple')
        except Untranslatable as ex:
            raise KernelError(f'{self.lean_name}: return value of {self.mod.rel}:{self.fn.name} not translatable: {ex}'
                              + ''.join(f' [{k}: {v}]' for k, v in self.why.items()))
        raise KernelError(f'bad target {t}')

    def emit(self, result) -> str:
        text, deps = result
        # liveness: walk the lets backwards; a 'cut'/'unknown' marker ends the life of earlier bindings of that name
        needed = set(deps)
        keep = [False] * len(self.lets)
        used_inputs = set()
        for i in range(len(self.lets) - 1, -1, -1):
            name, kind, _, d = self.lets[i]
            if name in needed:
                if kind == 'cut':
                    used_inputs.add(name)
                    needed.discard(name)
                elif kind == 'unknown':
                    raise KernelError(f'{self.lean_name}: depends on `{name}`, which the translator cannot express'
                                      + (f' ({self.why[name]})' if name in self.why else ''))
                else:
                    keep[i] = True
                    needed.discard(name)
                    needed |= d
        inputs = dict(self.inputs)
        for n in needed:
            if n not in inputs:
                raise KernelError(f'{self.lean_name}: free name `{n}`')
            used_inputs.add(n)
        # all declared inputs stay parameters (stable signature), used or not
        sig = list(self.inputs)
        binders = ''.join(f' ({lean_ident(n)} : {"Bool" if k == "bool" else "α"})' for n, k in sig)
        a = ' (A : String → α)' if self.uses_attr else ''
        body = ''.join(f'  let {lean_ident(n)} : {"Bool" if k == "bool" else "α"} := {t}\n'
                       for (n, k, t, _), kp in zip(self.lets, keep) if kp)
        self.g.sig[self.lean_name] = sig
        self.g.uses_attr[self.lean_name] = self.uses_attr
        self.g.attr_keys[self.lean_name] = list(self.attr_keys)
        self.g.guards[self.lean_name] = list(self.guards)
        return f'def {self.lean_name}{a}{binders} : α :=\n{body}  {text}\n'


def sub_kernel(g: Gen, mod: Module, fn: ast.FunctionDef, name: str, cls: str | None = None, engine: str | None = None) -> str:
    """A callee: all positional parameters are inputs, target = return value."""
    if name in g.defs:
        return name
    if name in g.in_progress:
        raise Untranslatable(f'recursive call of {name}')
    g.in_progress.add(name)
    try:
        params = [a.arg for a in fn.args.args if a.arg != 'self' and a.arg not in ('args', 'kwargs')]
        # parameters with defaults stay parameters only when the call sites pass them; keep it simple: no-default params
        nd = len(fn.args.defaults)
        inputs = params[: len(params) - nd] if nd else params
        inputs = [(p, 'bool') if p in BOOL_PARAMS else p for p in inputs]
        tr = FnTranslator(g, mod, fn, name, inputs, 'return', cls, engine)
        try:
            text = tr.run()
        except KernelError as ex:
            raise Untranslatable(str(ex))
        g.defs[name] = f'/-- `{mod.rel}`: `{(cls + ".") if cls else ""}{fn.name}` -/\n' + text
        g.origin[name] = f'{mod.rel}:{fn.name}'
        return name
    finally:
        g.in_progress.discard(name)


def translate_all(kernels=None) -> tuple[Gen, dict[str, str]]:
    """Returns (Gen, errors): errors maps kernel name -> message for kernels that could not be translated."""
    Module.reset()
    g = Gen()
    errors: dict[str, str] = {}
    def try_sym(k) -> bool:
        try:
            tgt = k.target.replace('return.', 'return/') if k.target.startswith('return.') else k.target
            spec = SymKernel(k.name, k.file, k.func, list(k.inputs), tgt, cls=k.cls, engine=k.engine,
                             cut=tuple((i if isinstance(i, str) else i[0]) for i in k.inputs), key_strip=('self.engine_model.', 'self.'))
            sy = Sym(spec)
            text, sig, keys = sy.translate(optional_env=True)
            g.defs[k.name] = f'/-- `{k.file}`: `{k.func}`' + ('' if k.target == 'return' else f', target `{k.target}`') + \
                (f' (as `{k.cls}`)' if k.cls else '') + (f' (engine `{k.engine}`)' if k.engine else '') + \
                ' (symbolic evaluation, callees inlined) -/\n' + text
            g.sig[k.name] = sig
            g.uses_attr[k.name] = bool(keys)
            g.attr_keys[k.name] = keys
            g.origin[k.name] = f'{k.file}:{k.func}'
            return True
        except (KernelError, Untranslatable, OSError, SyntaxError, KeyError, IndexError, AttributeError, TypeError):
            return False

    def try_gen1(k):
        mod = Module.get(k.file)
        if '.' in k.func:
            cname, mname = k.func.split('.')
            concrete = k.cls or cname
            r = mod.method(concrete, mname)
            if r is None:
                raise KernelError(f'{k.name}: method {mname} not found in class {concrete} of {k.file}')
            fn = r[1]
            cls = concrete
        else:
            fn = mod.funcs.get(k.func)
            cls = None
            if fn is None:
                raise KernelError(f'{k.name}: function {k.func} not found in {k.file}')
        tr = FnTranslator(g, mod, fn, k.name, k.inputs, k.target, cls, k.engine)
        text = tr.run()
        tgt = '' if k.target == 'return' else f', target `{k.target}`'
        g.defs[k.name] = f'/-- `{k.file}`: `{k.func}`{tgt}' + (f' (as `{k.cls}`)' if k.cls else '') + \
            (f' (engine `{k.engine}`)' if k.engine else '') + ' -/\n' + text
        g.origin[k.name] = f'{k.file}:{k.func}'

    for k in (kernels or KERNELS):
        if k.prefer_sym and try_sym(k):
            continue
        try:
            try_gen1(k)
        except (KernelError, Untranslatable, OSError, SyntaxError) as ex:
            errors[k.name] = f'{type(ex).__name__}: {ex}'
            # second chance: the symbolic evaluator follows helper functions, closures, named conditions, loops over tables
            if try_sym(k):
                del errors[k.name]
    if kernels is None:
        translate_sym(g, errors)
        base = load_baseline()
        if '$callees' in base:
            # callee definitions of the baseline that this translation did not need (their callers were inlined by the symbolic
            # evaluator, or are stale): kept so that the helper lemmas of the kernel bridge about them still have a subject
            pre = {}
            for dn, dt in base['$callees'].get('ordered', []):   # callee definitions stale kernels may refer to
                if dn not in g.defs:
                    pre[dn] = dt['text']
                    g.sig[dn] = [tuple(x) for x in dt['sig']]
                    g.uses_attr[dn] = dt['uses_attr']
                    g.attr_keys[dn] = dt['attr_keys']
            g.defs = {**pre, **g.defs}
        LAST_STALE.clear()
        LAST_STALE.update(apply_baseline(g, errors))
        g.defs = topo_order(g.defs)
    return g, errors


HEADER = '''/- GENERATED by harness/common/pykern.py from /repo's working tree on every check run. Do not edit.
   Each definition is the pointwise (one array element) reading of the named source function, generic in the scalar type:
   executed on `Float` by the driver (op `kern.eval`), related to the hand-written models over `ℝ` in
   `AeicProofs/Lemmas/KernelBridge.lean`. -/
import AeicModel.Scalar
import AeicModel.Vec
import AeicModel.Generated.Constants
set_option linter.unusedVariables false
namespace Aeic.Kern
open Aeic
section
variable {α : Type} [Add α] [Sub α] [Mul α] [Div α] [Neg α] [LT α] [LE α]
  [DecidableLT α] [DecidableLE α] [Lit α] [Transc α]

'''


def topo_order(defs: dict[str, str]) -> dict[str, str]:
    """definitions ordered so that every definition follows the ones its text mentions (stable otherwise)"""
    import re

    names = list(defs)
    word = re.compile(r'[A-Za-z_][A-Za-z0-9_\']*')
    uses = {n: [w for w in dict.fromkeys(word.findall(defs[n].split(':=', 1)[-1])) if w in defs and w != n] for n in names}
    out: dict[str, str] = {}
    state: dict[str, int] = {}

    def visit(n):
        if state.get(n) == 2:
            return
        if state.get(n) == 1:
            return  # a cycle cannot occur between generated definitions; keep going
        state[n] = 1
        for m in uses[n]:
            visit(m)
        state[n] = 2
        out[n] = defs[n]

    for n in names:
        visit(n)
    return out


BASELINE = Path(__file__).with_name('kernels_baseline.json')


def load_baseline() -> dict:
    try:
        return json.loads(BASELINE.read_text())
    except Exception:
        return {}


def apply_baseline(g: Gen, errors: dict) -> dict[str, str]:
    """Kernels the translator can no longer express keep their last good translation (committed baseline): the source tie of
    that kernel degrades from a proof to the sampled comparison of `harness/kernels.py` (the stale definition is still executed
    next to the real function on every run). Returns {kernel: reason} for the kernels served from the baseline; kernels without
    a baseline entry stay in `errors`."""
    base = load_baseline()
    stale = {}
    for name in list(errors):
        b = base.get(name)
        if b is None:
            continue
        for dn, dt in b.get('deps', {}).items():      # callee definitions the baseline text refers to
            if dn not in g.defs:
                g.defs[dn] = dt['text']
                g.sig[dn] = [tuple(x) for x in dt['sig']]
                g.uses_attr[dn] = dt['uses_attr']
                g.attr_keys[dn] = dt['attr_keys']
        g.defs[name] = '-- STALE: the source is no longer in the translatable subset; last good translation (baseline)\n' + b['text']
        g.sig[name] = [tuple(x) for x in b['sig']]
        g.uses_attr[name] = b['uses_attr']
        g.attr_keys[name] = b['attr_keys']
        stale[name] = errors.pop(name)
    return stale


def snapshot_baseline():
    """(tool, run by hand on a tree where everything translates) writes the committed baseline."""
    g, errors = translate_all()
    if errors:
        raise SystemExit(f'not all kernels translate: {errors}')
    names = [k.name for k in list(KERNELS) + list(SYM_KERNELS)]
    callee = {n: {'text': t, 'sig': g.sig.get(n, []), 'uses_attr': g.uses_attr.get(n, False), 'attr_keys': g.attr_keys.get(n, [])}
              for n, t in g.defs.items() if n not in names}
    out = {}
    for n in names:
        deps = {c: v for c, v in callee.items()}   # every callee / module constant (small; keeps the baseline self-contained)
        out[n] = {'text': g.defs[n], 'sig': g.sig[n], 'uses_attr': g.uses_attr[n], 'attr_keys': g.attr_keys.get(n, []), 'deps': {}}
    out['$callees'] = {'text': '', 'sig': [], 'uses_attr': False, 'attr_keys': [], 'deps': {}, 'ordered': [[n, v] for n, v in callee.items()]}
    BASELINE.write_text(json.dumps(out, indent=0))
    return len(out)


LAST_STALE: dict[str, str] = {}


def render() -> tuple[str, dict[str, str], Gen]:
    g, errors = translate_all()
    out = [HEADER]
    for name, text in g.defs.items():
        out.append(text)
        if g.guards.get(name):
            out.append('-- refusal guards of the source (not part of the value): ' + '; '.join(g.guards[name]) + '\n')
        out.append('\n')
    out.append('end\n\n')
    # dispatcher for the driver (Float)
    out.append('/-- evaluation by name for the driver: attribute environment, real arguments, boolean arguments -/\n')
    out.append('def evalFloat (name : String) (A : String → Float) (x : Array Float) (b : Array Bool) : Option Float :=\n  match name with\n')
    for k in list(KERNELS) + list(SYM_KERNELS):
        if k.name not in g.defs or is_vector_kernel(k, g):
            continue
        sig = g.sig[k.name]
        xi = bi = 0
        parts = []
        for _, kind in sig:
            if kind == 'bool':
                parts.append(f'b[{bi}]!')
                bi += 1
            else:
                parts.append(f'x[{xi}]!')
                xi += 1
        a = ' A' if g.uses_attr[k.name] else ''
        call = f'{k.name}{a} ' + ' '.join(parts) if (parts or a) else f'({k.name} : Float)'
        out.append(f'  | "{k.name}" => some ({call})\n')
    out.append('  | _ => none\n\n')
    # vector kernels: array inputs / outputs, lengths, array-valued attributes
    out.append('/-- evaluation by name of the vector kernels: real, boolean, array and length arguments; array-valued attributes -/\n')
    out.append('def evalFloatV (name : String) (A : String → Float) (AV : String → List Float) (x : Array Float) (b : Array Bool)\n'
               '    (v : Array (List Float)) (n : Array Nat) : Option (List Float) :=\n  match name with\n')
    for k in SYM_KERNELS:
        if k.name not in g.defs or not is_vector_kernel(k, g):
            continue
        idx = {'real': 0, 'bool': 0, 'vec': 0, 'nat': 0}
        arr = {'real': 'x', 'bool': 'b', 'vec': 'v', 'nat': 'n'}
        parts = []
        for _, kind in g.sig[k.name]:
            parts.append(f'{arr[kind]}[{idx[kind]}]!')
            idx[kind] += 1
        a = (' A' if g.uses_attr[k.name] else '') + (' AV' if k.vec_attrs else '')
        for fname, (binder, arity) in k.extern.items():
            a += f' (Vec.tableFn{arity} (AV "$fn:{fname}"))'       # the calls the implementation made, as a table (harness)
        call = f'{k.name}{a} ' + ' '.join(parts)
        if k.out == 'vec':
            out.append(f'  | "{k.name}" => some ({call})\n')
        elif k.out == 'nat':
            out.append(f'  | "{k.name}" => some [Float.ofNat ({call})]\n')
        else:
            out.append(f'  | "{k.name}" => some [{call}]\n')
    out.append('  | _ => none\n\n')
    allk = list(KERNELS) + list(SYM_KERNELS)
    out.append('def kernelNames : List String := [' + ', '.join(f'"{k.name}"' for k in allk if k.name in g.defs) + ']\n')
    out.append('def missingKernels : List String := [' + ', '.join(f'"{k.name}"' for k in allk if k.name not in g.defs) + ']\n')
    out.append('end Aeic.Kern\n')
    return ''.join(out), errors, g


def is_vector_kernel(k, g) -> bool:
    if not isinstance(k, SymKernel):
        return False
    return k.out in ('vec', 'nat') or bool(k.vec_attrs) or bool(k.extern) or any(kind in ('vec', 'nat') for _, kind in g.sig.get(k.name, []))


def regenerate() -> dict[str, str]:
    """Writes Generated/Kernels.lean when it changed. Returns the translation errors (kernel name -> message) of kernels that
    have no baseline either; `LAST_STALE` holds the kernels served from the baseline (a diagnostic, not an error)."""
    text, errors, _ = render()
    OUT.parent.mkdir(parents=True, exist_ok=True)
    if not OUT.exists() or OUT.read_text() != text:
        OUT.write_text(text)
    return errors




# =========================================================================== symbolic evaluator (second generation)
# Kernels with `mode='sym'` are translated by a small symbolic evaluator of straight-line Python with `if` statements:
# values are reals / booleans (Lean expressions), records and mappings with constant keys (`SpeciesValues`, dataclass
# constructors, `d[Species.CO2] = …`), tuples, opaque objects rooted at a parameter or `self` (their numeric leaves are read
# from the attribute environment `A`), and Python constants (enum members, None). `if` statements whose test is decidable
# from constants are resolved statically, others are merged value by value (`if c then a else b`: both branches are pure);
# `if …: raise` guards are skipped (the kernel describes the executions that return); `for` over a literal list / the keys
# of a mapping is unrolled; `match` on a constant selects its case; calls of source functions and `self.method(...)` are
# inlined symbolically. A target is a path into the result (`return/emissions/Species.CO2`) or into a local / attribute
# (`gse/Species.NO`, `self.crz_start_altitude`).
THRUST_MODES = ['ThrustMode.IDLE', 'ThrustMode.APPROACH', 'ThrustMode.CLIMB', 'ThrustMode.TAKEOFF']


@dataclass
class SymKernel:
    name: str
    file: str
    func: str
    inputs: list                       # real inputs (parameter names or cut variables); ('x','bool') for booleans
    target: str
    consts: dict = field(default_factory=dict)       # parameter -> python constant expression text (e.g. 'AircraftClass.WIDE')
    cond_inputs: dict = field(default_factory=dict)  # source text of a condition -> boolean input name
    cls: str | None = None
    mode: str = 'sym'
    cut: tuple = ()                    # local names treated as inputs once they have been assigned
    cut_obj: tuple = ()                # local names treated as opaque objects (their numeric attributes come from `A`)
    key_strip: tuple = ()              # prefixes removed from attribute keys (`self.` …): first-generation key convention
    engine: str | None = None
    doc: str = ''
    loop: bool = False                 # evaluate ONE generic iteration of the first top-level `for … in range(…)` loop of the function:
                                       # everything the body assigns is havocked at loop entry (attribute state such as `pt.fuel_mass`
                                       # is read from the attribute environment, plain locals become unknown), `if …: … break` is a
                                       # guard (the kernel describes iterations that run to the end of the body), and the targets are
                                       # read from the state at the end of the body
    cond_consts: dict = field(default_factory=dict)  # source text of a condition -> True / False (the kernel fixes that branch)
    pointwise: bool = False            # the kernel reads array code for ONE element: `np.zeros(n)` is 0, `x[mask]` is x, a masked store
                                       # is a conditional, `np.any(mask)` guards only masked stores (taken), `np.isnan` is false (no NaN
                                       # over the reals: stated in the generated file)
    out: str = 'real'                  # 'real' | 'vec' (the kernel returns a list: vector kernels, third generation)
    vec_attrs: tuple = ()              # attribute chains that hold arrays ('traj.fuel_mass'): read from `AV : String → List α`
    cut_expr: dict = field(default_factory=dict)     # source text of an expression -> (input name, 'real'|'vec'|'nat'|'bool')
    slice_objs: dict = field(default_factory=dict)   # local name of a slice object -> (nat input lo, nat input hi)
    loop_seq: bool = False             # with loop=True: do not stop after the first matching loop; every later matching loop is
                                       # evaluated as one more generic iteration for the SAME generic element (loops over the keys
                                       # of one mapping whose iterations touch only their own entries)
    loop_over: str = ''                # with loop=True: the iterable (source text) of the loop to take instead of `range(...)`
    cut_attr: dict = field(default_factory=dict)     # attribute chain ('pt.ground_speed') -> input name: an input once assigned
    tuple_inputs: dict = field(default_factory=dict)  # parameter holding a tuple of arrays -> names of (listed) array inputs: the tuple
                                       # is read with these generic elements (`tuple(f(v) for v in variables)` is per element)
    extern: dict = field(default_factory=dict)       # name of a module-level function that cannot be read (a library call behind it) ->
                                       # (binder name, arity): left uninterpreted, the kernel takes it as a function argument


class V:
    pass


@dataclass
class R(V):
    e: str
    deps: frozenset = frozenset()


@dataclass
class Bv(V):
    e: str                      # Lean Prop (decidable)
    deps: frozenset = frozenset()


@dataclass
class Dv(V):
    d: dict


@dataclass
class Tv(V):
    items: list


@dataclass
class Ov(V):
    path: str                   # opaque object: 'mission.origin_position'


@dataclass
class Cv(V):
    c: object                   # python constant: number handled as R; enum member text 'Species.CO2'; None; str


@dataclass
class Uv(V):
    why: str = ''


@dataclass
class Lv(V):
    """array value: a pointwise function `body` (in the bound scalar variables `vars`) of the base lists `bases`"""
    bases: tuple
    vars: tuple
    body: object                # R | Bv | Cond
    deps: frozenset = frozenset()


@dataclass
class Nv(V):
    e: str                      # Lean Nat expression
    deps: frozenset = frozenset()


@dataclass
class Cond(V):
    """`np.where(c, a, b)` whose branches are not both finite reals yet (`np.inf` on one side): resolved when an operation
    makes both sides finite (`1 / where(c, inf, x)` = `if c then 0 else 1 / x`)"""
    c: object
    a: object
    b: object


INF = float('inf')


@dataclass
class Fnv(V):
    fn: object                  # a nested function definition, with the environment it closes over
    env: dict
    mod: object
    cls: object


class Returned(Exception):
    def __init__(self, v):
        self.v = v


class LoopDone(Exception):
    pass


class Sym:
    def __init__(self, spec: SymKernel):
        self.spec = spec
        self.lets: list[tuple[str, str, str, frozenset]] = []  # (lean name, type, expr, deps)
        self.counter: dict[str, int] = {}
        self.attr_keys: list[str] = []
        self.used_bool_inputs: list[str] = []
        self.guards: list[str] = []
        self.depth = 0
        self.params: list[str] = []
        self.in_loop = False
        self.no_bind = 0            # > 0 while evaluating the body of a pointwise lambda (no `let` outside the lambda)
        self.base_vars: dict[str, str] = {}
        self.vattr_keys: list[str] = []
        self.used_extern: list[str] = []

    # ---- names
    def fresh(self, base: str) -> str:
        base = ''.join(ch if ch.isalnum() or ch == '_' else '_' for ch in base).strip('_') or 'v'
        if base[0].isdigit():
            base = 'v' + base
        k = self.counter.get(base, 0)
        self.counter[base] = k + 1
        n = base if k == 0 else f'{base}_{k}'
        inputs = {(i if isinstance(i, str) else i[0]) for i in self.spec.inputs} | set(self.spec.cond_inputs.values())
        if k == 0 and (n in inputs or n == 'A'):
            return self.fresh(base)
        return lean_ident(n)

    def bind_real(self, base: str, v: R) -> R:
        if self.no_bind:
            return v
        n = self.fresh(base)
        self.lets.append((n, 'α', v.e, v.deps))
        return R(n, frozenset([n]))

    # ---- coercions
    def real(self, v: V, what='') -> R:
        if isinstance(v, R):
            return v
        if isinstance(v, Ov):
            path = v.path
            for pre in self.spec.key_strip:
                if path.startswith(pre):
                    path = path[len(pre):]
                    break
            if path not in self.attr_keys:
                self.attr_keys.append(path)
            return R(f'(A "{path}")')
        if isinstance(v, Cv) and isinstance(v.c, (int, float)) and not isinstance(v.c, bool):
            if v.c in (INF, -INF):
                raise Untranslatable('an infinite value reaches a place where a finite real is needed')
            return R(num_lit(v.c))
        if isinstance(v, Cond):
            a, b = self.real(v.a, what), self.real(v.b, what)
            return R(f'(if {v.c.e} then {a.e} else {b.e})', v.c.deps | a.deps | b.deps)
        raise Untranslatable(f'not a real: {what or type(v).__name__}' + (f' ({v.why})' if isinstance(v, Uv) else ''))

    def cond(self, v: V, what='') -> Bv | bool:
        if isinstance(v, Bv):
            return v
        if isinstance(v, Lv) and isinstance(v.body, Bv):
            return v
        if isinstance(v, Cv) and isinstance(v.c, bool):
            return v.c
        if isinstance(v, Cv) and v.c is None:
            return False
        if isinstance(v, Tv):
            return bool(v.items)                      # truthiness of a tuple of known length
        raise Untranslatable(f'not a condition: {what}')


    # ---- arrays (third generation): pointwise functions of base lists, materialised by List.map / zipWith
    def var_for(self, base_expr: str) -> str:
        if base_expr not in self.base_vars:
            self.base_vars[base_expr] = f'e__{len(self.base_vars)}'
        return self.base_vars[base_expr]

    def lv_of_base(self, expr: str, deps=frozenset()) -> Lv:
        v = self.var_for(expr)
        return Lv((expr,), (v,), R(v), frozenset(deps))

    @staticmethod
    def vdeps(v) -> frozenset:
        if isinstance(v, Cond):
            return Sym.vdeps(v.c) | Sym.vdeps(v.a) | Sym.vdeps(v.b)
        return getattr(v, 'deps', frozenset())

    def mat(self, v: V, what='') -> tuple[str, frozenset]:
        """Lean expression of type `List α` for an array value"""
        if not isinstance(v, Lv):
            raise Untranslatable(f'not an array: {what or type(v).__name__}' + (f' ({v.why})' if isinstance(v, Uv) else ''))
        body = v.body
        if isinstance(body, Cond):
            body = self.real(body, what)
        if not isinstance(body, R):
            raise Untranslatable('an array of conditions where an array of reals is needed')
        d = frozenset(v.deps) | body.deps
        if len(v.bases) == 1 and body.e == v.vars[0]:
            return v.bases[0], d
        if len(v.bases) == 1:
            return f'(List.map (fun {v.vars[0]} => {body.e}) {v.bases[0]})', d
        if len(v.bases) == 2:
            return f'(List.zipWith (fun {v.vars[0]} {v.vars[1]} => {body.e}) {v.bases[0]} {v.bases[1]})', d
        if len(v.bases) == 3:
            return (f'(Vec.zipWith3 (fun {v.vars[0]} {v.vars[1]} {v.vars[2]} => {body.e}) {v.bases[0]} {v.bases[1]} '
                    f'{v.bases[2]})'), d
        raise Untranslatable('pointwise expression over more than three arrays')

    def pointwise(self, fn, *args) -> V:
        """apply the scalar operation `fn` to values any of which may be arrays (numpy broadcasting of scalars)"""
        if not any(isinstance(a, Lv) for a in args):
            return fn(*args)
        bases, vars_, deps = [], [], frozenset()
        for a in args:
            if isinstance(a, Lv):
                for b, v in zip(a.bases, a.vars):
                    if b not in bases:
                        bases.append(b)
                        vars_.append(v)
                deps |= a.deps
        self.no_bind += 1
        try:
            body = fn(*[(a.body if isinstance(a, Lv) else a) for a in args])
        finally:
            self.no_bind -= 1
        return Lv(tuple(bases), tuple(vars_), body, deps | self.vdeps(body))

    @staticmethod
    def is_inf(v) -> bool:
        return isinstance(v, Cv) and isinstance(v.c, float) and v.c in (INF, -INF)

    def mk_cond(self, c: Bv, a: V, b: V) -> V:
        try:
            ra, rb = self.real(a), self.real(b)
            if ra.e == rb.e:
                return ra
            return self.bind_real('sel', R(f'(if {c.e} then {ra.e} else {rb.e})', c.deps | ra.deps | rb.deps))
        except Untranslatable:
            return Cond(c, a, b)

    def sbin(self, op, a: V, b: V, ta='', tb='') -> V:
        """scalar `a op b` (reals; `np.where` results with an infinite branch are resolved by division)"""
        if isinstance(b, Cond):
            return self.mk_cond(b.c, self.sbin(op, a, b.a, ta, tb), self.sbin(op, a, b.b, ta, tb))
        if isinstance(a, Cond):
            return self.mk_cond(a.c, self.sbin(op, a.a, b, ta, tb), self.sbin(op, a.b, b, ta, tb))
        if self.is_inf(b) and isinstance(op, ast.Div) and not self.is_inf(a):
            self.real(a, ta)
            return R('(Lit.dec (0) 0 : α)')
        ra = self.real(a, ta)
        rb = self.real(b, tb)
        if isinstance(op, ast.Pow):
            return R(f'(Transc.pow {ra.e} {rb.e})', ra.deps | rb.deps)
        ops = {ast.Add: '+', ast.Sub: '-', ast.Mult: '*', ast.Div: '/'}
        if type(op) in ops:
            return R(f'({ra.e} {ops[type(op)]} {rb.e})', ra.deps | rb.deps)
        raise Untranslatable(f'operator {type(op).__name__}')

    def spow_const(self, a: V, c, ta='') -> V:
        r = self.real(a, ta)
        if c == 2:
            return R(f'({r.e} * {r.e})', r.deps)
        return R(f'(Transc.sqrt {r.e})', r.deps)

    def nat_of(self, v: V, node: ast.AST | None = None) -> Nv:
        if isinstance(v, Nv):
            return v
        if node is not None and isinstance(node, ast.Constant) and isinstance(node.value, int) and node.value >= 0:
            return Nv(str(node.value))
        raise Untranslatable('not a natural number')

    def nat_binop(self, e: ast.BinOp, a: V, b: V) -> V:
        x, y = self.nat_of(a, e.left), self.nat_of(b, e.right)
        if isinstance(e.op, ast.Sub):
            return Nv(f'({x.e} - {y.e})', x.deps | y.deps)    # truncated: the kernel is read for lengths where it is ≥ 0
        if isinstance(e.op, ast.Add):
            return Nv(f'({x.e} + {y.e})', x.deps | y.deps)
        raise Untranslatable('arithmetic on lengths')

    def subst(self, v, m: dict):
        import re as _re

        def tx(t: str) -> str:
            return _re.sub(r'\be__\d+\b', lambda k: m.get(k.group(0), k.group(0)), t)
        if isinstance(v, R):
            return R(tx(v.e), v.deps)
        if isinstance(v, Bv):
            return Bv(tx(v.e), v.deps)
        if isinstance(v, Cond):
            return Cond(self.subst(v.c, m), self.subst(v.a, m), self.subst(v.b, m))
        return v

    def vec_subscript(self, base: Lv, sl: ast.AST, env: dict) -> V:
        try:
            X, d = self.mat(base, 'subscripted array')
        except Untranslatable:
            # an array that cannot be written down yet (infinite entries): a slice of a pointwise expression is the pointwise
            # expression of the slices of its arguments
            if not isinstance(sl, ast.Slice):
                raise
            parts = [self.vec_subscript(self.lv_of_base(b, base.deps), sl, env) for b in base.bases]
            ren = {old: p.vars[0] for old, p in zip(base.vars, parts)}
            return Lv(tuple(p.bases[0] for p in parts), tuple(p.vars[0] for p in parts), self.subst(base.body, ren),
                      frozenset().union(*[p.deps for p in parts]) | base.deps)

        def is_c(n, val):
            if val is None:
                return n is None
            if isinstance(n, ast.Constant):
                return n.value == val
            return (isinstance(n, ast.UnaryOp) and isinstance(n.op, ast.USub) and isinstance(n.operand, ast.Constant)
                    and -n.operand.value == val)
        if isinstance(sl, ast.Slice):
            if is_c(sl.lower, 1) and sl.upper is None and sl.step is None:
                return self.lv_of_base(f'(List.tail {X})', d)
            if sl.lower is None and is_c(sl.upper, -1) and sl.step is None:
                return self.lv_of_base(f'(List.dropLast {X})', d)
            if sl.lower is None and sl.upper is None and is_c(sl.step, -1):
                return self.lv_of_base(f'(List.reverse {X})', d)
            if sl.step is None and sl.lower is None and sl.upper is not None:
                n = self.nat_of(self._ev(sl.upper, env), sl.upper)
                return self.lv_of_base(f'(List.take {n.e} {X})', d | n.deps)
            if sl.step is None and sl.upper is None and sl.lower is not None:
                n = self.nat_of(self._ev(sl.lower, env), sl.lower)
                return self.lv_of_base(f'(List.drop {n.e} {X})', d | n.deps)
            raise Untranslatable(f'slice {ast.unparse(sl)}')
        if is_c(sl, 0):
            return R(f'(Vec.head0 {X})', d)
        if is_c(sl, -1):
            return R(f'(Vec.last0 {X})', d)
        if isinstance(sl, ast.Name) and sl.id in self.spec.slice_objs:
            lo, hi = self.spec.slice_objs[sl.id]
            return self.lv_of_base(f'(Vec.slice {lean_ident(lo)} {lean_ident(hi)} {X})', d | {lo, hi})
        if not isinstance(sl, (ast.Slice, ast.Tuple)):
            iv = self.ev(sl, env)
            if isinstance(iv, Nv):                     # `x[k]` for a length-typed `k ≥ 0`
                return R(f'(Vec.getAt {X} {iv.e})', d | iv.deps)
        raise Untranslatable(f'array index {ast.unparse(sl)}')

    def vec_store(self, base: Lv, sl: ast.AST, v: V, env: dict) -> Lv:
        X, d = self.mat(base, 'array stored into')

        def is_c(n, val):
            if val is None:
                return n is None
            if isinstance(n, ast.Constant):
                return n.value == val
            return (isinstance(n, ast.UnaryOp) and isinstance(n.op, ast.USub) and isinstance(n.operand, ast.Constant)
                    and -n.operand.value == val)
        if isinstance(sl, ast.Constant) and sl.value == 0:
            r = self.real(v, 'stored element')
            return self.lv_of_base(f'(Vec.setHead {X} {r.e})', d | r.deps)
        if not isinstance(sl, ast.Slice) or sl.step is not None:
            raise Untranslatable(f'array store {ast.unparse(sl)}')
        if is_c(sl.lower, 1) and sl.upper is None:
            Y, dy = self.mat(v, 'stored value')
            return self.lv_of_base(f'(Vec.setTail {X} {Y})', d | dy)
        if sl.lower is None and is_c(sl.upper, -1):
            Y, dy = self.mat(v, 'stored value')
            return self.lv_of_base(f'(Vec.setInit {X} {Y})', d | dy)
        zero = isinstance(v, R) and v.e.replace(' ', '') in ('(Lit.dec(0)0:α)', '(Lit.dec(0)1:α)', '(Lit.dec(00)1:α)')
        if zero and sl.lower is None and sl.upper is not None:
            up = self._ev(sl.upper, env)
            n = self.slice_bound(sl.upper, up)
            return self.lv_of_base(f'(Vec.zeroPrefix {n.e} {X})', d | n.deps)
        if zero and sl.upper is None and sl.lower is not None:
            lo = self._ev(sl.lower, env)
            n = self.slice_bound(sl.lower, lo)
            return self.lv_of_base(f'(Vec.zeroFrom {n.e} {X})', d | n.deps)
        raise Untranslatable(f'array store {ast.unparse(sl)}')

    def slice_bound(self, node: ast.AST, v: V) -> Nv:
        """`idx_slice.start` / `.stop` of a declared slice object, or a length"""
        ch = self.chain(node) if isinstance(node, ast.Attribute) else None
        if ch and len(ch) == 2 and ch[0] in self.spec.slice_objs and ch[1] in ('start', 'stop'):
            n = self.spec.slice_objs[ch[0]][0 if ch[1] == 'start' else 1]
            return Nv(lean_ident(n), frozenset([n]))
        return self.nat_of(v, node)

    def enum_code(self, v: V) -> V:
        """a ThrustMode member as the index of the member in definition order (IDLE 0, APPROACH 1, CLIMB 2, TAKEOFF 3)"""
        if isinstance(v, Cv) and isinstance(v.c, str) and v.c in THRUST_MODES:
            return Nv(str(THRUST_MODES.index(v.c)))
        return v

    # ---- ThrustModeValues: a mapping over the four thrust modes with elementwise arithmetic (`performance/types.py`); a
    # missing mode reads as 0.0 (`__getitem__`). The reading of the operator methods is built in; it is validated like
    # everything else by running the generated kernels next to the real functions.
    @staticmethod
    def is_tmv(v) -> bool:
        return isinstance(v, Dv) and len(v.d) > 0 and all(k in THRUST_MODES for k in v.d)

    def as_tmv(self, v: V) -> 'Dv':
        if self.is_tmv(v):
            return v
        if isinstance(v, Ov):
            return Dv({m: Ov(f'{v.path}[{m}]') for m in THRUST_MODES})
        raise Untranslatable('not a ThrustModeValues')

    def tmv_binop(self, op, a: V, b: V, ta='', tb='') -> V:
        if not isinstance(op, (ast.Add, ast.Mult, ast.Div)):
            raise Untranslatable(f'ThrustModeValues has no operator {type(op).__name__}')
        if self.is_tmv(a) or (isinstance(a, Ov) and self.is_tmv(b)):
            x = self.as_tmv(a)
            if self.is_tmv(b) or isinstance(b, Ov):
                y = self.as_tmv(b)
                return Dv({m: self.named(f'tm_{m.split(".")[-1]}', self.sbin(op, x.d[m], y.d.get(m, R('(Lit.dec (0) 1 : α)')), ta, tb))
                           for m in x.d})
            return Dv({m: self.named(f'tm_{m.split(".")[-1]}', self.sbin(op, x.d[m], b, ta, tb)) for m in x.d})
        # scalar on the left: __radd__ / __rmul__ (commutative forms only)
        if isinstance(op, ast.Div):
            raise Untranslatable('scalar / ThrustModeValues')
        y = self.as_tmv(b)
        return Dv({m: self.named(f'tm_{m.split(".")[-1]}', self.sbin(op, y.d[m], a, tb, ta)) for m in y.d})

    # ---- module context helpers
    def enter(self, mod: Module, cls: str | None, engine: str | None = None):
        self.mod, self.cls, self.engine = mod, cls, engine

    # ---- expressions
    def ev(self, e: ast.AST, env: dict) -> V:
        try:
            return self._ev(e, env)
        except Untranslatable as ex:
            return Uv(str(ex))

    def _ev(self, e: ast.AST, env: dict) -> V:
        src = self.mod.src
        if isinstance(e, ast.Subscript) and ast.unparse(e) in env:
            return env[ast.unparse(e)]                # `indices[species]` inside a generic loop iteration, once it was stored to
        if self.spec.cut_expr and not isinstance(e, ast.Constant):
            text = ast.unparse(e)
            if text in self.spec.cut_expr:
                n, kind = self.spec.cut_expr[text]
                if kind == 'vec':
                    return self.lv_of_base(lean_ident(n), frozenset([n]))
                if kind == 'nat':
                    return Nv(lean_ident(n), frozenset([n]))
                if kind == 'bool':
                    return Bv(f'({lean_ident(n)} = true)', frozenset([n]))
                if kind == 'tmv':
                    return Dv({m: R(lean_ident(f'{n}_{m.split(".")[-1]}'), frozenset([f'{n}_{m.split(".")[-1]}'])) for m in THRUST_MODES})
                return R(lean_ident(n), frozenset([n]))
        if isinstance(e, ast.Constant):
            if isinstance(e.value, (int, float)) and not isinstance(e.value, bool):
                return R(lit(e, src))
            return Cv(e.value)
        if isinstance(e, ast.Name):
            if e.id in env:
                return env[e.id]
            if e.id in ('True', 'False'):
                return Cv(e.id == 'True')
            return self.global_value(e.id)
        if isinstance(e, ast.Attribute):
            ch = self.chain(e)
            if ch and '.'.join(ch) in env:           # attribute stores on self: env['self.x']
                return env['.'.join(ch)]
            if ch and ch[0] in ('np', 'numpy', 'math') and ch[1:] == ['inf'] and ch[0] not in env:
                return Cv(INF)
            if ch and ch[0] in ('np', 'numpy', 'math') and ch[1:] == ['pi'] and ch[0] not in env:
                return R('(Lit.dec (3141592653589793) 15 : α)')     # the double `math.pi` as its shortest decimal
            if ch and '.'.join(ch) in self.spec.vec_attrs:
                key = '.'.join(ch)
                if key not in self.vattr_keys:
                    self.vattr_keys.append(key)
                return self.lv_of_base(f'(AV "{key}")')
            base = self._ev(e.value, env)
            if isinstance(base, Ov):
                if base.path + '.' + e.attr in env:      # (an attribute the code assigned earlier, possibly through another name)
                    return env[base.path + '.' + e.attr]
                return Ov(base.path + '.' + e.attr)
            if isinstance(base, Dv):
                if e.attr in base.d:
                    return base.d[e.attr]
                raise Untranslatable(f'record has no field {e.attr}')
            if isinstance(base, Cv) and isinstance(base.c, str) and base.c and base.c[0].isupper() and '.' not in base.c:
                return Cv(f'{base.c}.{e.attr}')      # enum member
            raise Untranslatable(f'attribute {e.attr} of {type(base).__name__}')
        if isinstance(e, ast.Subscript):
            if ast.unparse(e) in env:                 # `indices[species]` inside a generic loop iteration: a variable of its own
                return env[ast.unparse(e)]
            base = self._ev(e.value, env)
            if isinstance(base, Lv):
                return self.vec_subscript(base, e.slice, env)
            if self.spec.pointwise and isinstance(base, R):
                try:
                    m = self.test(e.slice, env)
                    if isinstance(m, (Bv, bool)):
                        return base               # `x[mask]` read for one element: the element itself (used under that mask)
                except Untranslatable:
                    pass
            if isinstance(base, Cv) and isinstance(base.c, str) and base.c[0:1].isupper():
                return base                           # generic alias such as SpeciesValues[float]
            key = self._ev(e.slice, env)
            if isinstance(base, Dv):
                k = self.key_of(key)
                if k in base.d:
                    return base.d[k]
                raise Untranslatable(f'key {k} not set')
            if isinstance(base, Tv) and isinstance(key, R):
                raise Untranslatable('tuple index')
            if isinstance(base, Tv) and isinstance(key, Cv):
                return base.items[int(key.c)]
            if isinstance(base, Ov):
                return Ov(f'{base.path}[{self.key_of(key)}]')
            raise Untranslatable('subscript')
        if isinstance(e, ast.UnaryOp):
            if isinstance(e.op, ast.USub):
                def neg(x):
                    r = self.real(x, 'operand of -')
                    return R(f'(-{r.e})', r.deps)
                return self.pointwise(neg, self._ev(e.operand, env))
            if isinstance(e.op, ast.UAdd):
                return self._ev(e.operand, env)
            if isinstance(e.op, (ast.Not, ast.Invert)):
                c = self.cond(self._ev(e.operand, env), ast.unparse(e))
                return Cv(not c) if isinstance(c, bool) else Bv(f'(¬ {c.e})', c.deps)
        if isinstance(e, ast.BinOp):
            if isinstance(e.op, (ast.BitAnd, ast.BitOr)):
                return self.boolop('∧' if isinstance(e.op, ast.BitAnd) else '∨', [e.left, e.right], env)
            av = self._ev(e.left, env)
            tl, tr = ast.unparse(e.left), ast.unparse(e.right)
            if isinstance(e.op, ast.Pow) and isinstance(e.right, ast.Constant) and e.right.value in (2, 0.5) \
                    and not isinstance(e.right.value, bool):
                return self.pointwise(lambda x: self.spow_const(x, e.right.value, tl), av)
            if not isinstance(av, (Lv, Nv, Cond, Dv, Ov)):
                self.real(av, tl)                      # (a left operand that is not a number fails before the right one is read)
            bv = self._ev(e.right, env)
            if isinstance(av, Nv) or isinstance(bv, Nv):
                return self.nat_binop(e, av, bv)
            if self.is_tmv(av) or self.is_tmv(bv):
                return self.tmv_binop(e.op, av, bv, tl, tr)
            return self.pointwise(lambda x, y: self.sbin(e.op, x, y, tl, tr), av, bv)
        if isinstance(e, ast.BoolOp):
            return self.boolop('∧' if isinstance(e.op, ast.And) else '∨', e.values, env)
        if isinstance(e, ast.Compare) and len(e.ops) == 1:
            return self.compare(e, env)
        if isinstance(e, ast.IfExp):
            c = self.test(e.test, env)
            if isinstance(c, bool):
                return self._ev(e.body if c else e.orelse, env)
            a, b = self._ev(e.body, env), self._ev(e.orelse, env)
            return self.merge(c, a, b, 'ite')
        if isinstance(e, ast.Tuple):
            return Tv([self.ev(x, env) for x in e.elts])
        if isinstance(e, ast.Dict):
            return Dv({self.key_of(self._ev(k, env)): self.ev(v, env) for k, v in zip(e.keys, e.values)})
        if isinstance(e, ast.DictComp) and len(e.generators) == 1 and not e.generators[0].ifs \
                and isinstance(e.generators[0].target, ast.Name):
            gen = e.generators[0]
            if isinstance(gen.iter, ast.Name) and gen.iter.id == 'ThrustMode' and 'ThrustMode' not in env:
                out = {}
                for m in THRUST_MODES:
                    env2 = dict(env)
                    env2[gen.target.id] = Cv(m)
                    out[self.key_of(self._ev(e.key, env2))] = self.ev(e.value, env2)
                return Dv(out)
            raise Untranslatable('dictionary comprehension over something that is not the ThrustMode enumeration')
        if isinstance(e, ast.GeneratorExp) and len(e.generators) == 1 and not e.generators[0].ifs \
                and isinstance(e.generators[0].target, ast.Name):
            it = self._ev(e.generators[0].iter, env)
            if not isinstance(it, Tv):
                raise Untranslatable('generator over something that is not a tuple of known length')
            out = []
            for item in it.items:
                env2 = dict(env)
                env2[e.generators[0].target.id] = item
                out.append(self.ev(e.elt, env2))
            return Tv(out)
        if isinstance(e, ast.Call):
            return self.call(e, env)
        raise Untranslatable(f'expression {type(e).__name__}')

    def key_of(self, v: V) -> str:
        if isinstance(v, Cv):
            return str(v.c)
        raise Untranslatable('non-constant key')

    def chain(self, e):
        parts = []
        while isinstance(e, ast.Attribute):
            parts.append(e.attr)
            e = e.value
        if isinstance(e, ast.Name):
            parts.append(e.id)
            return parts[::-1]
        return None

    def global_value(self, n: str) -> V:
        if n in self.mod.consts:
            return self.ev_in_module(self.mod, self.mod.consts[n])
        if n in self.mod.imports:
            m, orig = self.mod.imports[n]
            if m in CONST_MODULES:
                return R(f'(Gen.{orig} (α := α))')
            rel = module_rel_of(m)
            if rel is not None:
                other = Module.get(rel)
                if orig in other.consts:
                    return self.ev_in_module(other, other.consts[orig])
                if orig in other.funcs or orig in other.classes:
                    return Cv(orig) if orig in other.classes else Cv('fn:' + n)
            return Cv(orig)   # an imported class / enum (used as `Species.CO2`, `SpeciesValues[float](…)`)
        if n in self.mod.funcs:
            return Cv('fn:' + n)
        if n in self.mod.classes:
            return Cv(n)
        if n in ('float', 'int', 'max', 'min', 'len', 'abs'):
            return Cv('builtin:' + n)
        raise Untranslatable(f'unknown name {n}')

    def ev_in_module(self, mod: Module, node: ast.AST) -> V:
        saved = self.mod
        self.mod = mod
        try:
            return self._ev(node, {})
        finally:
            self.mod = saved

    def norm_text(self, t: ast.AST, env: dict) -> str:
        """source text of a condition with names bound to constants replaced by the constant (`species` -> `Species.SO2`)"""
        class Sub(ast.NodeTransformer):
            def visit_Name(s2, n):
                v = env.get(n.id)
                if isinstance(v, Cv) and isinstance(v.c, str) and '.' in v.c:
                    return ast.parse(v.c, mode='eval').body
                return n
        return ast.unparse(Sub().visit(ast.parse(ast.unparse(t), mode='eval').body))

    def test(self, t: ast.AST, env: dict):
        text = ast.unparse(t)
        if text in self.spec.cond_consts:
            return bool(self.spec.cond_consts[text])
        if text not in self.spec.cond_inputs and self.spec.cond_inputs:
            text = self.norm_text(t, env)
        if text in self.spec.cond_inputs:
            n = self.spec.cond_inputs[text]
            if n not in self.used_bool_inputs:
                self.used_bool_inputs.append(n)
            return Bv(f'({lean_ident(n)} = true)', frozenset([n]))
        return self.cond(self._ev(t, env), text)

    def boolop(self, j: str, parts, env) -> V:
        cs = [self.test(p, env) for p in parts]
        stat = [c for c in cs if isinstance(c, bool)]
        dyn = [c for c in cs if not isinstance(c, bool)]
        if j == '∧':
            if any(c is False for c in stat):
                return Cv(False)
        else:
            if any(c is True for c in stat):
                return Cv(True)
        if not dyn:
            return Cv(j == '∧')
        deps = frozenset().union(*[c.deps for c in dyn])
        return Bv('(' + f' {j} '.join(c.e for c in dyn) + ')', deps) if len(dyn) > 1 else dyn[0]

    def compare(self, e: ast.Compare, env) -> V:
        op = e.ops[0]
        lv, rv = self._ev(e.left, env), self._ev(e.comparators[0], env)
        if isinstance(op, (ast.Is, ast.IsNot)):
            if isinstance(rv, Cv) and rv.c is None:
                if isinstance(lv, Cv):
                    return Cv((lv.c is None) == isinstance(op, ast.Is))
                if isinstance(lv, (R, Dv, Tv, Lv, Nv)):
                    return Cv(isinstance(op, ast.IsNot))
            raise Untranslatable(f'identity test {ast.unparse(e)}')
        if isinstance(op, (ast.In, ast.NotIn)):
            if isinstance(rv, Dv):
                return Cv((self.key_of(lv) in rv.d) == isinstance(op, ast.In))
            if isinstance(rv, Tv) and isinstance(lv, Cv) and all(isinstance(x, Cv) for x in rv.items):
                return Cv((lv.c in [x.c for x in rv.items]) == isinstance(op, ast.In))
            raise Untranslatable(f'membership test {ast.unparse(e)}')
        if isinstance(lv, Cv) and isinstance(rv, Cv) and not isinstance(lv.c, (int, float)) and isinstance(op, (ast.Eq, ast.NotEq)):
            return Cv((lv.c == rv.c) == isinstance(op, ast.Eq))
        if isinstance(lv, Lv) or isinstance(rv, Lv):
            return self.pointwise(lambda x, y: self.scmp(op, x, y, ast.unparse(e.left), ast.unparse(e.comparators[0])), lv, rv)
        return self.scmp(op, lv, rv, ast.unparse(e.left), ast.unparse(e.comparators[0]))

    def scmp(self, op, lv: V, rv: V, tl='', tr='') -> V:
        a, b = self.real(lv, tl), self.real(rv, tr)
        d = a.deps | b.deps
        if isinstance(op, ast.LtE):
            return Bv(f'({a.e} ≤ {b.e})', d)
        if isinstance(op, ast.Lt):
            return Bv(f'({a.e} < {b.e})', d)
        if isinstance(op, ast.GtE):
            return Bv(f'({b.e} ≤ {a.e})', d)
        if isinstance(op, ast.Gt):
            return Bv(f'({b.e} < {a.e})', d)
        if isinstance(op, ast.NotEq):
            return Bv(f'({a.e} < {b.e} ∨ {b.e} < {a.e})', d)
        if isinstance(op, ast.Eq):
            return Bv(f'({a.e} ≤ {b.e} ∧ {b.e} ≤ {a.e})', d)
        raise Untranslatable('comparison')

    def merge(self, c: Bv, a: V, b: V, base: str) -> V:
        if isinstance(a, Lv) or isinstance(b, Lv):
            return self.pointwise(lambda x, y: self.merge(c, x, y, base), a, b)
        if self.is_inf(a) or self.is_inf(b) or isinstance(a, Cond) or isinstance(b, Cond):
            return self.mk_cond(c, a, b)
        if isinstance(a, Nv) and isinstance(b, Nv):
            return a if a.e == b.e else Nv(f'(if {c.e} then {a.e} else {b.e})', c.deps | a.deps | b.deps)
        if isinstance(a, Dv) and isinstance(b, Dv):
            out = {}
            for k in list(a.d) + [k for k in b.d if k not in a.d]:
                if k in a.d and k in b.d:
                    out[k] = self.merge(c, a.d[k], b.d[k], f'{base}_{k}')
                else:
                    out[k] = Uv(f'key {k} set on one branch only')
            return Dv(out)
        if isinstance(a, Tv) and isinstance(b, Tv) and len(a.items) == len(b.items):
            return Tv([self.merge(c, x, y, base) for x, y in zip(a.items, b.items)])
        if isinstance(a, Cv) and isinstance(b, Cv) and a.c == b.c and not isinstance(a.c, (int, float)):
            return a
        if isinstance(a, (Bv,)) or isinstance(b, (Bv,)):
            return Uv('boolean merge')
        try:
            ra, rb = self.real(a), self.real(b)
        except Untranslatable as ex:
            return Uv(f'merge: {ex}')
        if ra.e == rb.e:
            return ra
        return self.bind_real(base, R(f'(if {c.e} then {ra.e} else {rb.e})', c.deps | ra.deps | rb.deps))

    # ---- calls
    def call(self, e: ast.Call, env) -> V:
        f = e.func
        npf = f.attr if isinstance(f, ast.Attribute) and isinstance(f.value, ast.Name) and f.value.id in ('np', 'numpy', 'math') else None
        args = e.args
        if npf == 'where' and len(args) == 3:
            c = self.test(args[0], env)
            if isinstance(c, bool):
                return self._ev(args[1] if c else args[2], env)
            if isinstance(c, Lv):
                return self.pointwise(lambda cc, x, y: self.merge(cc, x, y, 'sel'), c, self._ev(args[1], env), self._ev(args[2], env))
            return self.merge(c, self._ev(args[1], env), self._ev(args[2], env), 'sel')
        if npf in ('min', 'max', 'amin', 'amax') and len(args) == 1 and isinstance(args[0], (ast.Tuple, ast.List)) and not e.keywords:
            rs = [self.real(self._ev(a, env), ast.unparse(a)) for a in args[0].elts]
            acc = rs[0]
            for r in rs[1:]:
                acc = R(f'({"smin" if npf in ("min", "amin") else "smax"} {acc.e} {r.e})', acc.deps | r.deps)
            return acc
        if npf in ('array', 'asarray') and args and isinstance(args[0], (ast.List, ast.Tuple)) \
                and all(isinstance(x, (ast.Constant, ast.UnaryOp)) for x in args[0].elts):
            return Tv([self._ev(x, env) for x in args[0].elts])          # a literal table
        if npf in ('array', 'asarray') and len(args) == 1 and isinstance(args[0], (ast.List, ast.Tuple)) and not e.keywords:
            rs = [self.real(self._ev(x, env), ast.unparse(x)) for x in args[0].elts]     # `np.array([a, b])` of scalars: a list
            return self.lv_of_base('[' + ', '.join(r.e for r in rs) + ']', frozenset().union(*[r.deps for r in rs]) if rs else frozenset())
        if npf == 'concatenate' and len(args) == 1 and isinstance(args[0], (ast.Tuple, ast.List)) and not e.keywords:
            ms = [self.mat(self._ev(x, env), ast.unparse(x)) for x in args[0].elts]
            return self.lv_of_base('(' + ' ++ '.join(m[0] for m in ms) + ')', frozenset().union(*[m[1] for m in ms]))
        if npf == 'sign' and len(args) == 1:
            return self.pointwise(lambda x: (lambda r: R(f'(ssign {r.e})', r.deps))(self.real(x, 'np.sign')), self._ev(args[0], env))
        if npf == 'divide' and len(args) == 2 and {k.arg for k in e.keywords} == {'out', 'where'}:
            kw = {k.arg: k.value for k in e.keywords}
            if not (isinstance(kw['out'], ast.Call) and ast.unparse(kw['out'].func).endswith('zeros_like')):
                a_, b_, o_ = self._ev(args[0], env), self._ev(args[1], env), self._ev(kw['out'], env)
                c_ = self.test(kw['where'], env)

                def div1(cc, x, y, o):
                    q = self.sbin(ast.Div(), x, y, 'dividend', 'divisor')
                    if isinstance(cc, bool):
                        return q if cc else o
                    return self.merge(cc, q, o, 'quot')
                res = self.pointwise(div1, c_, a_, b_, o_)
                if isinstance(kw['out'], (ast.Name, ast.Attribute)):
                    self.assign(kw['out'], res, env)      # numpy writes the result into `out` (and returns that array)
                return res
        if isinstance(f, ast.Name) and f.id in self.spec.extern and f.id not in env and not e.keywords:
            binder, arity = self.spec.extern[f.id]
            if len(args) != arity:
                raise Untranslatable(f'{f.id}: {len(args)} arguments where {arity} are expected')
            if binder not in self.used_extern:
                self.used_extern.append(binder)

            def app(*xs):
                rs = [self.real(x, f'argument of {f.id}') for x in xs]
                return R(f'({binder} ' + ' '.join(r.e for r in rs) + ')', frozenset().union(*[r.deps for r in rs]))
            return self.pointwise(app, *[self._ev(a, env) for a in args])
        if isinstance(f, ast.Name) and f.id == 'tuple' and len(args) == 1 and isinstance(args[0], ast.GeneratorExp) and 'tuple' not in env:
            return self._ev(args[0], env)
        if isinstance(f, ast.Attribute) and f.attr == 'astype' and len(args) == 1 and ast.unparse(args[0]) in ('int', 'float'):
            base = self._ev(f.value, env)

            def cast(x):
                if isinstance(x, Bv):
                    return R(f'(if {x.e} then (Lit.dec (1) 0 : α) else (Lit.dec (0) 0 : α))', x.deps)
                if ast.unparse(args[0]) == 'float':
                    return self.real(x, 'astype(float)')
                raise Untranslatable('astype(int) of a real')
            return self.pointwise(cast, base)
        if npf == 'interp' and len(args) == 3 and not e.keywords:
            xp, fp = self._ev(args[1], env), self._ev(args[2], env)
            if isinstance(xp, Tv) and isinstance(fp, Tv) and len(xp.items) == len(fp.items) and len(xp.items) >= 2:
                xs = '[' + ', '.join(self.real(v, 'xp').e for v in xp.items) + ']'
                fs = '[' + ', '.join(self.real(v, 'fp').e for v in fp.items) + ']'

                def interp1(x):
                    r = self.real(x, 'x of np.interp')
                    return R(f'(Vec.interp {r.e} {xs} {fs})', r.deps)
                return self.pointwise(interp1, self._ev(args[0], env))
            raise Untranslatable('np.interp over tables that are not literal')
        if npf == 'select' and len(args) == 2 and isinstance(args[0], (ast.List, ast.Tuple)) and isinstance(args[1], (ast.List, ast.Tuple)):
            kw = {k.arg: k.value for k in e.keywords}
            acc = self._ev(kw['default'], env) if 'default' in kw else R('(Lit.dec (0) 1 : α)')
            acc = self.enum_code(acc)
            for c_ast, v_ast in reversed(list(zip(args[0].elts, args[1].elts))):
                c = self.test(c_ast, env)
                v = self.enum_code(self._ev(v_ast, env))
                acc = (v if c else acc) if isinstance(c, bool) else self.merge(c, v, acc, 'sel')
            return acc
        if self.spec.pointwise and npf == 'full_like' and len(args) >= 2:
            return self._ev(args[1], env)
        if npf == 'isclose' and len(args) == 2 and not e.keywords:
            a = self.real(self._ev(args[0], env), ast.unparse(args[0]))
            if isinstance(args[1], ast.Constant) and args[1].value == 0:
                return Bv(f'((sabs {a.e}) ≤ (Lit.dec (1) 8 : α))', a.deps)       # |a| ≤ atol (rtol·|0| = 0)
            b = self.real(self._ev(args[1], env), ast.unparse(args[1]))
            return Bv(f'((sabs ({a.e} - {b.e})) ≤ ((Lit.dec (1) 8 : α) + ((Lit.dec (1) 5 : α) * (sabs {b.e}))))', a.deps | b.deps)
        if self.spec.pointwise and npf == 'any' and len(args) == 1:
            self.guards.append('np.any(' + ast.unparse(args[0]) + ') guards masked stores only (taken)')
            return Cv(True)
        if self.spec.pointwise and npf == 'isnan' and len(args) == 1:
            self.guards.append('np.isnan(' + ast.unparse(args[0]) + ') is false over the reals')
            return Cv(False)
        if self.spec.pointwise and npf in ('zeros', 'zeros_like') and args:
            return R('(Lit.dec (0) 1 : α)')
        if self.spec.pointwise and isinstance(f, ast.Name) and f.id == 'len' and len(args) == 1 and 'len' not in env:
            return Cv('len')
        if isinstance(f, ast.Name) and f.id == 'slice' and len(args) == 2 and 'slice' not in env and not e.keywords:
            return Tv([self.nat_of(self._ev(a, env), a) for a in args])      # slice(start, stop) of two lengths
        if isinstance(f, ast.Name) and f.id == 'len' and len(args) == 1 and 'len' not in env:
            X, d = self.mat(self._ev(args[0], env), ast.unparse(args[0]))
            return Nv(f'(List.length {X})', d)
        if isinstance(f, ast.Name) and f.id == 'cumulative_trapezoid' and len(args) == 1 and f.id not in env:
            kw = {k.arg: k.value for k in e.keywords}
            if set(kw) != {'dx'}:
                raise Untranslatable('cumulative_trapezoid: only the form (y, dx=…) is read')
            Y, dy = self.mat(self._ev(args[0], env), 'integrand')
            dx = self._ev(kw['dx'], env)
            if isinstance(dx, Lv):
                D, dd = self.mat(dx, 'dx')
                return self.lv_of_base(f'(Vec.cumtrapz {Y} {D})', dy | dd)
            r = self.real(dx, 'dx')
            return self.lv_of_base(f'(Vec.cumtrapzS {Y} {r.e})', dy | r.deps)
        if npf in ('zeros_like', 'sum', 'broadcast_to', 'full') and args:
            a0 = self._ev(args[0], env)
            if npf == 'zeros_like':
                X, d = self.mat(a0, 'zeros_like')
                return self.lv_of_base(f'(Vec.zerosLike {X})', d)
            if npf == 'sum' and len(args) == 1 and not e.keywords:
                X, d = self.mat(a0, 'sum')
                return R(f'(Vec.sum {X})', d)
            if npf == 'broadcast_to' and len(args) == 2:
                if isinstance(a0, Lv):
                    return a0          # numpy checks that the shape is the one asked for; the reading assumes it
                shp = self._ev(args[1], env)
                if isinstance(shp, Tv) and len(shp.items) == 1:
                    n, r = self.nat_of(shp.items[0]), self.real(a0, 'broadcast value')
                    return self.lv_of_base(f'(Vec.bcast {r.e} {n.e})', n.deps | r.deps)
            if npf == 'full' and len(args) >= 2:
                n, r = self.nat_of(a0, args[0]), self.real(self._ev(args[1], env), 'fill value')
                return self.lv_of_base(f'(Vec.bcast {r.e} {n.e})', n.deps | r.deps)
            raise Untranslatable(f'numpy function {npf} in this form')
        vs = [self._ev(a, env) for a in args] if npf is not None else []
        if npf is not None and any(isinstance(v, Lv) for v in vs):
            if npf in NP_UNARY and len(vs) == 1:
                return self.pointwise(lambda x: (lambda r: R(f'({NP_UNARY[npf]} {r.e})', r.deps))(self.real(x)), vs[0])
            if npf in ('maximum', 'minimum') and len(vs) == 2:
                fn = 'smax' if npf == 'maximum' else 'smin'
                return self.pointwise(lambda x, y: (lambda a, b: R(f'({fn} {a.e} {b.e})', a.deps | b.deps))(self.real(x), self.real(y)), *vs)
            if npf in ('asarray', 'array', 'float64'):
                return vs[0]
            raise Untranslatable(f'numpy function {npf} on arrays')
        if npf is not None:
            rs = [self.real(v, ast.unparse(a)) for v, a in zip(vs, args)]
            d = frozenset().union(*[r.deps for r in rs]) if rs else frozenset()
            if npf in NP_UNARY and len(rs) == 1:
                return R(f'({NP_UNARY[npf]} {rs[0].e})', d)
            if npf in ('asarray', 'array', 'float64') and rs:
                return rs[0]
            if npf == 'maximum' and len(rs) == 2:
                return R(f'(smax {rs[0].e} {rs[1].e})', d)
            if npf == 'minimum' and len(rs) == 2:
                return R(f'(smin {rs[0].e} {rs[1].e})', d)
            if npf == 'clip' and len(rs) == 3:
                return R(f'(smin (smax {rs[0].e} {rs[1].e}) {rs[2].e})', d)
            if npf in ('abs', 'absolute', 'fabs') and len(rs) == 1:
                return R(f'(sabs {rs[0].e})', d)
            if npf == 'divide' and len(rs) == 2:
                kw = {k.arg: k.value for k in e.keywords}
                if not kw:
                    return R(f'({rs[0].e} / {rs[1].e})', d)
                if set(kw) == {'out', 'where'} and isinstance(kw['out'], ast.Call) and ast.unparse(kw['out'].func).endswith('zeros_like'):
                    c = self.test(kw['where'], env)
                    if isinstance(c, bool):
                        return R(f'({rs[0].e} / {rs[1].e})', d) if c else R('(Lit.dec 0 0 : α)')
                    return R(f'(if {c.e} then ({rs[0].e} / {rs[1].e}) else (Lit.dec 0 0 : α))', d | c.deps)
            if npf == 'hypot' and len(rs) == 2:
                return R(f'(Transc.sqrt (({rs[0].e} * {rs[0].e}) + ({rs[1].e} * {rs[1].e})))', d)
            if npf == 'deg2rad' and len(rs) == 1:
                return R(f'({rs[0].e} * (piOver180 (α := α)))', d)
            raise Untranslatable(f'numpy function {npf}')
        if isinstance(f, ast.Name) and f.id in ('float', 'int') and len(args) == 1 and f.id not in env:
            return self._ev(args[0], env)
        if isinstance(f, ast.Name) and f.id in ('max', 'min') and len(args) == 2 and f.id not in env:
            a, b = [self.real(self._ev(x, env), ast.unparse(x)) for x in args]
            return R(f'({"smax" if f.id == "max" else "smin"} {a.e} {b.e})', a.deps | b.deps)
        if isinstance(f, ast.Attribute) and f.attr == 'copy' and not args:
            base = self._ev(f.value, env)
            return Dv(dict(base.d)) if isinstance(base, Dv) else base
        if isinstance(f, ast.Attribute) and f.attr == 'sum' and not args and not e.keywords:
            base = self.ev(f.value, env)
            if self.is_tmv(base):
                rs = [self.real(base.d[m], f'{ast.unparse(f.value)}[{m}]') for m in base.d]
                acc = rs[0]
                for r in rs[1:]:
                    acc = R(f'({acc.e} + {r.e})', acc.deps | r.deps)
                return acc
        if isinstance(f, ast.Attribute) and f.attr == 'item' and not args:
            return self._ev(f.value, env)
        if isinstance(f, ast.Attribute) and f.attr in ('items', 'keys', 'values') and not args:
            base = self._ev(f.value, env)
            if isinstance(base, Dv):
                if f.attr == 'items':
                    return Tv([Tv([Cv(k), v]) for k, v in base.d.items()])
                return Tv([Cv(k) for k in base.d]) if f.attr == 'keys' else Tv(list(base.d.values()))
            raise Untranslatable(f'.{f.attr}() of a value that is not a known mapping')
        if isinstance(f, ast.Name) and isinstance(env.get(f.id), Fnv):
            c = env[f.id]
            return self.inline_closure(c, e, env)
        # self.method(...) -> inline
        ch = self.chain(f) if isinstance(f, ast.Attribute) else None
        if ch and ch[0] == 'self' and len(ch) == 2 and self.cls:
            r = self.mod.method(self.cls, ch[1])
            if r is not None:
                return self.inline(self.mod, r[1], e, env, cls=self.cls, with_self=env.get('self'))
            rx = self.mod.method_x(self.cls, ch[1])
            if rx is not None:                        # inherited from a base class defined in another module
                return self.inline(rx[0], rx[2], e, env, cls=rx[1], with_self=env.get('self'))
        if isinstance(f, ast.Attribute):
            try:
                basev = self._ev(f.value, env)
            except Untranslatable:
                basev = None
            if isinstance(basev, Ov):
                target_cls = self.cls if basev.path == 'self' else (self.spec.engine if basev.path.endswith('engine_model') else None)
                if target_cls:
                    r = self.mod.method(target_cls, f.attr)
                    if r is not None:
                        return self.inline(self.mod, r[1], e, env, cls=target_cls, with_self=basev)
        fv = self._ev(f, env) if not (ch and ch[0] == 'self') else Uv('method')
        if isinstance(fv, Cv) and isinstance(fv.c, str) and fv.c.startswith('fn:'):
            n = fv.c[3:]
            if n in self.mod.funcs:
                return self.inline(self.mod, self.mod.funcs[n], e, env)
            m, orig = self.mod.imports[n]
            other = Module.get(module_rel_of(m))
            return self.inline(other, other.funcs[orig], e, env)
        if isinstance(fv, Cv) and isinstance(fv.c, str) and fv.c[0:1].isupper():
            return self.construct(fv.c, e, env)
        raise Untranslatable(f'call {ast.unparse(f)}')

    def construct(self, cname: str, e: ast.Call, env) -> V:
        """SpeciesValues({...}) / ThrustModeValues(a, b, c, d) / any record constructor with keywords."""
        if cname.startswith('ThrustModeValues') and len(e.args) == 4 and not e.keywords:
            return Dv({k: self.ev(a, env) for k, a in zip(THRUST_MODES, e.args)})
        if cname.startswith('ThrustModeValues') and len(e.args) == 1:
            v = self.ev(e.args[0], env)
            if isinstance(v, Dv):
                return Dv(dict(v.d))
            if isinstance(v, (R, Cv)):
                r = self.real(v, 'ThrustModeValues(x)')
                return Dv({m: r for m in THRUST_MODES})
            raise Untranslatable('ThrustModeValues(<array>)')
        if len(e.args) == 1 and not e.keywords:
            v = self.ev(e.args[0], env)
            if isinstance(v, Dv):
                return Dv(dict(v.d))
        if not e.args and not e.keywords:
            return Dv({})
        d = {}
        for i, a in enumerate(e.args):
            d[str(i)] = self.ev(a, env)
        # positional arguments of a dataclass: map through the class definition when it is in reach
        cdef = self.mod.classes.get(cname)
        if cdef is None and cname in self.mod.imports:
            m, orig = self.mod.imports[cname]
            rel = module_rel_of(m)
            if rel:
                cdef = Module.get(rel).classes.get(orig)
        if cdef is not None and e.args:
            fields_ = [b.target.id for b in cdef.body if isinstance(b, ast.AnnAssign) and isinstance(b.target, ast.Name)]
            for i, a in enumerate(e.args):
                if i < len(fields_):
                    d[fields_[i]] = d.pop(str(i))
        for k in e.keywords:
            if k.arg is None:
                raise Untranslatable('**kwargs')
            d[k.arg] = self.ev(k.value, env)
        return Dv(d)

    def inline(self, mod: Module, fn: ast.FunctionDef, e: ast.Call, env, cls=None, with_self=None) -> V:
        if self.depth > 6:
            raise Untranslatable('inlining too deep')
        params = [a.arg for a in fn.args.args]
        local: dict = {}
        if params and params[0] == 'self':
            params = params[1:]
            local['self'] = with_self if with_self is not None else Ov('self')
        for k, v in env.items():
            if '.' in k and '[' not in k:                # attribute state of opaque objects: visible to (and updated by) the callee
                local[k] = v
        defaults = fn.args.defaults
        for p, dflt in zip(params[len(params) - len(defaults):], defaults):
            saved = self.mod
            self.mod = mod
            local[p] = self.ev(dflt, {})
            self.mod = saved
        for p, a in zip(params, e.args):
            local[p] = self.ev(a, env)
        for k in e.keywords:
            if k.arg is None:
                raise Untranslatable('**kwargs')
            local[k.arg] = self.ev(k.value, env)
        missing = [p for p in params if p not in local]
        if missing:
            raise Untranslatable(f'call of {fn.name}: missing arguments {missing}')
        saved = (self.mod, self.cls)
        self.mod, self.cls = mod, cls
        self.depth += 1
        try:
            return self.run_function(fn, local)
        finally:
            self.depth -= 1
            self.mod, self.cls = saved
            for k, v in local.items():                   # attribute stores the callee made (`pt.fuel_mass -= …`, `self.x = …`)
                if '.' in k and '[' not in k and env.get(k) is not v:
                    env[k] = v

    def inline_closure(self, c: 'Fnv', e: ast.Call, env) -> V:
        if self.depth > 6:
            raise Untranslatable('inlining too deep')
        fn = c.fn
        params = [a.arg for a in fn.args.args]
        local = dict(c.env)       # the enclosing scope (by reference semantics approximated by its current bindings)
        for p, a in zip(params, e.args):
            local[p] = self.ev(a, env)
        for k in e.keywords:
            if k.arg is None:
                raise Untranslatable('**kwargs')
            local[k.arg] = self.ev(k.value, env)
        defaults = fn.args.defaults
        for p, dflt in zip(params[len(params) - len(defaults):], defaults):
            if p not in local or p in c.env and p not in [a for a in params[:len(e.args)]] and p not in [k.arg for k in e.keywords]:
                local[p] = self.ev(dflt, env)
        if any(p not in local for p in params):
            raise Untranslatable(f'call of {fn.name}: missing arguments')
        saved = (self.mod, self.cls)
        self.mod, self.cls = c.mod, c.cls
        self.depth += 1
        try:
            return self.run_function(fn, local)
        finally:
            self.depth -= 1
            self.mod, self.cls = saved

    # ---- statements
    def run_function(self, fn: ast.FunctionDef, env: dict) -> V:
        try:
            self.block(fn.body, env)
        except Returned as r:
            return r.v
        return Cv(None)

    def assigned(self, stmts) -> set[str]:
        out = set()
        for st in stmts:
            for n in ast.walk(st):
                if isinstance(n, ast.Name) and isinstance(n.ctx, ast.Store):
                    out.add(n.id)
                elif isinstance(n, (ast.Attribute, ast.Subscript)) and isinstance(n.ctx, ast.Store):
                    ch = self.chain(n) if isinstance(n, ast.Attribute) else None
                    if ch:
                        out.add('.'.join(ch))
                    elif isinstance(n, ast.Subscript) and isinstance(n.value, ast.Name) and isinstance(n.slice, ast.Attribute) \
                            and self.chain(n.slice):
                        out.add(f'{n.value.id}[{ast.unparse(n.slice)}]')   # constant-key store: only that entry
                    else:
                        b = n
                        while isinstance(b, (ast.Subscript, ast.Attribute)):
                            b = b.value
                        if isinstance(b, ast.Name):
                            out.add(b.id)
        return out

    def block(self, stmts, env: dict):
        i = 0
        stmts = list(stmts)
        while i < len(stmts):
            st = stmts[i]
            i += 1
            if isinstance(st, ast.Expr):
                c = st.value
                if isinstance(c, ast.Call) and isinstance(c.func, ast.Attribute) and isinstance(c.func.value, ast.Name) \
                        and c.func.value.id == 'self' and self.cls and (self.mod.method(self.cls, c.func.attr)
                                                                        or self.mod.method_x(self.cls, c.func.attr)):
                    self.ev(c, env)                       # a helper of the class called for its effects on the tracked state
                elif isinstance(c, ast.Call):
                    self.call_statement(c, env)
                continue  # docstrings, logging, warnings
            if isinstance(st, ast.Pass):
                continue
            if isinstance(st, ast.Return):
                raise Returned(self.ev(st.value, env) if st.value is not None else Cv(None))
            if isinstance(st, ast.Raise):
                raise Returned(Uv('raises'))
            if isinstance(st, (ast.Assign, ast.AnnAssign)):
                if isinstance(st, ast.AnnAssign) and st.value is None:
                    continue
                tgts = st.targets if isinstance(st, ast.Assign) else [st.target]
                v = self.ev(st.value, env)
                for t in tgts:
                    self.assign(t, v, env)
                continue
            if isinstance(st, ast.AugAssign):
                cur = ast.copy_location(ast.BinOp(left=self.load_of(st.target), op=st.op, right=st.value), st)
                self.assign(st.target, self.ev(cur, env), env)
                continue
            if isinstance(st, ast.If) and not st.orelse and len(st.body) == 1 and isinstance(st.body[0], ast.Continue) \
                    and not self.in_loop:
                # `if c: continue` in an unrolled loop body: the rest of this pass runs only when c is false
                guard = ast.If(test=st.test, body=[ast.Pass()], orelse=stmts[i:] or [ast.Pass()])
                ast.copy_location(guard, st)
                ast.fix_missing_locations(guard)
                self.if_stmt(guard, [], env)
                return
            if isinstance(st, ast.If):
                rest = stmts[i:]
                if self.if_stmt(st, rest, env):
                    return   # the remainder was consumed by the if (a branch returned)
                continue
            if isinstance(st, ast.For):
                self.for_stmt(st, env)
                continue
            if isinstance(st, ast.While) and self.spec.loop and self.spec.loop_over == 'while' and not self.in_loop and self.depth == 0:
                self.generic_iteration(st, env)        # one pass through the body of the `while`, from an arbitrary loop state
                raise LoopDone()
            if isinstance(st, ast.Match):
                subj = self.ev(st.subject, env)
                done = False
                for case in st.cases:
                    pat = case.pattern
                    alts = pat.patterns if isinstance(pat, ast.MatchOr) else [pat]
                    if all(isinstance(a, ast.MatchValue) for a in alts) and isinstance(subj, Cv):
                        pvs = [self.ev(a.value, env) for a in alts]
                        if any(isinstance(pv, Cv) and pv.c == subj.c for pv in pvs):
                            self.block(case.body, env)
                            done = True
                            break
                    elif isinstance(pat, ast.MatchAs) and pat.pattern is None and isinstance(subj, Cv):
                        self.block(case.body, env)
                        done = True
                        break
                if not done:
                    for n in self.assigned(st.cases and [s for c in st.cases for s in c.body]):
                        self.forget(n, env, 'match on a non-constant subject')
                continue
            if isinstance(st, ast.Assert):
                continue
            if isinstance(st, ast.FunctionDef):
                env[st.name] = Fnv(st, env, self.mod, self.cls)   # closure: sees later bindings of the enclosing scope too
                continue
            for n in self.assigned([st]):
                self.forget(n, env, f'assigned inside {type(st).__name__}')

    PURE_CALLS = ('warnings.warn', 'warn', 'print', 'logger.', 'logging.', 'log.', 'super().__init__', 'super().__post_init__')

    def call_statement(self, c: ast.Call, env: dict):
        """a call used as a statement (its value is dropped): read for its effect on local arrays and records.
        `np.f(…, out=x)` stores its result in `x`; any other call the translator cannot see through may write into the mutable
        locals it receives (arrays, records, tuples of arrays) or is invoked on: they become unknown."""
        kw = {k.arg: k.value for k in c.keywords}
        npf = c.func.attr if isinstance(c.func, ast.Attribute) and isinstance(c.func.value, ast.Name) \
            and c.func.value.id in ('np', 'numpy') else None
        if npf is not None and isinstance(kw.get('out'), (ast.Name, ast.Attribute)):
            self.ev(c, env)                               # (the evaluation of the call performs the store into `out`)
            return
        text = ast.unparse(c.func)
        if any(text == p or (p.endswith('.') and text.startswith(p)) for p in self.PURE_CALLS) or npf in ('seterr', 'testing') \
                or text.endswith('.freeze'):          # (ThrustModeValues.freeze(): makes the record read-only, changes no value)
            return
        touched = []
        recv = c.func.value if isinstance(c.func, ast.Attribute) else None
        for a in list(c.args) + list(kw.values()) + ([recv] if recv is not None else []):
            b = a
            while isinstance(b, (ast.Subscript, ast.Attribute, ast.Starred)):
                b = b.value
            if isinstance(b, ast.Name) and isinstance(env.get(b.id), (Lv, Dv, Tv)) and b.id not in touched:
                touched.append(b.id)
        for n in touched:
            self.forget(n, env, f'passed to the call statement {text}(…), which may write into it')

    def load_of(self, t):
        t2 = ast.parse(ast.unparse(t), mode='eval').body
        return t2

    def assign(self, t: ast.AST, v: V, env: dict):
        if isinstance(t, ast.Name):
            if t.id in self.spec.cut_obj:
                env[t.id] = Ov(t.id)
                return
            if t.id in self.spec.cut and (t.id not in self.params or isinstance(v, Uv)):
                kinds = {(i if isinstance(i, str) else i[0]): ('real' if isinstance(i, str) else i[1]) for i in self.spec.inputs}
                if kinds.get(t.id) == 'vec':
                    env[t.id] = self.lv_of_base(lean_ident(t.id), frozenset([t.id]))
                else:
                    env[t.id] = R(lean_ident(t.id), frozenset([t.id]))   # from here on an input of the kernel
                return
            env[t.id] = self.named(t.id, v)
            return
        if isinstance(t, ast.Tuple):
            if isinstance(v, Tv) and len(v.items) == len(t.elts):
                for tt, vv in zip(t.elts, v.items):
                    self.assign(tt, vv, env)
            else:
                for tt in t.elts:
                    self.assign(tt, Uv('tuple assignment from a non-tuple'), env)
            return
        if isinstance(t, ast.Attribute):
            ch = self.chain(t)
            if ch:
                root = env.get(ch[0])
                if isinstance(root, Ov) and root.path != ch[0]:
                    ch = root.path.split('.') + ch[1:]   # the object is known under the caller's name
                key = '.'.join(ch)
                if key in self.spec.cut_attr:
                    n = self.spec.cut_attr[key]
                    env[key] = R(lean_ident(n), frozenset([n]))   # from here on an input of the kernel
                    return
                env[key] = self.named(key.replace('.', '_'), v)
            return
        if isinstance(t, ast.Subscript):
            if self.in_loop and isinstance(t.value, ast.Name) and isinstance(t.slice, ast.Name) \
                    and isinstance(env.get(t.slice.id), Uv) and env[t.slice.id].why == 'loop variable':
                key = ast.unparse(t)                  # `emissions[species] = …` in a generic iteration: a variable of its own
                env[key] = self.named(key.replace('[', '_').replace(']', ''), v)
                return
            base = self.ev(t.value, env)
            if isinstance(base, Lv):
                key = t.value.id if isinstance(t.value, ast.Name) else ast.unparse(t.value)
                try:
                    env[key] = self.named(key.replace('[', '_').replace(']', '').replace('.', '_'), self.vec_store(base, t.slice, v, env))
                except Untranslatable as ex:
                    env[key] = Uv(str(ex))
                return
            if isinstance(base, R) and isinstance(t.value, ast.Name):
                try:
                    c = self.test(t.slice, env)
                    if not isinstance(c, bool):
                        env[t.value.id] = self.merge(c, v, base, t.value.id)
                        return
                    if self.spec.pointwise:
                        if c:
                            env[t.value.id] = self.named(t.value.id, v)
                        return
                except Untranslatable:
                    pass
            key = self.ev(t.slice, env)
            if isinstance(base, Dv) and isinstance(key, Cv):
                nm = (ast.unparse(t.value) + '_' + str(key.c).split('.')[-1])
                base.d[str(key.c)] = self.named(nm, v)
                return
            b = t
            while isinstance(b, (ast.Subscript, ast.Attribute)):
                b = b.value
            if isinstance(b, ast.Name):
                env[b.id] = Uv('subscript store with a non-constant key')

    def named(self, base: str, v: V) -> V:
        if isinstance(v, Lv) and not self.no_bind:
            try:
                X, d = self.mat(v, base)
            except Untranslatable:
                return v                  # e.g. an array with infinite entries: stays a pointwise expression until it is divided by
            if X.isidentifier() or X.startswith('(AV "'):
                return v
            n = self.fresh(base)
            self.lets.append((n, 'List α', X, d))
            return self.lv_of_base(n, frozenset([n]))
        if isinstance(v, R) and not (v.e.isidentifier() or v.e.startswith('(Lit.dec') or v.e.startswith('(A "')):
            return self.bind_real(base, v)
        return v

    def copy_env(self, env):
        return {k: (Dv(dict(v.d)) if isinstance(v, Dv) else v) for k, v in env.items()}

    def if_stmt(self, st: ast.If, rest, env) -> bool:
        only_raise = all(isinstance(b, (ast.Raise, ast.Expr)) for b in st.body) and any(isinstance(b, ast.Raise) for b in st.body)
        if only_raise and not st.orelse:
            self.guards.append(ast.unparse(st.test))
            return False
        if self.in_loop and not st.orelse and any(isinstance(b, (ast.Break, ast.Continue, ast.Return)) for b in st.body):
            self.guards.append('loop exit: ' + ast.unparse(st.test))
            return False
        try:
            c = self.test(st.test, env)
        except Untranslatable as ex:
            for n in self.assigned(st.body + st.orelse):
                self.forget(n, env, f'if with untranslatable test ({ex})')
            return False
        if isinstance(c, bool):
            self.block(st.body if c else st.orelse, env)
            return False
        e1, e2 = self.copy_env(env), self.copy_env(env)
        r1 = r2 = None
        try:
            self.block(st.body, e1)
        except Returned as r:
            r1 = r.v
        try:
            self.block(st.orelse, e2)
        except Returned as r:
            r2 = r.v
        if r1 is None and r2 is None:
            self.merge_envs(c, e1, e2, env)
            return False
        # at least one branch returns: the statements after the if belong to the branch(es) that fall through
        if r1 is None:
            try:
                self.block(rest, e1)
                r1 = Cv(None)
            except Returned as r:
                r1 = r.v
        if r2 is None:
            try:
                self.block(rest, e2)
                r2 = Cv(None)
            except Returned as r:
                r2 = r.v
        if isinstance(r1, Uv) and r1.why == 'raises':
            raise Returned(r2)
        if isinstance(r2, Uv) and r2.why == 'raises':
            raise Returned(r1)
        raise Returned(self.merge(c, r1, r2, 'result'))

    def forget(self, n: str, env: dict, why: str):
        if n in self.spec.cut_attr:
            m = self.spec.cut_attr[n]
            env[n] = R(lean_ident(m), frozenset([m]))    # a cut attribute: an input from here on
            return
        if n in self.spec.cut:
            env[n] = R(lean_ident(n), frozenset([n]))   # a cut variable: an input from here on
            return
        if '[' in n:                                     # 'name[KEY]': one entry of a mapping
            base, key = n.split('[', 1)
            key = key[:-1]
            if isinstance(env.get(base), Dv):
                env[base].d[key] = Uv(why)
                return
            n = base
        env[n] = Uv(why)

    def merge_envs(self, c: Bv, e1: dict, e2: dict, env: dict):
        for k in dict.fromkeys(list(e1) + list(e2)):   # deterministic order (the generated text must not depend on hashing)
            a, b = e1.get(k), e2.get(k)
            if a is None or b is None:
                env[k] = Uv('assigned on one branch only')
                continue
            if a is b or (isinstance(a, R) and isinstance(b, R) and a.e == b.e):
                env[k] = a
                continue
            if isinstance(a, Ov) and isinstance(b, Ov) and a.path == b.path:
                env[k] = a
                continue
            if isinstance(a, Cv) and isinstance(b, Cv) and a.c == b.c:
                env[k] = a
                continue
            env[k] = self.merge(c, a, b, k.replace('.', '_'))

    def for_stmt(self, st: ast.For, env: dict):
        if self.spec.loop and not self.in_loop and self.depth == 0 and (
                (self.spec.loop_over and ast.unparse(st.iter) in self.spec.loop_over.split('|')) or
                (not self.spec.loop_over and isinstance(st.iter, ast.Call) and isinstance(st.iter.func, ast.Name)
                 and st.iter.func.id == 'range')):
            self.generic_iteration(st, env)
            if self.spec.loop_seq:
                return                                # later loops over the same keys continue with the same generic element
            raise LoopDone()
        it = self.ev(st.iter, env)
        items = None
        if isinstance(st.iter, ast.Name) and st.iter.id == 'ThrustMode' and 'ThrustMode' not in env:
            items = [Cv(m) for m in THRUST_MODES]
        if isinstance(it, Tv):
            items = it.items
        elif isinstance(st.iter, ast.List):
            items = [self.ev(x, env) for x in st.iter.elts]
        elif isinstance(it, Dv):
            items = [Cv(k) for k in it.d]
        if items is None or st.orelse or not isinstance(st.target, (ast.Name, ast.Tuple)):
            for n in self.assigned([st]):
                self.forget(n, env, 'loop that cannot be unrolled')
            return
        for x in items:
            if isinstance(st.target, ast.Name):
                env[st.target.id] = x
            else:
                self.assign(st.target, x, env)
            self.block(st.body, env)

    def generic_iteration(self, st, env: dict):
        """one iteration of `for v in range(…)` from an arbitrary loop state (see SymKernel.loop)"""
        inputs = {(i if isinstance(i, str) else i[0]) for i in self.spec.inputs}
        for n in sorted(self.assigned(st.body)):
            if '[' in n:
                n = n.split('[', 1)[0]
            if '.' in n:
                root = n.split('.', 1)[0]
                for k in [k for k in env if k == n or k.startswith(n + '.')]:
                    del env[k]
                if not isinstance(env.get(root), Ov):
                    env[root] = Ov(root)
            elif n in self.spec.cut_obj:
                env[n] = Uv('loop-carried object (assigned later in the body)')
            elif n in inputs or n in self.spec.cut:
                kinds = {(i if isinstance(i, str) else i[0]): ('real' if isinstance(i, str) else i[1]) for i in self.spec.inputs}
                if kinds.get(n) == 'vec':
                    env[n] = self.lv_of_base(lean_ident(n), frozenset([n]))
                else:
                    env[n] = R(lean_ident(n), frozenset([n]))
            else:
                env[n] = Uv('loop-carried local')
        if isinstance(st, ast.For) and isinstance(st.target, ast.Name):
            v = st.target.id
            env[v] = R(lean_ident(v), frozenset([v])) if v in inputs else Uv('loop variable')
        self.in_loop = True
        try:
            self.block(st.body, env)
        finally:
            self.in_loop = False

    # ---- driver
    def translate(self, optional_env: bool = False) -> tuple[str, list, list]:
        spec = self.spec
        mod = Module.get(spec.file)
        if '.' in spec.func:
            cname, mname = spec.func.split('.')
            concrete = spec.cls or cname
            r = mod.method(concrete, mname)
            if r is None:
                raise KernelError(f'{spec.name}: method {mname} not found in {concrete}')
            fn, cls = r[1], concrete
        else:
            fn, cls = mod.funcs.get(spec.func), None
            if fn is None:
                raise KernelError(f'{spec.name}: function {spec.func} not found in {spec.file}')
        self.enter(mod, cls, spec.engine)
        self.params = [a.arg for a in fn.args.args]
        env: dict = {}
        inputs = []
        for i in spec.inputs:
            n, kind = (i, 'real') if isinstance(i, str) else tuple(i)
            if kind == 'tmv':
                inputs += [(f'{n}_{m.split(".")[-1]}', 'real') for m in THRUST_MODES]
            else:
                inputs.append((n, kind))
        for text, (n, kind) in spec.cut_expr.items():
            if kind == 'tmv' and '[' in text:          # a per-key pseudo variable that loops store into: known from the start
                env[text] = Dv({m: R(lean_ident(f'{n}_{m.split(".")[-1]}'), frozenset([f'{n}_{m.split(".")[-1]}'])) for m in THRUST_MODES})
        for a in fn.args.args:
            p = a.arg
            if p == 'self':
                env['self'] = Ov('self')
            elif p in spec.consts:
                env[p] = self.ev_in_module(mod, ast.parse(spec.consts[p], mode='eval').body)
            elif p in spec.tuple_inputs:
                env[p] = Tv([self.lv_of_base(lean_ident(n), frozenset([n])) for n in spec.tuple_inputs[p]])
            elif p in dict(inputs):
                kind = dict(inputs)[p]
                if kind == 'vec':
                    env[p] = self.lv_of_base(lean_ident(p), frozenset([p]))
                elif kind == 'nat':
                    env[p] = Nv(lean_ident(p), frozenset([p]))
                else:
                    env[p] = R(lean_ident(p), frozenset([p])) if kind == 'real' else Bv(f'({lean_ident(p)} = true)', frozenset([p]))
            else:
                env[p] = Ov(p)
        defaults = fn.args.defaults
        names = [a.arg for a in fn.args.args]
        for p, dflt in zip(names[len(names) - len(defaults):], defaults):
            if p not in dict(inputs) and p not in spec.consts and isinstance(dflt, ast.Constant) and isinstance(dflt.value, (int, float)) \
                    and not isinstance(dflt.value, bool):
                env[p] = self.ev(dflt, {})
        result: V = Cv(None)
        try:
            self.block(fn.body, env)
        except Returned as r:
            result = r.v
        except LoopDone:
            pass
        # resolve the target path
        parts = spec.target.split('/')
        head = parts[0]
        if head == 'return':
            v = result
        elif head in env:
            v = env[head]
        else:
            raise KernelError(f'{spec.name}: `{head}` is not assigned in {spec.file}:{spec.func}')
        for p in parts[1:]:
            if isinstance(v, Dv) and p in v.d:
                v = v.d[p]
            elif isinstance(v, Tv) and p.isdigit():
                v = v.items[int(p)]
            else:
                raise KernelError(f'{spec.name}: target path {spec.target}: no `{p}` in '
                                  f'{sorted(v.d) if isinstance(v, Dv) else type(v).__name__}'
                                  + (f' ({v.why})' if isinstance(v, Uv) else ''))
        try:
            if spec.out == 'vec':
                X, d = self.mat(v, spec.target)
                r = R(X, d)
            elif spec.out == 'nat':
                nv = self.nat_of(v)
                r = R(nv.e, nv.deps)
            else:
                r = self.real(v, spec.target)
        except Untranslatable as ex:
            raise KernelError(f'{spec.name}: target {spec.target} of {spec.file}:{spec.func} is not translatable: {ex}')
        # liveness
        need = set(r.deps)
        keep = []
        for name, ty, expr, deps in reversed(self.lets):
            if name in need:
                keep.append((name, ty, expr))
                need |= set(deps)
        keep.reverse()
        TY = {'bool': 'Bool', 'vec': 'List α', 'nat': 'Nat', 'real': 'α'}
        binders = ''.join(f' ({lean_ident(n)} : {TY[k]})' for n, k in inputs)
        binders += ''.join(f' ({lean_ident(n)} : Bool)' for n in self.spec.cond_inputs.values())
        a = '' if (optional_env and not self.attr_keys) else ' (A : String → α)'
        if spec.vec_attrs:
            a += ' (AV : String → List α)'
        for _fn, (binder, arity) in spec.extern.items():
            a += f' ({binder} : ' + ' → '.join(['α'] * (arity + 1)) + ')'
        body = ''.join(f'  let {n} : {ty} := {ex}\n' for n, ty, ex in keep)
        if optional_env and '(A "' not in body + r.e:
            a = a.replace(' (A : String → α)', '')
        rty = {'vec': 'List α', 'nat': 'Nat'}.get(spec.out, 'α')
        text = f'def {spec.name}{a}{binders} : {rty} :=\n{body}  {r.e}\n'
        sig = inputs + [(n, 'bool') for n in self.spec.cond_inputs.values()]
        return text, sig, [k for k in self.attr_keys if f'(A "{k}")' in text]


# --------------------------------------------------------------------------- symbolic kernels
GSE_SPECIES = ['CO2', 'NOx', 'HC', 'CO', 'H2O', 'NO', 'NO2', 'HONO', 'SO4', 'SO2', 'SOx', 'PMvol', 'PMnvol']
APU_SPECIES = ['SO2', 'SO4', 'SOx', 'PMnvol', 'PMvol', 'NO', 'NO2', 'HONO', 'NOx', 'HC', 'CO', 'H2O', 'CO2']
APU_CONDS = {'Species.SO2 in lto_indices': 'has_so2', 'Species.SO4 in lto_indices': 'has_so4'}
LEG = 'trajectories/builders/legacy.py'
SYM_KERNELS: list[SymKernel] = []
for _c in ('WIDE', 'NARROW', 'SMALL', 'FREIGHT'):
    for _sp in GSE_SPECIES:
        SYM_KERNELS.append(SymKernel(f'gse_{_c.lower()}_{_sp}', 'emissions/gse.py', 'get_GSE_emissions', [],
                                     f'return/emissions/Species.{_sp}', consts={'aircraft_class': f'AircraftClass.{_c}'}))
    SYM_KERNELS.append(SymKernel(f'gse_{_c.lower()}_fuel', 'emissions/gse.py', 'get_GSE_emissions', [], 'return/fuel_burn',
                                 consts={'aircraft_class': f'AircraftClass.{_c}'}))
for _sp in APU_SPECIES:
    SYM_KERNELS.append(SymKernel(f'apu_index_{_sp}', 'emissions/apu.py', 'get_APU_emissions', ['apu_time'],
                                 f'return/indices/Species.{_sp}', cond_inputs=APU_CONDS))
    SYM_KERNELS.append(SymKernel(f'apu_emission_{_sp}', 'emissions/apu.py', 'get_APU_emissions', ['apu_time'],
                                 f'return/emissions/Species.{_sp}', cond_inputs=APU_CONDS))
SYM_KERNELS.append(SymKernel('apu_fuel_burn', 'emissions/apu.py', 'get_APU_emissions', ['apu_time'], 'return/fuel_burn',
                             cond_inputs=APU_CONDS))
for _t in ('clm_start_altitude', 'crz_start_altitude', 'des_start_altitude', 'des_end_altitude', 'descent_dist_approx'):
    SYM_KERNELS.append(SymKernel(f'legacy_{_t}', LEG, 'LegacyContext.__init__', [], f'self.{_t}'))
SYM_KERNELS.append(SymKernel('legacy_starting_mass', LEG, 'LegacyBuilder.calc_starting_mass', [], 'return', cut_obj=('perf',)))
SYM_KERNELS.append(SymKernel('legacy_total_fuel_mass', LEG, 'LegacyBuilder.calc_starting_mass', [], 'self.total_fuel_mass',
                             cut_obj=('perf',)))
# loop bodies of the legacy builder (C02): one generic iteration of the level-change loop and of the cruise loop
_LVL = dict(cut_obj=('perf', 'perf_end', 'pt'), cut=('delta_altitude',), loop=True)
for _t in ('pt.fuel_mass', 'pt.aircraft_mass', 'pt.ground_distance', 'pt.flight_time', 'seg_fuel', 'pt.altitude'):
    SYM_KERNELS.append(SymKernel('lvl_step_' + _t.split('.')[-1], LEG, 'LegacyBuilder._fly_level_change',
                                 ['i', 'start_altitude', 'delta_altitude', 'ground_speed'], _t,
                                 cut_attr={'pt.ground_speed': 'ground_speed'}, **_LVL))
SYM_KERNELS.append(SymKernel('lvl_step_ground_speed_still_air', LEG, 'LegacyBuilder._fly_level_change',
                             ['i', 'start_altitude', 'delta_altitude'], 'pt.ground_speed',
                             cond_consts={'self.weather is None': True}, **_LVL))
_CRZ = dict(cut_obj=('perf', 'pt'), cut=('ground_distance_step',), loop=True)
for _t in ('pt.fuel_mass', 'pt.aircraft_mass', 'pt.ground_distance', 'pt.flight_time', 'pt.true_airspeed'):
    SYM_KERNELS.append(SymKernel('crz_step_' + _t.split('.')[-1], LEG, 'LegacyBuilder.fly_cruise',
                                 ['ground_distance_step', 'ground_speed'], _t,
                                 cut_attr={'pt.ground_speed': 'ground_speed'}, **_CRZ))
SYM_KERNELS.append(SymKernel('crz_step_ground_speed_still_air', LEG, 'LegacyBuilder.fly_cruise',
                             ['ground_distance_step'], 'pt.ground_speed',
                             cond_consts={'self.weather is not None': False}, **_CRZ))
# vector kernels (third generation): the two cumulative-trapezoid mass updates of the BADA fuel-burn base class (C19)
_FB = 'BADA/fuel_burn_base.py'
_VIN = [('mass', 'vec'), ('specific_ground_range', 'vec')]
SYM_KERNELS.append(SymKernel('mass_update_fwd', _FB, 'BaseFuelBurnModel.update_mass_vector',
                             _VIN + [('segment_distance', 'vec')], 'return', out='vec'))
SYM_KERNELS.append(SymKernel('mass_update_fwd_scalar_dx', _FB, 'BaseFuelBurnModel.update_mass_vector',
                             _VIN + ['segment_distance'], 'return', out='vec'))
SYM_KERNELS.append(SymKernel('mass_update_bwd', _FB, 'BaseFuelBurnModel.update_mass_vector_backward',
                             _VIN + [('segment_distance', 'vec')], 'return', out='vec'))
SYM_KERNELS.append(SymKernel('mass_update_bwd_scalar_dx', _FB, 'BaseFuelBurnModel.update_mass_vector_backward',
                             _VIN + ['segment_distance'], 'return', out='vec'))
# vector kernels of the inventory assembly (C01): per-segment fuel burn, the emission window, amounts = index × burn, totals
_EM, _TR = 'emissions/emission.py', 'emissions/trajectory.py'
SYM_KERNELS.append(SymKernel('segment_fuel_burn', _EM, 'compute_emissions', [], 'fuel_burn_per_segment', out='vec',
                             vec_attrs=('traj.fuel_mass',)))
SYM_KERNELS.append(SymKernel('lifecycle_co2', _EM, 'get_lifecycle_emissions', [], 'return', vec_attrs=('traj.fuel_mass',)))
SYM_KERNELS.append(SymKernel(
    'species_total', _EM, 'sum_total_emissions', [('traj_vals', 'vec'), 'lto_sum', 'apu_val', 'gse_val'], 'total',
    loop=True, loop_over='Species',
    cond_inputs={'species in trajectory': 'in_traj', 'species in lto': 'in_lto', 'config.emissions.apu_enabled': 'apu_enabled',
                 'species in apu': 'in_apu', 'config.emissions.gse_enabled': 'gse_enabled', 'species in gse': 'in_gse'},
    cut_expr={'trajectory[species]': ('traj_vals', 'vec'), 'lto[species].sum()': ('lto_sum', 'real'),
              'apu[species]': ('apu_val', 'real'), 'gse[species]': ('gse_val', 'real')}))
_TRW = dict(loop=True, loop_seq=True, loop_over='indices.keys()', cut_obj=('idx_slice',), slice_objs={'idx_slice': ('lo', 'hi')},
            cut_expr={'indices[species]': ('idx', 'vec')})
for _n, _t, _o in (('traj_emissions', 'emissions[species]', 'vec'), ('traj_indices', 'indices[species]', 'vec'),
                   ('traj_fuel_burn', 'total_fuel_burn', 'real')):
    SYM_KERNELS.append(SymKernel(_n, _TR, 'get_trajectory_emissions',
                                 [('idx', 'vec'), ('fuel_burn_per_segment', 'vec'), ('lo', 'nat'), ('hi', 'nat')], _t, out=_o, **_TRW))
_SL = dict(cond_inputs={'config.emissions.climb_descent_mode != ClimbDescentMode.TRAJECTORY': 'lto_mode'},
           cut_expr={'len(traj)': ('n', 'nat'), 'traj.n_climb': ('n_climb', 'nat'), 'traj.n_descent': ('n_descent', 'nat')})
SYM_KERNELS.append(SymKernel('traj_window_lo', _TR, '_trajectory_slice', [('n', 'nat'), ('n_climb', 'nat'), ('n_descent', 'nat')],
                             'return/0', out='nat', **_SL))
SYM_KERNELS.append(SymKernel('traj_window_hi', _TR, '_trajectory_slice', [('n', 'nat'), ('n_climb', 'nat'), ('n_descent', 'nat')],
                             'return/1', out='nat', **_SL))
# mass iteration of the builder base class (C02 / C17): the residual of one flight iteration, and the correction one pass of the
# `while` loop applies to the starting mass and to the trip fuel
_BASE = 'trajectories/builders/base.py'
SYM_KERNELS.append(SymKernel('iter_mass_residual', _BASE, 'Builder._fly_iteration', ['final_mass'], 'mass_residual',
                             cut_expr={'traj.aircraft_mass[-1]': ('final_mass', 'real')}))
for _t in ('self.starting_mass', 'self.total_fuel_mass'):
    SYM_KERNELS.append(SymKernel('iter_correct_' + _t.split('.')[-1], _BASE, 'Builder._iterate_mass', ['mass_res'], _t,
                                 loop=True, loop_over='while', cut=('mass_res',),
                                 cond_consts={'abs(mass_res) < self.options.mass_iter_reltol': False}))
# the LTO part of the inventory (C01): time-in-mode fuel, the approach / climb zeroing of the trajectory accounting mode, amounts =
# index × fuel per thrust mode (ThrustModeValues arithmetic read elementwise), for one generic species
_LTO = dict(loop=True, loop_seq=True, loop_over='lto_indices|lto_indices.keys()', cut_obj=('lto_data',),
            cond_inputs={'config.emissions.climb_descent_mode != ClimbDescentMode.LTO': 'traj_mode'},
            cut_expr={'lto_indices[species]': ('ei', 'tmv')})
for _m in ('IDLE', 'APPROACH', 'CLIMB', 'TAKEOFF'):
    SYM_KERNELS.append(SymKernel(f'lto_emission_{_m}', 'emissions/lto.py', 'get_LTO_emissions', [('ei', 'tmv')],
                                 f'lto_emissions[species]/ThrustMode.{_m}', **_LTO))
    SYM_KERNELS.append(SymKernel(f'lto_index_{_m}', 'emissions/lto.py', 'get_LTO_emissions', [('ei', 'tmv')],
                                 f'lto_indices[species]/ThrustMode.{_m}', **_LTO))
    SYM_KERNELS.append(SymKernel(f'lto_fuel_{_m}', 'emissions/lto.py', 'get_LTO_emissions', [('ei', 'tmv')],
                                 f'lto_fuel_burn/ThrustMode.{_m}', **_LTO))
SYM_KERNELS.append(SymKernel('lto_fuel_burn', 'emissions/lto.py', 'get_LTO_emissions', [('ei', 'tmv')], 'return/fuel_burn', **_LTO))
# the whole BFFM2 HC / CO fit for one evaluation point (C12): slanted / horizontal segments in log space, the SAGE clamping rules
# (if / elif / elif on the calibration data), the masked evaluation, the ACRP low-thrust factor, the ambient factor
SYM_KERNELS.append(SymKernel('hcco_ei', 'emissions/ei/hcco.py', 'EI_HCCO', ['ff_eval', 'Tamb', 'Pamb'], 'return', pointwise=True))
# … the same function in two stages (so that the bridge proof can be staged too): the five fit parameters after the clamping rules
# (steps 1–4, functions of the calibration data only), and the evaluation of one point given those parameters (steps 5–7)
_HC_PARAMS = ('slope', 'base_log_fuel', 'base_log_EI', 'x_horzline', 'x_intercept')
for _t in _HC_PARAMS:
    SYM_KERNELS.append(SymKernel('hcco_param_' + _t, 'emissions/ei/hcco.py', 'EI_HCCO', [], _t, pointwise=True))
SYM_KERNELS.append(SymKernel('hcco_point', 'emissions/ei/hcco.py', 'EI_HCCO', ['ff_eval', 'Tamb', 'Pamb'] + list(_HC_PARAMS), 'return',
                             pointwise=True, cut=_HC_PARAMS))
# one pass of the loop of each BADA iteration driver (C19), in loop mode with array state: the specific ground range the pass
# computes is a cut (an array input); the inherited mass updates of fuel_burn_base.py are inlined across modules
_DRV = dict(loop=True, cut=('specific_ground_range',))
_DVIN = [('mass', 'vec'), ('specific_ground_range', 'vec'), ('segment_distance', 'vec')]
_FB3 = 'Bada3FuelBurnModel.iterate_flight_simulation_'
SYM_KERNELS.append(SymKernel('driver_const_initial_step', BADA, _FB3 + 'constant_initial_mass', _DVIN, 'mass', out='vec', **_DRV))
SYM_KERNELS.append(SymKernel('driver_const_final_step', BADA, _FB3 + 'constant_final_mass', _DVIN, 'mass', out='vec', **_DRV))
_FDF = _DVIN + ['mtow', 'oew', 'mpl', 'load_factor', 'reserve_fuel_fraction']
_FDV = _DVIN + ['mtow', 'oew', 'mpl', 'load_factor', 'reserve_fuel']
SYM_KERNELS.append(SymKernel('driver_fuel_dep_frac_step', BADA, _FB3 + 'fuel_burn_dependent_initial_mass_rf_fraction', _FDF, 'mass',
                             out='vec', **_DRV))
SYM_KERNELS.append(SymKernel('driver_fuel_dep_frac_takeoff', BADA, _FB3 + 'fuel_burn_dependent_initial_mass_rf_fraction', _FDF,
                             'initial_mass', **_DRV))
SYM_KERNELS.append(SymKernel('driver_fuel_dep_value_step', BADA, _FB3 + 'fuel_burn_dependent_initial_mass_rf_value', _FDV, 'mass',
                             out='vec', **_DRV))
SYM_KERNELS.append(SymKernel('driver_fuel_dep_value_takeoff', BADA, _FB3 + 'fuel_burn_dependent_initial_mass_rf_value', _FDV,
                             'initial_mass', **_DRV))
# volatile PM (C12): the fuel-flow method (one point: idle or not) and FOA3 (np.interp over the literal ICAO thrust table)
_PMV = 'emissions/ei/pmvol.py'
_IDLE = {'thrustMode.data == ThrustMode.IDLE': 'is_idle'}
SYM_KERNELS.append(SymKernel('pmvol_ff_pmvol', _PMV, 'EI_PMvol_FuelFlow', [], 'return/0', pointwise=True, cond_inputs=_IDLE))
SYM_KERNELS.append(SymKernel('pmvol_ff_ocic', _PMV, 'EI_PMvol_FuelFlow', [], 'return/1', pointwise=True, cond_inputs=_IDLE))
SYM_KERNELS.append(SymKernel('pmvol_foa3', _PMV, 'EI_PMvol_FOA3', ['thrusts', 'HCEI'], 'return/0', pointwise=True))
SYM_KERNELS.append(SymKernel('pmvol_foa3_ocic', _PMV, 'EI_PMvol_FOA3', ['thrusts', 'HCEI'], 'return/1', pointwise=True))
# cruise thrust category (C12): np.select over the midpoint thresholds, as the index of the ThrustMode member
SYM_KERNELS.append(SymKernel('thrust_cat', 'emissions/utils.py', 'get_thrust_cat_cruise', ['ff_eval'], 'return/data', out='nat',
                             pointwise=True))
# SCOPE11 non-volatile PM mass index per ICAO mode and engine type (C12)
for _et, _tag in (('MTF', 'mtf'), ('TF', 'tf'), ('XX', 'other')):
    for _m in ('IDLE', 'APPROACH', 'CLIMB', 'TAKEOFF'):
        SYM_KERNELS.append(SymKernel(f'scope11_{_tag}_{_m}', 'emissions/ei/pmnvol.py', 'calculate_PMnvolEI_scope11', ['BP_Ratio'],
                                     f'profile/ThrustMode.{_m}', consts={'engine_type': repr(_et)}))
# gridding (C04 / C05), fourth generation: the antimeridian split of grid.py — crossing latitude, the two part lengths (the geodesic
# distance is a library call: left uninterpreted, a function argument `dist`), the two parts of every array (`np.concatenate`,
# `np.array([…])`, element reads at the crossing index; the tuples of state / integrated arrays read with one generic element)
_GR = 'gridding/grid.py'
_GIN = [('lats', 'vec'), ('lons', 'vec'), ('dateline_crossing_idx', 'nat'), 'dateline_crossing_sign']
_GEXT = {'great_circle_distance': ('dist', 4)}
SYM_KERNELS.append(SymKernel('grid_cross_lat', _GR, 'Gridder._dateline_crossing_latitude', _GIN, 'return'))
for _i, _t in enumerate(('first', 'second', 'total')):
    SYM_KERNELS.append(SymKernel(f'grid_seg_len_{_t}', _GR, 'Gridder._calculate_segment_lengths', _GIN, f'return/{_i}', extern=_GEXT))
_GSP = [('lats', 'vec'), ('lons', 'vec'), ('altitudes', 'vec'), ('times', 'vec'), ('sv', 'vec'), ('iv', 'vec'),
        ('dateline_crossing_idx', 'nat'), 'dateline_crossing_sign']
_GTI = {'state_variables': ['sv'], 'integrated_variables': ['iv']}
for _part, _len in (('first', 'first_segment_length'), ('second', 'second_segment_length')):
    for _t, _path in (('lats', 'return/0'), ('lons', 'return/1'), ('alts', 'return/2'), ('times', 'return/3'),
                      ('state', 'return/4/0'), ('integ', 'return/5/0')):
        SYM_KERNELS.append(SymKernel(f'grid_split_{_part}_{_t}', _GR, f'Gridder._dateline_split_{_part}_segment',
                                     _GSP + [_len, 'total_segment_length'], _path, out='vec', tuple_inputs=_GTI))
# … the antimeridian test of one segment (`np.sign(diff) * (|diff| > π)`), the share of a segment given to each of its pieces
# (`np.divide(…, out=1 / count, where=segment length ≠ 0)`) and the pieces of an integrated value (value × share)
SYM_KERNELS.append(SymKernel('grid_cross_sign', _GR, 'crosses_dateline', ['lon1', 'lon2'], 'return'))
_GCT = 'Gridder._cell_idxs_touched_by_trajectory_with_state_and_integrated_vars'
_GCE = {'np.repeat(count_subsegments, count_subsegments)': ('count_rep', 'vec'), 'np.repeat(variable, count_subsegments)': ('iv_rep', 'vec')}
SYM_KERNELS.append(SymKernel('grid_fractions', _GR, _GCT, [('subsegment_distances', 'vec'), ('segment_distances_repeated', 'vec'),
                                                         ('count_rep', 'vec')], 'subsegment_distance_fractions', out='vec',
                             cut=('subsegment_distances', 'segment_distances_repeated'), cut_expr=_GCE,
                             tuple_inputs={'integrated_variables': ['iv']}))
SYM_KERNELS.append(SymKernel('grid_integ_values', _GR, _GCT, [('iv_rep', 'vec'), ('subsegment_distance_fractions', 'vec')],
                             'integrated_variable_values/0', out='vec', cut=('subsegment_distance_fractions',), cut_expr=_GCE,
                             tuple_inputs={'integrated_variables': ['iv']}))
SYM_KERNELS.append(SymKernel('weather_ground_speed', 'weather.py', 'Weather.get_ground_speed',
                             ['true_airspeed', 'heading_rad', 'wind_u', 'wind_v'], 'return',
                             cut=('heading_rad', 'wind_u', 'wind_v')))


def translate_sym(g: Gen, errors: dict):
    for k in SYM_KERNELS:
        try:
            text, sig, keys = Sym(k).translate(optional_env=bool(k.out in ('vec', 'nat') or k.vec_attrs or k.cut_expr or
                                                                  any(not isinstance(i, str) and i[1] in ('vec', 'nat') for i in k.inputs)))
            tgt = f', target `{k.target}`'
            cs = ''.join(f' [{p} = {v}]' for p, v in k.consts.items())
            g.defs[k.name] = f'/-- `{k.file}`: `{k.func}`{tgt}{cs} (symbolic evaluation) -/\n' + text
            g.sig[k.name] = sig
            g.uses_attr[k.name] = '(A : String → α)' in text.split(':=')[0]
            g.attr_keys[k.name] = keys
            g.origin[k.name] = f'{k.file}:{k.func}'
        except (KernelError, Untranslatable, OSError, SyntaxError, KeyError, IndexError, AttributeError, TypeError) as ex:
            errors[k.name] = f'{type(ex).__name__}: {ex}'


def num_lit(x) -> str:
    d = Decimal(repr(x))
    sign, digits, exp = d.as_tuple()
    m = int(''.join(map(str, digits)))
    if sign:
        m = -m
    if exp >= 0:
        return f'(Lit.dec ({m * 10 ** exp}) 0 : α)'
    return f'(Lit.dec ({m}) {-exp} : α)'


if __name__ == '__main__':
    errs = regenerate()
    print(OUT)
    for k, v in errs.items():
        print('ERROR', k, v)
