"""Translator for the method dispatch sites of the emissions code (C11): `emissions/trajectory.py`, `emissions/lto.py` (+ the option
enums of `config/emissions.py`) -> `lean/AeicModel/Generated/Refusals.lean` (structure: `AeicModel/Refusals.lean`).

AST only. A *dispatch site* is a function that compares a method option `config.emissions.<opt>_method` (directly or through a local
name bound to it) with members of its enum — in a `match`, an `if / elif` chain, an early `return` guard, a membership test — and
contains a `raise` whose expression mentions a method option (in its message, or in the arguments of a helper that builds the
error). For every site the translator records

    file, function, option      the option the function dispatches on
    handled                     the VALUES (`Enum.MEMBER` resolved through the enum definition) the function mentions in `case`
                                patterns and in `is` / `==` / `in` comparisons with that option — before or inside the dispatch
    named                       the options `config.emissions.<y>` the refusing statement mentions (in its message, or in the
                                arguments of a helper it calls to raise) — what the error will NAME
    exc                         the exception type raised

A function that dispatches on two options, or whose refusal cannot be located, raises `DispatchTranslationError`.
"""
from __future__ import annotations

import ast

from . import LEAN_DIR, REPO

OUT = LEAN_DIR / 'AeicModel' / 'Generated' / 'Refusals.lean'
FILES = ['emissions/trajectory.py', 'emissions/lto.py']


class DispatchTranslationError(Exception):
    pass


def lean_str(s: str) -> str:
    return '"' + s.replace('\\', '\\\\').replace('"', '\\"') + '"'


def _opt_of(e: ast.AST) -> str | None:
    """`config.emissions.<x>` (optionally `.value`) -> x"""
    t = ast.unparse(e)
    if t.endswith('.value'):
        t = t[:-6]
    if t.startswith('config.emissions.') and t.count('.') == 2:
        return t.split('.')[2]
    return None


def enum_values() -> dict[str, dict[str, str]]:
    tree = ast.parse((REPO / 'src' / 'AEIC' / 'config' / 'emissions.py').read_text())
    out: dict[str, dict[str, str]] = {}
    for n in tree.body:
        if isinstance(n, ast.ClassDef):
            members = {}
            for b in n.body:
                if isinstance(b, ast.Assign) and len(b.targets) == 1 and isinstance(b.targets[0], ast.Name) \
                        and isinstance(b.value, ast.Constant) and isinstance(b.value.value, str):
                    members[b.targets[0].id] = b.value.value
            if members:
                out[n.name] = members
    return out


def translate() -> tuple[str, list]:
    enums = enum_values()

    def member_value(e: ast.AST) -> str | None:
        if isinstance(e, ast.Attribute) and isinstance(e.value, ast.Name) and e.value.id in enums and e.attr in enums[e.value.id]:
            return enums[e.value.id][e.attr]
        return None

    sites = []
    for rel in FILES:
        tree = ast.parse((REPO / 'src' / 'AEIC' / rel).read_text())
        for fn in [n for n in ast.walk(tree) if isinstance(n, ast.FunctionDef)]:
            # local names bound to a method option (`method = config.emissions.nox_method`)
            alias = {}
            for st in ast.walk(fn):
                if isinstance(st, ast.Assign) and len(st.targets) == 1 and isinstance(st.targets[0], ast.Name):
                    o = _opt_of(st.value)
                    if o is not None:
                        alias[st.targets[0].id] = o

            def opt_of(e):
                o = _opt_of(e)
                if o is not None:
                    return o
                if isinstance(e, ast.Attribute) and e.attr == 'value':
                    e = e.value
                if isinstance(e, ast.Name) and e.id in alias:
                    return alias[e.id]
                return None

            compared = []
            for x in ast.walk(fn):
                o = None
                if isinstance(x, ast.Match):
                    o = opt_of(x.subject)
                elif isinstance(x, ast.Compare):
                    o = opt_of(x.left)
                if o is not None and o.endswith('_method') and o not in compared:
                    compared.append(o)
            if not compared:
                continue
            # refusing statements: every `raise` of the function whose expression mentions a method option (directly, through a
            # local bound to it, or in the arguments of a helper that builds the error)
            raises = []
            for x in ast.walk(fn):
                if isinstance(x, ast.Raise) and x.exc is not None:
                    named = []
                    for y in ast.walk(x.exc):
                        o = opt_of(y) if isinstance(y, (ast.Attribute, ast.Name)) else None
                        if o is not None and o.endswith('_method') and o not in named:
                            named.append(o)
                    if named:
                        exc = ast.unparse(x.exc.func) if isinstance(x.exc, ast.Call) else ast.unparse(x.exc)
                        raises.append((x, named, exc))
            if not raises:
                continue
            if len(compared) != 1:
                raise DispatchTranslationError(f'{rel}:{fn.name}: dispatches on several method options {compared} and refuses: outside the reading')
            opt = compared[0]
            handled = []
            for x in ast.walk(fn):
                vals = []
                if isinstance(x, ast.Match) and opt_of(x.subject) == opt:
                    for c in x.cases:
                        pats = c.pattern.patterns if isinstance(c.pattern, ast.MatchOr) else [c.pattern]
                        vals += [member_value(p_.value) for p_ in pats if isinstance(p_, ast.MatchValue)]
                elif isinstance(x, ast.Compare) and opt_of(x.left) == opt:
                    for comp in x.comparators:
                        elts = comp.elts if isinstance(comp, (ast.Tuple, ast.List, ast.Set)) else [comp]
                        vals += [member_value(e_) for e_ in elts]
                for v in vals:
                    if v is not None and v not in handled:
                        handled.append(v)
            named_all = []
            for _x, named, _e in raises:
                for n_ in named:
                    if n_ not in named_all:
                        named_all.append(n_)
            sites.append({'file': rel, 'func': fn.name, 'option': opt, 'handled': handled, 'named': named_all, 'exc': raises[0][2]})
    if not sites:
        raise DispatchTranslationError('no dispatch site found in ' + ', '.join(FILES))
    items = []
    for s in sites:
        items.append('  { file := %s, func := %s, option := %s, handled := [%s], named := [%s], exc := %s }' % (
            lean_str(s['file']), lean_str(s['func']), lean_str(s['option']), ', '.join(lean_str(v) for v in s['handled']),
            ', '.join(lean_str(v) for v in s['named']), lean_str(s['exc'])))
    text = ('/- GENERATED by harness/common/dispprog.py from /repo\'s working tree (emissions/trajectory.py, emissions/lto.py,\n'
            '   config/emissions.py) on every check run. Do not edit. -/\nimport AeicModel.Refusals\nnamespace Aeic.Gen\nopen Aeic.Refusals\n\n'
            '/-- the functions that select behaviour by a method option and end in a refusal -/\n'
            'def dispatchSites : List Site := [\n' + ',\n'.join(items) + '\n]\n\nend Aeic.Gen\n')
    return text, sites


def _calls_raiser(body, tree) -> bool:
    """does the block call a module-level helper whose body raises?"""
    funcs = {n.name: n for n in tree.body if isinstance(n, ast.FunctionDef)}
    for b in body:
        for x in ast.walk(b):
            if isinstance(x, ast.Call) and isinstance(x.func, ast.Name):
                f = funcs.get(x.func.id)
                if f is not None and any(isinstance(y, ast.Raise) for y in ast.walk(f)):
                    return True
    return False


def regenerate() -> list:
    text, sites = translate()
    OUT.parent.mkdir(parents=True, exist_ok=True)
    if not OUT.exists() or OUT.read_text() != text:
        OUT.write_text(text)
    return sites
