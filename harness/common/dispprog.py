"""Translator for the method dispatch sites of the emissions code (C11): `emissions/trajectory.py`, `emissions/lto.py` (+ the option
enums of `config/emissions.py`) -> `lean/AeicModel/Generated/Refusals.lean` (structure: `AeicModel/Refusals.lean`).

AST only. A *dispatch site* is a function that selects behaviour by a method option `config.emissions.<opt>_method`: a `match` on it,
or an `if / elif` chain comparing it with members of its enum, that ends in a refusal (`case _:` / `else:` whose body raises). For
every site the translator records

    file, function, option      the option the function dispatches on
    handled                     the VALUES (`Enum.MEMBER` resolved through the enum definition) the function mentions in `case`
                                patterns and in `is` / `==` / `in` comparisons with that option — before or inside the dispatch
    named                       the options `config.emissions.<y>` the refusing statement mentions (in its message, or in the
                                arguments of a helper it calls to raise) — what the error will NAME
    exc                         the exception type raised

A function that dispatches on two options, or whose refusal cannot be located, raises `DispatchTranslationError`.
"""
from __future__ import annotations

import ast

from . import LEAN_DIR, REPO

OUT = LEAN_DIR / 'AeicModel' / 'Generated' / 'Refusals.lean'
FILES = ['emissions/trajectory.py', 'emissions/lto.py']


class DispatchTranslationError(Exception):
    pass


def lean_str(s: str) -> str:
    return '"' + s.replace('\\', '\\\\').replace('"', '\\"') + '"'


def _opt_of(e: ast.AST) -> str | None:
    """`config.emissions.<x>` (optionally `.value`) -> x"""
    t = ast.unparse(e)
    if t.endswith('.value'):
        t = t[:-6]
    if t.startswith('config.emissions.') and t.count('.') == 2:
        return t.split('.')[2]
    return None


def enum_values() -> dict[str, dict[str, str]]:
    tree = ast.parse((REPO / 'src' / 'AEIC' / 'config' / 'emissions.py').read_text())
    out: dict[str, dict[str, str]] = {}
    for n in tree.body:
        if isinstance(n, ast.ClassDef):
            members = {}
            for b in n.body:
                if isinstance(b, ast.Assign) and len(b.targets) == 1 and isinstance(b.targets[0], ast.Name) \
                        and isinstance(b.value, ast.Constant) and isinstance(b.value.value, str):
                    members[b.targets[0].id] = b.value.value
            if members:
                out[n.name] = members
    return out


def translate() -> tuple[str, list]:
    enums = enum_values()

    def member_value(e: ast.AST) -> str | None:
        if isinstance(e, ast.Attribute) and isinstance(e.value, ast.Name) and e.value.id in enums and e.attr in enums[e.value.id]:
            return enums[e.value.id][e.attr]
        return None

    sites = []
    for rel in FILES:
        tree = ast.parse((REPO / 'src' / 'AEIC' / rel).read_text())
        for fn in [n for n in ast.walk(tree) if isinstance(n, ast.FunctionDef)]:
            # refusing statements: a Raise in `case _` of a match on a method option, or in the final else of an if-chain on one
            refusals = []
            for st in ast.walk(fn):
                if isinstance(st, ast.Match):
                    opt = _opt_of(st.subject)
                    if opt is None or not opt.endswith('_method'):
                        continue
                    for c in st.cases:
                        if isinstance(c.pattern, ast.MatchAs) and c.pattern.pattern is None:
                            refusals.append((opt, c.body, st))
                elif isinstance(st, ast.If):
                    # the head of an if / elif chain on a method option
                    opts = {_opt_of(x.left) for x in ast.walk(st.test) if isinstance(x, ast.Compare)} - {None}
                    opts = {o for o in opts if o.endswith('_method')}
                    if len(opts) != 1:
                        continue
                    node = st
                    while len(node.orelse) == 1 and isinstance(node.orelse[0], ast.If):
                        node = node.orelse[0]
                    if node.orelse and any(isinstance(x, ast.Raise) or (isinstance(x, ast.Expr) and isinstance(x.value, ast.Call)) for x in node.orelse):
                        if any(isinstance(x, ast.Raise) for b in node.orelse for x in ast.walk(b)) or _calls_raiser(node.orelse, tree):
                            refusals.append((next(iter(opts)), node.orelse, st))
            seen = set()
            for opt, body, _node in refusals:
                if (fn.name, opt) in seen:
                    continue
                seen.add((fn.name, opt))
                handled = []
                for x in ast.walk(fn):
                    vals = []
                    if isinstance(x, ast.Match) and _opt_of(x.subject) == opt:
                        for c in x.cases:
                            pats = c.pattern.patterns if isinstance(c.pattern, ast.MatchOr) else [c.pattern]
                            vals += [member_value(p.value) for p in pats if isinstance(p, ast.MatchValue)]
                    elif isinstance(x, ast.Compare) and _opt_of(x.left) == opt:
                        for comp in x.comparators:
                            elts = comp.elts if isinstance(comp, (ast.Tuple, ast.List, ast.Set)) else [comp]
                            vals += [member_value(e) for e in elts]
                    for v in vals:
                        if v is not None and v not in handled:
                            handled.append(v)
                named, exc = [], ''
                for b in body:
                    for x in ast.walk(b):
                        o = _opt_of(x) if isinstance(x, ast.Attribute) else None
                        if o is not None and o not in named and not any(o != y and y.startswith(o) for y in named):
                            named.append(o)
                        if isinstance(x, ast.Raise) and x.exc is not None:
                            exc = ast.unparse(x.exc.func) if isinstance(x.exc, ast.Call) else ast.unparse(x.exc)
                # `config.emissions.pmvol_method.value` is seen as both `…pmvol_method.value` and `…pmvol_method`: keep option names
                named = [n for n in dict.fromkeys(named) if n.endswith('_method') or not n.endswith('value')]
                if not named and not exc:
                    raise DispatchTranslationError(f'{rel}:{fn.name}: the refusal of `{opt}` neither raises nor names an option')
                sites.append({'file': rel, 'func': fn.name, 'option': opt, 'handled': handled, 'named': named, 'exc': exc})
    if not sites:
        raise DispatchTranslationError('no dispatch site found in ' + ', '.join(FILES))
    items = []
    for s in sites:
        items.append('  { file := %s, func := %s, option := %s, handled := [%s], named := [%s], exc := %s }' % (
            lean_str(s['file']), lean_str(s['func']), lean_str(s['option']), ', '.join(lean_str(v) for v in s['handled']),
            ', '.join(lean_str(v) for v in s['named']), lean_str(s['exc'])))
    text = ('/- GENERATED by harness/common/dispprog.py from /repo\'s working tree (emissions/trajectory.py, emissions/lto.py,\n'
            '   config/emissions.py) on every check run. Do not edit. -/\nimport AeicModel.Refusals\nnamespace Aeic.Gen\nopen Aeic.Refusals\n\n'
            '/-- the functions that select behaviour by a method option and end in a refusal -/\n'
            'def dispatchSites : List Site := [\n' + ',\n'.join(items) + '\n]\n\nend Aeic.Gen\n')
    return text, sites


def _calls_raiser(body, tree) -> bool:
    """does the block call a module-level helper whose body raises?"""
    funcs = {n.name: n for n in tree.body if isinstance(n, ast.FunctionDef)}
    for b in body:
        for x in ast.walk(b):
            if isinstance(x, ast.Call) and isinstance(x.func, ast.Name):
                f = funcs.get(x.func.id)
                if f is not None and any(isinstance(y, ast.Raise) for y in ast.walk(f)):
                    return True
    return False


def regenerate() -> list:
    text, sites = translate()
    OUT.parent.mkdir(parents=True, exist_ok=True)
    if not OUT.exists() or OUT.read_text() != text:
        OUT.write_text(text)
    return sites
