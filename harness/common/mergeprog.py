"""Translator for the effect program of `TrajectoryStore.merge` (C09 / C10): `trajectories/store.py` ->
`lean/AeicModel/Generated/MergeProg.lean` (language: `AeicModel/MergeProg.lean`).

AST only. Walks the body of `merge` in source order; calls of other static helpers of the class (`TrajectoryStore._x(...)`) are
read as well (an effect hidden in a helper is an effect of `merge`).  Statements are classified as

    validate      anything that can refuse and touches nothing: `raise` under a condition, loops that open / inspect the inputs,
                  helper calls without effects
    mkdir         `os.mkdir(...)` / `os.makedirs(...)` / `Path(...).mkdir(...)`
    moveInputs    a `for` loop over the inputs whose body calls `os.rename` / `shutil.move` / `os.replace`; `recorded` when a
                  `<undo list>.append(...)` follows the move inside the same loop body
    buildIndex    a call of a helper whose body opens a NetCDF dataset for writing in the output directory; the file name is the
                  string constant of that path; `cond` when the call is under an `if`
    writeFile     `with open(<output> / '<name>', 'w' …)`
    rename        `os.rename(<output> / '<a>', <output> / '<b>')` outside a loop

and the single `except` handler of the `try` is summarised (what it catches, which constant file names it unlinks, whether it
renames the recorded moves back — reversed or not —, removes the directory, re-raises).  Anything the classification cannot
place raises `MergeTranslationError` (a broken obligation for C09 / C10).
"""
from __future__ import annotations

import ast

from . import LEAN_DIR, REPO

OUT = LEAN_DIR / 'AeicModel' / 'Generated' / 'MergeProg.lean'
MOVE_FUNCS = {'rename', 'move', 'replace'}


class MergeTranslationError(Exception):
    pass


def _calls(n: ast.AST):
    return [c for c in ast.walk(n) if isinstance(c, ast.Call)]


def _fname(c: ast.Call) -> str:
    f = c.func
    if isinstance(f, ast.Attribute):
        return f.attr
    if isinstance(f, ast.Name):
        return f.id
    return '?'


def _owner(c: ast.Call) -> str:
    f = c.func
    if isinstance(f, ast.Attribute) and isinstance(f.value, ast.Name):
        return f.value.id
    return ''


_LOCALS: dict[str, ast.AST] = {}


def _str_consts(n: ast.AST) -> list[str]:
    out = []
    for c in ast.walk(n):
        if isinstance(c, ast.Constant) and isinstance(c.value, str):
            out.append(c.value)
        elif isinstance(c, ast.Name) and c.id in _LOCALS and _LOCALS[c.id] is not n:
            out += [x.value for x in ast.walk(_LOCALS[c.id]) if isinstance(x, ast.Constant) and isinstance(x.value, str)]
    return out


def _is_move(c: ast.Call) -> bool:
    return _fname(c) in MOVE_FUNCS and _owner(c) in ('os', 'shutil')


def _is_mkdir(c: ast.Call) -> bool:
    return _fname(c) in ('mkdir', 'makedirs')


def _is_open_write(c: ast.Call) -> bool:
    if _fname(c) != 'open' or len(c.args) < 2:
        return False
    m = c.args[1]
    return isinstance(m, ast.Constant) and isinstance(m.value, str) and ('w' in m.value or 'a' in m.value or 'x' in m.value)


def lean_str(s: str) -> str:
    return '"' + s.replace('\\', '\\\\').replace('"', '\\"') + '"'


class T:
    def __init__(self, cls: ast.ClassDef):
        self.cls = cls
        self.methods = {b.name: b for b in cls.body if isinstance(b, ast.FunctionDef)}
        self.depth = 0

    # ---- helpers of the class: do they have effects?
    def helper_effects(self, name: str, cond: bool) -> list[str]:
        fn = self.methods.get(name)
        if fn is None or self.depth > 3:
            return ['.validate']
        self.depth += 1
        try:
            # a helper that writes a NetCDF dataset into the output directory = the index builder
            for c in _calls(fn):
                if _fname(c) == 'Dataset' and len(c.args) >= 2 and isinstance(c.args[1], ast.Constant) and c.args[1].value in ('w', 'a'):
                    names = [s for s in _str_consts(c.args[0]) if s.endswith('.nc')]
                    if not names:
                        raise MergeTranslationError(f'{name}: the dataset it creates has no constant file name')
                    return [f'.buildIndex {lean_str(names[0])} {"true" if cond else "false"}']
            evs = self.block(fn.body, in_try=False)
            return evs if any(e != '.validate' for e in evs) else ['.validate']
        finally:
            self.depth -= 1

    # ---- statements
    def block(self, stmts, in_try: bool) -> list[str]:
        out: list[str] = []
        for st in stmts:
            for e in self.stmt(st, in_try):
                if e == '.validate' and out and out[-1] == '.validate':
                    continue
                out.append(e)
        return out

    def stmt(self, st: ast.AST, in_try: bool, cond: bool = False) -> list[str]:
        if isinstance(st, (ast.Pass, ast.Global, ast.Assert)) or (isinstance(st, ast.Expr) and isinstance(st.value, ast.Constant)):
            return []
        if isinstance(st, ast.Raise):
            return ['.validate']
        if isinstance(st, ast.Return):
            return self.expr_effects(st.value, cond) if st.value is not None else []
        if isinstance(st, ast.If):
            body = [e for s in st.body for e in self.stmt(s, in_try, cond=True)]
            orelse = [e for s in st.orelse for e in self.stmt(s, in_try, cond=True)]
            evs = body + orelse
            if all(e == '.validate' for e in evs):
                return ['.validate'] if evs or _calls(st.test) else []
            if orelse and any(e != '.validate' for e in orelse) and any(e != '.validate' for e in body):
                raise MergeTranslationError(f'line {st.lineno}: effects on both branches of a condition')
            return [e for e in evs if e != '.validate'] if not any(e == '.validate' for e in evs) else evs
        if isinstance(st, (ast.For, ast.While)):
            moves = [c for c in _calls(st) if _is_move(c)]
            if moves:
                # recorded: an `.append(...)` statement after the move inside the loop body
                recorded = False
                seen_move = False
                for s in st.body:
                    if any(_is_move(c) for c in _calls(s)):
                        seen_move = True
                    elif seen_move and any(_fname(c) == 'append' for c in _calls(s)):
                        recorded = True
                    elif not seen_move and any(_fname(c) == 'append' for c in _calls(s)) and False:
                        pass
                others = [e for s in st.body if not any(_is_move(c) for c in _calls(s))
                          for e in self.stmt(s, in_try, cond) if e != '.validate']
                if others:
                    raise MergeTranslationError(f'line {st.lineno}: other effects inside the loop that moves the inputs')
                return [f'.moveInputs {"true" if recorded else "false"}']
            evs = [e for s in st.body for e in self.stmt(s, in_try, cond)]
            if any(e != '.validate' for e in evs):
                raise MergeTranslationError(f'line {st.lineno}: effects inside a loop')
            return ['.validate'] if (evs or _calls(st)) else []
        if isinstance(st, ast.With):
            writes = [c for i in st.items for c in _calls(i.context_expr) if _is_open_write(c)]
            if writes:
                names = [s for s in _str_consts(writes[0].args[0]) if s not in ('w', 'wb')]
                if not names:
                    raise MergeTranslationError(f'line {st.lineno}: a file is written whose name is not a constant')
                inner = [e for s in st.body for e in self.stmt(s, in_try, cond) if e != '.validate']
                return [f'.writeFile {lean_str(names[-1])}'] + inner
            return [e for s in st.body for e in self.stmt(s, in_try, cond)] or (['.validate'] if _calls(st) else [])
        if isinstance(st, ast.Try):
            if in_try:
                raise MergeTranslationError(f'line {st.lineno}: nested try statement inside the protected region')
            # a local try (e.g. around a mkdir in a helper): its effects, then what its handlers do, in order
            evs = [e for s in st.body for e in self.stmt(s, in_try, cond)]
            for h in st.handlers:
                evs += [e for s in h.body for e in self.stmt(s, in_try, True)]
            evs += [e for s in st.finalbody for e in self.stmt(s, in_try, cond)]
            return evs
        if isinstance(st, (ast.Assign, ast.AnnAssign, ast.AugAssign, ast.Expr)):
            v = st.value
            return self.expr_effects(v, cond) if v is not None else []
        raise MergeTranslationError(f'line {getattr(st, "lineno", "?")}: statement {type(st).__name__} outside the effect language')

    def expr_effects(self, v: ast.AST, cond: bool) -> list[str]:
        evs: list[str] = []
        for c in _calls(v):
            if _is_mkdir(c):
                evs.append('.mkdir')
            elif _is_move(c):
                a = [s for s in _str_consts(c.args[0])] if c.args else []
                b = [s for s in _str_consts(c.args[1])] if len(c.args) > 1 else []
                if not a or not b:
                    raise MergeTranslationError(f'line {c.lineno}: a rename outside the input loop without constant names')
                evs.append(f'.rename {lean_str(a[-1])} {lean_str(b[-1])}')
            elif _is_open_write(c):
                names = [s for s in _str_consts(c.args[0])]
                if not names:
                    raise MergeTranslationError(f'line {c.lineno}: a file is written whose name is not a constant')
                evs.append(f'.writeFile {lean_str(names[-1])}')
            elif _owner(c) in (self.cls.name, 'cls', 'self') and _fname(c) in self.methods and _fname(c) not in ('open', 'create', 'append'):
                evs += self.helper_effects(_fname(c), cond)
        if evs:
            return evs
        return ['.validate'] if any(_fname(c) in ('open', 'exists', 'format') or _owner(c) == self.cls.name for c in _calls(v)) else []

    # ---- handler
    def handler(self, h: ast.ExceptHandler) -> str:
        catches_all = h.type is None or (isinstance(h.type, ast.Name) and h.type.id == 'BaseException')
        removes: list[str] = []
        restores = reversed_ = rmdir = False
        for st in h.body:
            for c in _calls(st):
                if _fname(c) in ('unlink', 'remove'):
                    removes += [s for s in _str_consts(st) if '.' in s]
                if _fname(c) == 'rmdir' or _fname(c) == 'rmtree':
                    rmdir = True
            if isinstance(st, ast.For) and any(_is_move(c) for c in _calls(st)):
                restores = True
                reversed_ = any(_fname(c) == 'reversed' for c in _calls(st.iter)) or (
                    isinstance(st.iter, ast.Subscript) and 'step' in ast.dump(st.iter) and '-1' in ast.unparse(st.iter))
        reraises = bool(h.body) and isinstance(h.body[-1], ast.Raise) and h.body[-1].exc is None
        rem = '[' + ', '.join(lean_str(s) for s in dict.fromkeys(removes)) + ']'
        b = lambda x: 'true' if x else 'false'  # noqa: E731
        return f'{{ catchesAll := {b(catches_all)}, removes := {rem}, restoresMoved := {b(restores)}, reversed := {b(reversed_)}, rmdir := {b(rmdir)}, reraises := {b(reraises)} }}'


def program() -> dict:
    path = REPO / 'src' / 'AEIC' / 'trajectories' / 'store.py'
    tree = ast.parse(path.read_text())
    cls = next((n for n in tree.body if isinstance(n, ast.ClassDef) and n.name == 'TrajectoryStore'), None)
    if cls is None:
        raise MergeTranslationError('class TrajectoryStore not found')
    t = T(cls)
    fn = t.methods.get('merge')
    if fn is None:
        raise MergeTranslationError('TrajectoryStore.merge not found')
    _LOCALS.clear()
    for n in ast.walk(fn):       # locals of `merge` bound to a path expression with a constant file name (`tmp = out / 'x.tmp'`)
        if isinstance(n, ast.Assign) and len(n.targets) == 1 and isinstance(n.targets[0], ast.Name) \
                and any(isinstance(x, ast.Constant) and isinstance(x.value, str) and '.' in x.value for x in ast.walk(n.value)):
            _LOCALS[n.targets[0].id] = n.value
    tries = [s for s in fn.body if isinstance(s, ast.Try)]
    if len(tries) > 1:
        raise MergeTranslationError('merge has more than one try statement')
    pre_stmts, body_stmts, handler = [], [], 'none'
    if tries:
        i = fn.body.index(tries[0])
        if fn.body[i + 1:]:
            post = t.block(fn.body[i + 1:], in_try=False)
            if any(e != '.validate' for e in post):
                raise MergeTranslationError('effects after the try statement of merge')
        pre_stmts, body_stmts = fn.body[:i], tries[0].body
        tr = tries[0]
        if tr.finalbody or tr.orelse or len(tr.handlers) != 1:
            raise MergeTranslationError('the try statement of merge is not `try … except <one handler>`')
        handler = '(some ' + t.handler(tr.handlers[0]) + ')'
    else:
        pre_stmts = fn.body
    return {'pre': t.block(pre_stmts, in_try=False), 'body': t.block(body_stmts, in_try=True), 'handler': handler}


def render() -> str:
    p = program()
    return ('/- GENERATED by harness/common/mergeprog.py from src/AEIC/trajectories/store.py on every check run. Do not edit. -/\n'
            'import AeicModel.MergeProg\nnamespace Aeic.Gen\nopen Aeic.MergeProg\n\n'
            f'def mergeProg : Prog :=\n  {{ pre := [{", ".join(p["pre"])}],\n    body := [{", ".join(p["body"])}],\n'
            f'    handler := {p["handler"]} }}\n\nend Aeic.Gen\n')


def regenerate() -> bool:
    txt = render()
    OUT.parent.mkdir(parents=True, exist_ok=True)
    if OUT.exists() and OUT.read_text() == txt:
        return False
    OUT.write_text(txt)
    return True


if __name__ == '__main__':
    print(render())
