"""Translator for the configuration singleton code (C18): `config/core.py` -> `lean/AeicModel/Generated/ConfigProg.lean`.

From the AST of the working tree (nothing is imported) it extracts, in source order, the statements of `Config.load`, of every
`@model_validator(mode='after')` method of `Config` (definition order = pydantic's execution order) and of `Config.reset`
that (a) can raise, (b) test the module-level singleton, or (c) assign it, as a program of the event language of
`AeicModel/ConfigProg.lean`:

    failPoint k   a call that may raise; k = the stage: 0 reading / parsing the configuration file (calls under
                  `if config_file is not None`), 1 pydantic field validation (`cls.model_validate(...)`, before the validators),
                  2 + i the calls in the body of the i-th after-validator
    checkUnset    `if _config is not None: raise ...`
    assign        `_config = self` (or any other non-None value)
    clear         `_config = None`
    raise         an unconditional `raise`
    tryFinally / tryExcept   kept as structure (a handler that ends in a bare `raise` re-raises)

`cfgLoadProgram` = the body of `load` with the validators inlined at the `model_validate` call; `cfgConstructProgram` = field
validation + validators (what `Config(**data)` / `Config.model_validate(data)` runs); `cfgResetProgram` = the body of `reset`.
Statements that cannot raise and do not touch the singleton (assignments of pure expressions, `global`, docstrings, `return`
of a name) are dropped; `with open(<packaged default file>)` at the top level of `load` is dropped as well (the packaged
defaults are part of the installation; reading them is not a stage of the property).  What is trusted: this reading of which
statements can raise — validated indirectly: the generated program is proved equal to the hand-written staged model
(`Properties/C18.lean`, `src_load_is_model`), and the model is compared with the running implementation on every check run.
"""
from __future__ import annotations

import ast
from pathlib import Path

from . import LEAN_DIR, REPO

OUT = LEAN_DIR / 'AeicModel' / 'Generated' / 'ConfigProg.lean'
SINGLETON = '_config'


class CfgTranslationError(Exception):
    pass


def _is_singleton(n) -> bool:
    return isinstance(n, ast.Name) and n.id == SINGLETON


def _has_call(n: ast.AST) -> bool:
    return any(isinstance(x, ast.Call) for x in ast.walk(n))


def _test_is_active(t: ast.AST) -> bool:
    """`_config is not None` (possibly as `not (_config is None)`)"""
    if isinstance(t, ast.Compare) and len(t.ops) == 1 and _is_singleton(t.left) and isinstance(t.comparators[0], ast.Constant) \
            and t.comparators[0].value is None:
        return isinstance(t.ops[0], ast.IsNot)
    if isinstance(t, ast.UnaryOp) and isinstance(t.op, ast.Not):
        i = t.operand
        return (isinstance(i, ast.Compare) and len(i.ops) == 1 and _is_singleton(i.left) and isinstance(i.ops[0], ast.Is)
                and isinstance(i.comparators[0], ast.Constant) and i.comparators[0].value is None)
    return False


class Prog:
    def __init__(self, cls: ast.ClassDef, validators: list[ast.FunctionDef]):
        self.cls = cls
        self.validators = validators
        self.active_names: set[str] = set()      # locals bound to `_config is not None`
        self.unset_names: set[str] = set()       # locals bound to `_config is None`
        self.depth = 0

    def is_active_test(self, t: ast.AST) -> bool:
        if _test_is_active(t):
            return True
        if isinstance(t, ast.Name) and t.id in self.active_names:
            return True
        if isinstance(t, ast.UnaryOp) and isinstance(t.op, ast.Not) and isinstance(t.operand, ast.Name) \
                and t.operand.id in self.unset_names:
            return True
        return False

    def validator_events(self) -> list[str]:
        out: list[str] = []
        for i, v in enumerate(self.validators):
            out += self.block(v.body, stage=2 + i, in_load=False)
        return out

    def block(self, stmts, stage: int, in_load: bool, file_stage: bool = False) -> list[str]:
        out: list[str] = []
        for st in stmts:
            out += self.stmt(st, stage, in_load, file_stage)
        return out

    def stmt(self, st: ast.AST, stage: int, in_load: bool, file_stage: bool) -> list[str]:
        if isinstance(st, (ast.Global, ast.Pass, ast.Nonlocal)):
            return []
        if isinstance(st, ast.Expr) and isinstance(st.value, ast.Constant):
            return []                                        # docstring
        if isinstance(st, ast.Raise):
            return ['.raise']
        if isinstance(st, ast.Assign) and len(st.targets) == 1 and isinstance(st.targets[0], ast.Name) \
                and not _is_singleton(st.targets[0]):
            # a named condition on the singleton: `active = _config is not None`
            if _test_is_active(st.value):
                self.active_names.add(st.targets[0].id)
                return []
            if _test_is_active(ast.UnaryOp(op=ast.Not(), operand=st.value)) or (
                    isinstance(st.value, ast.Compare) and len(st.value.ops) == 1 and _is_singleton(st.value.left)
                    and isinstance(st.value.ops[0], ast.Is) and isinstance(st.value.comparators[0], ast.Constant)
                    and st.value.comparators[0].value is None):
                self.unset_names.add(st.targets[0].id)
                return []
        if isinstance(st, ast.Assign) and any(_is_singleton(t) for t in st.targets):
            v = st.value
            ev = '.clear' if isinstance(v, ast.Constant) and v.value is None else '.assign'
            return ([f'.failPoint {stage}'] if _has_call(v) else []) + [ev]
        if isinstance(st, ast.If):
            if self.is_active_test(st.test) and st.body and isinstance(st.body[-1], ast.Raise) and not st.orelse:
                return ['.checkUnset']
            if in_load and isinstance(st.test, ast.Compare) and isinstance(st.test.left, ast.Name) \
                    and st.test.left.id == 'config_file':
                return self.block(st.body, 0, in_load, file_stage=True) + self.block(st.orelse, stage, in_load)
            body = self.block(st.body, stage, in_load, file_stage)
            orelse = self.block(st.orelse, stage, in_load, file_stage)
            ev = ([f'.failPoint {stage}'] if _has_call(st.test) else [])
            if all(e == '.raise' or e.startswith('.failPoint') for e in body + orelse) and '.raise' in body + orelse:
                # `if <condition on the data>: raise ...` (possibly after some calls): this stage may fail here
                return [f'.failPoint {0 if file_stage else stage}']
            if any(e in ('.assign', '.clear', '.checkUnset', '.raise') or e.startswith('.try') for e in body + orelse):
                raise CfgTranslationError(f'line {st.lineno}: the singleton is tested / assigned under a condition the event '
                                          f'language cannot express: `{ast.unparse(st.test)}`')
            # a conditional whose branches only contain calls: may fail at this stage (conservative: the calls are reachable)
            return _dedupe(ev + body + orelse)
        if isinstance(st, ast.With):
            hdr = [f'.failPoint {0 if file_stage else stage}'] if any(_has_call(i.context_expr) for i in st.items) else []
            if in_load and not file_stage and self._is_packaged_default_read(st):
                return []
            return _dedupe(hdr + self.block(st.body, stage, in_load, file_stage))
        if isinstance(st, ast.Try):
            body = self.block(st.body, stage, in_load, file_stage)
            if st.finalbody and not st.handlers:
                return [f'.tryFinally [{", ".join(body)}] [{", ".join(self.block(st.finalbody, stage, in_load, file_stage))}]']
            if st.handlers and not st.finalbody and len(st.handlers) == 1:
                h = st.handlers[0]
                hb = list(h.body)
                reraise = bool(hb) and isinstance(hb[-1], ast.Raise) and hb[-1].exc is None
                if reraise:
                    hb = hb[:-1]
                return [f'.tryExcept [{", ".join(body)}] [{", ".join(self.block(hb, stage, in_load, file_stage))}] '
                        f'{"true" if reraise else "false"}']
            raise CfgTranslationError(f'line {st.lineno}: try statement with both handlers and a finally block')
        if isinstance(st, ast.Return):
            if st.value is None or not _has_call(st.value):
                return []
            return self.call_events(st.value, stage, in_load, file_stage)
        if isinstance(st, (ast.Assign, ast.AnnAssign, ast.AugAssign, ast.Expr)):
            v = st.value
            if v is None or not _has_call(v):
                return []
            return self.call_events(v, stage, in_load, file_stage)
        if isinstance(st, (ast.For, ast.While)):
            body = self.block(st.body, stage, in_load, file_stage)
            if any(not e.startswith('.failPoint') for e in body):
                raise CfgTranslationError(f'line {st.lineno}: the singleton is touched inside a loop')
            return _dedupe(body)
        raise CfgTranslationError(f'line {getattr(st, "lineno", "?")}: statement {type(st).__name__} is outside the event language')

    def call_events(self, v: ast.AST, stage: int, in_load: bool, file_stage: bool) -> list[str]:
        calls = [c for c in ast.walk(v) if isinstance(c, ast.Call)]
        # `cls.model_validate(...)` / `cls(**data)` inside load: field validation, then the validators
        for c in calls:
            f = c.func
            if in_load and ((isinstance(f, ast.Attribute) and f.attr == 'model_validate') or (isinstance(f, ast.Name) and f.id == 'cls')):
                return ['.failPoint 1'] + self.validator_events()
        # `Config.reset()` / `cls.reset()` called from another method: its events inline
        for c in calls:
            f = c.func
            if isinstance(f, ast.Attribute) and f.attr == 'reset':
                return self.block(self.method('reset').body, stage, False)
        # a call of another method of the class (`self.m(...)`, `cls.m(...)`, `Config.m(...)`) as the whole statement value: its
        # body inline, at the same stage (so that extracting a helper does not change the program)
        if len(calls) >= 1 and self.depth < 4:
            c = v if isinstance(v, ast.Call) else None
            if c is not None and isinstance(c.func, ast.Attribute) and isinstance(c.func.value, ast.Name) \
                    and c.func.value.id in ('self', 'cls', self.cls.name) and not any(_has_call(a) for a in c.args):
                try:
                    m = self.method(c.func.attr)
                except CfgTranslationError:
                    m = None
                if m is not None:
                    self.depth += 1
                    try:
                        return _dedupe(self.block(m.body, stage, in_load, file_stage))
                    finally:
                        self.depth -= 1
        pure = {'deep_update', 'dict', 'list', 'getattr', 'isinstance', 'len', 'Path', 'str'}
        names = {(c.func.id if isinstance(c.func, ast.Name) else c.func.attr if isinstance(c.func, ast.Attribute) else '?') for c in calls}
        if in_load and not file_stage and names <= pure:
            return []                                       # dictionary overlay: cannot raise on dictionaries
        return [f'.failPoint {0 if file_stage else stage}']

    def _is_packaged_default_read(self, st: ast.With) -> bool:
        return 'default_config' in ast.unparse(st)

    def method(self, name: str) -> ast.FunctionDef:
        for b in self.cls.body:
            if isinstance(b, ast.FunctionDef) and b.name == name:
                return b
        raise CfgTranslationError(f'Config.{name} not found')


def _dedupe(evs: list[str]) -> list[str]:
    """consecutive identical fail points are one fail point"""
    out: list[str] = []
    for e in evs:
        if out and out[-1] == e and e.startswith('.failPoint'):
            continue
        out.append(e)
    return out


def programs() -> dict[str, list[str]]:
    path = REPO / 'src' / 'AEIC' / 'config' / 'core.py'
    tree = ast.parse(path.read_text())
    cls = next((n for n in tree.body if isinstance(n, ast.ClassDef) and n.name == 'Config'), None)
    if cls is None:
        raise CfgTranslationError('class Config not found in config/core.py')
    validators = []
    for b in cls.body:
        if isinstance(b, ast.FunctionDef):
            for d in b.decorator_list:
                if isinstance(d, ast.Call) and ast.unparse(d.func).endswith('model_validator'):
                    mode = next((k.value.value for k in d.keywords if k.arg == 'mode' and isinstance(k.value, ast.Constant)), None)
                    if mode != 'after':
                        raise CfgTranslationError(f'validator {b.name}: mode {mode!r} is outside the staged reading')
                    validators.append(b)
    p = Prog(cls, validators)
    load = _dedupe(p.block(p.method('load').body, stage=1, in_load=True))
    construct = _dedupe(['.failPoint 1'] + p.validator_events())
    reset = p.block(p.method('reset').body, stage=0, in_load=False)
    return {'cfgLoadProgram': load, 'cfgConstructProgram': construct, 'cfgResetProgram': reset,
            '$validators': [v.name for v in validators]}


def render() -> str:
    pr = programs()
    lines = ['/- GENERATED by harness/common/cfgprog.py from src/AEIC/config/core.py on every check run. Do not edit.',
             f'   after-validators in definition order: {", ".join(pr["$validators"])} -/',
             'import AeicModel.ConfigProg', 'namespace Aeic.Gen', 'open Aeic.ConfigProg', '']
    for name in ('cfgLoadProgram', 'cfgConstructProgram', 'cfgResetProgram'):
        lines.append(f'def {name} : List Ev := [{", ".join(pr[name])}]')
    lines += ['', 'end Aeic.Gen', '']
    return '\n'.join(lines)


def regenerate() -> bool:
    txt = render()
    OUT.parent.mkdir(parents=True, exist_ok=True)
    if OUT.exists() and OUT.read_text() == txt:
        return False
    OUT.write_text(txt)
    return True


if __name__ == '__main__':
    print(render())
