"""Shared harness machinery: paths, float<->bits, RNG, Lean driver, audit, evidence, findings, classification."""
from __future__ import annotations

import hashlib
import json
import math
import os
import re
import struct
import subprocess
import sys
import time
import warnings
from pathlib import Path

ROOT = Path(__file__).resolve().parents[2]
LEAN_DIR = ROOT / 'lean'
REPO = Path(os.environ.get('AEIC_REPO', '/repo'))
EVIDENCE_DIR = ROOT / 'evidence'
REPLAY_DIR = ROOT / 'replays'
CORPUS_DIR = ROOT / 'corpus'
ALLOWED_AXIOMS = {'propext', 'Classical.choice', 'Quot.sound'}
LAKE_ENV = dict(os.environ)


# --------------------------------------------------------------------------- floats
def f2u(x: float) -> int:
    return struct.unpack('<Q', struct.pack('<d', float(x)))[0]


def u2f(n: int) -> float:
    return struct.unpack('<d', struct.pack('<Q', int(n)))[0]


def fs2u(xs) -> list[int]:
    return [f2u(x) for x in xs]


def u2fs(ns) -> list[float]:
    return [u2f(n) for n in ns]


def close(a: float, b: float, rtol: float = 1e-9, atol: float = 0.0) -> bool:
    a = float(a)
    b = float(b)
    if a == b:
        return True
    if math.isnan(a) and math.isnan(b):
        return True
    if math.isnan(a) or math.isnan(b) or math.isinf(a) or math.isinf(b):
        return False
    return abs(a - b) <= atol + rtol * max(abs(a), abs(b))


def all_close(xs, ys, rtol=1e-9, atol=0.0) -> bool:
    xs = list(xs)
    ys = list(ys)
    return len(xs) == len(ys) and all(close(x, y, rtol, atol) for x, y in zip(xs, ys))


# --------------------------------------------------------------------------- rng
def make_rng(pid: str, seed: int, stream: str = ''):
    import numpy as np

    h = hashlib.sha256(f'{pid}/{seed}/{stream}'.encode()).digest()
    return np.random.Generator(np.random.PCG64(int.from_bytes(h[:16], 'little')))


# --------------------------------------------------------------------------- lean
class LeanError(Exception):
    pass


def _run(cmd, cwd=None, timeout=3600, input=None):
    return subprocess.run(cmd, cwd=cwd, capture_output=True, text=True, timeout=timeout, input=input)


def lake_build(targets=()) -> tuple[bool, str]:
    r = _run(['lake', 'build', *targets], cwd=LEAN_DIR)
    out = r.stdout + r.stderr
    if r.returncode != 0 and ('clang frontend command failed' in out or 'signal' in out.lower() and 'clang' in out):
        # the C compiler of the driver was killed (seen under memory pressure with several checks building at once): a failure
        # of the machine, not of a proof — wait and build once more
        time.sleep(5.0)
        r = _run(['lake', 'build', *targets], cwd=LEAN_DIR)
        out = r.stdout + r.stderr
    return r.returncode == 0, out


_COMMENT_BLOCK = re.compile(r'/-.*?-/', re.S)
_COMMENT_LINE = re.compile(r'--.*?$', re.M)
_FORBIDDEN = re.compile(
    r'\b(sorry|admit|native_decide|bv_decide|implemented_by|unsafe|extern)\b|^\s*axiom\s|maxHeartbeats\s+0\b', re.M
)


def strip_comments(src: str) -> str:
    # nested block comments are rare in our sources; strip repeatedly to be safe
    prev = None
    while prev != src:
        prev = src
        src = _COMMENT_BLOCK.sub(' ', src)
    return _COMMENT_LINE.sub('', src)


def source_audit() -> list[str]:
    """Forbidden constructs anywhere in the Lean sources (comments stripped)."""
    bad = []
    for p in sorted(LEAN_DIR.rglob('*.lean')):
        if '.lake' in p.parts:
            continue
        txt = strip_comments(p.read_text())
        for m in _FORBIDDEN.finditer(txt):
            bad.append(f'{p.relative_to(LEAN_DIR)}: {m.group(0).strip()}')
    return bad


_IMPORT = re.compile(r'^import\s+([A-Za-z0-9_.]+)', re.M)


def import_closure(module: str) -> set[str]:
    """Modules of this package transitively imported by `module` (parsed from the sources)."""
    seen: set[str] = set()
    todo = [module]
    while todo:
        m = todo.pop()
        if m in seen or not (m.startswith('AeicModel') or m.startswith('AeicProofs')):
            continue
        seen.add(m)
        f = LEAN_DIR / (m.replace('.', '/') + '.lean')
        if f.exists():
            todo += _IMPORT.findall(f.read_text())
    return seen


_THM = re.compile(r'^\s*(?:@\[[^\]]*\]\s*)?theorem\s+([A-Za-z_][A-Za-z0-9_\'.]*)', re.M)


def property_theorems(pid: str) -> list[str]:
    p = LEAN_DIR / 'AeicProofs' / 'Properties' / f'{pid}.lean'
    if not p.exists():
        return []
    txt = strip_comments(p.read_text())
    return [f'{pid}.{n}' for n in _THM.findall(txt)]


def axiom_audit(pid: str) -> dict:
    """`#print axioms` for every theorem in Properties/<pid>.lean. Returns name -> list of axioms (or None if missing)."""
    names = property_theorems(pid)
    if not names:
        return {}
    src = f'import AeicProofs.Properties.{pid}\n' + ''.join(f'#print axioms {n}\n' for n in names)
    tmp = LEAN_DIR / '.lake' / f'audit_{pid}_{os.getpid()}.lean'
    tmp.parent.mkdir(exist_ok=True)
    tmp.write_text(src)
    try:
        r = _run(['lake', 'env', 'lean', str(tmp)], cwd=LEAN_DIR)
    finally:
        tmp.unlink(missing_ok=True)
    out = r.stdout + r.stderr
    res: dict[str, list[str] | None] = {n: None for n in names}
    flat = re.sub(r'\s+', ' ', out)
    for n in names:
        m = re.search(r"'" + re.escape(n) + r"' depends on axioms: \[([^\]]*)\]", flat)
        if m:
            res[n] = [a.strip() for a in m.group(1).split(',') if a.strip()]
        elif re.search(r"'" + re.escape(n) + r"' does not depend on any axioms", flat):
            res[n] = []
    return res


class Driver:
    """Batch interface to the compiled Lean model driver (JSON lines)."""

    def __init__(self):
        self.exe = LEAN_DIR / '.lake' / 'build' / 'bin' / 'aeic_driver'
        self.calls = 0

    def available(self) -> bool:
        return self.exe.exists()

    def run(self, ops: list[dict], timeout=3600) -> list[dict]:
        if not ops:
            return []
        if not self.available():
            raise LeanError('driver executable missing (lake build failed?)')
        data = '\n'.join(json.dumps(o, separators=(',', ':')) for o in ops) + '\n'
        r = subprocess.run([str(self.exe)], input=data, capture_output=True, text=True, timeout=timeout)
        lines = [ln for ln in r.stdout.split('\n') if ln.strip()]
        if len(lines) != len(ops):
            raise LeanError(f'driver returned {len(lines)} lines for {len(ops)} ops; stderr={r.stderr[:500]}')
        self.calls += len(ops)
        return [json.loads(ln) for ln in lines]

    def outs(self, ops):
        res = []
        for o, r in zip(ops, self.run(ops)):
            if 'err' in r:
                raise LeanError(f"driver error on {o.get('op')}: {r['err']}")
            res.append(r['out'])
        return res


# --------------------------------------------------------------------------- AEIC setup
def aeic_setup():
    """Point the implementation at the repo's test data and load a default config."""
    warnings.filterwarnings('ignore')
    os.environ['AEIC_PATH'] = str(REPO / 'tests' / 'data')
    src = str(REPO / 'src')
    if src not in sys.path:
        sys.path.insert(0, src)
    from AEIC.config import Config

    try:
        Config.reset()
    except Exception:
        pass
    Config.load(data_path_overrides=[REPO / 'tests' / 'data'])
    return Config


# --------------------------------------------------------------------------- findings
def load_findings(pid: str) -> list[dict]:
    p = ROOT / 'known_findings.json'
    if not p.exists():
        return []
    data = json.loads(p.read_text())
    return [f for f in data.get('findings', []) if f.get('property') == pid]


# --------------------------------------------------------------------------- context / classification
class Ctx:
    def __init__(self, pid: str, tier: str, seed: int):
        self.pid = pid
        self.tier = tier
        self.seed = seed
        self.t0 = time.time()
        self.rng = make_rng(pid, seed)
        self.driver = Driver()
        self.findings = {f['id']: f for f in load_findings(pid)}
        self.open_findings = {k: f for k, f in self.findings.items() if f.get('status') == 'open'}
        self.violations: list[dict] = []  # clause failures on the implementation not covered by an open finding
        self.known_hits: dict[str, list] = {}  # finding id -> cases
        self.divergences: list[dict] = []  # model vs implementation disagreements
        self.broken: list[str] = []  # proof obligations / build failures
        self.evaluations = 0
        self.nontrivial: set = set()
        self.samples: list = []
        self.hist: dict[str, int] = {}
        self.notes: list[str] = []
        self.obligations: list[str] = []
        self.discharged: list[str] = []
        self.extra: dict = {}
        self.tie_suspects = 0

    # ---- bookkeeping
    def count(self, key: str, n: int = 1):
        self.hist[key] = self.hist.get(key, 0) + n

    def case(self, key, nontrivial: bool = True, sample=None):
        """Register one evaluated case. `key` must be hashable and identify the case (distinctness)."""
        self.evaluations += 1
        if nontrivial:
            self.nontrivial.add(key if isinstance(key, (str, int, tuple)) else json.dumps(key, sort_keys=True, default=str))
        if sample is not None and len(self.samples) < 6:
            self.samples.append(sample)

    def scale(self, quick: int, thorough: int) -> int:
        return thorough if self.tier == 'thorough' else quick

    # ---- outcomes
    def clause_fail(self, clause: str, case, finding: str | None = None, detail: str = ''):
        rec = {'clause': clause, 'case': case, 'detail': detail}
        if finding is not None and finding in self.open_findings:
            self.known_hits.setdefault(finding, []).append(rec)
        else:
            if finding is not None:
                rec['finding_not_open'] = finding
            self.violations.append(rec)

    def diverge(self, what: str, case, detail: str = ''):
        self.divergences.append({'correspondence': what, 'case': case, 'detail': detail})

    def broken_obligation(self, what: str):
        self.broken.append(what)

    # ---- proofs
    def proofs(self):
        """Translator + lake build (this property's proof module and the driver) + source audit + axiom audit."""
        from . import translator

        deps = import_closure(f'AeicProofs.Properties.{self.pid}')
        uses_generated = any(m.startswith('AeicModel.Generated') for m in deps)
        try:
            translator.regenerate()
        except Exception as e:  # extraction failed: a broken correspondence for the properties that use the constants
            msg = f'translator: {type(e).__name__}: {e}'
            if uses_generated:
                self.broken_obligation(msg)
            else:
                self.notes.append(msg + ' (this property does not depend on the generated constants)')
        if 'AeicModel.Generated.Guard' in deps:
            try:
                translator.regenerate_guard()
            except Exception as e:  # the guard region is no longer in a form the translator understands
                self.broken_obligation(f'translator (thread guard): {type(e).__name__}: {e}')
        if 'AeicModel.Generated.ConfigProg' in deps:
            try:
                from . import cfgprog

                cfgprog.regenerate()
            except Exception as e:  # the singleton code is no longer in a form the event language expresses
                self.broken_obligation(f'translator (configuration singleton): {type(e).__name__}: {e}')
        if 'AeicModel.Generated.MergeProg' in deps:
            try:
                from . import mergeprog

                mergeprog.regenerate()
            except Exception as e:  # `merge` is no longer in a form the effect language expresses
                self.broken_obligation(f'translator (merge effect program): {type(e).__name__}: {e}')
        if 'AeicProofs.Lemmas.Locate' in deps:
            try:
                from . import locprog

                locprog.regenerate()
            except Exception as e:  # the merged lookup is no longer in the form the parameters describe
                self.broken_obligation(f'translator (merged lookup): {type(e).__name__}: {e}')
        if 'AeicModel.Generated.Refusals' in deps and self.pid == 'C11':
            try:
                from . import dispprog

                dispprog.regenerate()
            except Exception as e:  # the dispatch sites are no longer in a form the translator reads
                self.broken_obligation(f'translator (dispatch sites): {type(e).__name__}: {e}')
        if 'AeicModel.GeoSrc' in deps:
            try:
                from . import gtprog

                gtprog.regenerate()
            except Exception as e:  # the index arithmetic of GroundTrack is no longer in the form the parameters describe
                self.broken_obligation(f'translator (ground track): {type(e).__name__}: {e}')
        if 'AeicModel.FlightLookup' in deps:
            try:
                from . import fidprog

                fidprog.regenerate()
            except Exception as e:  # the flight-identifier lookup is no longer in the form the parameters describe
                self.broken_obligation(f'translator (flight lookup): {type(e).__name__}: {e}')
        if 'AeicModel.Generated.AddProg' in deps:
            try:
                from . import addprog

                addprog.regenerate()
            except Exception as e:  # `add` is no longer in a form the event language expresses
                self.broken_obligation(f'translator (add event program): {type(e).__name__}: {e}')
        if 'AeicModel.Generated.Kernels' in deps:
            try:
                from . import pykern

                for name, msg in pykern.regenerate().items():
                    self.broken_obligation(f'kernel translator: {msg}')
                for name, msg in pykern.LAST_STALE.items():
                    # a limitation of the translator, not evidence about the code: the kernel keeps its last good translation and
                    # is still compared with the running implementation on sampled inputs (harness/kernels.py)
                    self.extra.setdefault('source_tie_stale', {})[name] = msg
                if pykern.LAST_STALE:
                    self.notes.append(f'source tie degraded to sampling for {len(pykern.LAST_STALE)} kernel(s) the translator can no '
                                      f'longer express (last good translation kept): {sorted(pykern.LAST_STALE)[:8]}')
            except Exception as e:
                self.broken_obligation(f'kernel translator: {type(e).__name__}: {e}')
        targets = ['aeic_driver']
        if (LEAN_DIR / 'AeicProofs' / 'Properties' / f'{self.pid}.lean').exists():
            targets.append(f'AeicProofs.Properties.{self.pid}')
        ok, out = lake_build(targets)
        if not ok:
            errs = [ln for ln in out.split('\n') if 'error' in ln.lower()][:20]
            self.broken_obligation('lake build failed: ' + ' | '.join(errs))
        bad = source_audit()
        for b in bad:
            self.broken_obligation('forbidden construct: ' + b)
        names = property_theorems(self.pid)
        self.obligations = names
        if ok:
            ax = axiom_audit(self.pid)
            if any(ax.get(n) is None for n in names):
                # a concurrent build of the same package can make the audit read half-written files: rebuild and retry once
                time.sleep(2.0)
                ok2, _ = lake_build(targets)
                if ok2:
                    ax = axiom_audit(self.pid)
            for n in names:
                a = ax.get(n)
                if a is None:
                    self.broken_obligation(f'theorem {n} not found after build')
                elif not set(a) <= ALLOWED_AXIOMS:
                    self.broken_obligation(f'theorem {n} uses axioms {sorted(set(a) - ALLOWED_AXIOMS)}')
                else:
                    self.discharged.append(n)
            if self.tier == 'thorough' and os.environ.get('VERIF_NO_LEANCHECKER') != '1':
                mods = [f'AeicProofs.Properties.{self.pid}']
                r = _run(['lake', 'env', 'leanchecker', *mods], cwd=LEAN_DIR, timeout=3000)
                self.extra['leanchecker'] = {'modules': mods, 'exit': r.returncode}
                if r.returncode != 0:
                    self.broken_obligation('leanchecker rejected ' + ' '.join(mods) + ': ' + (r.stdout + r.stderr)[-300:])
        return ok

    # ---- finish
    def write_replay(self, tag: str, payload: dict) -> Path:
        REPLAY_DIR.mkdir(exist_ok=True)
        p = REPLAY_DIR / f'{self.pid}-{self.tier}-seed{self.seed}-{tag}.json'
        payload = dict(payload, property=self.pid, seed=self.seed, tier=self.tier)
        p.write_text(json.dumps(payload, indent=1, default=str))
        return p

    def finish(self, rule: str, trusted_base: list[str], assumptions: list[str], checker_cmd: str | None = None) -> int:
        lines = []
        code = 0
        for fid, hits in self.known_hits.items():
            f = self.open_findings[fid]
            lines.append(f"KNOWN-FINDING: property={self.pid} {fid}: {f.get('what', '')} ({len(hits)} case(s) this run)")
        if self.violations:
            v = self.violations[0]
            p = self.write_replay('violation', {'kind': 'clause-failure', 'first': v, 'count': len(self.violations),
                                                'others': self.violations[1:10]})
            lines.append(f'VIOLATION property={self.pid} replay={p}')
            code = 1
        elif self.divergences or self.broken:
            p = self.write_replay('unproved', {
                'kind': 'proof-or-correspondence-broken',
                'broken_obligations': self.broken,
                'divergences': self.divergences[:10],
                'divergence_count': len(self.divergences),
                'note': 'no clause of the property was observed to fail on the implementation for any explored input',
            })
            lines.append(f'VIOLATION property={self.pid} replay={p} no-failing-input-found')
            code = 1
        wall = time.time() - self.t0
        n_ob = len(self.obligations)
        cov = {
            'obligations': max(n_ob, 0),
            'discharged': len(self.discharged),
            'checker_cmd': checker_cmd or f'cd lean && lake build && lake env lean <#print axioms of Properties/{self.pid}.lean>',
            'trusted_base': trusted_base,
            'theorems': self.discharged,
            'undischarged': [o for o in self.obligations if o not in self.discharged],
            'evaluations': self.evaluations,
            'distinct_nontrivial': len(self.nontrivial),
            'rule': rule,
            'samples': self.samples or ['<none>'],
            'traces_validated_against_impl': self.evaluations,
            'branch_histogram': self.hist,
            'tie_suspects': self.tie_suspects,
            'divergences': len(self.divergences),
            'known_findings_hit': {k: len(v) for k, v in self.known_hits.items()},
            'broken_obligations': self.broken,
            'notes': self.notes,
            'exhaustive': bool(self.extra.get('exhaustive', False)),
        }
        cov.update({k: v for k, v in self.extra.items() if k != 'exhaustive'})
        ev = {
            'property_id': self.pid,
            'tier': self.tier,
            'seed': self.seed,
            'level': 'proof',
            'coverage': cov,
            'assumptions': assumptions,
            'wall_s': round(wall, 2),
            'violations': len(self.violations) + (1 if (code == 1 and not self.violations) else 0),
        }
        EVIDENCE_DIR.mkdir(exist_ok=True)
        (EVIDENCE_DIR / f'{self.pid}.json').write_text(json.dumps(ev, indent=1, default=str))
        for ln in lines:
            print(ln)
        print(f'[{self.pid}] tier={self.tier} seed={self.seed} obligations={n_ob} discharged={len(self.discharged)} '
              f'evaluations={self.evaluations} nontrivial={len(self.nontrivial)} divergences={len(self.divergences)} '
              f'violations={len(self.violations)} known={sum(len(v) for v in self.known_hits.values())} wall={wall:.1f}s exit={code}')
        sys.stdout.flush()
        return code
