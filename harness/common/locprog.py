"""Translator for the merged-store lookup arithmetic of `TrajectoryStore._load_trajectory` (C09): `trajectories/store.py` ->
`lean/AeicModel/Generated/Locate.lean` (generic definition and its theorems: `AeicModel/Locate.lean`, `Properties/C09.lean`).

AST only. In `_load_trajectory` the block guarded by `… .size_index is not None` is read:

    file_index  = bisect.bisect_left | bisect_right (<size index>, index + c)      -> which bisect, the needle offset c
    if file_index >= len(<size index>): return                                      -> the out-of-range guard (must be there)
    group_index = index + a - <size index>[file_index + s]                          -> the local offsets a and s

and in `_open_merged_store` the expression `size_index=` is built from: it must be `list(itertools.accumulate(<lengths>))` without
an initial value (cumulative counts). Anything else raises `LocateTranslationError` (a broken obligation for C09).
"""
from __future__ import annotations

import ast

from . import LEAN_DIR, REPO

OUT = LEAN_DIR / 'AeicModel' / 'Generated' / 'Locate.lean'


class LocateTranslationError(Exception):
    pass


def affine(e: ast.AST, var: str):
    """(coefficient of var, constant, other terms as source text) of an integer expression built with + and -"""
    if isinstance(e, ast.Name) and e.id == var:
        return 1, 0, []
    if isinstance(e, ast.Constant) and isinstance(e.value, int) and not isinstance(e.value, bool):
        return 0, e.value, []
    if isinstance(e, ast.UnaryOp) and isinstance(e.op, ast.USub):
        k, c, o = affine(e.operand, var)
        return -k, -c, [('-' + t if not t.startswith('-') else t[1:]) for t in o]
    if isinstance(e, ast.BinOp) and isinstance(e.op, (ast.Add, ast.Sub)):
        k1, c1, o1 = affine(e.left, var)
        k2, c2, o2 = affine(e.right, var)
        if isinstance(e.op, ast.Sub):
            k2, c2, o2 = -k2, -c2, [('-' + t if not t.startswith('-') else t[1:]) for t in o2]
        return k1 + k2, c1 + c2, o1 + o2
    return 0, 0, [ast.unparse(e)]


def translate() -> tuple[str, dict]:
    src = (REPO / 'src' / 'AEIC' / 'trajectories' / 'store.py').read_text()
    tree = ast.parse(src)
    cls = next((n for n in tree.body if isinstance(n, ast.ClassDef) and n.name == 'TrajectoryStore'), None)
    if cls is None:
        raise LocateTranslationError('class TrajectoryStore not found')
    methods = {b.name: b for b in cls.body if isinstance(b, ast.FunctionDef)}
    fn = methods.get('_load_trajectory')
    if fn is None:
        raise LocateTranslationError('TrajectoryStore._load_trajectory not found')
    idx_param = fn.args.args[1].arg
    blk = next((st for st in ast.walk(fn) if isinstance(st, ast.If) and 'size_index' in ast.unparse(st.test)
                and 'None' in ast.unparse(st.test)), None)
    if blk is None:
        raise LocateTranslationError('_load_trajectory: no block guarded by `size_index is not None`')
    P: dict = {}
    file_var = group_var = None
    for st in blk.body:
        if isinstance(st, ast.Assign) and len(st.targets) == 1 and isinstance(st.targets[0], ast.Name):
            name, v = st.targets[0].id, st.value
            if isinstance(v, ast.Call) and ast.unparse(v.func).split('.')[-1] in ('bisect_left', 'bisect_right', 'bisect'):
                fname = ast.unparse(v.func).split('.')[-1]
                if len(v.args) != 2 or v.keywords or 'size_index' not in ast.unparse(v.args[0]):
                    raise LocateTranslationError(f'line {st.lineno}: bisect call in an unexpected form')
                k, c, o = affine(v.args[1], idx_param)
                if k != 1 or o:
                    raise LocateTranslationError(f'line {st.lineno}: the needle `{ast.unparse(v.args[1])}` is not `{idx_param} + c`')
                P['left'] = fname == 'bisect_left'
                P['needle'] = c
                P['line_bisect'] = st.lineno
                file_var = name
            elif file_var is not None and 'size_index' in ast.unparse(v):
                k, c, o = affine(v, idx_param)
                if k != 1 or len(o) != 1 or not o[0].startswith('-'):
                    raise LocateTranslationError(f'line {st.lineno}: the local index `{ast.unparse(v)}` is not `{idx_param} + a - size_index[file + s]`')
                sub = ast.parse(o[0][1:], mode='eval').body
                if not (isinstance(sub, ast.Subscript) and 'size_index' in ast.unparse(sub.value)):
                    raise LocateTranslationError(f'line {st.lineno}: `{o[0]}` is not an entry of the size index')
                ks, cs, os_ = affine(sub.slice, file_var)
                if ks != 1 or os_:
                    raise LocateTranslationError(f'line {st.lineno}: the size-index entry `{ast.unparse(sub.slice)}` is not `{file_var} + s`')
                P['local'] = c
                P['shift'] = cs
                P['line_local'] = st.lineno
                group_var = name
        elif isinstance(st, ast.If) and file_var is not None and any(isinstance(x, ast.Return) for x in st.body):
            t = st.test
            if isinstance(t, ast.Compare) and len(t.ops) == 1 and ast.unparse(t.left) == file_var \
                    and ast.unparse(t.comparators[0]).startswith('len(') and 'size_index' in ast.unparse(t.comparators[0]):
                P['guard'] = {ast.GtE: 'ge', ast.Gt: 'gt', ast.Eq: 'eq'}.get(type(t.ops[0]))
            if P.get('guard') is None:
                raise LocateTranslationError(f'line {st.lineno}: out-of-range guard `{ast.unparse(t)}` in an unexpected form')
    for k in ('left', 'needle', 'local', 'shift', 'guard'):
        if k not in P:
            raise LocateTranslationError(f'_load_trajectory: could not read `{k}` of the merged lookup')
    # how the size index is built
    om = methods.get('_open_merged_store')
    kw = None
    if om is not None:
        for c in ast.walk(om):
            if isinstance(c, ast.Call):
                for k in c.keywords:
                    if k.arg == 'size_index':
                        kw = k.value
    if kw is None:
        raise LocateTranslationError('_open_merged_store: no `size_index=` argument found')
    txt = ast.unparse(kw)
    ok = (isinstance(kw, ast.Call) and ast.unparse(kw.func) == 'list' and len(kw.args) == 1 and isinstance(kw.args[0], ast.Call)
          and ast.unparse(kw.args[0].func).endswith('accumulate') and len(kw.args[0].args) == 1 and not kw.args[0].keywords
          and 'len(' in ast.unparse(kw.args[0].args[0]))
    if not ok:
        raise LocateTranslationError(f'_open_merged_store: size_index is built as `{txt}`, not as the cumulative counts')
    P['vars'] = (idx_param, file_var, group_var)
    b = lambda x: 'true' if x else 'false'  # noqa: E731
    text = ('/- GENERATED by harness/common/locprog.py from /repo\'s working tree (trajectories/store.py: the merged-store lookup of\n'
            '   `TrajectoryStore._load_trajectory`, the size index of `_open_merged_store`) on every check run. Do not edit. -/\n'
            'namespace Aeic.Gen\n\n'
            f'/-- `bisect_left` (true) or `bisect_right` (false) -/\ndef locBisectLeft : Bool := {b(P["left"])}\n'
            f'/-- the needle is `index + locNeedle` -/\ndef locNeedle : Int := {P["needle"]}\n'
            f'/-- the lookup gives up when `file_index >= len(size_index)` -/\ndef locGuardGe : Bool := {b(P["guard"] == "ge")}\n'
            f'/-- the local index is `index + locLocal - size_index[file_index + locShift]` -/\ndef locLocal : Int := {P["local"]}\n'
            f'def locShift : Int := {P["shift"]}\n'
            '/-- the size index is `list(itertools.accumulate(lengths))` -/\ndef locSizeIndexCumulative : Bool := true\n\nend Aeic.Gen\n')
    return text, P


def regenerate() -> dict:
    text, P = translate()
    OUT.parent.mkdir(parents=True, exist_ok=True)
    if not OUT.exists() or OUT.read_text() != text:
        OUT.write_text(text)
    return P
