"""Translator for the merged-store lookup arithmetic of `TrajectoryStore._load_trajectory` (C09): `trajectories/store.py` ->
`lean/AeicModel/Generated/Locate.lean` (generic definition and its theorems: `AeicModel/Locate.lean`, `Properties/C09.lean`).

AST only. In `_load_trajectory` the block guarded by `… .size_index is not None` is read:

    file_index  = bisect.bisect_left | bisect_right (<size index>, index + c)      -> which bisect, the needle offset c
    if file_index >= len(<size index>): return                                      -> the out-of-range guard (must be there)
    group_index = index + a - <size index>[file_index + s]                          -> the local offsets a and s

The three statements may sit in `_load_trajectory` itself or in a helper of the class it calls (two levels); the guard may be written
`>=` or `==` (a bisect never exceeds the length); the local index may be assigned or returned. Whether `_open_merged_store` builds
the size index as `list(itertools.accumulate(<lengths>))` is recorded as information only: that the size index holds the cumulative
trajectory counts is validated on real merged stores (c09.trace_locate). A lookup the parameters cannot describe raises
`LocateTranslationError` (a broken obligation for C09).
"""
from __future__ import annotations

import ast

from . import LEAN_DIR, REPO

OUT = LEAN_DIR / 'AeicModel' / 'Generated' / 'Locate.lean'


class LocateTranslationError(Exception):
    pass


def affine(e: ast.AST, var: str):
    """(coefficient of var, constant, other terms as source text) of an integer expression built with + and -"""
    if isinstance(e, ast.Name) and e.id == var:
        return 1, 0, []
    if isinstance(e, ast.Constant) and isinstance(e.value, int) and not isinstance(e.value, bool):
        return 0, e.value, []
    if isinstance(e, ast.UnaryOp) and isinstance(e.op, ast.USub):
        k, c, o = affine(e.operand, var)
        return -k, -c, [('-' + t if not t.startswith('-') else t[1:]) for t in o]
    if isinstance(e, ast.BinOp) and isinstance(e.op, (ast.Add, ast.Sub)):
        k1, c1, o1 = affine(e.left, var)
        k2, c2, o2 = affine(e.right, var)
        if isinstance(e.op, ast.Sub):
            k2, c2, o2 = -k2, -c2, [('-' + t if not t.startswith('-') else t[1:]) for t in o2]
        return k1 + k2, c1 + c2, o1 + o2
    return 0, 0, [ast.unparse(e)]


def translate() -> tuple[str, dict]:
    src = (REPO / 'src' / 'AEIC' / 'trajectories' / 'store.py').read_text()
    tree = ast.parse(src)
    cls = next((n for n in tree.body if isinstance(n, ast.ClassDef) and n.name == 'TrajectoryStore'), None)
    if cls is None:
        raise LocateTranslationError('class TrajectoryStore not found')
    methods = {b.name: b for b in cls.body if isinstance(b, ast.FunctionDef)}
    fn = methods.get('_load_trajectory')
    if fn is None:
        raise LocateTranslationError('TrajectoryStore._load_trajectory not found')
    # the function that holds the bisect: `_load_trajectory` itself, or a helper of the class it calls (two levels)
    def helpers_of(f, depth=0):
        out = [f]
        if depth < 2:
            for c in ast.walk(f):
                if isinstance(c, ast.Call) and isinstance(c.func, ast.Attribute) and isinstance(c.func.value, ast.Name) \
                        and c.func.value.id in ('self', 'TrajectoryStore', 'cls') and c.func.attr in methods and methods[c.func.attr] is not f:
                    out += helpers_of(methods[c.func.attr], depth + 1)
        return out

    P: dict = {}
    host = bis = None
    for f in helpers_of(fn):
        for st in ast.walk(f):
            if isinstance(st, ast.Assign) and len(st.targets) == 1 and isinstance(st.targets[0], ast.Name) and isinstance(st.value, ast.Call) \
                    and ast.unparse(st.value.func).split('.')[-1] in ('bisect_left', 'bisect_right') and len(st.value.args) == 2 \
                    and 'size_index' in ast.unparse(st.value.args[0]):
                host, bis = f, st
                break
        if bis is not None:
            break
    if bis is None:
        raise LocateTranslationError('_load_trajectory: no `file = bisect_…(<size index>, index + c)` in it or in the helpers it calls')
    sz = ast.unparse(bis.value.args[0])
    file_var = bis.targets[0].id
    params = [a.arg for a in host.args.args]
    idx_param = next((p for p in params if p != 'self' and any(isinstance(x, ast.Name) and x.id == p for x in ast.walk(bis.value.args[1]))), None)
    if idx_param is None:
        raise LocateTranslationError(f'line {bis.lineno}: the needle `{ast.unparse(bis.value.args[1])}` does not mention a parameter')
    k, c, o = affine(bis.value.args[1], idx_param)
    if k != 1 or o:
        raise LocateTranslationError(f'line {bis.lineno}: the needle `{ast.unparse(bis.value.args[1])}` is not `{idx_param} + c`')
    P['left'] = ast.unparse(bis.value.func).split('.')[-1] == 'bisect_left'
    P['needle'] = c
    P['line_bisect'] = bis.lineno
    # the out-of-range guard: the file position compared with the length of the size index (>= or ==: a bisect never exceeds it)
    for x in ast.walk(host):
        if isinstance(x, ast.Compare) and len(x.ops) == 1 and getattr(x, 'lineno', 0) > bis.lineno:
            l, r = ast.unparse(x.left).replace(' ', ''), ast.unparse(x.comparators[0]).replace(' ', '')
            if {l, r} == {file_var, f'len({sz})'.replace(' ', '')} and isinstance(x.ops[0], (ast.GtE, ast.Eq, ast.Lt, ast.NotEq)):
                P['guard'] = 'ge'
    # the local index: `index + a - <size index>[file + s]`, assigned or returned (alone or inside a tuple)
    group_var = None
    for x in ast.walk(host):
        if isinstance(x, ast.BinOp) and isinstance(x.op, ast.Sub) and getattr(x, 'lineno', 0) > bis.lineno and sz in ast.unparse(x):
            try:
                k2, c2, o2 = affine(x, idx_param)
            except Exception:  # noqa: BLE001
                continue
            if k2 == 1 and len(o2) == 1 and o2[0].startswith('-'):
                sub = ast.parse(o2[0][1:], mode='eval').body
                if isinstance(sub, ast.Subscript) and ast.unparse(sub.value) == sz:
                    ks, cs, os_ = affine(sub.slice, file_var)
                    if ks == 1 and not os_:
                        P['local'], P['shift'], P['line_local'] = c2, cs, x.lineno
                        break
    for st in ast.walk(host):
        if isinstance(st, ast.Assign) and isinstance(st.targets[0], ast.Name) and getattr(st, 'lineno', 0) == P.get('line_local'):
            group_var = st.targets[0].id
    for key in ('left', 'needle', 'local', 'shift', 'guard'):
        if key not in P:
            raise LocateTranslationError(f'_load_trajectory: could not read `{key}` of the merged lookup')
    # how the size index is built (informational: that it holds the cumulative trajectory counts is validated on real merged stores)
    om = methods.get('_open_merged_store')
    kw = None
    if om is not None:
        for c_ in ast.walk(om):
            if isinstance(c_, ast.Call):
                for k_ in c_.keywords:
                    if k_.arg == 'size_index':
                        kw = k_.value
    P['size_index_recognised'] = bool(
        kw is not None and isinstance(kw, ast.Call) and ast.unparse(kw.func) == 'list' and len(kw.args) == 1 and isinstance(kw.args[0], ast.Call)
        and ast.unparse(kw.args[0].func).endswith('accumulate') and len(kw.args[0].args) == 1 and not kw.args[0].keywords)
    P['host'] = host.name
    P['size_expr'] = sz
    P['vars'] = (idx_param, file_var, group_var)
    b = lambda x: 'true' if x else 'false'  # noqa: E731
    text = ('/- GENERATED by harness/common/locprog.py from /repo\'s working tree (trajectories/store.py: the merged-store lookup of\n'
            '   `TrajectoryStore._load_trajectory`, the size index of `_open_merged_store`) on every check run. Do not edit. -/\n'
            'namespace Aeic.Gen\n\n'
            f'/-- `bisect_left` (true) or `bisect_right` (false) -/\ndef locBisectLeft : Bool := {b(P["left"])}\n'
            f'/-- the needle is `index + locNeedle` -/\ndef locNeedle : Int := {P["needle"]}\n'
            f'/-- the lookup gives up when `file_index >= len(size_index)` -/\ndef locGuardGe : Bool := {b(P["guard"] == "ge")}\n'
            f'/-- the local index is `index + locLocal - size_index[file_index + locShift]` -/\ndef locLocal : Int := {P["local"]}\n'
            f'def locShift : Int := {P["shift"]}\n'
            '/-- (informational) the size index is built as `list(itertools.accumulate(lengths))` -/\n'
            f'def locSizeIndexFormRecognised : Bool := {b(P["size_index_recognised"])}\n\nend Aeic.Gen\n')
    return text, P


def regenerate() -> dict:
    text, P = translate()
    OUT.parent.mkdir(parents=True, exist_ok=True)
    if not OUT.exists() or OUT.read_text() != text:
        OUT.write_text(text)
    return P
