"""C08 — lookup by flight identifier returns exactly the matching trajectory."""
from __future__ import annotations

import json

from harness.common import aeic_setup
from harness.c09 import flights
from harness.merge_impl import build_inputs, do_merge, gen_stores, model_files
from harness.store_check import OP_CLASS, check_histories, load_corpus
from harness.store_impl import fresh_dir, gen_history, rm_dir, run_impl, short_sequences

RULE = ('(0) ALL sequences of k ops (quick k=4 over 5 ops, thorough k=5 over 5 ops) after create+add+add; (a) store histories as in C07 restricted to identified stores (distinct ids in random order, negative ids, '
        'lookups immediately after adds, before any sync, in append sessions, after reopening, in in-memory stores before and after save, of ids never '
        'added), get_flight outputs compared with the Lean model and the dictionary specification; (b) merges of 1..5 identified '
        'stores of 1..4 trajectories, every id and two absent ids looked up in the merged store (cache 1/64 MB), compared with '
        'mergedGetFlight and the dictionary; non-trivial = the history contains a lookup after an add in the same session or '
        'k >= 2; distinct = distinct op sequences / layouts')
TRUSTED = ['Lean 4.33 kernel', 'axioms: propext, Classical.choice, Quot.sound (audited per theorem each run)',
           'correspondence harness harness/c08.py + store_check.py + merge_impl.py', 'netCDF4 index group abstracted as a list of (id, index) pairs']
ASSUME = ['identifiers are distinct within a store (as the property states)', 'payload contents are opaque (C03)']


def nontrivial(ops, outs):
    seen_add = False
    for o in ops:
        if o['op'] in ('open_read', 'open_append', 'create'):
            seen_add = False
        if o['op'] == 'add':
            seen_add = True
        if o['op'] == 'get_flight' and seen_add:
            return True
    return False


def merged_lookups(ctx, n):
    for _ in range(n):
        k = int(ctx.rng.integers(1, 6))
        stores = gen_stores(ctx.rng, k, True)
        cache = int(ctx.rng.choice([1, 64]))
        d = fresh_dir()
        try:
            tags = build_inputs(d, stores)
            names = [s['name'] for s in stores]
            res = do_merge(d, 'm.aeic-store', names)
            ids = [a['fid'] for s in stores for a in s['adds']]
            probe = ids + [-77, 100000] + [i + 1 for i in ids if abs(i) > 2 ** 52 and i + 1 not in ids][:3]   # (absent neighbours of big ids)
            order = list(ctx.rng.permutation(len(probe)))
            probe = [probe[i] for i in order]
            case = {'stores': stores, 'cache_mb': cache, 'probe': probe}
            ctx.case(json.dumps({'layout': [[a['fid'] for a in s['adds']] for s in stores], 'cache': cache}), nontrivial=k >= 2,
                     sample={'ids': [[a['fid'] for a in s['adds']] for s in stores], 'cache_mb': cache})
            ctx.count('merged:k=%d' % k)
            if res != 'ok':
                ctx.clause_fail('merged_lookup_is_dictionary', {**case, 'merge': res}, detail='merge of identified stores failed')
                continue
            by_id = {a['fid']: f"t{a['tag']}" for s in stores for a in s['adds']}
            want = [by_id.get(i, 'none') for i in probe]
            got = flights(d / 'm.aeic-store', probe, tags, cache_mb=cache)
            if got != want:
                ctx.clause_fail('merged_lookup_is_dictionary', {**case, 'impl': got, 'expected': want},
                                detail='get_flight on the merged store differs from the dictionary of added (id, trajectory) pairs')
                continue
            mr = ctx.driver.outs([{'op': 'merge.read', 'files': [f['items'] for f in model_files(stores)], 'gets': [],
                                   'flights': probe}])[0]
            if mr['flights'] != got:
                ctx.diverge('merged get_flight: model vs implementation', {**case, 'impl': got, 'model': mr['flights']})
        finally:
            rm_dir(d)


def trace_get_flight(ctx, n_stores: int):
    """Validates what `harness/common/fidprog.py` read from `get_flight` / `_reindex` against the running code: real identified
    stores (identifiers in random order, with repetitions) are queried for present, absent, smaller-than-all and larger-than-all
    identifiers; the frame of `get_flight` is observed at its return: the position it computed must be the extracted bisect of the
    table it read, the answer must follow the two guards, and the table must be the (identifier, store index) pairs sorted by
    identifier with equal identifiers in store order (stable)."""
    import bisect
    import sys

    from harness.common import fidprog
    from harness.store_impl import RealStore, fresh_dir, rm_dir

    sm = ctx.extra.setdefault('flight_lookup_trace', {'lookups': 0, 'mismatches': 0})
    try:
        P = fidprog.translate()[1]
    except Exception:  # noqa: BLE001  (reported by ctx.proofs())
        return sm
    from AEIC.trajectories import TrajectoryStore

    code = getattr(TrajectoryStore.get_flight, '__wrapped__', TrajectoryStore.get_flight).__code__
    idp, ivar, ids_var = P['vars']
    rng = ctx.rng
    for k in range(n_stores):
        d = fresh_dir()
        try:
            rs = RealStore(d, 's.nc')
            rs.do(dict(op='create', file=True, cache_mb=50))
            n = int(rng.integers(1, 9))
            pool = [int(x) for x in rng.integers(-50, 50, size=n)]
            if n > 2 and rng.random() < 0.5:
                pool[-1] = pool[0]                       # a repeated identifier: the FIRST one added is the answer
            for j, fid in enumerate(pool):
                rs.do(dict(op='add', tag=j, npts=5, fid=fid))
            if k % 2:
                rs.do(dict(op='close'))
                rs.do(dict(op='open_read', cache_mb=50))
            obs = []

            def local(frame, event, arg):
                if event == 'return':
                    loc = frame.f_locals
                    if ids_var in loc:
                        tid = next((v for kk, v in loc.items() if kk not in (ids_var, 'self') and hasattr(v, '__len__')
                                    and not isinstance(v, (str, bytes)) and len(v) == len(loc[ids_var])), None)
                        obs.append((loc.get(idp), loc.get(ivar), [int(x) for x in loc[ids_var]],
                                    None if tid is None else [int(x) for x in tid], arg))
                return local

            old = sys.gettrace()
            sys.settrace(lambda fr, ev, a: local if (ev == 'call' and fr.f_code is code) else None)
            try:
                for q in sorted(set(pool)) + [min(pool) - 3, max(pool) + 3, min(pool) + 1 if (min(pool) + 1) not in pool else max(pool) + 7]:
                    try:
                        rs.ts.get_flight(q)
                    except Exception:  # noqa: BLE001
                        pass
            finally:
                sys.settrace(old)
            rs.close()
            for q, pos, ids, tix, ans in obs:
                sm['lookups'] += 1
                ctx.evaluations += 1
                want = (bisect.bisect_left if P['left'] else bisect.bisect_right)(ids, q)
                found = want < len(ids) and ids[want] == q
                problems = []
                if pos != want:
                    problems.append(f'position {pos}, the extracted bisect gives {want}')
                if (ans is None) != (not found) and P['guard_len'] and P['guard_eq']:
                    problems.append(f'answer {"None" if ans is None else "a trajectory"} although the identifier is {"" if found else "not "}in the table')
                if ids != sorted(ids):
                    problems.append('the identifier column is not sorted')
                if tix is not None:
                    exp = [i for i, _ in sorted(enumerate(pool), key=lambda x: x[1])]
                    if tix != exp:
                        problems.append(f'trajectory indexes {tix}, the stable sort of the identifiers in store order gives {exp}')
                if problems:
                    sm['mismatches'] += 1
                    if sm['mismatches'] <= 3:
                        ctx.diverge('flight lookup parameters read from the source vs TrajectoryStore.get_flight',
                                    {'identifiers_in_store_order': pool, 'query': q, 'table_ids': ids, 'table_indexes': tix,
                                     'parameters': {kk: P[kk] for kk in ('left', 'guard_len', 'guard_eq', 'shift')}}, '; '.join(problems))
        except Exception as e:  # noqa: BLE001
            ctx.diverge('flight lookup scenario', {'store': k}, f'{type(e).__name__}: {e}')
        finally:
            rm_dir(d)
    return sm


def main(ctx):
    ctx.proofs()
    aeic_setup()
    hs = load_corpus('C08')
    ctx.extra['corpus_cases'] = len(hs)
    hs += [gen_history(ctx.rng, 22, indexable=True, invalid_rate=0.01, mem_rate=0.2) for _ in range(ctx.scale(quick=90, thorough=3500))]
    # every sequence of k ops over {add, lookup latest, lookup oldest, sync, reopen-append[, lookup absent, reopen-read]}
    if ctx.tier == 'quick':
        ex = short_sequences('ALOSP', 4, True) + short_sequences('ALOSVP', 4, True, mem=True)
    else:
        ex = short_sequences('ALOSP', 5, True) + short_sequences('ALOSVP', 5, True, mem=True)
    # "a store must be either fully identified or not at all": adds with the wrong identification status at every position, also
    # as the first add of an append session (when nothing has been read yet), in identified and unidentified stores
    ex += short_sequences('AWLP', 4, True) + short_sequences('AWGP', 3, False)
    ctx.extra['exhaustive_short_sequences'] = len(ex)
    hs += ex
    check_histories(ctx, hs, OP_CLASS['C08'], 'get_flight_refines_dict', nontrivial, tag=' (C08)')
    merged_lookups(ctx, ctx.scale(quick=25, thorough=600))
    trace_get_flight(ctx, ctx.scale(quick=16, thorough=300))
    return ctx.finish(RULE, TRUSTED, ASSUME)


def replay(ctx, path):
    aeic_setup()
    j = json.loads(open(path).read())
    case = j.get('first', j).get('case', j)
    if 'ops' in case:
        outs, _ = run_impl(case['ops'], with_keys=False)
        for o, r, s in zip(case['ops'], outs, case.get('spec_outs', [''] * len(outs))):
            print(o, '->', r, '' if r == s or not s else f'   <-- specification: {s}')
    return 0
