"""C10 — rejected or interrupted store operations lose and corrupt nothing."""
from __future__ import annotations

import gc
import json
import os

from harness.common import aeic_setup
from harness.merge_impl import (FaultInjector, build_inputs, canon_model_fs, do_merge, gen_stores, listing, model_files,
                                read_all)
from harness.store_check import OP_CLASS, check_histories, load_corpus
from harness.store_impl import fresh_dir, gen_history, rm_dir

RULE = ('(a) store histories as in C07 but with an invalid trajectory (missing required value / other field sets / a species outside the file species dimension / inconsistent '
        'identifier use / too large) injected at every position of the add sequence in turn, compared with the Lean model and '
        'the list specification on every later operation incl. close and reopen; (b) merges of 1..4 stores refused for every '
        'validation rule, then retried after correcting the cause; (c) an exception injected at every file-system step of a '
        'merge (mkdir, each rename, index file before/after creation, metadata before/after creation), followed by directory '
        'listing, reopening every input and a retry; (d) the process killed (os._exit in a forked child) at every step, followed '
        'by listing and reopening every store from the place the model predicts; non-trivial = a rejection or fault actually '
        'occurred; distinct = distinct histories / (layout, fault point) pairs')
TRUSTED = ['Lean 4.33 kernel', 'axioms: propext, Classical.choice, Quot.sound (audited per theorem each run)',
           'correspondence harness harness/c10.py + store_check.py + merge_impl.py',
           'POSIX rename atomicity and netCDF durability are assumptions of the FS model',
           'faults are exhibited at call boundaries of os.mkdir/os.rename/index creation/json.dump, not inside HDF5']
ASSUME = ['a fault is a single exception (or kill) at one step; clean-up steps themselves do not fail',
          'inputs of one merge have distinct file names']


def inject_invalid(rng, ops):
    """All variants of a history with one extra invalid add inserted at each position after the create."""
    out = []
    kinds = ['missing_required', 'fs', 'id', 'too_large']
    first = ops[0]
    extra = any(o.get('extra') for o in ops if o['op'] == 'add')
    indexable = any(o.get('fid') is not None for o in ops if o['op'] == 'add')
    positions = list(range(1, len(ops) + 1))
    for pos in positions:
        kind = kinds[int(rng.integers(0, len(kinds)))]
        bad = {'op': 'add', 'tag': 900 + pos, 'npts': 40, 'extra': extra, 'fid': (7000 + pos) if indexable else None}
        if kind == 'missing_required':
            bad['bad'] = 'missing_required'
        elif kind == 'species':
            bad['bad'] = 'species'
        elif kind == 'fs':
            bad['extra'] = not extra
        elif kind == 'id':
            bad['fid'] = None if indexable else 7000 + pos
        else:
            bad['npts'] = 9400 if first.get('cache_mb', 1) == 1 else 40
            if bad['npts'] == 40:
                bad['bad'] = 'missing_required'
        out.append(ops[:pos] + [bad] + ops[pos:])
    return out


def nontrivial_hist(ops, outs):
    return any(r.startswith('err:value_error') or r.startswith('err:eviction') for r in outs)


def merge_fault_cases(ctx, rng, n_layouts: int, kill: bool):
    """Every fault point (or kill point) of a merge for n_layouts random layouts."""
    for _ in range(n_layouts):
        k = int(rng.integers(1, 5))
        indexed = bool(rng.random() < 0.5)
        stores = gen_stores(rng, k, indexed, max_n=3)
        names = [s['name'] for s in stores]
        mfiles = model_files(stores)
        nsteps = ctx.driver.outs([{'op': 'merge.merge', 'top': mfiles, 'inputs': names}])[0]['steps']
        points = list(range(nsteps + 1)) if not kill else list(range(nsteps + 1))
        for n in points:
            variants = [False]
            if not kill and n >= 1 + k:  # index / metadata steps: also fail after the file was created
                variants.append(True)
            for after in variants:
                # the interruption is an OSError, or (every third point, rotating) a Ctrl-C / SystemExit: an interrupted
                # merge is interrupted whatever the exception class (seed C10_4)
                exc = 'os' if kill else ['os', 'kbd', 'exit'][(n + k + int(after)) % 3]
                one_fault(ctx, stores, names, mfiles, n, kill, after, nsteps, exc)
                if not kill and exc == 'os' and n % 2 == 0:
                    one_fault(ctx, stores, names, mfiles, n, kill, after, nsteps, 'kbd')


def one_fault(ctx, stores, names, mfiles, n, kill, after, nsteps, exc='os'):
    d = fresh_dir()
    out_name = 'merged.aeic-store'
    case = {'stores': stores, 'step': n, 'kill': kill, 'after': after, 'exc': exc}
    try:
        tags = build_inputs(d, stores)
        concat_by_store = {s['name']: [f"t{a['tag']}" for a in s['adds']] for s in stores}
        if kill:
            pid = os.fork()
            if pid == 0:  # child: run the merge and die at step n
                try:
                    do_merge(d, out_name, names, fault=FaultInjector(n, kill=True))
                finally:
                    os._exit(0)
            _, status = os.waitpid(pid, 0)
            res = 'killed' if os.WEXITSTATUS(status) == 17 else 'ok'
            m = ctx.driver.outs([{'op': 'merge.merge', 'top': mfiles, 'inputs': names, 'crash': n}])[0]
            if res == 'ok':
                m = ctx.driver.outs([{'op': 'merge.merge', 'top': mfiles, 'inputs': names}])[0]
        else:
            inj = FaultInjector(n, after=after, exc=exc)
            res = do_merge(d, out_name, names, fault=inj)
            m = ctx.driver.outs([{'op': 'merge.merge', 'top': mfiles, 'inputs': names, 'fault': n}])[0]
        after_ls = listing(d, out_name)
        key = json.dumps({'layout': [[a['npts'] for a in s['adds']] for s in stores], 'idx': stores[0]['indexed'],
                          'step': n, 'kill': kill, 'after': after, 'exc': exc})
        ctx.count('interruption:' + exc)
        ctx.case(key, nontrivial=res in ('fault', 'killed'),
                 sample={'sizes': [len(s['adds']) for s in stores], 'step': n, 'of': nsteps, 'kill': kill, 'result': res,
                         'listing': after_ls})
        ctx.count(('kill:' if kill else 'fault:') + res)
        # ---- clauses on the implementation
        # (1) every input store readable from exactly one place
        for s in stores:
            here = (d / s['name']).exists()
            there = (d / out_name / s['name']).exists()
            if here == there:
                ctx.clause_fail('nothing_lost', {**case, 'listing': after_ls},
                                detail=f"input {s['name']} is in {'both places' if here else 'neither place'} after {res}")
                return
            got = read_all(d / s['name'] if here else d / out_name / s['name'], tags)
            if got != concat_by_store[s['name']]:
                ctx.clause_fail('nothing_lost', {**case, 'listing': after_ls, 'read': got},
                                detail=f"input {s['name']} not readable / changed after {res}")
                return
        # (2) a directory that announces itself complete contains all parts. A metadata file that exists but cannot be
        #     parsed (the process died between creating and writing it) announces nothing: opening must be refused.
        if after_ls['out'] is not None and after_ls['out']['metadata'] == 'unreadable':
            r = read_all(d / out_name, tags)
            if not (isinstance(r, str) and r.startswith('err:')):
                ctx.clause_fail('metadata_implies_complete', {**case, 'listing': after_ls, 'read': r},
                                detail='merged directory with a torn metadata file opens')
                return
            after_ls['out']['metadata'] = None
        # (2) a directory that announces itself complete contains all parts
        if after_ls['out'] is not None and after_ls['out']['metadata'] is not None:
            ok = after_ls['out']['metadata'] == [[s['name'], len(s['adds'])] for s in stores] and \
                after_ls['out']['files'] == sorted(names)
            allr = read_all(d / out_name, tags) if ok else None
            if not ok or allr != [t for s in stores for t in concat_by_store[s['name']]]:
                ctx.clause_fail('metadata_implies_complete', {**case, 'listing': after_ls, 'read': allr},
                                detail='merged directory has a metadata file but is not complete')
                return
        # (3) an interrupted (not killed) merge can be retried as is
        if res == 'fault':
            r2 = do_merge(d, out_name, names)
            if r2 != 'ok' or read_all(d / out_name, tags) != [t for s in stores for t in concat_by_store[s['name']]]:
                ctx.clause_fail('interrupted_merge_retriable', {**case, 'listing_after_fault': after_ls, 'retry': r2},
                                detail=f'after a fault at step {n} the merge cannot be retried: {r2}')
                return
        # ---- correspondence
        m_res = {'fault': 'fault', 'ok': 'ok', 'crashed': 'killed'}.get(m['result'], m['result'])
        if res != m_res:
            ctx.diverge('merge outcome under fault: model vs implementation', {**case, 'impl': res, 'model': m['result']})
        elif canon_model_fs(m['fs']) != after_ls:
            ctx.diverge('merge file system under fault: model vs implementation',
                        {**case, 'impl': after_ls, 'model': canon_model_fs(m['fs'])})
    finally:
        rm_dir(d)


def refusal_retry_cases(ctx, rng, n):
    """Merge refused for each validation rule, then corrected and retried."""
    for i in range(n):
        k = int(rng.integers(2, 5))
        indexed = bool(rng.random() < 0.5)
        stores = gen_stores(rng, k, indexed, max_n=3)
        rule = ['fs', 'index', 'missing', 'exists', 'suffix'][i % 5]
        d = fresh_dir()
        out_name = 'merged.aeic-store'
        case = {'stores': stores, 'rule': rule}
        try:
            bad = [dict(s, adds=[dict(a) for a in s['adds']]) for s in stores]
            j = int(rng.integers(0, k))
            if rule == 'fs':
                bad[j]['extra'] = True
                for a in bad[j]['adds']:
                    a['extra'] = True
            if rule == 'index':
                bad[j]['indexed'] = not indexed
                for q, a in enumerate(bad[j]['adds']):
                    a['fid'] = None if indexed else 9000 + q
            tags = build_inputs(d, bad)
            names = [s['name'] for s in bad]
            inputs = list(names)
            target = out_name
            if rule == 'missing':
                inputs = names + ['nothere.nc']
            if rule == 'exists':
                (d / out_name).mkdir()
            if rule == 'suffix':
                target = 'merged.store'
            before = listing(d, out_name)
            res = do_merge(d, target, inputs)
            after_ls = listing(d, out_name)
            ctx.case(json.dumps({'rule': rule, 'layout': [[a['npts'] for a in s['adds']] for s in bad]}), nontrivial=True,
                     sample={'rule': rule, 'sizes': [len(s['adds']) for s in bad], 'result': res})
            ctx.count('refusal:' + rule + ':' + res)
            if res != 'refused':
                ctx.clause_fail('merge_refused', {**case, 'impl_result': res}, detail=f'rule {rule}: merge not refused ({res})')
                continue
            if before != after_ls or (rule == 'suffix' and (d / target).exists()):
                ctx.clause_fail('refused_merge_retriable', {**case, 'before': before, 'after': after_ls},
                                detail=f'merge refused for rule {rule} changed the directory')
                continue
            # correct the cause and retry
            if rule in ('fs', 'index'):
                good = [n for q, n in enumerate(names) if q != j]
            else:
                good = names
            if rule == 'exists':
                (d / out_name).rmdir()
            r2 = do_merge(d, out_name, good)
            want = [f"t{a['tag']}" for q, s in enumerate(bad) if s['name'] in good for a in s['adds']]
            got = read_all(d / out_name, tags) if r2 == 'ok' else None
            if r2 != 'ok' or got != want:
                ctx.clause_fail('refused_merge_retriable', {**case, 'retry': r2, 'read': got, 'expected': want},
                                detail=f'after correcting the cause of refusal {rule} the merge cannot be retried')
        finally:
            rm_dir(d)


def species_rejection_scenarios(ctx, n):
    """A trajectory carrying a species outside the species dimension of the file (fixed by the first trajectory) is refused:
    like every other refusal it must leave the store as it was. Compared with a plain Python list (no model involved: whether
    the trajectory is invalid depends on what the file already holds)."""
    from harness.store_impl import RealStore, canon_impl, fresh_dir, rm_dir

    for _ in range(n):
        rng = ctx.rng
        k1, k2 = int(rng.integers(1, 4)), int(rng.integers(0, 3))
        reopen = str(rng.choice(['none', 'append', 'append_before']))
        ops = [{'op': 'create', 'file': True, 'cache_mb': int(rng.choice([1, 64]))}]
        tag = 0
        for _i in range(k1):
            ops.append({'op': 'add', 'tag': tag, 'npts': 30, 'extra': True, 'fid': None})
            tag += 1
        if reopen == 'append_before':
            ops.append({'op': 'open_append', 'cache_mb': 1})
        ops.append({'op': 'add', 'tag': 500, 'npts': 30, 'extra': True, 'fid': None, 'bad': 'species'})
        ops += [{'op': 'len'}, {'op': 'iter'}]
        for _i in range(k2):
            ops.append({'op': 'add', 'tag': tag, 'npts': 30, 'extra': True, 'fid': None})
            tag += 1
        if reopen == 'append':
            ops += [{'op': 'open_append', 'cache_mb': 1}, {'op': 'add', 'tag': tag, 'npts': 30, 'extra': True, 'fid': None}]
            tag += 1
        ops += [{'op': 'len'}, {'op': 'iter'}, {'op': 'close'}, {'op': 'open_read', 'cache_mb': 1}, {'op': 'len'}, {'op': 'iter'}]
        # list oracle
        want, lst = [], []
        for o in ops:
            if o['op'] == 'add':
                if o.get('bad'):
                    want.append('err:value_error')
                else:
                    want.append(f'idx:{len(lst)}')
                    lst.append(f"t{o['tag']}")
            elif o['op'] == 'len':
                want.append(f'len:{len(lst)}')
            elif o['op'] == 'iter':
                want.append('iter:' + ','.join(lst))
            else:
                want.append('ok')
        from harness.store_impl import run_impl

        got, _ = run_impl(ops, with_keys=False)
        ctx.case('species:' + json.dumps(ops, sort_keys=True), nontrivial=True,
                 sample={'ops': [o['op'] + (':' + o['bad'] if o.get('bad') else '') for o in ops], 'impl': got})
        ctx.count('species_rejection')
        if got != want:
            i = next(i for i, (a, b) in enumerate(zip(got, want)) if a != b)
            ctx.clause_fail('rejected_add_is_noop', {'ops': ops, 'impl_outs': got, 'spec_outs': want, 'first_bad_op': i},
                            detail=f'after refusing a trajectory with a species outside the file species dimension: op #{i} '
                                   f'{ops[i]["op"]} returned {got[i]}, the list specification requires {want[i]}')


def main(ctx):
    ctx.proofs()
    aeic_setup()
    # (a) rejected additions
    hs = load_corpus('C10')
    ctx.extra['corpus_cases'] = len(hs)
    nbase = ctx.scale(quick=7, thorough=150)
    for _ in range(nbase):
        base = gen_history(ctx.rng, 14, invalid_rate=0.0)
        hs += inject_invalid(ctx.rng, base)
    check_histories(ctx, hs, OP_CLASS['C10'], 'rejected_add_is_noop', nontrivial_hist, tag=' (C10)')
    species_rejection_scenarios(ctx, ctx.scale(quick=12, thorough=200))
    # (a') the event program of `add` regenerated from the source vs the lines real calls execute
    from harness.addcheck import check_add_program

    check_add_program(ctx)
    # (b) refusals and retries
    refusal_retry_cases(ctx, ctx.rng, ctx.scale(quick=10, thorough=100))
    # (c) exception at every step, (d) kill at every step
    merge_fault_cases(ctx, ctx.rng, ctx.scale(quick=4, thorough=60), kill=False)
    merge_fault_cases(ctx, ctx.rng, ctx.scale(quick=3, thorough=40), kill=True)
    return ctx.finish(RULE, TRUSTED, ASSUME)


def replay(ctx, path):
    aeic_setup()
    j = json.loads(open(path).read())
    f = j.get('first', j)
    case = f.get('case', f)
    if 'ops' in case:
        from harness.store_impl import run_impl

        outs, _ = run_impl(case['ops'], with_keys=False)
        for o, r, s in zip(case['ops'], outs, case.get('spec_outs', [''] * len(outs))):
            print(o, '->', r, '' if r == s or not s else f'   <-- specification: {s}')
        return 0
    if 'step' in case:
        stores = case['stores']
        names = [s['name'] for s in stores]
        mfiles = model_files(stores)
        nsteps = ctx.driver.outs([{'op': 'merge.merge', 'top': mfiles, 'inputs': names}])[0]['steps']
        one_fault(ctx, stores, names, mfiles, case['step'], case['kill'], case['after'], nsteps, case.get('exc', 'os'))
    for v in ctx.violations:
        print('REPLAY-FAIL', v['clause'], v['detail'])
    return 1 if ctx.violations else 0
