"""C03 — what is stored in a trajectory store is what is read back.

Correspondence: real `TrajectoryStore` (create / add / close / open / append / save / create_associated) in a temp
dir with freshly registered random field sets  vs  the Lean model `Aeic.StoreCodec` (encode → cells → decode, species
list of the file, point-count inference, digest text) through the compiled driver.
Clauses on the implementation: every trajectory that satisfies the property's hypothesis (`fits`, evaluated by the
*intended* model variant) is accepted and reads back equal field by field (independent comparison, bit-exact).
"""
from __future__ import annotations

import gc
import hashlib
import json
import os
import shutil
import struct
import tempfile
from pathlib import Path

import numpy as np

from harness.common import CORPUS_DIR, ROOT, aeic_setup, make_rng

PID = 'C03'
RULE = ('one case = one store: 0-2 freshly registered random field sets (1-5 fields each over the six dimension '
        'combinations T/TP/TM/TS/TSP/TSM x {f8,f4,i8,i4,i2; str for T} x required/optional) besides `base`, a file '
        'layout (single file | base+associated at create | in-memory then save | create_associated mapping), optional '
        'close+append split, 1-3 trajectories with 1-6 points, an independent random species subset per field and '
        'trajectory (gaps, differing sets, empty), random None pattern on optional fields, both iteration orders of '
        'the field sets; boundary stream: values equal to the NetCDF fill value, empty strings, required field left '
        'None, later trajectory with a species absent from the first, None species field; digest stream: one-attribute '
        'redefinitions of a field set between write and open. distinct = distinct (field-set defs, layout, species '
        'patterns, None pattern); non-trivial = has a species/thrust-mode field or an unset optional field or >1 file')
TRUSTED = ['Lean 4.33 kernel', 'axioms propext/Classical.choice/Quot.sound', 'Mathlib v4.33 (List.Sublist/Sorted lemmas)',
           'correspondence harness harness/c03.py (canonicalisation of numpy values to opaque strings, raw NetCDF reader)',
           'netCDF4/HDF5 as a typed array store: unwritten cells read as the fill value / empty VL array / empty string',
           'MD5 (hashlib) as an injective oracle for the digest checks',
           'numpy same-kind casts in FieldMetadata._cast are the identity on values already of the field type',
           'index bookkeeping of the store (which row belongs to which index) is property C07, modelled here as list append']
ASSUME = ['values are opaque to the model (no arithmetic in the codec); equality is bit equality of the canonical form',
          'fits: arrays have the trajectory point count (>=1), ThrustModeValues are total (missing mode = 0.0, the class '
          'semantics), no stored scalar equals the NetCDF fill value / no stored array consists only of fill values, '
          'species-indexed fields are mappings (not None), string fields only in shape T',
          'open findings narrow fits: unset optional *string* reads back "" (pinned by tests/test_storage.py::test_read_nulls); '
          'the species dimension is fixed by the first trajectory; an optional species field set to None is not storable']

DTYPES = ['f8', 'f4', 'i8', 'i4', 'i2']
SHAPES = ['T', 'TP', 'TM', 'TS', 'TSP', 'TSM']
ABBREV = {'T': 'T', 'TP': 'TP', 'TM': 'TM', 'TS': 'TS', 'TSP': 'TSP', 'TSM': 'TSM'}
KIND = {'T': 'scalar', 'TP': 'points', 'TM': 'tm', 'TS': 'sp', 'TSP': 'spPts', 'TSM': 'spTm'}

F4 = 'C03-unset-optional-string-reads-empty'
F5 = 'C03-none-species-field-not-storable'
F6 = 'C03-species-dimension-fixed-by-first-trajectory'
F7 = 'C03-digest-text-not-injective'

_uid = [0]


# ----------------------------------------------------------------------------------------------- canonical values
def np_type(dt: str):
    return str if dt == 'str' else np.dtype(dt).type


def canon(x) -> str:
    """opaque, bit-exact text of one scalar as the implementation holds it"""
    if isinstance(x, (str, np.str_)):
        return 's' + str(x)
    if isinstance(x, (bool, np.bool_)):
        return 'b' + str(int(x))
    if isinstance(x, (int, np.integer)):
        return 'i' + str(int(x))
    if isinstance(x, (float, np.floating)):
        return 'f' + struct.pack('>d', float(x)).hex()
    return 'o' + repr(x)


def uncanon(s: str, dt: str):
    if s[0] == 's':
        return s[1:]
    if s[0] == 'i':
        return int(s[1:])
    if s[0] == 'f':
        v = struct.unpack('>d', bytes.fromhex(s[1:]))[0]
        return float(np.float32(v)) if dt == 'f4' else v
    raise ValueError(s)


def fill_of(dt: str):
    import netCDF4

    if dt == 'str':
        return ''
    v = netCDF4.default_fillvals[dt]
    return np.dtype(dt).type(v)


def blank_canon(dt: str) -> str:
    return canon(fill_of(dt)) if dt != 'str' else 's'


def zero_canon(dt: str) -> str:
    return canon(np.dtype(dt).type(0))


def meta_json(f: dict, intended: bool) -> dict:
    dt = f['dtype']
    blank = blank_canon(dt)
    # as-is: netCDF4 reports no fill value for str variables, the reader never recognises an unset string
    unset = blank if (dt != 'str' or intended) else None
    if f['shape'] in ('TP', 'TSP'):
        # variable-length variables report no fill value either: a VL cell reads as "unset" iff it is the empty array
        unset = None
    return {'shape': f['shape'], 'req': bool(f['req']), 'blank': blank, 'unset': unset}


def arr_canon(a) -> list[str]:
    return [canon(e) for e in np.asarray(a).tolist()] if np.asarray(a).dtype.kind in 'US' else [canon(e) for e in np.asarray(a)]


def value_canon(v, shape: str, dt: str, size: int | None = None) -> dict:
    """model JSON of an in-memory field value taken from a Container"""
    from AEIC.performance.types import ThrustMode, ThrustModeValues
    from AEIC.types import SpeciesValues

    k = KIND[shape]
    if v is None:
        return {'k': k, 'v': None}

    def tmv(x):
        if not isinstance(x, ThrustModeValues):
            return ['o' + type(x).__name__]
        return [canon(x._data[m]) if m in x._data else zero_canon(dt) for m in ThrustMode]

    def sorted_items(sv):
        return sorted(sv.items(), key=lambda kv: int(kv[0]))

    if shape == 'T':
        return {'k': k, 'v': canon(v)}
    if shape == 'TP':
        a = np.asarray(v)
        if size is not None:
            a = a[:size]
        return {'k': k, 'v': arr_canon(a)}
    if shape == 'TM':
        return {'k': k, 'v': tmv(v)}
    if not isinstance(v, SpeciesValues):
        return {'k': k, 'v': 'o' + type(v).__name__}
    if shape == 'TS':
        return {'k': k, 'v': [[s.name, canon(e)] for s, e in sorted_items(v)]}
    if shape == 'TSP':
        return {'k': k, 'v': [[s.name, arr_canon(e)] for s, e in sorted_items(v)]}
    return {'k': k, 'v': [[s.name, tmv(e)] for s, e in sorted_items(v)]}


def value_build(j: dict, shape: str, dt: str):
    """numpy / AEIC value from model JSON"""
    from AEIC.performance.types import ThrustMode, ThrustModeValues
    from AEIC.types import Species, SpeciesValues

    v = j['v']
    if v is None:
        return None
    t = np_type(dt)

    def sc(s):
        x = uncanon(s, dt)
        return x if dt == 'str' else t(x)

    def arr(xs):
        a = np.array([uncanon(s, dt) for s in xs], dtype=t)
        # the memory layout of an array is not part of its value: a third of the arrays are handed over as non-contiguous views of
        # the exact field dtype (a column of a table, every second element of a buffer, a reversed buffer) — content-derived choice
        if dt != 'str' and a.ndim == 1 and len(a) >= 2:
            import zlib

            k = zlib.crc32(repr(list(xs)).encode()) % 6
            if k == 0:
                buf = np.zeros(2 * len(a), dtype=a.dtype)
                buf[::2] = a
                return buf[::2]
            if k == 1:
                tab = np.zeros((len(a), 3), dtype=a.dtype)
                tab[:, 1] = a
                return tab[:, 1]
            if k == 2:
                return np.ascontiguousarray(a[::-1])[::-1]
        return a

    def perm(items, key):
        # insertion order of a mapping is not part of its value: build the dictionaries in a content-derived pseudo-random
        # order so that code relying on insertion order (instead of the enum / species order) is exercised (seed C03_4)
        import zlib

        items = list(items)
        k = zlib.crc32(repr(key).encode())
        out = []
        while items:
            out.append(items.pop(k % len(items)))
            k = k // 7 + 13
        return out

    def tmv(xs):
        return ThrustModeValues({m: sc(x).item() for m, x in perm(zip(ThrustMode, xs), xs)})

    if shape == 'T':
        x = sc(v)
        return x if dt == 'str' else x.item()
    if shape == 'TP':
        return arr(v)
    if shape == 'TM':
        return tmv(v)
    if shape == 'TS':
        return SpeciesValues({Species[s]: sc(x).item() for s, x in perm(v, v)})
    if shape == 'TSP':
        return SpeciesValues({Species[s]: arr(x) for s, x in perm(v, v)})
    return SpeciesValues({Species[s]: tmv(x) for s, x in perm(v, v)})


# ----------------------------------------------------------------------------------------------- generators
def gen_scalar(rng, dt: str, boundary: bool) -> str:
    if dt == 'str':
        if boundary and rng.random() < 0.3:
            return 's'
        n = int(rng.integers(1, 9))
        alphabet = 'abcXYZ 019_-,;=:é北'
        return 's' + ''.join(alphabet[int(i)] for i in rng.integers(0, len(alphabet), n))
    if boundary and rng.random() < 0.25:
        return blank_canon(dt)
    t = np.dtype(dt).type
    if dt[0] == 'f':
        r = rng.random()
        if r < 0.15:
            x = float(rng.integers(-5, 6))
        elif r < 0.25:
            x = [0.0, -0.0, 1e300, -1e300, 5e-324, float('inf'), float('-inf'), float('nan'), 9.96921e36][int(rng.integers(0, 9))]
        else:
            x = float(rng.normal()) * 10.0 ** int(rng.integers(-3, 8))
        with np.errstate(over='ignore'):
            return canon(t(x))
    info = np.iinfo(dt)
    r = rng.random()
    if r < 0.2:
        x = [0, 1, -1, info.max, info.min, info.min + 2][int(rng.integers(0, 6))]
    else:
        x = int(rng.integers(-1000, 1000))
    x = max(info.min, min(info.max, x))
    return canon(t(x))


def gen_value(rng, f: dict, npoints: int, sp_pool: list[str], boundary: bool, none_p: float) -> dict:
    shape, dt = f['shape'], f['dtype']
    k = KIND[shape]
    species_shape = shape in ('TS', 'TSP', 'TSM')
    if not f['req'] and not species_shape and rng.random() < none_p:
        return {'k': k, 'v': None}

    def arr(n):
        if boundary and rng.random() < 0.1:
            return [blank_canon(dt)] * n
        return [gen_scalar(rng, dt, boundary and rng.random() < 0.3) for _ in range(n)]

    def tmv():
        return arr(4)

    if shape == 'T':
        return {'k': k, 'v': gen_scalar(rng, dt, boundary)}
    if shape == 'TP':
        return {'k': k, 'v': arr(npoints)}
    if shape == 'TM':
        return {'k': k, 'v': tmv()}
    # independent species subset per field
    from AEIC.types import Species

    r = rng.random()
    if r < 0.08:
        sub = []
    elif r < 0.2:
        sub = list(sp_pool)
    else:
        sub = [s for s in sp_pool if rng.random() < 0.5]
    sub = sorted(sub, key=lambda s: int(Species[s]))
    if shape == 'TS':
        return {'k': k, 'v': [[s, gen_scalar(rng, dt, boundary)] for s in sub]}
    if shape == 'TSP':
        return {'k': k, 'v': [[s, arr(npoints)] for s in sub]}
    return {'k': k, 'v': [[s, tmv()] for s in sub]}


def gen_fieldset(rng, tag: str, force_shapes=None) -> dict:
    n = int(rng.integers(1, 6))
    fields = []
    for i in range(n):
        shape = SHAPES[int(rng.integers(0, 6))] if not force_shapes else force_shapes[i % len(force_shapes)]
        if shape == 'T' and rng.random() < 0.25:
            dt = 'str'
        else:
            dt = DTYPES[int(rng.integers(0, len(DTYPES)))] if rng.random() < 0.6 else 'f8'
        fields.append({'name': f'{tag.lower()}{i}', 'shape': shape, 'dtype': dt, 'req': bool(rng.random() < 0.6)})
    return {'tag': tag, 'base_first': bool(rng.random() < 0.5), 'fields': fields}


def species_pool(rng) -> list[str]:
    from AEIC.types import Species

    names = [s.name for s in Species]
    r = rng.random()
    if r < 0.15:
        k = 1
    elif r < 0.3:
        k = 2
    else:
        k = int(rng.integers(2, 7))
    idx = sorted(rng.choice(len(names), size=k, replace=False).tolist())
    return [names[i] for i in idx]


def gen_case(rng, cid: int, stream: str) -> dict:
    boundary = stream == 'boundary'
    nfs = int(rng.choice([0, 1, 1, 1, 2, 2]))
    if stream == 'species':
        nfs = max(nfs, 1)
    fss = [gen_fieldset(rng, 'AB'[i], force_shapes=(['TS', 'TSP', 'TSM', 'TM'] if stream == 'species' and i == 0 else None))
           for i in range(nfs)]
    kinds = ['single', 'single', 'assoc', 'mapped', 'save'] if nfs else ['single', 'save']
    kind = kinds[int(rng.integers(0, len(kinds)))]
    file_of = {}
    for i, fs in enumerate(fss):
        if kind in ('assoc', 'save'):
            file_of[fs['tag']] = int(rng.integers(0, 3)) if kind == 'assoc' else int(rng.integers(0, 2))
        elif kind == 'mapped':
            file_of[fs['tag']] = 1 + i if rng.random() < 0.5 else 1
        else:
            file_of[fs['tag']] = 0
    if kind == 'assoc' and all(v == 0 for v in file_of.values()):
        file_of[fss[0]['tag']] = 1
    ntraj = int(rng.integers(1, 4))
    pool = species_pool(rng)
    none_p = float(rng.choice([0.0, 0.3, 0.7]))
    trajs = []
    indexable = bool(rng.random() < 0.7)  # flight_id on all trajectories or on none (the store refuses a mix by name)
    for ti in range(ntraj):
        npnts = int(rng.integers(1, 7))
        if rng.random() < 0.08:
            npnts = 0  # a trajectory without points (all trajectory lengths are quantified over)
        # later trajectories normally stay inside the species of the first one (the file's species dimension)
        vals = {fs['tag']: {f['name']: gen_value(rng, f, npnts, pool, boundary, none_p) for f in fs['fields']} for fs in fss}
        trajs.append({'npoints': npnts,
                      'base': {'seed': int(rng.integers(0, 1000)),
                               'flight_id': int(rng.integers(1, 10**6)) if indexable else None,
                               'name': None if rng.random() < 0.3 else f'traj{ti}',
                               'optional_phase_none': bool(rng.random() < 0.3)},
                      'vals': vals})
    if ntraj > 1 and not boundary:
        _restrict_to_first_species(fss, trajs)
    case = {'id': cid, 'stream': stream, 'kind': kind, 'fieldsets': fss, 'file_of': file_of,
            'append_after': (int(rng.integers(1, ntraj)) if ntraj > 1 and kind in ('single', 'assoc') and rng.random() < 0.4 else None),
            'trajs': trajs}
    if boundary:
        _add_boundary_pattern(rng, case)
    return case


def _first_species(fss, trajs, tags=None) -> set:
    sp = set()
    for fs in fss:
        if tags is not None and fs['tag'] not in tags:
            continue
        for f in fs['fields']:
            if f['shape'] in ('TS', 'TSP', 'TSM'):
                v = trajs[0]['vals'][fs['tag']][f['name']]['v']
                if v:
                    sp.update(s for s, _ in v)
    return sp


def _restrict_to_first_species(fss, trajs):
    """valid stream: species of later trajectories ⊆ species of the first (per species-list scope)"""
    first = _first_species(fss, trajs)
    for t in trajs[1:]:
        for fs in fss:
            for f in fs['fields']:
                if f['shape'] in ('TS', 'TSP', 'TSM'):
                    v = t['vals'][fs['tag']][f['name']]
                    if v['v']:
                        v['v'] = [p for p in v['v'] if p[0] in first]


def _add_boundary_pattern(rng, case):
    """patterns outside the narrowed hypothesis: model predicts the outcome, findings F5/F6 or plain refusals"""
    fss, trajs = case['fieldsets'], case['trajs']
    sfields = [(fs, f) for fs in fss for f in fs['fields'] if f['shape'] in ('TS', 'TSP', 'TSM')]
    r = rng.random()
    if sfields and r < 0.3:
        # None on an optional species field (F5) — first or later trajectory
        fs, f = sfields[int(rng.integers(0, len(sfields)))]
        f['req'] = False
        ti = int(rng.integers(0, len(trajs)))
        trajs[ti]['vals'][fs['tag']][f['name']]['v'] = None
        if ti == 0:
            del trajs[1:]
            case['append_after'] = None
    elif r < 0.45:
        # required scalar left None on the last trajectory: must be refused by name
        cands = [(fs, f) for fs in fss for f in fs['fields'] if f['shape'] == 'T']
        if cands:
            fs, f = cands[int(rng.integers(0, len(cands)))]
            f['req'] = True
            trajs[-1]['vals'][fs['tag']][f['name']]['v'] = None
    # (later trajectory with new species arises naturally: boundary cases are not restricted to the first species)
    if case['kind'] == 'mapped':
        # keep mapping results storable: errors inside create_associated leave a half-written file (C10's business)
        pass


# ----------------------------------------------------------------------------------------------- implementation side
class _Holder:
    """HasFieldSets carrier for create_associated"""

    def __init__(self, fsets, values: dict):
        self.FIELD_SETS = fsets
        for k, v in values.items():
            setattr(self, k, v)


def register_fieldsets(case) -> dict:
    """register fresh FieldSets; returns tag -> (name, FieldSet). Name chosen so that the iteration order of
    {'base', name} is as requested (the store iterates python sets of names)."""
    from AEIC.storage import Dimensions, FieldMetadata, FieldSet

    out = {}
    for fs in case['fieldsets']:
        for _ in range(200):
            _uid[0] += 1
            name = f"c03{fs['tag'].lower()}{os.getpid() % 1000}x{_uid[0]}"
            if (next(iter({'base', name})) == 'base') == fs['base_first'] and name not in FieldSet.REGISTRY:
                break
        fields = {f['name']: FieldMetadata(dimensions=Dimensions.from_abbrev(f['shape']), field_type=np_type(f['dtype']),
                                           description=f"d {f['name']}", units='u', required=f['req'])
                  for f in fs['fields']}
        out[fs['tag']] = (name, FieldSet(name, **fields))
    return out


def build_base(tr: dict, fieldsets: list[str]):
    from AEIC.storage import Dimension, FieldSet
    from AEIC.trajectories.trajectory import Trajectory

    n = tr['npoints']
    b = tr['base']
    t = Trajectory(n, name=b['name'], fieldsets=fieldsets or None)
    for j, (fname, f) in enumerate(FieldSet.from_registry('base').items()):
        if Dimension.POINT in f.dimensions:
            v_ = np.arange(n, dtype=float) * 1.25 + b['seed'] + j * 0.5
            if n >= 2 and (b['seed'] + j) % 5 == 0:
                tab_ = np.zeros((n, 2))            # (a column of a table: same values, non-contiguous)
                tab_[:, 0] = v_
                v_ = tab_[:, 0]
            setattr(t, fname, v_)
        elif fname in ('flight_id', 'name'):
            continue
        elif f.required:
            setattr(t, fname, f.field_type(b['seed'] % 97 + j).item())
        elif b['optional_phase_none']:
            setattr(t, fname, None)
    if b['flight_id'] is not None:
        t.flight_id = b['flight_id']
    return t


def build_traj(case, tr, reg, tags):
    t = build_base(tr, [reg[g][0] for g in tags])
    for fs in case['fieldsets']:
        if fs['tag'] in tags:
            for f in fs['fields']:
                v = value_build(tr['vals'][fs['tag']][f['name']], f['shape'], f['dtype'])
                if v is None and f['req']:
                    continue  # a required field that was never assigned keeps FieldMetadata.empty() (None for scalars)
                setattr(t, f['name'], v)
    return t


def fs_layout(name: str):
    """[(field, shape, dtype, req)] of a registered field set"""
    from AEIC.storage import FieldSet

    out = []
    for fname, f in FieldSet.from_registry(name).items():
        ab = f.dimensions.abbrev
        shape = {'T': 'T', 'TP': 'TP', 'TM': 'TM', 'TS': 'TS', 'TSP': 'TSP', 'TSM': 'TSM'}[ab]
        dt = 'str' if f.field_type is str else np.dtype(f.field_type).str[1:]
        out.append({'name': fname, 'shape': shape, 'dtype': dt, 'req': bool(f.required)})
    return out


def canon_traj(t, fs_names: list[str]) -> dict:
    """{fs name: [model value JSON per field]} from a Container"""
    out = {}
    for n in fs_names:
        vals = []
        for f in fs_layout(n):
            v = t._data.get(f['name'], None) if f['name'] in t._data else '<<missing>>'
            if isinstance(v, str) and v == '<<missing>>':
                vals.append({'k': 'missing', 'v': None})
            else:
                vals.append(value_canon(v, f['shape'], f['dtype'], size=len(t)))
        out[n] = vals
    return out


def exc_kind(e: BaseException) -> str:
    return 'refused' if isinstance(e, ValueError) and not isinstance(e, (UnicodeError,)) else f'internal:{type(e).__name__}'


def raw_read(path: Path, fs_names: list[str], ntraj: int) -> dict:
    """independent reader of the NetCDF file: {fs: [ per trajectory [cells JSON per field] ]} + species names"""
    import netCDF4

    ds = netCDF4.Dataset(path, 'r')
    try:
        species = None
        if 'species' in ds.variables:
            sv = ds.variables['species']
            species = [str(sv[i]) for i in range(len(sv))]
        out = {'species': species, 'rows': {}, 'fill': {}}
        for n in fs_names:
            if n not in ds.groups:
                continue
            g = ds.groups[n]
            rows = []
            fills = {}
            for f in fs_layout(n):
                fv = g.variables[f['name']].get_fill_value()
                fills[f['name']] = None if fv is None else canon(fv.item() if hasattr(fv, 'item') else fv)
            out['fill'][n] = fills
            for i in range(ntraj):
                cells = []
                for f in fs_layout(n):
                    v = g.variables[f['name']]
                    v.set_auto_mask(False)
                    sh = f['shape']
                    if sh == 'T':
                        cells.append({'k': 'one', 'c': canon(v[i].item() if hasattr(v[i], 'item') else v[i])})
                    elif sh == 'TP':
                        cells.append({'k': 'vl', 'c': arr_canon(v[i])})
                    elif sh == 'TM':
                        cells.append({'k': 'row', 'c': arr_canon(v[i, :])})
                    elif sh == 'TS':
                        cells.append({'k': 'row', 'c': arr_canon(v[i, :])})
                    elif sh == 'TSP':
                        cells.append({'k': 'vlRow', 'c': [arr_canon(v[i, si]) for si in range(v.shape[1])]})
                    else:
                        cells.append({'k': 'grid', 'c': [arr_canon(v[i, si, :]) for si in range(v.shape[1])]})
                rows.append(cells)
            out['rows'][n] = rows
        return out
    finally:
        ds.close()


def run_impl(case, keep_dir: bool = False) -> dict:
    """run one case against the real TrajectoryStore. Returns what was added (canonical), what was read back,
    per-trajectory outcome, the files' species lists and the raw cells."""
    from AEIC.trajectories import TrajectoryStore

    reg = register_fieldsets(case)
    tags = [fs['tag'] for fs in case['fieldsets']]
    kind = case['kind']
    d = Path(tempfile.mkdtemp(prefix='c03_'))
    res = {'added': [], 'outcome': [], 'back': [], 'fs_order': None, 'files': None, 'species': {}, 'raw': {}, 'open_error': None,
           'names': {g: reg[g][0] for g in tags}}
    base_p = d / 'base.nc'
    file_ids = sorted(set(case['file_of'].values()) - {0})
    assoc_p = {k: d / f'assoc{k}.nc' for k in file_ids}
    try:
        create_tags = tags if kind != 'mapped' else []
        assoc_create = [(assoc_p[k], [reg[g][0] for g in tags if case['file_of'][g] == k]) for k in file_ids] if kind != 'mapped' else []
        trajs = [build_traj(case, tr, reg, create_tags) for tr in case['trajs']]
        fs_all = ['base'] + [reg[g][0] for g in tags]
        mapped_vals = []
        if kind == 'mapped':
            for tr in case['trajs']:
                mv = {}
                for fs in case['fieldsets']:
                    mv[fs['tag']] = {f['name']: value_build(tr['vals'][fs['tag']][f['name']], f['shape'], f['dtype']) for f in fs['fields']}
                mapped_vals.append(mv)
        # what is added (canonical form of the trajectory objects / mapping results, before the store sees them)
        for ti, t in enumerate(trajs):
            a = canon_traj(t, ['base'] + [reg[g][0] for g in create_tags])
            if kind == 'mapped':
                for fs in case['fieldsets']:
                    a[reg[fs['tag']][0]] = [value_canon(mapped_vals[ti][fs['tag']][f['name']], f['shape'], f['dtype']) for f in fs['fields']]
            res['added'].append(a)

        def add_all(ts, items):
            for t in items:
                if res['outcome'] and res['outcome'][-1] != 'ok':
                    break
                try:
                    ts.add(t)
                    res['outcome'].append('ok')
                except Exception as e:  # noqa: BLE001
                    res['outcome'].append(exc_kind(e))
                    res.setdefault('exc', []).append(f'{type(e).__name__}: {e}'[:200])

        def safe_close(ts):
            try:
                ts.close()
            except Exception as e:  # noqa: BLE001  (close after a refused add is C10's business)
                res.setdefault('close_exc', []).append(f'{type(e).__name__}: {e}'[:200])

        k = case.get('append_after') or len(trajs)
        if kind == 'save':
            ts = TrajectoryStore.create()
            add_all(ts, trajs)
            try:
                if any(o == 'ok' for o in res['outcome']):  # nothing accepted: nothing to save (the refusal stands)
                    ts.save(base_p, associated_files=assoc_create or None)
            except Exception as e:  # noqa: BLE001
                # the files are written at save time: a refusal surfaces here
                res['outcome'] = ['ok'] * 0
                res['save_exc'] = exc_kind(e)
                res.setdefault('exc', []).append(f'{type(e).__name__}: {e}'[:200])
            safe_close(ts)
        else:
            # a cache that holds about two of these trajectories: in the writing session most reads below come from the file
            # handles that created the file, not from the cache (the property speaks of reading back, not only after reopening)
            try:
                big = max([int(t.nbytes) for t in trajs] + [1])
            except Exception:  # noqa: BLE001
                big = None
            kw = {} if big is None else {'cache_size_mb': (big + 512) / (1024 * 1024)}
            ts = TrajectoryStore.create(base_file=base_p, associated_files=assoc_create or None, **kw)
            add_all(ts, trajs[:k])
            if res['outcome'] and all(o == 'ok' for o in res['outcome']):
                res['back_live'] = []
                order_live = ['base'] + [reg[g][0] for g in create_tags]
                for i in range(len(res['outcome'])):
                    try:
                        r = ts[i]
                        res['back_live'].append({'ok': canon_traj(r, order_live), 'len': len(r)})
                    except Exception as e:  # noqa: BLE001
                        if isinstance(e, ValueError) and 'too large' in str(e):
                            res['back_live'].append({'skip': 'larger than the cache once loaded'})   # our cache sizing, not the store
                        else:
                            res['back_live'].append({'err': exc_kind(e), 'msg': f'{type(e).__name__}: {e}'[:200]})
            safe_close(ts)
            if k < len(trajs) and all(o == 'ok' for o in res['outcome']):
                ts = TrajectoryStore.append(base_file=base_p, associated_files=[p for p, _ in assoc_create] or None)
                add_all(ts, trajs[k:])
                safe_close(ts)
        nok = len([o for o in res['outcome'] if o == 'ok'])
        if kind == 'save' and 'save_exc' not in res and all(o == 'ok' for o in res['outcome']) and len(res['outcome']) == len(trajs):
            # (an in-memory store validates a trajectory when it is added; a refusal there is final)
            nok = len(trajs)
            res['outcome'] = ['ok'] * nok
        if kind == 'mapped' and nok == len(trajs):
            with TrajectoryStore.open(base_file=base_p) as ts:
                for k2 in file_ids:
                    gs = [g for g in tags if case['file_of'][g] == k2]
                    fsets = [reg[g][1] for g in gs]
                    counter = [0]

                    def fn(traj, gs=gs, fsets=fsets, counter=counter):
                        i = counter[0]
                        counter[0] += 1
                        vals = {}
                        for g in gs:
                            vals.update(mapped_vals[i][g])
                        return _Holder(fsets, vals)

                    try:
                        ts.create_associated(assoc_p[k2], [reg[g][0] for g in gs], fn)
                    except Exception as e:  # noqa: BLE001
                        res['mapped_exc'] = exc_kind(e)
                        res.setdefault('exc', []).append(f'{type(e).__name__}: {e}'[:200])
                        break
        # read back after reopen
        if nok > 0 and 'mapped_exc' not in res:
            try:
                with TrajectoryStore.open(base_file=base_p, associated_files=[assoc_p[k2] for k2 in file_ids] or None) as ts:
                    res['fs_order'] = list(ts._nc)
                    res['files'] = [sorted(f.fieldsets) for f in ts.files]
                    for f in ts.files:
                        for n in f.fieldsets:
                            res['species'][n] = None if f.species is None else [s.name for s in f.species]
                    for i in range(nok):
                        try:
                            r = ts[i]
                            res['back'].append({'ok': canon_traj(r, res['fs_order']), 'len': len(r)})
                        except Exception as e:  # noqa: BLE001
                            res['back'].append({'err': exc_kind(e), 'msg': f'{type(e).__name__}: {e}'[:200]})
            except Exception as e:  # noqa: BLE001
                res['open_error'] = f'{type(e).__name__}: {e}'[:200]
            try:
                res['raw'][0] = raw_read(base_p, fs_all, nok)
                for k2 in file_ids:
                    res['raw'][k2] = raw_read(assoc_p[k2], fs_all, nok)
            except Exception as e:  # noqa: BLE001
                res['raw_error'] = f'{type(e).__name__}: {e}'[:200]
    finally:
        from AEIC.trajectories import TrajectoryStore as TS

        TS.active_in_thread = None
        if not keep_dir:
            shutil.rmtree(d, ignore_errors=True)
    return res


# ----------------------------------------------------------------------------------------------- model side
def model_ops(case, res, intended: bool) -> dict:
    """driver op for one case. Files in the model = the store's files; fields per file in the iteration order
    observed on the implementation (field sets of `_nc`, fields in definition order)."""
    names = res['names']
    tag_of = {v: k for k, v in names.items()}
    order = res['fs_order'] or (['base'] + [names[fs['tag']] for fs in case['fieldsets']])
    file_ids = [0] + sorted(set(case['file_of'].values()) - {0})
    files = []
    for fid in file_ids:
        fsn = [n for n in order if (0 if n == 'base' else case['file_of'][tag_of[n]]) == fid]
        files.append({'fid': fid, 'fs': fsn})
    files = [f for f in files if f['fs']]
    jfiles = []
    for f in files:
        metas = []
        for n in f['fs']:
            metas += [meta_json(x, intended) for x in fs_layout(n)]
        jfiles.append({'metas': metas, 'own': case['kind'] == 'mapped' and f['fid'] != 0})
    jtrajs = []

    def hyp_value(v, fld):
        # finding F5: under the property an optional species-indexed field may be unset (None); the intended run treats
        # it like the empty mapping when deciding whether the *rest* of the trajectory fits
        if intended and v['v'] is None and v['k'] in ('sp', 'spPts', 'spTm') and not fld['req']:
            return {'k': v['k'], 'v': []}
        return v

    for ti, a in enumerate(res['added']):
        jtrajs.append({'npoints': case['trajs'][ti]['npoints'],
                       'files': [[hyp_value(v, fld) for n in f['fs'] for v, fld in zip(a[n], fs_layout(n))] for f in files]})
    op = {'op': 'c03.store', 'files': jfiles, 'trajs': jtrajs, 'none_ok': intended}
    if intended:
        op['all_species'] = True
    return {'op': op, 'files': files}


def split_fields(files, per_file_vals) -> dict:
    """[[vals of file 0], …] -> {fs name: [vals]} following the same field order"""
    out = {}
    for f, vals in zip(files, per_file_vals):
        i = 0
        for n in f['fs']:
            k = len(fs_layout(n))
            out[n] = vals[i:i + k]
            i += k
    return out


# ----------------------------------------------------------------------------------------------- evaluation
def trivial(case) -> bool:
    shapes = {f['shape'] for fs in case['fieldsets'] for f in fs['fields']}
    unset = any(v['v'] is None for t in case['trajs'] for fs in t['vals'].values() for v in fs.values())
    return not (shapes & {'TM', 'TS', 'TSP', 'TSM'} or unset or any(case['file_of'].values()))


def case_key(case) -> str:
    sig = {'fs': [[(f['shape'], f['dtype'], f['req']) for f in fs['fields']] + [fs['base_first']] for fs in case['fieldsets']],
           'kind': case['kind'], 'file_of': case['file_of'], 'app': case['append_after'],
           'pat': [[(n, None if v['v'] is None else ([p[0] for p in v['v']] if v['k'] in ('sp', 'spPts', 'spTm') else 1))
                    for fsv in t['vals'].values() for n, v in fsv.items()] + [t['npoints'], t['base']['name'] is None,
                                                                              t['base']['flight_id'] is None] for t in case['trajs']]}
    return hashlib.sha1(json.dumps(sig, sort_keys=True).encode()).hexdigest()[:16]


def finding_for(case, ti: int, fs_name: str, fld: dict, added_v: dict, model_species: dict) -> str | None:
    """which open finding (if any) covers a failure of this field / trajectory"""
    if fld['dtype'] == 'str' and not fld['req'] and added_v['v'] is None:
        return F4
    if fld['shape'] in ('TS', 'TSP', 'TSM') and added_v['v'] is None:
        return F5
    return None


def evaluate(ctx, case, res, m_asis, m_int, files, report=True) -> dict:
    """compare implementation with the as-is model; evaluate the clauses wherever the intended hypothesis holds.
    returns {'fails': [...], 'divs': [...]} and (if report) registers them on ctx."""
    fails, divs = [], []

    def fail(clause, detail, finding=None, **kw):
        fails.append({'clause': clause, 'detail': detail, 'finding': finding, **kw})

    def div(what, detail):
        divs.append({'what': what, 'detail': detail})

    if res.get('open_error'):
        fail('reopen', f"store written by the implementation cannot be reopened: {res['open_error']}")
    sp_asis = m_asis['species']
    # model: species list of each file vs species coordinate variable of the file
    for f, sp in zip(files, sp_asis):
        for n in f['fs']:
            got = res['species'].get(n, '<<none>>') if res['species'] else '<<none>>'
            if got == '<<none>>' or 'ok' not in sp:
                continue
            has_sp = any(x['shape'] in ('TS', 'TSP', 'TSM') for n2 in f['fs'] for x in fs_layout(n2))
            if has_sp and got is not None and not set(sp['ok']) <= set(got):
                div('file species list', f"{n}: model {sp['ok']} impl {got}")
    first_species_err = [sp.get('err') for sp in sp_asis]
    # model: what the reader compares with ("unset" mark) vs the fill value the file reports for the variable
    for raw in (res.get('raw') or {}).values():
        for n, fills in raw.get('fill', {}).items():
            for fld in fs_layout(n):
                want = meta_json(fld, intended=False)['unset']
                if fills.get(fld['name'], want) != want:
                    div('fill value', f"{n}.{fld['name']} ({fld['shape']},{fld['dtype']}): model {want} file {fills.get(fld['name'])}")
    nadd = len(res['outcome'])

    def _model_err(ti):
        for e0, mf in zip(first_species_err, m_asis['trajs'][ti]['files']):
            if e0 or 'err' in mf:
                return e0 or mf['err']
        return None

    model_err_at = next((ti for ti in range(len(case['trajs'])) if _model_err(ti)), None)
    for ti in range(len(case['trajs'])):
        mt = m_asis['trajs'][ti]
        it = m_int['trajs'][ti]
        # --- as-is model's prediction for the add
        m_err = None
        for e0, mf in zip(first_species_err, mt['files']):
            if e0 or 'err' in mf:
                m_err = e0 or mf['err']
                break
        int_fits = all(f.get('fits') and f.get('same') for f in it['files'])
        if any(f.get('fits') and not f.get('same') for f in it['files']):
            ctx.broken_obligation(f'model contradicts theorem decode_encode on case {case["id"]} traj {ti}')
        whole = res.get('save_exc') if case['kind'] == 'save' else (res.get('mapped_exc') if case['kind'] == 'mapped' else None)
        if whole is not None:
            # save() / create_associated() failed as a whole: the exception belongs to the first trajectory for which
            # the model predicts a refusal (else to trajectory 0); earlier ones are unobservable
            if model_err_at is None:
                outcome = whole
            elif ti < model_err_at:
                continue
            else:
                outcome = whole
        elif ti < nadd:
            outcome = res['outcome'][ti]
        else:
            break
        m_class = 'ok' if m_err is None else m_err.split(':')[0]
        i_class = outcome.split(':')[0]
        if int_fits and i_class != 'ok':
            # hypothesis holds, yet the trajectory is not accepted
            fnd = None
            if m_class == i_class and m_err:
                fnd = F6 if 'species-not-in-file' in m_err else (F5 if 'none-species' in m_err else None)
            fail('accepted', f"traj {ti}: fits the field sets but add gives {outcome} ({(res.get('exc') or [''])[-1]})",
                 finding=fnd, traj=ti)
        elif m_class != i_class and i_class == 'ok' and m_err and ('species-not-in-file' in m_err or 'none-species' in m_err):
            # more permissive than the modelled code exactly where an open finding (F5/F6) makes the modelled code refuse:
            # acceptable (intended variant); equality is checked below when the hypothesis holds
            ctx.count('accepts where the modelled code refuses because of an open finding')
        elif m_class != i_class:
            div('add outcome', f'traj {ti}: model {m_err or "ok"} impl {outcome}')
        if i_class != 'ok':
            break
        if m_err:
            # the code as modelled refuses, the implementation accepts, and the property's hypothesis holds: fine iff the
            # trajectory reads back equal (the implementation then agrees with the intended variant of an open finding)
            if not int_fits or ti >= len(res['back']):
                continue
            b = res['back'][ti]
            if 'err' in b:
                fail('reads back', f"traj {ti}: stored but cannot be read: {b['msg']}", traj=ti)
                continue
            for n in res['added'][ti]:
                for fld, av, bv in zip(fs_layout(n), res['added'][ti][n], b['ok'].get(n, [])):
                    if bv == av:
                        continue
                    f5 = fld['shape'] in ('TS', 'TSP', 'TSM') and av['v'] is None and bv['v'] == []
                    f4 = fld['dtype'] == 'str' and not fld['req'] and av['v'] is None and bv['v'] == 's'
                    fail('field equal', f"traj {ti} {n}.{fld['name']} ({fld['shape']},{fld['dtype']}): added {_short(av)} read {_short(bv)}",
                         finding=F5 if f5 else (F4 if f4 else None), traj=ti, field=fld['name'])
            ctx.count('accepted although the modelled code refuses (agrees with the intended variant)')
            continue
        # --- read back
        if ti >= len(res['back']):
            break
        b = res['back'][ti]
        m_load = next((mf['load'] for mf in mt['files'] if mf.get('load')), None)
        if 'err' in b:
            if int_fits:
                fail('reads back', f"traj {ti}: stored but cannot be read: {b['msg']}", traj=ti)
            elif m_load is None or m_load.split(':')[0] != b['err'].split(':')[0]:
                div('read outcome', f"traj {ti}: impl {b['msg']} model {m_load or 'ok'}")
            else:
                ctx.count('load refused (required field reads as unset; outside fits)')
            continue
        if m_load is not None:
            div('read outcome', f'traj {ti}: impl reads the trajectory, model {m_load}')
            continue
        m_back = split_fields(files, [mf['back'] for mf in mt['files']])
        m_cells = split_fields(files, [mf['cells'] for mf in mt['files']])
        added = res['added'][ti]
        int_fit_file = {}
        for f, itf in zip(files, it['files']):
            for n in f['fs']:
                int_fit_file[n] = bool(itf.get('fits'))
        for n in added:
            if n not in b['ok']:
                if int_fits:
                    fail('reads back', f'traj {ti}: field set {n} missing from the trajectory read back', traj=ti)
                continue
            for fld, av, bv, mv in zip(fs_layout(n), added[n], b['ok'][n], m_back[n]):
                same_as_added = (bv == av)
                same_as_model = (bv == mv)
                ctx.count(f"field {fld['shape']}/{fld['dtype']}/{'req' if fld['req'] else 'opt'}")
                if av['v'] is None:
                    ctx.count('unset optional field')
                hyp = bool(int_fit_file.get(n))
                if hyp and not same_as_added:
                    # the property's hypothesis holds for this file's fields, yet the field does not read back equal
                    fnd = finding_for(case, ti, n, fld, av, sp_asis) if same_as_model else None
                    fail('field equal', f"traj {ti} {n}.{fld['name']} ({fld['shape']},{fld['dtype']}): added {_short(av)} read {_short(bv)}",
                         finding=fnd, traj=ti, field=fld['name'])
                elif same_as_model:
                    pass
                elif hyp and same_as_added:
                    ctx.count('agrees with the intended variant (open finding repaired?)')
                else:
                    div('decode∘encode', f"traj {ti} {n}.{fld['name']} ({fld['shape']},{fld['dtype']}): model {_short(mv)} impl {_short(bv)} added {_short(av)}")
        # --- the same trajectory read in the session that wrote it (mostly from the file, the cache being small): what the file
        # holds does not depend on which session reads it
        bl = (res.get('back_live') or [])
        if ti < len(bl):
            live = bl[ti]
            ctx.count('read in the writing session' if 'skip' not in live else 'read in the writing session skipped (cache sizing)')
            if 'skip' in live:
                pass
            elif 'err' in live:
                (fail if int_fits else div)('reads back' if int_fits else 'read outcome',
                                            f"traj {ti}: read in the writing session fails ({live['msg']}) but reads after reopening")
            else:
                for n in added:
                    if n not in b['ok'] or n not in live['ok']:
                        continue
                    for fld, av, bv, lv in zip(fs_layout(n), added[n], b['ok'][n], live['ok'][n]):
                        if lv == bv or lv == av:
                            continue
                        msg = (f"traj {ti} {n}.{fld['name']} ({fld['shape']},{fld['dtype']}): added {_short(av)}, read in the writing "
                               f"session {_short(lv)}, read after reopening {_short(bv)}")
                        if bool(int_fit_file.get(n)):
                            fail('field equal', msg, traj=ti, field=fld['name'])
                        else:
                            div('decode∘encode (writing session)', msg)
                if int_fits and live['len'] != b['len']:
                    fail('point count', f"traj {ti}: {live['len']} points read in the writing session, {b['len']} after reopening", traj=ti)
        # --- point count
        if int_fits and b['len'] != case['trajs'][ti]['npoints']:
            fail('point count', f"traj {ti}: {case['trajs'][ti]['npoints']} points added, {b['len']} read", traj=ti)
        if mt.get('npoints') is not None and b['len'] != mt['npoints'] and not (int_fits and b['len'] == case['trajs'][ti]['npoints']):
            div('point count', f"traj {ti}: model {mt['npoints']} impl {b['len']}")
        # --- raw cells: non-blank cells keyed by species name (layout-agnostic)
        if 'raw_error' not in res and res['raw']:
            for f in files:
                raw = res['raw'].get(f['fid'])
                if raw is None:
                    continue
                Lm = sp_asis[files.index(f)].get('ok', [])
                for n in f['fs']:
                    if n not in raw['rows'] or ti >= len(raw['rows'][n]):
                        continue
                    for fld, rc, mc in zip(fs_layout(n), raw['rows'][n][ti], m_cells[n]):
                        if _cells_view(rc, raw['species'] or [], fld) != _cells_view(mc, Lm, fld):
                            div('cells', f"traj {ti} {n}.{fld['name']} ({fld['shape']},{fld['dtype']}): model {_short(mc)}@{Lm} file {_short(rc)}@{raw['species']}")
    if report:
        for f in fails:
            ctx.clause_fail(f['clause'], _slim(case), finding=f['finding'], detail=f['detail'])
        for d in divs:
            ctx.diverge(d['what'], _slim(case), d['detail'])
    return {'fails': fails, 'divs': divs}


def _cells_view(c: dict, L: list, fld: dict):
    """non-blank content of a block of cells, species slots keyed by name"""
    blank = blank_canon(fld['dtype'])
    k = c['k']
    if k in ('one', 'vl'):
        return c['c']
    if fld['shape'] == 'TM':
        return c['c']
    if k == 'row':
        return sorted((s, x) for s, x in zip(L, c['c']) if x != blank)
    if k == 'vlRow':
        return sorted((s, tuple(x)) for s, x in zip(L, c['c']) if len(x) > 0)
    return sorted((s, tuple(x)) for s, x in zip(L, c['c']) if any(y != blank for y in x))


def _short(v, n=160):
    s = json.dumps(v, ensure_ascii=False)
    return s if len(s) <= n else s[:n] + '…'


def _slim(case):
    return case


def run_case(ctx, case, report=True):
    res = run_impl(case)
    a = model_ops(case, res, intended=False)
    b = model_ops(case, res, intended=True)
    m_asis, m_int = ctx.driver.outs([a['op'], b['op']])
    return res, evaluate(ctx, case, res, m_asis, m_int, a['files'], report=report)


def run_batch(ctx, cases, report=True):
    """implementation on every case, then ONE driver process for all model runs"""
    ress = [run_impl(c) for c in cases]
    ops, metas = [], []
    for c, r in zip(cases, ress):
        a = model_ops(c, r, intended=False)
        b = model_ops(c, r, intended=True)
        ops += [a['op'], b['op']]
        metas.append(a['files'])
    outs = ctx.driver.outs(ops)
    evs = []
    for i, (c, r) in enumerate(zip(cases, ress)):
        evs.append(evaluate(ctx, c, r, outs[2 * i], outs[2 * i + 1], metas[i], report=report))
    return ress, evs


# ----------------------------------------------------------------------------------------------- shrinking
def shrink(ctx, case, clause: str, budget: int = 40):
    """greedy reduction of a failing case; keeps the same failing clause (and no finding attribution change)"""
    def still(c):
        try:
            _, ev = run_case(ctx, c, report=False)
        except Exception:  # noqa: BLE001
            return False
        return any(f['clause'] == clause and f['finding'] is None for f in ev['fails'])

    cur = json.loads(json.dumps(case))
    tries = 0

    def attempt(c):
        nonlocal cur, tries
        if tries >= budget:
            return False
        tries += 1
        if still(c):
            cur = c
            return True
        return False

    changed = True
    while changed and tries < budget:
        changed = False
        # fewer trajectories
        for i in reversed(range(len(cur['trajs']))):
            if len(cur['trajs']) > 1:
                c = json.loads(json.dumps(cur))
                del c['trajs'][i]
                c['append_after'] = None
                if attempt(c):
                    changed = True
                    break
        # simpler layout
        if cur['kind'] != 'single' or cur.get('append_after'):
            c = json.loads(json.dumps(cur))
            c['kind'] = 'single'
            c['append_after'] = None
            c['file_of'] = {k: 0 for k in c['file_of']}
            if attempt(c):
                changed = True
        # fewer field sets / fields
        for fi in reversed(range(len(cur['fieldsets']))):
            c = json.loads(json.dumps(cur))
            tag = c['fieldsets'][fi]['tag']
            del c['fieldsets'][fi]
            c['file_of'].pop(tag, None)
            for t in c['trajs']:
                t['vals'].pop(tag, None)
            if c['kind'] in ('assoc', 'mapped') and not any(c['file_of'].values()):
                c['kind'] = 'single'
            if attempt(c):
                changed = True
                break
            fs = cur['fieldsets'][fi]
            for fj in reversed(range(len(fs['fields']))):
                if len(fs['fields']) <= 1:
                    break
                c = json.loads(json.dumps(cur))
                nm = c['fieldsets'][fi]['fields'][fj]['name']
                del c['fieldsets'][fi]['fields'][fj]
                for t in c['trajs']:
                    t['vals'][tag].pop(nm, None)
                if attempt(c):
                    changed = True
                    break
            if changed:
                break
        # fewer species per field
        for ti, t in enumerate(cur['trajs']):
            for tag, fsv in t['vals'].items():
                for nm, v in fsv.items():
                    if v['k'] in ('sp', 'spPts', 'spTm') and v['v'] and len(v['v']) > 0:
                        for si in reversed(range(len(v['v']))):
                            c = json.loads(json.dumps(cur))
                            del c['trajs'][ti]['vals'][tag][nm]['v'][si]
                            if attempt(c):
                                changed = True
                                break
                    if changed:
                        break
                if changed:
                    break
            if changed:
                break
        # one point
        if any(t['npoints'] > 1 for t in cur['trajs']):
            c = json.loads(json.dumps(cur))
            for t in c['trajs']:
                t['npoints'] = 1
                for fsv in t['vals'].values():
                    for v in fsv.values():
                        if v['v'] is None:
                            continue
                        if v['k'] == 'points':
                            v['v'] = v['v'][:1]
                        elif v['k'] == 'spPts':
                            v['v'] = [[s, x[:1]] for s, x in v['v']]
            if attempt(c):
                changed = True
    cur['shrunk_from'] = case.get('id')
    return cur


# ----------------------------------------------------------------------------------------------- digest stream
def gen_digest_case(rng, idx: int) -> dict:
    """self-contained digest case: definition A, a one-attribute redefinition B, a trajectory's values, the layout"""
    fs = gen_fieldset(rng, 'D')
    B = json.loads(json.dumps(fs['fields']))
    mut = ['dtype', 'shape', 'req', 'add', 'drop', 'rename', 'units', 'desc'][int(rng.integers(0, 8))]
    j = int(rng.integers(0, len(B)))
    if mut == 'dtype':
        B[j]['dtype'] = 'f4' if B[j]['dtype'] != 'f4' else 'f8'
    elif mut == 'shape':
        B[j]['shape'] = 'TM' if B[j]['shape'] != 'TM' else 'T'
        if B[j]['dtype'] == 'str':
            B[j]['dtype'] = 'f8'
    elif mut == 'req':
        B[j]['req'] = not B[j]['req']
    elif mut == 'add':
        B.append({'name': 'extra', 'shape': 'T', 'dtype': 'f8', 'req': False})
    elif mut == 'drop' and len(B) > 1:
        del B[j]
    elif mut in ('rename', 'drop'):
        mut = 'rename'
        B[j]['name'] = B[j]['name'] + 'r'
    elif mut == 'units':
        B[j]['units'] = 'other'
    else:
        B[j]['desc'] = 'other description'
    vals = {f['name']: gen_value(rng, dict(f, req=True), 2, ['CO2', 'H2O'], False, 0.0) for f in fs['fields']}
    return {'digest_case': idx, 'A': fs['fields'], 'B': B, 'mutation': mut, 'in_assoc': bool(rng.random() < 0.5), 'vals': vals,
            'perm_seed': int(rng.integers(0, 2**31))}


def run_digest_case(ctx, case, report=True) -> dict:
    """(a) model digest text == text hashed by FieldSet.digest; (b) a store written under definition A is refused when the
    registry holds B != A for the same name (one attribute changed); (c) it still opens under A."""
    from AEIC.storage import Dimensions, FieldMetadata, FieldSet
    from AEIC.trajectories import TrajectoryStore

    fails, divs = [], []
    _uid[0] += 1
    name = f'c03d{os.getpid() % 1000}x{_uid[0]}'
    mut, in_assoc = case['mutation'], case['in_assoc']

    def mk(fields):
        return {f['name']: FieldMetadata(dimensions=Dimensions.from_abbrev(f['shape']), field_type=np_type(f['dtype']),
                                         description=f.get('desc', 'd'), units=f.get('units', 'u'), required=f['req'],
                                         default=f.get('default')) for f in fields}

    A = FieldSet(name, **mk(case['A']))
    defs = [{'name': n, 'dims': m.dimensions.abbrev, 'ftype': m.field_type.__name__, 'desc': m.description, 'units': m.units,
             'req': bool(m.required), 'default': None if m.default is None else str(m.default)} for n, m in A.items()]
    order = np.random.Generator(np.random.PCG64(case['perm_seed'])).permutation(len(defs)).tolist()
    txt = ctx.driver.outs([{'op': 'c03.digest', 'name': name, 'fields': [defs[i] for i in order]}])[0]
    h = hashlib.md5(txt.encode('utf-8')).hexdigest()
    if h != A.digest:
        divs.append({'what': 'digest text', 'detail': f'md5(model text) {h} != FieldSet.digest {A.digest}; model text {txt!r}'})
    d = Path(tempfile.mkdtemp(prefix='c03d_'))
    try:
        tr = {'npoints': 2, 'base': {'seed': 1, 'flight_id': None, 'name': 'x', 'optional_phase_none': False}}
        t = build_base(tr, [name])
        for f in case['A']:
            setattr(t, f['name'], value_build(case['vals'][f['name']], f['shape'], f['dtype']))
        ap = d / 'a.nc'
        try:
            with TrajectoryStore.create(base_file=d / 'b.nc', associated_files=[(ap, [name])] if in_assoc else None) as ts:
                ts.add(t)
        except Exception as e:  # noqa: BLE001  (storing itself is the business of the main stream)
            ctx.count(f'digest setup failed/{type(e).__name__}')
            return {'fails': fails, 'divs': divs}
        saved = FieldSet.REGISTRY[name]
        try:
            FieldSet.REGISTRY[name] = FieldSet(name, registered=False, **mk(case['B']))
            try:
                with TrajectoryStore.open(base_file=d / 'b.nc', associated_files=[ap] if in_assoc else None) as ts:
                    _ = len(ts)
                fails.append({'clause': 'digest detects mismatch', 'finding': None,
                              'detail': f'store written under one definition of a field set opens under a redefinition ({mut}); in_assoc={in_assoc}'})
            except ValueError:
                ctx.count(f'digest refusal/{mut}')
            except Exception as e:  # noqa: BLE001
                divs.append({'what': 'digest refusal kind', 'detail': f'{mut}: open failed with {type(e).__name__}: {e} instead of ValueError'})
        finally:
            FieldSet.REGISTRY[name] = saved
        try:
            with TrajectoryStore.open(base_file=d / 'b.nc', associated_files=[ap] if in_assoc else None) as ts:
                _ = len(ts)
        except Exception as e:  # noqa: BLE001
            fails.append({'clause': 'reopen', 'finding': None,
                          'detail': f'store does not reopen under the unchanged definition: {type(e).__name__}: {e}'})
    finally:
        TrajectoryStore.active_in_thread = None
        shutil.rmtree(d, ignore_errors=True)
    if report:
        for f in fails:
            ctx.clause_fail(f['clause'], case, finding=None, detail=f['detail'])
        for dv in divs:
            ctx.diverge(dv['what'], case, dv['detail'])
        ctx.case(('digest', mut, tuple((f['shape'], f['dtype']) for f in case['A'])), nontrivial=True)
    return {'fails': fails, 'divs': divs}


def digest_collision_witness(ctx):
    """open finding F7: separators of the digest text are not escaped, so two different definitions can share a digest.
    A store whose associated file was written under {a, b} opens under a one-field redefinition."""
    from AEIC.storage import FieldMetadata, FieldSet
    from AEIC.trajectories import TrajectoryStore

    _uid[0] += 1
    name = f'c03col{os.getpid() % 1000}x{_uid[0]}'
    A = FieldSet(name, a=FieldMetadata(description='X'), b=FieldMetadata(description='Y'))
    B = FieldSet(name, registered=False, a=FieldMetadata(description='X,,req,nodefault;b=TP,float64,Y'))
    case = {'digest_collision': True, 'A': {'a': 'X', 'b': 'Y'}, 'B': {'a': 'X,,req,nodefault;b=TP,float64,Y'}}
    defsA = [{'name': n, 'dims': 'TP', 'ftype': 'float64', 'desc': m.description, 'units': '', 'req': True, 'default': None} for n, m in A.items()]
    defsB = [{'name': n, 'dims': 'TP', 'ftype': 'float64', 'desc': m.description, 'units': '', 'req': True, 'default': None} for n, m in B.items()]
    ta, tb = ctx.driver.outs([{'op': 'c03.digest', 'name': name, 'fields': defsA}, {'op': 'c03.digest', 'name': name, 'fields': defsB}])
    if (ta == tb) != (A.digest == B.digest):
        ctx.diverge('digest collision', case, f'model texts equal: {ta == tb}; implementation digests equal: {A.digest == B.digest}')
    if A.digest != B.digest:
        return
    d = Path(tempfile.mkdtemp(prefix='c03c_'))
    try:
        t = build_base({'npoints': 2, 'base': {'seed': 1, 'flight_id': None, 'name': 'x', 'optional_phase_none': False}}, [name])
        t.a = np.array([1.0, 2.0])
        t.b = np.array([3.0, 4.0])
        with TrajectoryStore.create(base_file=d / 'b.nc', associated_files=[(d / 'a.nc', [name])]) as ts:
            ts.add(t)
        FieldSet.REGISTRY[name] = B
        try:
            with TrajectoryStore.open(base_file=d / 'b.nc', associated_files=[d / 'a.nc']) as ts:
                _ = len(ts)
            ctx.clause_fail('digest detects mismatch', case, finding=F7,
                            detail='associated file written under fields {a, b} opens under a one-field redefinition with the same digest text')
        except ValueError:
            pass
        finally:
            FieldSet.REGISTRY[name] = A
    except Exception as e:  # noqa: BLE001
        ctx.notes.append(f'digest collision witness not evaluated: {type(e).__name__}: {e}')
    finally:
        TrajectoryStore.active_in_thread = None
        shutil.rmtree(d, ignore_errors=True)
    ctx.case(('digest-collision',), nontrivial=True)


# ----------------------------------------------------------------------------------------------- corpus / replay
def load_own_findings(ctx):
    """the integrator merges findings_C03.json into known_findings.json; standalone we read our own fragment"""
    p = ROOT / 'findings_C03.json'
    if p.exists():
        for f in json.loads(p.read_text()):
            ctx.findings.setdefault(f['id'], f)
            if f.get('status') == 'open':
                ctx.open_findings.setdefault(f['id'], f)


def corpus_cases():
    d = CORPUS_DIR / PID
    out = []
    if d.exists():
        for p in sorted(d.glob('*.json')):
            j = json.loads(p.read_text())
            out.append((p.name, j))
    return out


def replay_negation_witness(ctx, j):
    """a corpus entry may carry the Lean negation witness of a fixed defect: replay the pre-fix model piece, and the
    real (now repaired) code on the same input through the ordinary case runner."""
    w = j.get('asis_witness')
    if not w:
        return
    out = ctx.driver.outs([dict(w['op'])])[0]
    if out != w['expect']:
        ctx.diverge('as-is negation witness', w, f'pre-fix model gives {out}, recorded {w["expect"]}')


def replay(ctx, path) -> int:
    aeic_setup()
    from AEIC.config import Config

    load_own_findings(ctx)
    try:
        j = json.loads(Path(path).read_text())
        case = j.get('case') or (j.get('first') or {}).get('case') or j
        if 'digest_case' in case:
            ev = run_digest_case(ctx, case, report=False)
            print(json.dumps(ev, indent=1, ensure_ascii=False))
            print('REPLAY: ' + ('clause fails on the implementation' if ev['fails'] else 'all clauses hold'))
            return 1 if ev['fails'] else 0
        res, ev = run_case(ctx, case, report=False)
        print(json.dumps({'outcome': res['outcome'], 'exc': res.get('exc'), 'open_error': res.get('open_error'),
                          'fails': ev['fails'], 'divergences': ev['divs'][:5]}, indent=1, ensure_ascii=False))
        bad = [f for f in ev['fails'] if f['finding'] is None or f['finding'] not in ctx.open_findings]
        known = [f for f in ev['fails'] if f not in bad]
        print('REPLAY: ' + ('clause fails on the implementation' if bad else
                            ('only open known findings fail: ' + ', '.join(sorted({f['finding'] for f in known})) if known else 'all clauses hold')))
        return 1 if bad else 0
    finally:
        Config.reset()


# ----------------------------------------------------------------------------------------------- main
_SP_POOL = ['CO2', 'H2O', 'HC', 'CO', 'NOx', 'SO2', 'SO4', 'PMvol']


def mapped_species_scenarios(ctx, n: int):
    """Layout "mapping a function over an existing store" when the base file itself has a species dimension: the species
    of each file are its own; every species-indexed value must read back under the species it was written with."""
    import gc
    import tempfile

    import numpy as np
    from AEIC.storage import Dimensions, FieldMetadata, FieldSet
    from AEIC.trajectories import TrajectoryStore
    from AEIC.trajectories.trajectory import Trajectory
    from AEIC.types import Species, SpeciesValues

    uid = f'{os.getpid()}x{int(ctx.rng.integers(0, 10**6))}'
    fa = FieldSet(f'c03ms_a{uid}', a_tot=FieldMetadata(dimensions=Dimensions.from_abbrev('TS'), description='base species total', units='g'),
                  a_seg=FieldMetadata(dimensions=Dimensions.from_abbrev('TSP'), description='base species per point', units='g'))
    fb = FieldSet(f'c03ms_b{uid}', b_tot=FieldMetadata(dimensions=Dimensions.from_abbrev('TS'), description='mapped species total', units='g'),
                  b_seg=FieldMetadata(dimensions=Dimensions.from_abbrev('TSP'), description='mapped species per point', units='g'))

    class Holder:
        FIELD_SETS = [fb]

        def __init__(self, tot, seg):
            self.b_tot, self.b_seg = tot, seg

    for _ in range(n):
        rng = ctx.rng
        sa = [str(x) for x in rng.choice(_SP_POOL, size=int(rng.integers(1, 4)), replace=False)]
        sb = [str(x) for x in rng.choice(_SP_POOL, size=int(rng.integers(1, 5)), replace=False)]
        ntr = int(rng.integers(1, 4))
        d = Path(tempfile.mkdtemp(prefix='c03ms_'))
        case = {'layout': 'base(species A) + create_associated(species B)', 'species_base': sa, 'species_mapped': sb, 'ntraj': ntr}
        try:
            exp = []
            ts = TrajectoryStore.create(base_file=d / 'base.nc')
            for ti in range(ntr):
                npts = int(rng.integers(2, 6))
                t = Trajectory(npts, name=f't{ti}')
                t.add_fields(fa)
                ar = np.arange(npts, dtype=float)
                for f in ('fuel_flow', 'aircraft_mass', 'fuel_mass', 'ground_distance', 'altitude', 'flight_level', 'rate_of_climb',
                          'flight_time', 'latitude', 'longitude', 'azimuth', 'heading', 'true_airspeed', 'ground_speed'):
                    setattr(t, f, ar + ti)
                t.starting_mass, t.total_fuel_mass = 1000.0 + ti, 10.0 + ti
                t.n_climb, t.n_cruise, t.n_descent = 1, npts - 2, 1
                va = {sp: float(100 * ti + q) for q, sp in enumerate(sa)}
                t.a_tot = SpeciesValues({Species[k]: v for k, v in va.items()})
                t.a_seg = SpeciesValues({Species[k]: ar + v for k, v in va.items()})
                ts.add(t)
                vb = {sp: float(5000 + 100 * ti + q) for q, sp in enumerate(sb)}
                exp.append((npts, va, vb))
            ts.close()
            gc.collect()
            counter = [0]

            def fn(traj):
                i = counter[0]
                counter[0] += 1
                npts, _, vb = exp[i]
                ar = np.arange(npts, dtype=float)
                return Holder(SpeciesValues({Species[k]: v for k, v in vb.items()}), SpeciesValues({Species[k]: ar + v for k, v in vb.items()}))

            with TrajectoryStore.open(base_file=d / 'base.nc') as ts:
                ts.create_associated(d / 'mapped.nc', [fb.fieldset_name], fn)
            gc.collect()
            got = []
            with TrajectoryStore.open(base_file=d / 'base.nc', associated_files=[d / 'mapped.nc']) as ts:
                for i in range(len(ts)):
                    r = ts[i]
                    got.append(({sp.name: float(v) for sp, v in r.a_tot.items()}, {sp.name: float(v[0]) for sp, v in r.a_seg.items()},
                                {sp.name: float(v) for sp, v in r.b_tot.items()}, {sp.name: float(v[0]) for sp, v in r.b_seg.items()}))
            want = [(va, va, vb, vb) for _, va, vb in exp]
            ctx.case(('mapped-species', json.dumps(case, sort_keys=True)), nontrivial=set(sa) != set(sb), sample=case)
            ctx.count('layout base-species + mapped-species')
            if got != want:
                ctx.clause_fail('species_read_back_as_written', dict(case, impl=got, expected=want), finding=None,
                                detail='species-indexed values of a base file + mapped associated file do not read back under the species they were written with')
        except Exception as e:  # noqa: BLE001
            ctx.case(('mapped-species', json.dumps(case, sort_keys=True)), nontrivial=True, sample=case)
            ctx.clause_fail('species_read_back_as_written', dict(case, error=f'{type(e).__name__}: {e}'[:200]), finding=None,
                            detail='storing / mapping / reading a base file with species + a mapped associated file with other species failed')
        finally:
            TrajectoryStore.active_in_thread = None
            shutil.rmtree(d, ignore_errors=True)


def main(ctx) -> int:
    ctx.proofs()
    aeic_setup()
    from AEIC.config import Config

    load_own_findings(ctx)
    try:
        return _main(ctx)
    finally:
        try:
            Config.reset()
        except Exception:  # noqa: BLE001
            pass


def _main(ctx) -> int:
    n = ctx.scale(quick=260, thorough=4000)
    nd = ctx.scale(quick=40, thorough=400)
    # 1. corpus first
    for name, j in corpus_cases():
        replay_negation_witness(ctx, j)
        case = j.get('case')
        if case:
            case = dict(case, id=f'corpus:{name}')
            _, ev = run_case(ctx, case)
            ctx.case(('corpus', name), nontrivial=True)
            ctx.count('corpus case')
    # 2. species-name round trip of the regenerated enum order (model) vs Species[...] (implementation)
    from AEIC.types import Species

    names = [s.name for s in Species]
    out = ctx.driver.outs([{'op': 'c03.species_names', 'species': names}])[0]
    if out['names'] != names or out['back'] != names:
        ctx.diverge('species names', {'species': names}, f'model {out}')
    # 2b. base file with its own species field set + an associated file produced by create_associated whose species differ
    mapped_species_scenarios(ctx, ctx.scale(quick=6, thorough=60))
    # 3. generated cases
    first_fail = None
    streams = ['valid'] * 5 + ['species'] * 3 + ['boundary'] * 2
    diverged_cases = []
    CH = 25
    for i0 in range(0, n, CH):
      chunk = [gen_case(ctx.rng, i, streams[i % len(streams)]) for i in range(i0, min(n, i0 + CH))]
      nv0 = len(ctx.violations)
      ndv0 = len(ctx.divergences)
      ress, evs = run_batch(ctx, chunk)
      for case, res, ev in zip(chunk, ress, evs):
        stream = case['stream']
        ctx.case(case_key(case), nontrivial=not trivial(case),
                 sample={'kind': case['kind'], 'fieldsets': [[(f['shape'], f['dtype']) for f in fs['fields']] for fs in case['fieldsets']],
                         'ntraj': len(case['trajs'])})
        ctx.count(f"layout {case['kind']}" + ('+append' if case.get('append_after') else ''))
        ctx.count(f'stream {stream}')
        if res['fs_order']:
            ctx.count('fs order base-first' if res['fs_order'][0] == 'base' else 'fs order base-later')
        for o in res['outcome']:
            ctx.count(f'add {o.split(":")[0]}')
        bad = [f for f in ev['fails'] if f['finding'] is None or f['finding'] not in ctx.open_findings]
        if bad and first_fail is None:
            first_fail = (case, bad[0]['clause'])
        if ev['divs']:
            diverged_cases.append(case)
      if len(ctx.violations) >= 25:
        ctx.notes.append('stopped early: 25 clause failures collected')
        break
    # 4. digest stream
    drng = make_rng(PID, ctx.seed, 'digest')
    for i in range(nd):
        run_digest_case(ctx, gen_digest_case(drng, i))
    digest_collision_witness(ctx)
    # 5. widened search around diverging inputs when no clause failed yet
    if diverged_cases and not ctx.violations:
        srng = make_rng(PID, ctx.seed, 'search')
        tried = 0
        for base_case in diverged_cases[:5]:
            for k in range(ctx.scale(quick=30, thorough=200)):
                c = json.loads(json.dumps(base_case))
                c['id'] = f"search:{base_case['id']}:{k}"
                pool = species_pool(srng)
                for t in c['trajs']:
                    t['npoints'] = int(srng.integers(1, 7))
                    for fs in c['fieldsets']:
                        for f in fs['fields']:
                            t['vals'][fs['tag']][f['name']] = gen_value(srng, f, t['npoints'], pool, False, 0.3)
                _restrict_to_first_species(c['fieldsets'], c['trajs'])
                nv = len(ctx.violations)
                run_case(ctx, c)
                tried += 1
                if len(ctx.violations) > nv:
                    first_fail = (c, ctx.violations[nv]['clause'])
                    break
            if ctx.violations:
                break
        ctx.notes.append(f'widened search around {len(diverged_cases)} diverging case(s): {tried} extra cases')
    # 6. shrink the first violation for the replay file
    if first_fail is not None and ctx.violations and 'digest_case' not in ctx.violations[0]['case']:
        try:
            small = shrink(ctx, first_fail[0], first_fail[1], budget=ctx.scale(quick=30, thorough=80))
            _, ev = run_case(ctx, small, report=False)
            f0 = [f for f in ev['fails'] if f['finding'] is None]
            if f0:
                ctx.violations.insert(0, {'clause': f0[0]['clause'], 'case': small, 'detail': f0[0]['detail'] + ' (shrunk)'})
        except Exception as e:  # noqa: BLE001
            ctx.notes.append(f'shrinker failed: {type(e).__name__}: {e}')
    ctx.extra['how_to_replay'] = './check C03 --replay <file>'
    return ctx.finish(RULE, TRUSTED, ASSUME)
