"""Validation of the event program of `TrajectoryStore.add` (`harness/common/addprog.py` -> `Generated/AddProg.lean`) against
the running code (C07 / C10).

Real stores are driven into every refusal `add` has (wrong mode, other data fields, flight-id consistency, field sets of the files,
species outside the file's species dimension, missing required value, cache refusal of an in-memory store) and through accepted
additions (first one of a file-backed store: files created; later ones; in-memory; indexable). A line tracer on the frame of `add`
records which statements ran and where an exception left the frame. For every call the Lean semantics (`add.run` of the driver, on
the regenerated program) is run with the observed refusal and the two are compared: raised or not; the state-changing statements
that ran (unconditional ones all and in order, conditional ones a sub-sequence) — none at all for a refused call.
"""
from __future__ import annotations

import ast
import sys

from harness.common import REPO
from harness.common import addprog


def _event_spans():
    """(text, first line, last line) of every event of the program, from the same AST the translator read"""
    src = (REPO / 'src' / 'AEIC' / 'trajectories' / 'store.py').read_text()
    tree = ast.parse(src)
    cls = next(n for n in tree.body if isinstance(n, ast.ClassDef) and n.name == 'TrajectoryStore')
    fn = next(b for b in cls.body if isinstance(b, ast.FunctionDef) and b.name == 'add')
    ends = {}
    for st in ast.walk(fn):
        if isinstance(st, ast.stmt):
            ends.setdefault(st.lineno, st.end_lineno)
    return fn, ends


def check_add_program(ctx):
    from harness.store_impl import RealStore, fresh_dir, rm_dir

    sm = ctx.extra.setdefault('add_program', {'calls': 0, 'refused': {}, 'accepted': 0, 'mismatches': 0})
    try:
        evs = addprog.regenerate()
    except Exception as e:  # noqa: BLE001
        ctx.broken_obligation(f'translator (add event program): {type(e).__name__}: {e}')
        return sm
    try:
        prog = ctx.driver.outs([{'op': 'add.program'}])[0]
    except Exception as e:  # noqa: BLE001
        ctx.broken_obligation(f'driver unavailable: {e}')
        return sm
    if [int(x) for x in prog['lines']] != [ln for _, ln in evs]:
        ctx.broken_obligation('the add program in the built driver is not the one regenerated from this tree (stale build?)')
        return sm
    texts = list(prog['events'])
    fn, ends = _event_spans()
    spans = [(t, ln, ends.get(ln, ln)) for t, (_, ln) in zip(texts, evs)]
    sm['program'] = texts

    from AEIC.trajectories import TrajectoryStore

    code = getattr(TrajectoryStore.add, '__wrapped__', TrajectoryStore.add).__code__

    def traced_add(store, traj):
        lines: list[int] = []
        exc_line: list[int] = []

        depth = [0]

        def local(frame, event, arg):
            if event == 'line':
                lines.append(frame.f_lineno)
            elif event == 'exception':
                # the innermost frame of store.py reports first: that line is where the refusal comes from; the later reports
                # (the same exception passing through the callers up to `add`) are kept as fall-backs
                exc_line.append(frame.f_lineno)
            elif event == 'return' and frame.f_code is code:
                depth[0] -= 1
            return local

        def tracer(frame, event, arg):
            if event != 'call':
                return None
            if frame.f_code is code:
                depth[0] += 1
                return local
            # helpers of the class running inside `add` (a commit or a validation factored out): their lines count too
            if depth[0] > 0 and frame.f_code.co_filename == code.co_filename and frame.f_back is not None \
                    and frame.f_back.f_code is code:
                return local
            return None

        old = sys.gettrace()
        sys.settrace(tracer)
        try:
            try:
                store.add(traj)
                return lines, None, None
            except BaseException as e:  # noqa: BLE001
                if isinstance(e, (KeyboardInterrupt, SystemExit)):
                    raise
                return lines, list(exc_line), type(e).__name__
        finally:
            sys.settrace(old)

    def compare(label, lines, exc_at, exc_name):
        sm['calls'] += 1
        ctx.evaluations += 1
        ran = []                                   # events whose first line was executed, in order, once
        for ln in lines:
            for i, (t, a, b) in enumerate(spans):
                if ln == a and (not ran or ran[-1] != i) and i not in ran:
                    ran.append(i)
        muts_ran = [texts[i] for i in ran if not texts[i].startswith(('check', 'ret'))]
        case = {'scenario': label, 'exception': exc_name, 'raised_at_line': exc_at, 'state_changes_run': muts_ran}
        if exc_name is not None:
            # which event raised: the one whose statement contains the line the exception left the frame at
            where = next((i for ln in (exc_at or []) for i, (t, a, b) in enumerate(spans) if a <= ln <= b), None)
            if where is None:
                sm['mismatches'] += 1
                ctx.diverge('add event program vs TrajectoryStore.add', case, f'the call raised at line {exc_at}, which belongs to no event of the program')
                return
            t = texts[where]
            sm['refused'][t] = sm['refused'].get(t, 0) + 1
            if t.startswith('check'):
                q = {'op': 'add.run', 'fails': [int(t.split()[1])], 'insert_refused': False}
            elif t == 'insert':
                q = {'op': 'add.run', 'fails': [], 'insert_refused': True}
            else:
                sm['mismatches'] += 1
                ctx.diverge('add event program vs TrajectoryStore.add', case, f'the call raised inside `{t}`, which the program says cannot refuse')
                return
            m = ctx.driver.outs([q])[0]
            prior = [x for x in muts_ran if x != t]
            if not m['raised'] or list(m['done']) != prior:
                sm['mismatches'] += 1
                ctx.diverge('add event program vs TrajectoryStore.add', dict(case, model=m),
                            f'refused at `{t}`: the implementation had run the state changes {prior}, the program semantics gives {m["done"]} (raised={m["raised"]})')
            if prior:
                ctx.clause_fail('rejected_add_is_noop', dict(case, source='line trace of TrajectoryStore.add'), finding=None,
                                detail=f'the refused call had already executed {prior}')
        else:
            sm['accepted'] += 1
            m = ctx.driver.outs([{'op': 'add.run', 'fails': [], 'insert_refused': False}])[0]
            want = list(m['done'])
            uncond = [x for x in want if not x.endswith(' true')]
            it = iter(want)
            ordered_sub = all(any(x == y for y in it) for x in muts_ran)
            if m['raised'] or not ordered_sub or [x for x in muts_ran if x in uncond] != uncond:
                sm['mismatches'] += 1
                ctx.diverge('add event program vs TrajectoryStore.add', dict(case, model=m),
                            f'accepted call ran {muts_ran}; the program semantics gives {want} (unconditional: {uncond})')

    def scenario(label, setup_ops, traj_kw, fname='s.nc'):
        d = fresh_dir()
        try:
            rs = RealStore(d, fname)
            for op in setup_ops:
                rs.do(op)
            if rs.ts is None:
                return
            traj = rs.make(**traj_kw)
            compare(label, *traced_add(rs.ts, traj))
            rs.close()
        except Exception as e:  # noqa: BLE001
            ctx.diverge('add program scenario', {'scenario': label}, f'{type(e).__name__}: {e}')
        finally:
            rm_dir(d)

    A = lambda tag, **kw: dict(op='add', tag=tag, npts=kw.pop('npts', 12), **kw)  # noqa: E731
    create = dict(op='create', file=True, cache_mb=50)
    mem = dict(op='create', file=False, cache_mb=50)
    reps = ctx.scale(quick=2, thorough=12)
    for r in range(reps):
        n = 8 + 5 * r
        scenario('first add of a file-backed store', [create], dict(tag=1, npts=n, fid=None))
        scenario('later add', [create, A(1)], dict(tag=2, npts=n, fid=None))
        scenario('first add, indexable', [create], dict(tag=1, npts=n, fid=7))
        scenario('later add, indexable', [create, A(1, fid=3)], dict(tag=2, npts=n, fid=9))
        scenario('in-memory add', [mem], dict(tag=1, npts=n, fid=None))
        scenario('in-memory later add', [mem, A(1)], dict(tag=2, npts=n, fid=None))
        scenario('append session add', [create, A(1), dict(op='close'), dict(op='open_append', cache_mb=50)], dict(tag=2, npts=n, fid=None))
        scenario('add with extra field set', [create, A(1, extra=True)], dict(tag=2, npts=n, fid=None, extra=True))
        # refusals
        scenario('read-only session', [create, A(1), dict(op='close'), dict(op='open_read', cache_mb=50)], dict(tag=2, npts=n, fid=None))
        scenario('other data fields', [create, A(1)], dict(tag=2, npts=n, fid=None, extra=True))
        scenario('flight id into a store without', [create, A(1)], dict(tag=2, npts=n, fid=5))
        scenario('no flight id into an indexable store', [create, A(1, fid=4)], dict(tag=2, npts=n, fid=None))
        scenario('field sets of the files (append, empty cache)',
                 [create, A(1), dict(op='close'), dict(op='open_append', cache_mb=50)], dict(tag=2, npts=n, fid=None, extra=True))
        scenario('species outside the dimension', [create, A(1, extra=True)], dict(tag=2, npts=n, fid=None, extra=True, bad='species'))
        scenario('missing required value', [create, A(1)], dict(tag=2, npts=n, fid=None, bad='missing_required'))
        scenario('missing required value, first add', [create], dict(tag=1, npts=n, fid=None, bad='missing_required'))
        scenario('in-memory store would have to evict', [dict(op='create', file=False, cache_mb=0)], dict(tag=1, npts=4000, fid=None))
        scenario('in-memory store full', [dict(op='create', file=False, cache_mb=1)] + [A(k, npts=3000) for k in range(1, 6)],
                 dict(tag=9, npts=3000, fid=None))
    ctx.count('add_program_calls', sm['calls'])
    return sm
