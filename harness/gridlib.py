"""Shared pieces of the C04 / C05 checks (trajectory gridding, `AEIC/gridding/grid.py`).

* import of the real module with a stub for the uninstalled `shapely`
* length measures: exact additive stub (|dlat|+|dlon|) and the real pyproj geodesic
* case generators (structured valid stream, boundary stream, malformed stream)
* runner of the implementation, runner of the Lean model (through the compiled driver)
* correspondence comparison
* independent oracles of the property text: parametric (exact crossing parameters along the straight map line,
  binned by midpoint) and dense sampling; per-segment grouping of the implementation's output
* clause evaluation for C04 (conservation) and C05 (placement)
"""
from __future__ import annotations

import bisect
import json
import math
import os
import sys
import types
import warnings
from pathlib import Path

import numpy as np

from harness.common import REPO, f2u, u2f, fs2u, u2fs, close

PI = math.pi
TWO_PI = 2 * math.pi
SHARE_EPS = 1e-9  # pieces with a smaller share of their segment are ignored when cells are compared (float ties; crossing positions carry rounding error amplified by the slope)


# --------------------------------------------------------------------------- implementation
def load_impl():
    """Import AEIC.gridding.grid from $AEIC_REPO's working tree (shapely stubbed when not installed)."""
    try:
        import shapely.geometry  # noqa: F401
    except Exception:
        sh = types.ModuleType('shapely')
        shg = types.ModuleType('shapely.geometry')
        shg.Polygon = object
        sh.geometry = shg
        sys.modules['shapely'] = sh
        sys.modules['shapely.geometry'] = shg
    src = str(REPO / 'src')
    if src not in sys.path:
        sys.path.insert(0, src)
    warnings.filterwarnings('ignore')
    import AEIC.gridding.grid as G

    assert Path(G.__file__).resolve().is_relative_to(REPO.resolve()), f'gridding imported from {G.__file__}, not {REPO}'
    return G


class TaxiGeod:
    """Exact additive measure |dlat| + |dlon| with pyproj's `Geod.inv` call shape."""

    def inv(self, lon1, lat1, lon2, lat2, radians=True):
        d = np.abs(np.asarray(lat2, dtype=float) - np.asarray(lat1, dtype=float)) + np.abs(
            np.asarray(lon2, dtype=float) - np.asarray(lon1, dtype=float)
        )
        if d.ndim == 0:
            d = float(d)
        return None, None, d


_REAL_GEOD = None


def real_geod():
    global _REAL_GEOD
    if _REAL_GEOD is None:
        from pyproj import Geod

        _REAL_GEOD = Geod(ellps='WGS84')
    return _REAL_GEOD


def dist(mode, lat1, lon1, lat2, lon2):
    """the length measure of `mode` ('taxi' | 'geod'), vectorised, argument order lat/lon like great_circle_distance"""
    if mode == 'taxi':
        return TaxiGeod().inv(lon1, lat1, lon2, lat2)[2]
    return real_geod().inv(lon1, lat1, lon2, lat2, radians=True)[2]


def run_impl(G, case, mode, extra_state=None, extra_integ=None):
    """Run Gridder.grid_trajectory. Returns ('ok', canonical dict) or ('raise', exception type name)."""
    # the length measure is injected where the module takes it from: the geodesic object `GEOD` when the module has one,
    # and — for the exact stub measure — the function `great_circle_distance` itself (a module that computes distances
    # without a geodesic object keeps its own measure in 'geod' mode and is compared with the real geodesic)
    old = getattr(G, 'GEOD', None)
    old_gcd = getattr(G, 'great_circle_distance', None)
    if old is not None:
        G.GEOD = TaxiGeod() if mode == 'taxi' else real_geod()
    elif mode == 'taxi' and old_gcd is not None:
        G.great_circle_distance = lambda lat1, lon1, lat2, lon2: TaxiGeod().inv(lon1, lat1, lon2, lat2)[2]
    try:
        g = G.Gridder(
            np.array(case['glat'], dtype=float),
            np.array(case['glon'], dtype=float),
            None if case['galt'] is None else np.array(case['galt'], dtype=float),
            None if case['gtime'] is None else np.array(case['gtime'], dtype=float),
        )
        state = [np.array(v, dtype=float) for v in case['state']]
        if extra_state is not None:
            state = state + [np.array(extra_state, dtype=float)]
        integ = [np.array(v, dtype=float) for v in case['integ']]
        if extra_integ is not None:
            integ = integ + [np.array(extra_integ, dtype=float)]
        with warnings.catch_warnings():
            warnings.simplefilter('ignore')
            out = g.grid_trajectory(
                np.array(case['lats'], dtype=float),
                np.array(case['lons'], dtype=float),
                None if case['alts'] is None else np.array(case['alts'], dtype=float),
                None if case['times'] is None else np.array(case['times'], dtype=float),
                tuple(state),
                tuple(integ),
            )
    except Exception as e:  # noqa: BLE001
        return 'raise', type(e).__name__
    finally:
        if old is not None:
            G.GEOD = old
        if old_gcd is not None:
            G.great_circle_distance = old_gcd
    la, lo, al, ti, st, it = out

    def lst(a):
        return None if a is None else [float(x) for x in np.asarray(a, dtype=float).ravel()]

    return 'ok', {
        'lat': lst(la), 'lon': lst(lo), 'alt': lst(al), 'time': lst(ti),
        'state': [lst(v) for v in st], 'integ': [lst(v) for v in it],
    }


# --------------------------------------------------------------------------- model
def model_op(case, table=None, fix_zero=True, fix_split=True):
    op = {
        'op': 'grid.traj',
        'glat': fs2u(case['glat']), 'glon': fs2u(case['glon']),
        'galt': None if case['galt'] is None else fs2u(case['galt']),
        'gtime': None if case['gtime'] is None else fs2u(case['gtime']),
        'lats': fs2u(case['lats']), 'lons': fs2u(case['lons']),
        'alts': None if case['alts'] is None else fs2u(case['alts']),
        'times': None if case['times'] is None else fs2u(case['times']),
        'state': [fs2u(v) for v in case['state']],
        'integ': [fs2u(v) for v in case['integ']],
        'fixZero': bool(fix_zero), 'fixSplit': bool(fix_split),
    }
    if table is not None:
        op['table'] = table
    return op


def pyidx(g, i):
    """grid[index] with numpy's index semantics (−1 wraps; the code does the same lookup)"""
    return g[i]


def model_canonical(case, out):
    """Model output (cell indices) -> same canonical form as run_impl (grid coordinate of the cell's lower edge)."""
    glat, glon = case['glat'], case['glon']

    def m(g, idx):
        return None if idx is None else [float(pyidx(g, i)) for i in idx]

    return {
        'lat': m(glat, out['latI']), 'lon': m(glon, out['lonI']),
        'alt': None if out['altI'] is None else ([] if not out['altI'] else m(case['galt'], out['altI'])),
        'time': None if out['timeI'] is None else ([] if not out['timeI'] else m(case['gtime'], out['timeI'])),
        'state': [u2fs(v) for v in out['state']],
        'integ': [u2fs(v) for v in out['integ']],
    }


def geod_table(out_taxi):
    """distance table (bit patterns) for every pair of points at which the model evaluates the measure"""
    rows = {}
    a1, o1, a2, o2 = [], [], [], []
    for ch in out_taxi['chains']:
        la, lo = u2fs(ch[0]), u2fs(ch[1])
        for k in range(len(la) - 1):
            a1.append(la[k]); o1.append(lo[k]); a2.append(la[k + 1]); o2.append(lo[k + 1])
        a1.append(la[0]); o1.append(lo[0]); a2.append(la[-1]); o2.append(lo[-1])
    if not a1:
        return []
    d = real_geod().inv(np.array(o1), np.array(a1), np.array(o2), np.array(a2), radians=True)[2]
    for x1, y1, x2, y2, v in zip(a1, o1, a2, o2, d):
        rows[(f2u(x1), f2u(y1), f2u(x2), f2u(y2))] = f2u(float(v))
    return [[*k, v] for k, v in rows.items()]


def run_model(driver, cases, mode, fix_zero=True, fix_split=True):
    """Model outputs for a batch of cases (list of raw driver outputs)."""
    outs = driver.outs([model_op(c, None, fix_zero, fix_split) for c in cases])
    if mode == 'taxi':
        return outs
    tabs = [geod_table(o) for o in outs]
    return driver.outs([model_op(c, t, fix_zero, fix_split) for c, t in zip(cases, tabs)])


def compare(impl, model, rtol=1e-9, cells=True):
    """list of differences between two canonical outputs ([] = agree); cells/state exact, integrated within rtol"""
    diffs = []
    for k in (('lat', 'lon', 'alt', 'time') if cells else ()):
        a, b = impl[k], model[k]
        if (a is None) != (b is None):
            diffs.append(f'{k}: None-ness {a is None} vs {b is None}')
        elif a is not None and a != b:
            diffs.append(f'{k}: impl {a[:12]} model {b[:12]}')
    for k in (('state', 'integ') if cells else ('integ',)):
        if len(impl[k]) != len(model[k]):
            diffs.append(f'{k}: {len(impl[k])} arrays vs {len(model[k])}')
            continue
        for n, (a, b) in enumerate(zip(impl[k], model[k])):
            if len(a) != len(b):
                diffs.append(f'{k}[{n}]: length {len(a)} vs {len(b)}')
            elif k == 'state':
                if any(not (x == y or (x != x and y != y)) for x, y in zip(a, b)):
                    diffs.append(f'{k}[{n}]: impl {a[:12]} model {b[:12]}')
            else:
                scale = max([abs(x) for x in a] + [1e-300])
                if any(not close(x, y, rtol, 1e-13 * scale) for x, y in zip(a, b)):
                    diffs.append(f'{k}[{n}]: impl {a[:12]} model {b[:12]}')
    return diffs


# --------------------------------------------------------------------------- geometry helpers / oracles
def cell_of(g, x):
    """index convention of the code: searchsorted(left) − 1, i.e. g[i] < x <= g[i+1]"""
    return bisect.bisect_left(g, x) - 1


def wrap(lon):
    """into (−π, π]"""
    while lon > PI:
        lon -= TWO_PI
    while lon <= -PI:
        lon += TWO_PI
    return lon


def crossing_signs(lons):
    s = []
    for a, b in zip(lons[:-1], lons[1:]):
        d = b - a
        s.append((1 if d > 0 else -1) if abs(d) > PI else 0)
    return s


def unwrapped_end(lon0, lon1):
    """end longitude on the straight map line that takes the short way round"""
    d = lon1 - lon0
    if abs(d) > PI:
        return lon1 - TWO_PI if d > 0 else lon1 + TWO_PI
    return lon1


def oracle_segment(case, i, mode):
    """Independent oracle for segment i: ordered list of (lat cell value, lon cell value, share of the segment).

    The segment is the straight line in (lat, unwrapped lon) from point i to point i+1. Crossing parameters of every
    grid line (and of the antimeridian) are computed directly, sorted, and each piece is binned by its midpoint.
    share = piece length / segment length under the measure of `mode`, where the segment length of an
    antimeridian-crossing segment is the sum of its two parts (the code's definition).
    """
    glat, glon = case['glat'], case['glon']
    lat0, lon0 = case['lats'][i], case['lons'][i]
    lat1, lon1 = case['lats'][i + 1], case['lons'][i + 1]
    lon1u = unwrapped_end(lon0, lon1)
    crossing = lon1u != lon1
    if lat0 == lat1 and lon0 == lon1u:
        return [(pyidx(glat, cell_of(glat, lat0)), pyidx(glon, cell_of(glon, lon0)), 1.0)], False
    ts = {0.0, 1.0}
    if lat1 != lat0:
        lo, hi = min(lat0, lat1), max(lat0, lat1)
        for L in glat[bisect.bisect_right(glat, lo):bisect.bisect_left(glat, hi)]:
            ts.add((L - lat0) / (lat1 - lat0))
    t_anti = None
    if lon1u != lon0:
        lo, hi = min(lon0, lon1u), max(lon0, lon1u)
        shifts = (0.0, TWO_PI, -TWO_PI) if crossing else (0.0,)
        for sh in shifts:
            for M in glon:
                if crossing and not (-PI < M <= PI):
                    continue  # wrapped longitudes never reach a line outside (-pi, pi]
                Mu = M + sh
                if lo < Mu < hi:
                    ts.add((Mu - lon0) / (lon1u - lon0))
        if crossing:
            edge = PI if lon1u > lon0 else -PI
            t_anti = (edge - lon0) / (lon1u - lon0)
            ts.add(t_anti)
    ts = sorted(t for t in ts if 0.0 <= t <= 1.0)

    def pt(t):
        return lat0 + t * (lat1 - lat0), lon0 + t * (lon1u - lon0)

    pieces = []
    for ta, tb in zip(ts[:-1], ts[1:]):
        (la, loa), (lb, lob) = pt(ta), pt(tb)
        tm = 0.5 * (ta + tb)
        lm, lom = pt(tm)
        ci = cell_of(glat, lm)
        cj = cell_of(glon, wrap(lom))
        pieces.append([ci, cj, ta, tb, la, loa, lb, lob])
    if mode == 'taxi':
        tot = abs(lat1 - lat0) + abs(lon1u - lon0)
        res = [(pyidx(glat, p[0]), pyidx(glon, p[1]), (abs(p[6] - p[4]) + abs(p[7] - p[5])) / tot) for p in pieces]
    else:
        G = real_geod()

        def gd(a, b, c, d):
            return G.inv(wrap(b), a, wrap(d), c, radians=True)[2]

        if crossing:
            la, lo_ = pt(t_anti)
            tot = gd(lat0, lon0, la, lo_) + gd(la, lo_, lat1, lon1u)
        else:
            tot = gd(lat0, lon0, lat1, lon1u)
        res = []
        for p in pieces:
            res.append((pyidx(glat, p[0]), pyidx(glon, p[1]), gd(p[4], p[5], p[6], p[7]) / tot if tot else 1.0 / len(pieces)))
    return res, crossing


def oracle_sampled(case, i, n=240):
    """Property-text oracle: dense sampling of the straight map line, binning; per-cell share of the samples."""
    glat, glon = np.asarray(case['glat']), np.asarray(case['glon'])
    lat0, lon0 = case['lats'][i], case['lons'][i]
    lat1, lon1 = case['lats'][i + 1], case['lons'][i + 1]
    lon1u = unwrapped_end(lon0, lon1)
    t = (np.arange(n) + 0.5) / n
    la = lat0 + t * (lat1 - lat0)
    lo = lon0 + t * (lon1u - lon0)
    lo = np.where(lo > PI, lo - TWO_PI, lo)
    lo = np.where(lo <= -PI, lo + TWO_PI, lo)
    ci = np.searchsorted(glat, la) - 1
    cj = np.searchsorted(glon, lo) - 1
    shares = {}
    for a, b in zip(ci, cj):
        key = (float(glat[a]), float(glon[b]))
        shares[key] = shares.get(key, 0.0) + 1.0 / n
    return shares


def canon_pieces(pieces):
    """drop pieces below SHARE_EPS, merge consecutive pieces in the same cell"""
    res = []
    for la, lo, sh in pieces:
        if not (abs(sh) >= SHARE_EPS):
            if sh == sh:
                continue
        if res and res[-1][0] == la and res[-1][1] == lo:
            res[-1][2] += sh
        else:
            res.append([la, lo, sh])
    return res


def group_by_segment(ids, nseg):
    """piece positions per segment, from the harness-owned state variable carrying the start-point number.
    Returns None when the ids are not a non-decreasing sequence of integers in range."""
    groups = [[] for _ in range(nseg)]
    prev = -1
    for pos, v in enumerate(ids):
        if v != v or int(v) != v or not (0 <= int(v) < nseg) or int(v) < prev:
            return None
        prev = int(v)
        groups[prev].append(pos)
    return groups


# --------------------------------------------------------------------------- clauses
def fsum(xs):
    return math.fsum(xs)


def eval_clauses(G, case, mode, want=('C04', 'C05'), sampled=False):
    """Evaluate the property clauses on the implementation's output.
    Returns (failures, info); failures is a list of (property, clause, detail)."""
    fails = []
    info = {}
    n = len(case['lats'])
    nseg = n - 1
    signs = crossing_signs(case['lons'])
    ncross = sum(1 for s in signs if s)
    info['ncross'] = ncross

    def done():
        return [f for f in fails if f[0] in want], info

    st, raw = run_impl(G, case, mode)
    if st != 'ok':
        for p in ('C04', 'C05'):
            fails.append((p, 'no_exception', f'grid_trajectory raised {raw} on an in-grid trajectory'))
        return done()
    info['raw'] = raw
    nstate, ninteg = len(case['state']), len(case['integ'])
    # ---- output_lengths_match (on the raw call)
    L = len(raw['lat'])
    lens = {'lat': L, 'lon': len(raw['lon'])}
    for k in ('alt', 'time'):
        if raw[k] is not None:
            lens[k] = len(raw[k])
    for k in ('state', 'integ'):
        for j, v in enumerate(raw[k]):
            lens[f'{k}{j}'] = len(v)
    if len(set(lens.values())) > 1 or len(raw['state']) != nstate or len(raw['integ']) != ninteg:
        fails.append(('C05', 'output_lengths_match',
                      f'lengths {lens}, {len(raw["state"])}/{nstate} state, {len(raw["integ"])}/{ninteg} integ arrays'))
        # C04 only needs the integrated arrays: they must agree among themselves; totals need no further structure
        if len({len(v) for v in raw['integ']}) > 1 or len(raw['integ']) != ninteg:
            fails.append(('C04', 'total_conserved', f'integrated output arrays of different lengths {lens}'))
        else:
            totals_clause(case, raw, mode, fails)
        return done()
    if ncross <= 1:
        for k, given in (('alt', case['alts']), ('time', case['times'])):
            if (raw[k] is None) != (given is None):
                fails.append(('C05', 'output_lengths_match', f'{k} output None-ness does not follow the input'))
    if ncross > 1:
        # documented limit: more than one crossing -> empty result (nothing deposited, so nothing misplaced)
        if L != 0:
            fails.append(('C05', 'multi_crossing_empty', f'{ncross} antimeridian crossings but {L} pieces returned'))
        info['multi'] = True
        return done()
    # ---- second call with two harness-owned variables appended: state = point number, integrated = 1 per segment.
    #      It must leave every other output unchanged; it yields the grouping of pieces by segment and the shares.
    st2, tagged = run_impl(G, case, mode, extra_state=list(range(n)), extra_integ=[1.0] * nseg)
    if st2 != 'ok':
        fails.append(('C05', 'no_exception', f'grid_trajectory raised {tagged} with one more state/integrated variable'))
        fails.append(('C04', 'no_exception', f'grid_trajectory raised {tagged} with one more state/integrated variable'))
        return done()
    same = all(tagged[k] == raw[k] for k in ('lat', 'lon', 'alt', 'time')) and tagged['state'][:-1] == raw['state'] \
        and tagged['integ'][:-1] == raw['integ']
    if not same:
        fails.append(('C05', 'output_lengths_match', 'adding a state and an integrated variable changed the other outputs'))
        if tagged['integ'][:-1] != raw['integ']:
            fails.append(('C04', 'segment_conserved', 'adding a state and an integrated variable changed the integrated outputs'))
            return done()
    ids = tagged['state'][-1]
    shares = tagged['integ'][-1]
    groups = group_by_segment(ids, nseg) if len(ids) == L and len(shares) == L else None
    if groups is None:
        # the grouping of pieces by segment rests on the state-variable handling (a C05 matter); C04 then falls back
        # to the totals, which need no grouping
        fails.append(('C05', 'alt_time_state_from_start',
                      f'point-number state variable is not carried from the start points in path order: {ids[:20]}'))
        totals_clause(case, raw, mode, fails)
        tot1 = fsum(shares)
        if mode == 'taxi' and abs(tot1 - nseg) > 1e-9 * nseg:
            fails.append(('C04', 'total_conserved', f'unit variable: gridded total {tot1!r} != {nseg} segments'))
        return done()
    info['groups'] = groups
    info['pieces'] = L
    worst_excess = 0.0
    for i, pos in enumerate(groups):
        if not pos:
            fails.append(('C05', 'piece_in_one_cell', f'segment {i} produced no piece'))
            if any(v[i] != 0 for v in case['integ']):
                fails.append(('C04', 'segment_conserved', f'segment {i} produced no piece'))
            continue
        # ---- C05: altitude / time cell and state values of the segment's start point
        for k, gk, vals in (('alt', 'galt', case['alts']), ('time', 'gtime', case['times'])):
            if vals is not None and raw[k] is not None:
                exp = pyidx(case[gk], cell_of(case[gk], vals[i]))
                bad = [p for p in pos if raw[k][p] != exp]
                if bad:
                    fails.append(('C05', 'alt_time_state_from_start',
                                  f'segment {i}: {k} cell {raw[k][bad[0]]} != {exp} (cell of start value {vals[i]})'))
        for j, v in enumerate(case['state']):
            bad = [p for p in pos if raw['state'][j][p] != v[i]]
            if bad:
                fails.append(('C05', 'alt_time_state_from_start',
                              f'segment {i}: state[{j}] {raw["state"][j][bad[0]]} != start value {v[i]}'))
        # ---- oracle of the straight map line
        orc, crossing = oracle_segment(case, i, mode)
        orc_c = canon_pieces(orc)
        orc_sum = fsum(p[2] for p in orc)
        sh = [shares[p] for p in pos]
        s1 = fsum(sh)
        # ---- C04 on the unit variable and on every integrated variable of the case
        checks = [('unit', 1.0, sh)] + [(f'var {j}', v[i], [raw['integ'][j][p] for p in pos]) for j, v in enumerate(case['integ'])]
        for name, vi, got in checks:
            s = fsum(got)
            tol = 1e-9 * abs(vi) + 1e-300
            if mode == 'taxi':
                if abs(s - vi) > tol:
                    fails.append(('C04', 'segment_conserved',
                                  f'segment {i} {name}: pieces sum to {s!r}, segment value {vi!r} ({len(pos)} pieces)'))
            else:
                if (s - vi) * (1 if vi >= 0 else -1) < -tol:
                    fails.append(('C04', 'never_less', f'segment {i} {name}: pieces sum to {s!r} < segment value {vi!r}'))
                # "... and no more than the small excess caused by measuring straight map-line pieces with great-circle
                # lengths": upper bound = value * (sum of the great-circle lengths of the straight-line pieces) / segment length
                if (s - vi * orc_sum) * (1 if vi >= 0 else -1) > 1e-7 * abs(vi) + 1e-300:
                    fails.append(('C04', 'excess_bounded',
                                  f'segment {i} {name}: pieces sum to {s!r}, more than value*sum(piece lengths)/segment length = {vi * orc_sum!r}'))
            # every variable is split with the same shares
            if any(not close(g_, vi * f_, 1e-9, 1e-300 + 1e-13 * abs(vi)) for g_, f_ in zip(got, sh)):
                fails.append(('C05', 'share_eq_length_share', f'segment {i} {name}: pieces {got[:8]} are not value*share with shares {sh[:8]}'))
        worst_excess = max(worst_excess, s1 - 1)
        # ---- C05: cells in path order with the share of the segment's length lying in each
        impl_p = canon_pieces([(raw['lat'][p], raw['lon'][p], shares[p]) for p in pos])
        atol = 1e-8 if mode == "taxi" else 1e-7
        if mode == 'geod' and s1 > 0 and orc_sum > 0:
            # great-circle lengths of map-line pieces add up to a little more than the segment's great-circle length;
            # "share of the segment's length" is compared after normalising both sides by their own sums
            impl_p = [[a, b, c / s1] for a, b, c in impl_p]
            orc_c = [[a, b, c / orc_sum] for a, b, c in orc_c]
            # any reasonable way of measuring "length lying in a cell" (chords of the whole segment, of its two
            # antimeridian parts, ...) moves a share by no more than the excess itself
            atol += 2 * abs(orc_sum - 1)
        ok = len(impl_p) == len(orc_c) and all(
            a[0] == b[0] and a[1] == b[1] and abs(a[2] - b[2]) <= atol for a, b in zip(impl_p, orc_c))
        if not ok:
            same_cells = sorted((a[0], a[1]) for a in impl_p) == sorted((b[0], b[1]) for b in orc_c)
            per_i, per_o = {}, {}
            for a in impl_p:
                per_i[(a[0], a[1])] = per_i.get((a[0], a[1]), 0.0) + a[2]
            for b in orc_c:
                per_o[(b[0], b[1])] = per_o.get((b[0], b[1]), 0.0) + b[2]
            extra = [c for c in per_i if c not in per_o]
            if extra:
                clause = 'untouched_cells_get_nothing'
            elif same_cells and [(a[0], a[1]) for a in impl_p] != [(b[0], b[1]) for b in orc_c]:
                clause = 'pieces_in_path_order'
            else:
                clause = 'piece_in_one_cell'
            fails.append(('C05', clause,
                          f'segment {i}: implementation pieces (lat cell, lon cell, share) {fmt_pieces(impl_p)} != straight-line oracle {fmt_pieces(orc_c)}'))
        elif sampled and mode == 'taxi':
            smp = oracle_sampled(case, i)
            per = {}
            for a in impl_p:
                per[(a[0], a[1])] = per.get((a[0], a[1]), 0.0) + a[2]
            tol_s = (len(orc) + 2) / 240.0
            for key in set(per) | set(smp):
                if abs(per.get(key, 0.0) - smp.get(key, 0.0)) > tol_s:
                    fails.append(('C05', 'untouched_cells_get_nothing',
                                  f'segment {i}: cell {key} share {per.get(key, 0.0)} vs densely sampled {smp.get(key, 0.0)}'))
                    break
    totals_clause(case, raw, mode, fails)
    info['worst_excess'] = worst_excess
    return done()


def totals_clause(case, raw, mode, fails):
    for j, v in enumerate(case['integ']):
        tot_in, tot_out = fsum(v), fsum(raw['integ'][j])
        scale = fsum(abs(x) for x in v)
        if mode == 'taxi':
            if abs(tot_out - tot_in) > 1e-9 * scale + 1e-300:
                fails.append(('C04', 'total_conserved', f'var {j}: gridded total {tot_out!r} != trajectory total {tot_in!r}'))
        elif all(x >= 0 for x in v) and tot_out < tot_in - 1e-9 * scale:
            fails.append(('C04', 'total_conserved', f'var {j}: gridded total {tot_out!r} < trajectory total {tot_in!r}'))


def fmt_pieces(ps):
    return [(round(math.degrees(a), 6), round(math.degrees(b), 6), round(c, 9)) for a, b, c in ps[:12]]


# --------------------------------------------------------------------------- generators
def deg(x):
    return float(np.deg2rad(x))


def uniform_lines(lo, hi, step):
    return [float(x) for x in np.deg2rad(np.arange(lo, hi + step / 2, step, dtype=float))]


def uneven_lines(rng, lo, hi, n):
    xs = np.sort(rng.uniform(lo, hi, size=n))
    xs = np.concatenate(([lo], xs, [hi]))
    xs = np.unique(xs)
    return [float(x) for x in np.deg2rad(xs)]


def gen_grid(rng):
    """Returns glat, glon, is_global"""
    kind = int(rng.integers(0, 8))
    if kind == 0:
        return uniform_lines(-90, 90, 10), uniform_lines(-180, 180, 10), True
    if kind == 1:
        return uniform_lines(-90, 90, 5), uniform_lines(-180, 180, 5), True
    if kind == 2:
        return uniform_lines(-90, 90, 30), uniform_lines(-180, 180, 45), True
    if kind == 3:
        return uniform_lines(-90, 90, 2), uniform_lines(-190, 190, 2.5), True
    if kind == 4:
        return uneven_lines(rng, -90, 90, int(rng.integers(1, 12))), uneven_lines(rng, -187, 191, int(rng.integers(1, 14))), True
    if kind == 5:
        lo = float(rng.uniform(-80, 20)); w = float(rng.uniform(10, 60))
        lo2 = float(rng.uniform(-170, 10)); w2 = float(rng.uniform(10, 160))
        return uneven_lines(rng, lo, lo + w, int(rng.integers(0, 9))), uneven_lines(rng, lo2, lo2 + w2, int(rng.integers(0, 9))), False
    if kind == 6:
        lo = float(rng.integers(-8, 2)) * 10; lo2 = float(rng.integers(-17, 2)) * 10
        return uniform_lines(lo, lo + 60, 4), uniform_lines(lo2, lo2 + 150, 6), False
    return uniform_lines(-90, 90, 1), uniform_lines(-180, 180, 1), True


def gen_axis(rng):
    n = int(rng.integers(2, 9))
    xs = np.unique(np.round(np.sort(rng.uniform(0, 1, size=n)), 6))
    if len(xs) < 2:
        xs = np.array([0.0, 1.0])
    scale = float(rng.choice([1.0, 1000.0, 12000.0, 86400.0]))
    return [float(x * scale) for x in xs]


def gen_axis_values(rng, g, n):
    vals = []
    for _ in range(n):
        u = rng.random()
        if u < 0.2 and len(g) > 1:
            vals.append(float(g[int(rng.integers(1, len(g)))]))  # exactly on a line (never the lowest)
        else:
            x = float(rng.uniform(g[0], g[-1]))
            if not (g[0] < x <= g[-1]):
                x = g[-1]
            vals.append(x)
    return vals


def gen_case(rng, allow_geod=True):
    glat, glon, is_global = gen_grid(rng)
    n = int(rng.integers(2, 8))
    lat_lo = max(glat[0], deg(-89.0))
    lat_hi = min(glat[-1], deg(89.0))
    inner_lat = [x for x in glat[1:] if lat_lo < x <= lat_hi]
    # ---- longitudes in unwrapped coordinate U
    if is_global:
        c = float(rng.uniform(-PI, PI)) if rng.random() < 0.5 else float(rng.choice([PI, -PI, PI - 0.2, -PI + 0.3, 0.0]))
        w = float(rng.uniform(deg(2), deg(85)))
        ulo, uhi = c - w, c + w
        cand = []
        for M in glon[1:]:
            if -PI < M <= PI:
                for sh in (0.0, TWO_PI, -TWO_PI):
                    if ulo < M + sh < uhi:
                        cand.append(M + sh)
    else:
        eps = (glon[-1] - glon[0]) * 1e-6
        ulo, uhi = glon[0] + eps, glon[-1]
        cand = list(glon[1:])
    us = []
    for _ in range(n):
        if cand and rng.random() < 0.3:
            us.append(float(rng.choice(cand)))
        else:
            us.append(float(rng.uniform(ulo, uhi)))
    if rng.random() < 0.8:
        us.sort(reverse=bool(rng.random() < 0.5))
    # ---- latitudes
    las = []
    for k in range(n):
        u = rng.random()
        if u < 0.25 and inner_lat:
            las.append(float(rng.choice(inner_lat)))
        elif u < 0.40 and k > 0:
            las.append(las[-1])  # along a parallel
        elif u < 0.55 and k > 0:
            x = las[-1] + float(rng.normal(0, deg(1.5)))
            las.append(x if lat_lo < x <= lat_hi and abs(x - las[-1]) > 1e-5 else las[-1])
        else:
            eps = (lat_hi - lat_lo) * 1e-6
            las.append(float(rng.uniform(lat_lo + eps, lat_hi)))
    for k in range(1, n):
        u = rng.random()
        if u < 0.15:
            us[k] = us[k - 1]; las[k] = las[k - 1]  # repeated point
        elif u < 0.27:
            us[k] = us[k - 1]  # along a meridian
    lons = [wrap(u) if is_global else u for u in us]
    # exact grid values survive wrap() only when no shift was applied; re-snap shifted lattice longitudes
    if is_global:
        gl = list(glon)
        for k, lo in enumerate(lons):
            j = bisect.bisect_left(gl, lo)
            for jj in (j - 1, j):
                if 0 < jj < len(gl) and abs(gl[jj] - lo) < 1e-13:
                    lons[k] = gl[jj]
        for k in range(1, n):
            if us[k] == us[k - 1]:
                lons[k] = lons[k - 1]
    case = {'glat': glat, 'glon': glon, 'galt': None, 'gtime': None, 'lats': las, 'lons': lons,
            'alts': None, 'times': None, 'state': [], 'integ': []}
    if rng.random() < 0.6:
        case['galt'] = gen_axis(rng)
        if rng.random() < 0.85:
            case['alts'] = gen_axis_values(rng, case['galt'], n)
    if rng.random() < 0.5:
        case['gtime'] = gen_axis(rng)
        if rng.random() < 0.85:
            case['times'] = gen_axis_values(rng, case['gtime'], n)
    for _ in range(int(rng.integers(0, 4))):
        case['state'].append([float(x) for x in rng.normal(0, 100, size=n)])
    ni = int(rng.choice([0, 1, 1, 1, 2, 3]))
    for _ in range(ni):
        v = rng.exponential(10.0, size=n - 1)
        v[rng.random(n - 1) < 0.08] = 0.0
        case['integ'].append([float(x) for x in v])
    case['geod_ok'] = bool(allow_geod and all(abs(x) <= deg(89.5) for x in las))
    return case


def corner_case(rng):
    """runs through grid corners along the four diagonals of a uniform grid, plus knight moves"""
    step = float(rng.choice([10.0, 5.0, 15.0]))
    glat = uniform_lines(-90, 90, step)
    glon = uniform_lines(-180, 180, step)
    n = int(rng.integers(2, 6))
    i = int(rng.integers(3, len(glat) - 3)); j = int(rng.integers(3, len(glon) - 3))
    las, los = [glat[i]], [glon[j]]
    for _ in range(n - 1):
        di, dj = [(1, 1), (1, -1), (-1, 1), (-1, -1), (2, 1), (-1, 2), (0, 2), (2, 0), (-3, -3)][int(rng.integers(0, 9))]
        k = int(rng.integers(1, 3))
        i = min(max(i + di * k, 1), len(glat) - 2); j = min(max(j + dj * k, 1), len(glon) - 2)
        las.append(glat[i]); los.append(glon[j])
    if rng.random() < 0.5:
        # same geometry shifted off the lattice by half a cell in one coordinate
        h = deg(step) / 2
        las = [x + h for x in las]
    return {'glat': glat, 'glon': glon, 'galt': None, 'gtime': None, 'lats': las, 'lons': los, 'alts': None,
            'times': None, 'state': [], 'integ': [[float(x) for x in rng.exponential(5.0, size=n - 1)]], 'geod_ok': True}


def boundary_cases():
    """hand-built special geometries (degrees), 10-degree global grid unless stated"""
    glat = uniform_lines(-90, 90, 10)
    glon = uniform_lines(-180, 180, 10)
    glon_ext = uniform_lines(-190, 190, 10)

    def mk(pts, integ=None, glon_=None, name=''):
        la = [deg(p[0]) for p in pts]
        lo = [deg(p[1]) for p in pts]
        n = len(pts)
        return {'name': name, 'glat': glat, 'glon': glon_ or glon, 'galt': [0.0, 1000.0, 5000.0, 20000.0], 'gtime': None,
                'lats': la, 'lons': lo, 'alts': [10.0 + 900.0 * k for k in range(n)], 'times': None,
                'state': [[float(k + 1) for k in range(n)]],
                'integ': [integ or [float(5 + 2 * k) for k in range(n - 1)]], 'geod_ok': True}

    cs = [
        mk([(5, 3), (5, 3), (12, 25), (33, 14)], name='repeated first point'),
        mk([(5, 3), (12, 25), (12, 25), (12, 25), (33, 14)], name='point repeated twice'),
        mk([(5, 3), (5, 3)], name='only a repeated point'),
        mk([(20, 30), (20, 30), (40, 50)], name='repeated point on a corner'),
        mk([(5, 3), (7, 8)], name='inside one cell'),
        mk([(5, 3), (47, 88)], name='many lines'),
        mk([(10, 10), (30, 30)], name='diagonal through corners NE'),
        mk([(30, 30), (10, 10)], name='diagonal through corners SW'),
        mk([(10, 30), (30, 10)], name='diagonal through corners NW'),
        mk([(30, 10), (10, 30)], name='diagonal through corners SE'),
        mk([(20, 3), (20, 47)], name='along a parallel that is a grid line'),
        mk([(25, 47), (25, 3)], name='along a parallel westward'),
        mk([(3, 20), (47, 20)], name='along a meridian that is a grid line'),
        mk([(47, 25), (3, 25)], name='along a meridian southward'),
        mk([(20, 20), (35, 45)], name='start on a corner'),
        mk([(35, 45), (20, 20)], name='end on a corner'),
        mk([(5, 175), (25, -175)], name='antimeridian eastward changing latitude band'),
        mk([(25, -175), (5, 175)], name='antimeridian westward changing latitude band'),
        mk([(5, 175), (5, -175)], name='antimeridian along a parallel'),
        mk([(5, 150), (8, 175), (44, -165), (50, -150)], name='antimeridian multi-segment'),
        mk([(5, 175), (25, -175)], glon_=glon_ext, name='antimeridian, grid extending beyond 180'),
        mk([(12, 180), (25, -175)], name='start exactly on the antimeridian'),
        mk([(12, 175), (25, 180), (31, -170)], name='point exactly on the antimeridian'),
        mk([(-33, -178), (-12, 171), (-12, 171)], name='westward crossing then repeated point'),
        # a repeated point written once as +180 and once as -180: a zero-length segment that crosses the antimeridian
        mk([(5, 179), (5, 180), (5, -180), (6, -179)], name='repeated point on the antimeridian (+180 / -180)'),
        mk([(5, -179), (5, -180), (5, 180), (6, 179)], name='repeated point on the antimeridian (-180 / +180)'),
        mk([(12, 180), (12, -180)], name='only a repeated point on the antimeridian'),
        mk([(12, -180), (12, -180), (20, -170)], name='repeated point on the lowest longitude line of the grid'),
    ]
    # very short legs cut by a grid line (ground movement, position jitter): 10 m, 1 m and 0.2 m zig-zags over the 10 deg E line
    for metres in (10.0, 1.0, 0.2):
        dd = metres / 111_000.0
        pts = [(5.0 + 0.7 * k * dd, 10.0 + (dd if k % 2 else -dd) * 0.7) for k in range(8)]
        cs.append(mk(pts, name=f'{metres} m legs across a grid line'))
    return cs


def malformed_case(rng):
    """more than one antimeridian crossing: documented limit, the code returns empty arrays"""
    glat = uniform_lines(-90, 90, 10)
    glon = uniform_lines(-180, 180, 10)
    n = int(rng.integers(3, 7))
    las = [float(rng.uniform(deg(-80), deg(80))) for _ in range(n)]
    lons = []
    side = 1
    for k in range(n):
        lons.append(side * float(rng.uniform(deg(150), deg(179))))
        if k < 2 or rng.random() < 0.6:
            side = -side
    c = {'glat': glat, 'glon': glon, 'galt': None, 'gtime': None, 'lats': las, 'lons': lons, 'alts': None, 'times': None,
         'state': [[float(k) for k in range(n)]] if rng.random() < 0.5 else [],
         'integ': [[1.0] * (n - 1)], 'geod_ok': True}
    if rng.random() < 0.5:
        c['galt'] = [0.0, 10.0, 20.0]
        c['alts'] = [float(rng.uniform(1, 19)) for _ in range(n)]
    return c


def case_key(case):
    return json.dumps([case['glat'][:3], len(case['glat']), case['lats'], case['lons'], len(case['state']), len(case['integ'])])


def describe(case, info=None):
    """branch labels for the evidence histogram"""
    labels = []
    lats, lons = case['lats'], case['lons']
    signs = crossing_signs(lons)
    nc = sum(1 for s in signs if s)
    labels.append(f'crossings={min(nc, 2)}')
    for i in range(len(lats) - 1):
        if lats[i] == lats[i + 1] and lons[i] == lons[i + 1]:
            labels.append('seg:zero-length')
        elif lats[i] == lats[i + 1]:
            labels.append('seg:parallel')
        elif lons[i] == lons[i + 1]:
            labels.append('seg:meridian')
        else:
            labels.append('seg:westward' if unwrapped_end(lons[i], lons[i + 1]) < lons[i] else 'seg:eastward')
            labels.append('seg:southward' if lats[i + 1] < lats[i] else 'seg:northward')
    gl, go = set(case['glat']), set(case['glon'])
    if any(x in gl for x in lats):
        labels.append('pt:on-lat-line')
    if any(x in go for x in lons):
        labels.append('pt:on-lon-line')
    if any(x in gl and y in go for x, y in zip(lats, lons)):
        labels.append('pt:on-corner')
    labels.append(f'state={len(case["state"])}')
    labels.append(f'integ={len(case["integ"])}')
    labels.append('alt' if case['alts'] is not None else 'no-alt')
    labels.append('time' if case['times'] is not None else 'no-time')
    return sorted(set(labels))


def sub_case(case, i, j):
    """the trajectory restricted to points i..j (inclusive)"""
    c = dict(case)
    c['lats'] = case['lats'][i:j + 1]
    c['lons'] = case['lons'][i:j + 1]
    c['alts'] = None if case['alts'] is None else case['alts'][i:j + 1]
    c['times'] = None if case['times'] is None else case['times'][i:j + 1]
    c['state'] = [v[i:j + 1] for v in case['state']]
    c['integ'] = [v[i:j] for v in case['integ']]
    return c


def shrink(G, case, mode, pid, clause):
    """smallest sub-trajectory (then fewest variables) on which the same clause of `pid` still fails"""
    def failing(c):
        try:
            f, _ = eval_clauses(G, c, mode, want=(pid,))
        except Exception:  # noqa: BLE001
            return False
        return any(x[1] == clause for x in f)

    best = case
    n = len(case['lats'])
    done = False
    for width in range(1, n):
        for i in range(0, n - width):
            c = sub_case(case, i, i + width)
            if failing(c):
                best = c
                done = True
                break
        if done:
            break
    for drop in ('state', 'alts', 'times'):
        c = dict(best)
        c[drop] = [] if drop == 'state' else None
        if failing(c):
            best = c
    if len(best['integ']) > 1:
        for j in range(len(best['integ'])):
            c = dict(best)
            c['integ'] = [best['integ'][j]]
            if failing(c):
                best = c
                break
    return best


def public_case(case):
    """JSON form kept in replay / corpus files (floats round-trip through repr); degrees added for the reader"""
    c = {k: case[k] for k in ('glat', 'glon', 'galt', 'gtime', 'lats', 'lons', 'alts', 'times', 'state', 'integ')}
    if 'name' in case:
        c['name'] = case['name']
    c['lats_deg'] = [round(math.degrees(x), 9) for x in case['lats']]
    c['lons_deg'] = [round(math.degrees(x), 9) for x in case['lons']]
    return c


# --------------------------------------------------------------------------- the check
RULE = ('trajectories of 2-7 points on generated grids (uniform 1/2/5/10/30 deg global grids, grids reaching beyond +-180 deg, '
        'uneven and regional grids; optional altitude/time axes; 0-3 state and 0-3 integrated variables). Points are drawn '
        'inside the grid hull as random interior points, points on latitude/longitude lines or corners, repeats of the '
        'previous point, steps along a parallel or a meridian, short steps inside a cell, in eastward or westward order, '
        'with zero or one antimeridian crossing (more than one: malformed stream, empty result expected); plus runs through '
        'grid corners along diagonals and 24 hand-built special geometries. A case is non-trivial when it has at least one '
        'segment that crosses a grid line, is zero-length, or crosses the antimeridian; distinct = distinct (grid, points, variable counts).')
TRUSTED = ['Lean 4.33 kernel', 'axioms propext/Classical.choice/Quot.sound', 'Mathlib v4.33',
           'correspondence harness harness/gridlib.py (generators, shapely stub, exact stub measure, oracles)',
           'numpy searchsorted/sort/repeat/delete semantics as re-implemented in lean/AeicModel/Grid.lean (validated by the correspondence)',
           'pyproj Geod.inv (enters the model as the parameter d; assumed laws are theorem hypotheses)']
ASSUME = ['IEEE rounding is not modelled: theorems are over the reals; implementation vs Float model compared exactly for cells/state and with rtol 1e-9 for integrated values',
          'all trajectory points lie inside the grid hull (g[0] < x <= g[-1]); the antimeridian points inserted by the code may sit on the hull edge',
          'at most one antimeridian crossing (documented limit of the code; more gives an empty result, which is modelled and checked)',
          'pieces whose share of their segment is below 1e-9 are ignored when cells are compared (order of coincident crossings at grid corners depends on rounding)']


def is_nontrivial(case):
    labs = describe(case)
    if 'crossings=1' in labs or 'seg:zero-length' in labs:
        return True
    glat, glon = case['glat'], case['glon']
    for i in range(len(case['lats']) - 1):
        if cell_of(glat, case['lats'][i]) != cell_of(glat, case['lats'][i + 1]) or \
                cell_of(glon, case['lons'][i]) != cell_of(glon, case['lons'][i + 1]):
            return True
    return False


def widen(rng, case):
    """inputs around a diverging case: every single segment, every prefix, and jittered copies"""
    n = len(case['lats'])
    out = [sub_case(case, i, i + 1) for i in range(n - 1)]
    out += [sub_case(case, 0, j) for j in range(2, n - 1)]
    for _ in range(6):
        c = json.loads(json.dumps({k: case[k] for k in ('glat', 'glon', 'galt', 'gtime', 'lats', 'lons', 'alts', 'times', 'state', 'integ')}))
        for k in range(n):
            if rng.random() < 0.5:
                x = c['lats'][k] + float(rng.normal(0, 1e-3))
                if case['glat'][0] < x <= case['glat'][-1]:
                    c['lats'][k] = x
            if rng.random() < 0.5:
                y = c['lons'][k] + float(rng.normal(0, 1e-3))
                if case['glon'][0] < y <= case['glon'][-1] and -PI < y <= PI:
                    c['lons'][k] = y
        out.append(c)
    return out


FINDING_LOWEST_LINE = 'C05-zero-length-piece-on-lowest-grid-line'


def lowest_line_finding(pid, case, clause, detail):
    """The open finding `C05-zero-length-piece-on-lowest-grid-line`, and nothing else: a placement clause of C05 that fails on a
    segment without length (a repeated point, or +pi / -pi of the same point) one of whose end points lies exactly on the lowest
    latitude or longitude line of the grid — the implementation reports grid index -1 there."""
    import re

    if pid != 'C05' or clause not in ('untouched_cells_get_nothing', 'piece_in_one_cell', 'pieces_in_path_order', 'reported_cell_is_entered'):
        return None
    m = re.match(r'segment (\d+)', detail or '')
    if not m:
        return None
    i = int(m.group(1))
    la, lo = case['lats'], case['lons']
    if i + 1 >= len(la):
        return None
    same_lat = la[i] == la[i + 1]
    dlon = abs(lo[i + 1] - lo[i])
    same_lon = dlon == 0.0 or abs(dlon - TWO_PI) < 1e-15
    if not (same_lat and same_lon):
        return None
    on_low = la[i] == case['glat'][0] or lo[i] == case['glon'][0] or lo[i + 1] == case['glon'][0]
    return FINDING_LOWEST_LINE if on_low else None


def check_batch(ctx, G, pid, cases, mode, tag, sampled_every=0, state=None):
    """correspondence + clauses for a batch of cases under one measure"""
    if not cases:
        return
    try:
        asis = os.environ.get('VERIF_GRID_RULES', 'repaired') == 'asis'  # development aid: compare against the as-is variants
        mouts = run_model(ctx.driver, cases, mode, fix_zero=not asis, fix_split=not asis)
    except Exception as e:  # noqa: BLE001
        ctx.broken_obligation(f'model driver failed on batch {tag}/{mode}: {type(e).__name__}: {str(e)[:300]}')
        mouts = [None] * len(cases)
    for k, (case, mo) in enumerate(zip(cases, mouts)):
        sampled = bool(sampled_every) and k % sampled_every == 0
        fails, info = eval_clauses(G, case, mode, want=(pid,), sampled=sampled)
        for lab in describe(case):
            ctx.count(f'{mode}:{lab}')
        ctx.count(f'{mode}:cases')
        if 'worst_excess' in info and mode == 'geod':
            state['worst_excess'] = max(state.get('worst_excess', 0.0), info['worst_excess'])
        seen = set()
        for (_, clause, detail) in fails:
            if clause in seen:
                continue
            seen.add(clause)
            small = case
            if state['shrunk'] < 12:
                state['shrunk'] += 1
                small = shrink(G, case, mode, pid, clause)
                f2, _ = eval_clauses(G, small, mode, want=(pid,))
                d2 = [x[2] for x in f2 if x[1] == clause]
                detail = d2[0] if d2 else detail
            ctx.clause_fail(clause, {'mode': mode, 'stream': tag, 'case': public_case(small)},
                            finding=lowest_line_finding(pid, small, clause, detail), detail=detail)
        # ---- correspondence
        if mo is not None and 'raw' in info:
            # C04 is about the integrated arrays only; C05 about everything
            diffs = compare(info['raw'], model_canonical(case, mo), cells=(pid != 'C04'))
            if diffs:
                ctx.diverge(f'Gridder.grid_trajectory vs Grid.gridTraj ({mode} measure)',
                            {'mode': mode, 'stream': tag, 'case': public_case(case)}, '; '.join(diffs)[:600])
                if not fails and state['widened'] < 20:
                    state['widened'] += 1
                    for c2 in widen(ctx.rng, case):
                        f2, _ = eval_clauses(G, c2, mode, want=(pid,))
                        for (_, clause, detail) in f2[:1]:
                            ctx.clause_fail(clause, {'mode': mode, 'stream': tag + '/widened', 'case': public_case(c2)}, finding=None, detail=detail)
            else:
                ctx.count(f'{mode}:agree')
                if pid != 'C04' and 'groups' in info and mo['counts'] != [len(g) for g in info['groups']] and not mo.get('ncross'):
                    ctx.diverge('pieces per segment (count_subsegments)', {'mode': mode, 'case': public_case(case)},
                                f"impl {[len(g) for g in info['groups']]} model {mo['counts']}")
        ctx.case(case_key(case) + mode, nontrivial=is_nontrivial(case),
                 sample={'mode': mode, 'lats_deg': [round(math.degrees(x), 4) for x in case['lats']],
                         'lons_deg': [round(math.degrees(x), 4) for x in case['lons']], 'labels': describe(case)})


# --------------------------------------------------------------------------- regenerated kernels of grid.py (fourth generation)
GRID_KERNEL_FUNCS = {
    '_dateline_crossing_latitude': ('grid_cross_lat',),
    '_calculate_segment_lengths': ('grid_seg_len_first', 'grid_seg_len_second', 'grid_seg_len_total'),
    '_dateline_split_first_segment': tuple(f'grid_split_first_{t}' for t in ('lats', 'lons', 'alts', 'times', 'state', 'integ')),
    '_dateline_split_second_segment': tuple(f'grid_split_second_{t}' for t in ('lats', 'lons', 'alts', 'times', 'state', 'integ')),
    '_cell_idxs_touched_by_trajectory_with_state_and_integrated_vars': ('grid_fractions', 'grid_integ_values'),
    'crosses_dateline': ('grid_cross_sign',),
}


def check_grid_kernels(ctx, G, cases):
    """Validates the definitions regenerated from grid.py (`Kern.grid_*`, pykern fourth generation) against the running code: the
    real `Gridder.grid_trajectory` is run on generated trajectories (both length measures) under a tracer that copies, for every
    call of the functions the kernels were read from, the arguments at the call and the locals / the result at the return; the
    calls of `great_circle_distance` made meanwhile are recorded as the table that stands for the uninterpreted `dist` of the
    kernels; the generated definitions are run by the driver on the same bit patterns and compared element by element."""
    from harness.common import pykern

    g, errors = pykern.translate_all()
    names = [n for ns in GRID_KERNEL_FUNCS.values() for n in ns]
    specs = {k.name: k for k in pykern.SYM_KERNELS if k.name in names}
    sm = ctx.extra.setdefault('kernels', {}).setdefault('grid', {'kernels': 0, 'points': 0, 'elements': 0, 'mismatches': 0,
                                                                 'untranslatable': {}, 'calls': {}})
    for n in names:
        if n in errors:
            sm['untranslatable'][n] = errors[n]
            ctx.broken_obligation(f'kernel translator: {errors[n]}')
    sm['stale'] = sorted(n for n in pykern.LAST_STALE if n in names)
    try:
        present = set(ctx.driver.outs([{'op': 'kern.names'}])[0]['present'])
    except Exception as e:  # noqa: BLE001
        ctx.broken_obligation(f'driver unavailable: {e}')
        return sm
    usable = set()
    for n in names:
        if n in specs and n not in errors:
            if n in present:
                usable.add(n)
            else:
                ctx.broken_obligation(f'kernel {n} missing from the built driver (stale build?)')
    codes = {}
    for fname in GRID_KERNEL_FUNCS:
        fn = getattr(G.Gridder, fname, None) or getattr(G, fname, None)
        if fn is None:
            if not all(n in pykern.LAST_STALE or n in errors for n in GRID_KERNEL_FUNCS[fname]):
                ctx.diverge('kernel scenario', {'function': fname}, 'function to observe no longer exists')
            continue
        codes[getattr(fn, '__wrapped__', fn).__code__] = fname
    gcd_code = getattr(G, 'great_circle_distance', None)
    gcd_code = gcd_code.__code__ if gcd_code is not None else None
    grid_file = G.__file__
    queue: list = []
    seen: set = set()

    def arr(a):
        return [f2u(float(t)) for t in np.asarray(a, dtype=float).ravel()]

    def run(name, x=(), v=(), nn=(), want=None, table=None):
        if name not in usable or want is None:
            return
        w = [float(t) for t in np.asarray(want, dtype=float).ravel()]
        if pykern.is_vector_kernel(specs[name], g):
            op = {'op': 'kern.evalv', 'name': name, 'attrs': {}, 'vattrs': ({'$fn:great_circle_distance': table} if table is not None else {}),
                  'pts': [{'x': [f2u(float(t)) for t in x], 'b': [], 'v': [arr(a) for a in v], 'n': [int(t) for t in nn]}]}
            queue.append((name, op, w))
        else:
            pts = [{'x': [f2u(float(t)) for t in row], 'b': []} for row in x]
            queue.append((name, {'op': 'kern.eval', 'name': name, 'attrs': {}, 'pts': pts}, w))

    def flush():
        if not queue:
            return
        outs = ctx.driver.outs([q[1] for q in queue])
        for (name, op, w), o in zip(queue, outs):
            have = [u2f(t) for t in o[0]] if (o and isinstance(o[0], list)) else [u2f(t) for t in o]
            seen.add(name)
            sm['points'] += 1
            sm['elements'] += len(w)
            ctx.evaluations += 1
            if not (len(w) == len(have) and all(close(a, c, 1e-9, 1e-300) or (a != a and c != c) for a, c in zip(w, have))):
                sm['mismatches'] += 1
                if sm['mismatches'] <= 5:
                    ctx.diverge(f'kernel {name} (translation of gridding/grid.py:{specs[name].func}) vs implementation',
                                {'kernel': name, 'op': op}, f'implementation {w[:8]!r} vs translated kernel {have[:8]!r}')
        queue.clear()

    def snap(loc):
        out = {}
        for k_, v_ in loc.items():
            if isinstance(v_, np.ndarray):
                out[k_] = np.array(v_, copy=True)
            elif isinstance(v_, tuple) and all(isinstance(t, np.ndarray) for t in v_):
                out[k_] = tuple(np.array(t, copy=True) for t in v_)
            elif v_ is None or isinstance(v_, (int, float, np.integer, np.floating)):
                out[k_] = v_
        return out

    for case, mode in cases:
        obs: list = []
        table: list = []
        pending: dict = {}
        inner: dict = {}

        def local(frame, event, arg):
            if event == 'return':
                fname = codes.get(frame.f_code)
                if fname is not None and arg is not None:
                    loc = dict(inner.pop(id(frame), {}))
                    loc.update(snap(frame.f_locals))
                    obs.append((fname, pending.pop(id(frame), {}), loc, arg))
                elif fname is None and frame.f_code is not gcd_code and arg is not None:
                    # a helper of grid.py running inside an observed function (the share arithmetic extracted into a method,
                    # say): its locals are visible to the observation of the enclosing call under their own names
                    f = frame.f_back
                    while f is not None and f.f_code not in codes:
                        f = f.f_back
                    if f is not None:
                        inner.setdefault(id(f), {}).update(snap(frame.f_locals))
                elif frame.f_code is gcd_code and arg is not None:
                    a = [frame.f_locals.get(n_) for n_ in ('lat1', 'lon1', 'lat2', 'lon2')]
                    if all(t is not None and np.ndim(t) == 0 for t in a) and np.ndim(arg) == 0:
                        table.extend([f2u(float(t)) for t in a] + [f2u(float(arg))])
            return local

        def tracer(frame, event, arg):
            if event == 'call' and (frame.f_code in codes or frame.f_code is gcd_code):
                if frame.f_code in codes:
                    pending[id(frame)] = snap(frame.f_locals)
                return local
            if event == 'call' and frame.f_code.co_filename == grid_file:
                return local
            return None

        old = sys.gettrace()
        sys.settrace(tracer)
        try:
            with np.errstate(all='ignore'):
                run_impl(G, case, mode)
        finally:
            sys.settrace(old)
        for fname, a, loc, ret in obs:
            sm['calls'][fname] = sm['calls'].get(fname, 0) + 1
            try:
                if fname == 'crosses_dateline':
                    l1, l2 = np.asarray(a['lon1'], dtype=float).ravel(), np.asarray(a['lon2'], dtype=float).ravel()
                    if len(l1):
                        run('grid_cross_sign', x=list(zip(l1, l2)), want=ret)
                    continue
                if fname == '_cell_idxs_touched_by_trajectory_with_state_and_integrated_vars':
                    if not a.get('integrated_variables'):
                        continue
                    cnt = np.asarray(loc['count_subsegments'])
                    run('grid_fractions', v=[loc['subsegment_distances'], loc['segment_distances_repeated'], np.repeat(cnt, cnt)],
                        want=loc['subsegment_distance_fractions'])
                    for j, var in enumerate(a['integrated_variables']):
                        run('grid_integ_values', v=[np.repeat(var, cnt), loc['subsegment_distance_fractions']], want=ret[5][j])
                    continue
                idx, sign = int(a['dateline_crossing_idx']), float(a['dateline_crossing_sign'])
                if fname == '_dateline_crossing_latitude':
                    run('grid_cross_lat', x=[sign], v=[a['lats'], a['lons']], nn=[idx], want=ret)
                elif fname == '_calculate_segment_lengths':
                    for i, t in enumerate(('first', 'second', 'total')):
                        run(f'grid_seg_len_{t}', x=[sign], v=[a['lats'], a['lons']], nn=[idx], want=ret[i], table=list(table))
                else:
                    part = 'first' if 'first' in fname else 'second'
                    xs = [sign, float(a[f'{part}_segment_length']), float(a['total_segment_length'])]
                    base = [a['lats'], a['lons'], a['altitudes'] if a['altitudes'] is not None else [], a['times'] if a['times'] is not None else []]
                    run(f'grid_split_{part}_lats', x=xs, v=base + [[], []], nn=[idx], want=ret[0])
                    run(f'grid_split_{part}_lons', x=xs, v=base + [[], []], nn=[idx], want=ret[1])
                    if a['altitudes'] is not None:
                        run(f'grid_split_{part}_alts', x=xs, v=base + [[], []], nn=[idx], want=ret[2])
                    if a['times'] is not None:
                        run(f'grid_split_{part}_times', x=xs, v=base + [[], []], nn=[idx], want=ret[3])
                    for j, var in enumerate(a['state_variables']):
                        run(f'grid_split_{part}_state', x=xs, v=base + [var, []], nn=[idx], want=ret[4][j])
                    for j, var in enumerate(a['integrated_variables']):
                        run(f'grid_split_{part}_integ', x=xs, v=base + [[], var], nn=[idx], want=ret[5][j])
            except (KeyError, IndexError, TypeError, ValueError) as e:
                ks = GRID_KERNEL_FUNCS[fname]
                if all(n in pykern.LAST_STALE for n in ks):
                    ctx.count('source_tie_stale_unobservable:' + fname)
                else:
                    ctx.diverge(f'kernels of {fname}', {'function': fname}, f'call not observable: {type(e).__name__}: {e}')
        if len(queue) > 400:
            flush()
    flush()
    sm['kernels'] = len(seen)
    for n in sorted(usable - seen):
        if n not in pykern.LAST_STALE:
            ctx.notes.append(f'grid kernel {n} was not exercised by this run')
    ctx.count('grid_kernel_points', sm['points'])
    return sm


def load_corpus_case(path):
    d = json.loads(Path(path).read_text())
    if 'first' in d:  # a replay file written by ctx.finish
        d = d['first']['case']
    mode = d.get('mode', 'taxi')
    case = d['case'] if 'case' in d else d
    case = {k: case.get(k) for k in ('glat', 'glon', 'galt', 'gtime', 'lats', 'lons', 'alts', 'times', 'state', 'integ')}
    case['state'] = case['state'] or []
    case['integ'] = case['integ'] or []
    case['geod_ok'] = True
    return mode, case


def run_property(ctx, pid):
    from harness.common import CORPUS_DIR

    ctx.proofs()
    G = load_impl()
    state = {'shrunk': 0, 'widened': 0}
    try:
        pim = u2f(ctx.driver.outs([{'op': 'grid.pi'}])[0])
        if pim != math.pi:
            ctx.broken_obligation(f'model pi {pim!r} != math.pi')
    except Exception as e:  # noqa: BLE001
        ctx.broken_obligation(f'driver unavailable: {e}')
    rng = ctx.rng
    # 1. corpus first
    corpus = []
    for p in sorted((CORPUS_DIR / pid).glob('*.json')):
        mode, case = load_corpus_case(p)
        corpus.append((mode, case))
    for mode in ('taxi', 'geod'):
        check_batch(ctx, G, pid, [c for m, c in corpus if m == mode], mode, 'corpus', state=state)
    # 2. boundary stream (both measures)
    b = boundary_cases()
    check_batch(ctx, G, pid, b, 'taxi', 'boundary', sampled_every=1, state=state)
    check_batch(ctx, G, pid, b, 'geod', 'boundary', state=state)
    # 3. structured valid stream
    n = ctx.scale(quick=1500, thorough=30000)
    gen = [gen_case(rng) for _ in range(n)]
    corners = [corner_case(rng) for _ in range(n // 5)]
    chunk = 2000
    for k in range(0, len(gen), chunk):
        part = gen[k:k + chunk]
        check_batch(ctx, G, pid, part, 'taxi', 'generated', sampled_every=4, state=state)
        check_batch(ctx, G, pid, [c for c in part[::3] if c['geod_ok']], 'geod', 'generated', state=state)
    check_batch(ctx, G, pid, corners, 'taxi', 'corners', sampled_every=2, state=state)
    check_batch(ctx, G, pid, corners[::2], 'geod', 'corners', state=state)
    # 3b. the definitions regenerated from grid.py vs the running code (source tie of the theorems `src_*`)
    kc = [(c, 'taxi') for c in boundary_cases()] + [(c, 'geod') for c in boundary_cases()]
    kc += [(c, 'taxi' if i % 2 else ('geod' if c['geod_ok'] else 'taxi')) for i, c in enumerate(gen[: ctx.scale(quick=160, thorough=1500)])]
    kc += [(c, 'taxi') for c in corners[: ctx.scale(quick=40, thorough=300)]]
    check_grid_kernels(ctx, G, kc)
    # 4. malformed stream
    mal = [malformed_case(rng) for _ in range(max(20, n // 20))]
    check_batch(ctx, G, pid, mal, 'taxi', 'malformed', state=state)
    ctx.extra['worst_relative_excess_geodesic'] = state.get('worst_excess', 0.0)
    ctx.notes.append('excess of gridded over segment value under the real geodesic measure is measured, not proved: '
                     f"largest this run {state.get('worst_excess', 0.0):.3e}")
    return ctx.finish(RULE, TRUSTED, ASSUME)


def run_replay(ctx, pid, path):
    G = load_impl()
    d0 = json.loads(Path(path).read_text())
    if d0.get('kind') == 'proof-or-correspondence-broken':
        # no failing input was found when this file was written: show what no longer checks and re-evaluate the
        # clauses on the recorded diverging inputs
        for b in d0.get('broken_obligations', []):
            print(f'[{pid}] broken obligation: {b}')
        bad = 0
        for dv in d0.get('divergences', []):
            c = dv['case']
            case = {k: c['case'].get(k) for k in ('glat', 'glon', 'galt', 'gtime', 'lats', 'lons', 'alts', 'times', 'state', 'integ')}
            fails, _ = eval_clauses(G, case, c.get('mode', 'taxi'), want=(pid,))
            print(f"[{pid}] diverging input ({dv['correspondence']}): {dv['detail'][:200]} -> {len(fails)} clause failure(s)")
            bad += len(fails)
        print(f'[{pid}] replay: {"property violated on a recorded input" if bad else "no clause fails on the recorded inputs (model and code differ; no failing input known)"}')
        return 1 if bad else 0
    mode, case = load_corpus_case(path)
    bad = 0
    for m in ([mode] if mode == 'geod' else ['taxi', 'geod']):
        fails, info = eval_clauses(G, case, m, want=(pid,), sampled=True)
        print(f'[{pid}] replay {path} measure={m}: points(deg)={list(zip([round(math.degrees(x), 6) for x in case["lats"]], [round(math.degrees(x), 6) for x in case["lons"]]))}')
        if 'raw' in info:
            print(f'   implementation output: lat cells(deg)={[round(math.degrees(x), 4) for x in info["raw"]["lat"]]} '
                  f'lon cells(deg)={[round(math.degrees(x), 4) for x in info["raw"]["lon"]]} integ={info["raw"]["integ"]}')
        for f in fails:
            print(f'   FAILS clause {f[1]}: {f[2]}')
        if m == mode or mode == 'taxi':
            bad += len(fails)
    print(f'[{pid}] replay: {"property violated on this input" if bad else "no clause fails on this input"}')
    return 1 if bad else 0
