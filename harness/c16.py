"""C16 — ground speed is the length of (airspeed vector + wind vector).

Synthetic ERA5-style NetCDF files (uniform / linear / random fields, with and without a `valid_time` axis, ascending and
descending axes) are written into a temp dir; the real `Weather.get_ground_speed` answers sequences of queries on them
(several dates and hours on ONE Weather object, so its caches are exercised); the Lean model `Wind.getGroundSpeedWith`
answers the same queries statelessly in both variants of the heading decomposition (as-is / intended).
The property's clauses are evaluated on the implementation's output without using the model.
"""
from __future__ import annotations

import gc
import hashlib
import json
import math
import shutil
import tempfile
from pathlib import Path

import numpy as np

from harness.common import CORPUS_DIR, ROOT, aeic_setup, close, f2u, u2f

PID = 'C16'
FINDING = 'C16-heading-components-swapped'
RULE = ('worlds = Weather directories with two dated files each; fields: uniform (known wind vector), linear in '
        '(pressure, lat, lon), random per node; with/without valid_time (24 slabs); axes ascending or descending (ERA5 order); '
        'queries: random interior points, exact nodes, domain boundary, outside each axis, altitudes across the tropopause, '
        'above 25 km, all headings incl. 0 given explicitly, tailwind/headwind headings derived from the wind vector, '
        'rotated (heading, wind) pairs across the two dates, tas=0 probes of the interpolated wind; interleaved dates/hours on '
        'one Weather object. A case is one query; non-trivial = answered (not refused) with non-zero wind or tas.')
TRUSTED = ['Lean 4.33 kernel', 'axioms propext/Classical.choice/Quot.sound', 'Mathlib v4.33',
           'correspondence harness harness/c16.py (synthetic NetCDF writer, axis sorting before the model sees the grid)',
           'xarray/scipy linear interpolation and netCDF4 round trip (re-modelled as Wind.trilinear, validated by correspondence)',
           'numpy cos/sin/hypot/power/exp vs Lean Float libm (compared with rtol 1e-9)']
ASSUME = ['IEEE rounding is not modelled: theorems are over the reals; impl vs Float model compared with rtol 1e-9, atol 1e-9 m/s',
          'open finding C16-heading-components-swapped: the implementation may agree with either the as-is or the intended '
          'decomposition (consistently); clause failures predicted by the as-is model are reported as KNOWN-FINDING',
          'clause tolerances: rtol 1e-9 + 1e-7 m/s on ground speeds; linear-field reproduction rtol 1e-7 (independent ISA formula)']

DATES = ['20240101', '20240102']
MISSING_DATE = '20240103'   # a day for which no weather file is written: every query for it must be refused, also when repeated


# --------------------------------------------------------------------------- findings fragment (known_findings.json may not be merged yet)
def _merge_fragment(ctx):
    p = ROOT / f'findings_{PID}.json'
    if p.exists():
        for f in json.loads(p.read_text()):
            if f.get('property') == PID and f['id'] not in ctx.findings:
                ctx.findings[f['id']] = f
                if f.get('status') == 'open':
                    ctx.open_findings[f['id']] = f


# --------------------------------------------------------------------------- synthetic fields
P_LEVELS = [1000.0, 925.0, 850.0, 700.0, 600.0, 500.0, 400.0, 300.0, 250.0, 200.0, 150.0, 100.0]


def make_field(spec):
    """spec -> dict(ps, lats, lons in FILE order, has_time, u, v as ndarrays [t?][p][lat][lon])"""
    ps = np.array(spec['ps'], dtype=float)
    lats = np.array(spec['lats'], dtype=float)
    lons = np.array(spec['lons'], dtype=float)
    P, LA, LO = np.meshgrid(ps, lats, lons, indexing='ij')
    nt = 24 if spec['has_time'] else 1
    kind = spec['kind']
    us, vs = [], []
    r = np.random.default_rng(spec.get('seed', 0))
    for h in range(nt):
        if kind == 'uniform':
            u = np.full(P.shape, float(spec['u'])) + (spec.get('du_per_hour', 0.0) * h)
            v = np.full(P.shape, float(spec['v'])) + (spec.get('dv_per_hour', 0.0) * h)
        elif kind == 'linear':
            a = spec['cu']
            b = spec['cv']
            u = a[0] + a[1] * P + a[2] * LA + a[3] * LO + spec.get('du_per_hour', 0.0) * h
            v = b[0] + b[1] * P + b[2] * LA + b[3] * LO + spec.get('dv_per_hour', 0.0) * h
        elif kind == 'random':
            u = r.uniform(spec['lo'], spec['hi'], P.shape)
            v = r.uniform(spec['lo'], spec['hi'], P.shape) if not spec.get('v_zero') else np.zeros(P.shape)
        else:
            raise ValueError(kind)
        us.append(u)
        vs.append(v)
    return {'ps': ps, 'lats': lats, 'lons': lons, 'has_time': bool(spec['has_time']), 'u': np.stack(us), 'v': np.stack(vs)}


def write_world(world, root):
    import xarray as xr

    d = Path(tempfile.mkdtemp(dir=root))
    fields = {}
    for date, spec in world.items():
        f = make_field(spec)
        fields[date] = f
        coords = {'pressure_level': f['ps'], 'latitude': f['lats'], 'longitude': f['lons']}
        if f['has_time']:
            dims = ('valid_time', 'pressure_level', 'latitude', 'longitude')
            t0 = np.datetime64(f'{date[:4]}-{date[4:6]}-{date[6:]}T00')
            coords['valid_time'] = t0 + np.arange(24) * np.timedelta64(1, 'h')
            u, v = f['u'], f['v']
        else:
            dims = ('pressure_level', 'latitude', 'longitude')
            u, v = f['u'][0], f['v'][0]
        ds = xr.Dataset({'u': (dims, u), 'v': (dims, v), 't': (dims, np.full(u.shape, 250.0))}, coords=coords)
        ds.to_netcdf(d / f'{date}.nc')
        ds.close()
    return d, fields


def field_to_op(f, queries):
    """sort every axis ascending (the model's convention) and ship the grid as bit patterns"""
    ip, ila, ilo = np.argsort(f['ps']), np.argsort(f['lats']), np.argsort(f['lons'])

    def ship(x):
        x = x[:, ip][:, :, ila][:, :, :, ilo]
        return [[[[f2u(c) for c in row] for row in pl] for pl in sl] for sl in x.tolist()]

    return {'op': 'wind.gs', 'ps': [f2u(x) for x in f['ps'][ip]], 'lats': [f2u(x) for x in f['lats'][ila]],
            'lons': [f2u(x) for x in f['lons'][ilo]], 'has_time': f['has_time'], 'u': ship(f['u']), 'v': ship(f['v']),
            'queries': [{'hour': int(q['hour']), 'x': [f2u(q['alt']), f2u(q['lat']), f2u(q['lon']), f2u(q['tas']), f2u(q['hdg_used'])]}
                        for q in queries]}


# --------------------------------------------------------------------------- implementation side
class Env:
    def __init__(self):
        aeic_setup()
        import pandas as pd
        from AEIC.trajectories.ground_track import GroundTrack
        from AEIC.types import Location
        from AEIC.weather import Weather

        self.pd, self.GT, self.Location, self.Weather = pd, GroundTrack, Location, Weather
        self.root = tempfile.mkdtemp(prefix='c16_')
        # Weather._require_main_ds calls gc.collect() on every file switch; with the whole scientific stack imported
        # that costs ~40 ms a call.  Freezing the objects that exist now keeps the collections cheap (harness-side only).
        xr_warm = __import__('xarray')
        del xr_warm
        gc.collect()
        gc.freeze()

    def close(self):
        gc.collect()
        shutil.rmtree(self.root, ignore_errors=True)


def run_world_impl(env, world, queries):
    """answers all queries, in order, on ONE Weather object"""
    d, fields = write_world(world, env.root)
    w = env.Weather(d)
    res = []
    try:
        for q in queries:
            ts = env.pd.Timestamp(f"{q['date'][:4]}-{q['date'][4:6]}-{q['date'][6:]} {int(q['hour']):02d}:{int(q.get('minute', 0)):02d}:00")
            via_point = q.get('via', 'point') == 'point'
            pt = env.GT.Point(env.Location(float(q['lon']), float(q['lat'])), float(q['hdg'] if via_point else q.get('other_az', 123.0)))
            q['hdg_used'] = float(pt.azimuth) if via_point else float(q['hdg'])
            try:
                if via_point:
                    g = w.get_ground_speed(ts, pt, float(q['alt']), float(q['tas']))
                else:
                    g = w.get_ground_speed(ts, pt, float(q['alt']), float(q['tas']), azimuth=float(q['hdg']))
                res.append({'ok': float(g)})
            except (ValueError, FileNotFoundError):
                res.append({'err': 'refused'})
            except Exception as e:  # noqa: BLE001
                res.append({'err': 'internal:' + type(e).__name__})
    finally:
        for a in ('_main_ds', '_ds'):
            try:
                x = getattr(w, a, None)
                if x is not None:
                    x.close()
            except Exception:  # noqa: BLE001
                pass
        del w
        gc.collect()
        shutil.rmtree(d, ignore_errors=True)
    return res, fields


# --------------------------------------------------------------------------- independent references for the clauses
def isa_pressure_hpa_textbook(h):
    """ICAO standard atmosphere from the textbook formula (independent of the repository's code)"""
    g, R, L, T0, p0 = 9.80665, 287.05287, 0.0065, 288.15, 101325.0
    if h <= 11000.0:
        return p0 * (1.0 - L * h / T0) ** (g / (R * L)) / 100.0
    T11 = T0 - L * 11000.0
    p11 = p0 * (T11 / T0) ** (g / (R * L))
    return p11 * math.exp(-g * (h - 11000.0) / (R * T11)) / 100.0


def rot_cw(u, v, phi_deg):
    """rotate the (east, north) vector clockwise (as a compass heading turns) by phi"""
    c, s = math.cos(math.radians(phi_deg)), math.sin(math.radians(phi_deg))
    return (u * c + v * s, -u * s + v * c)


def heading_of(u, v):
    """compass direction (deg clockwise from north) the vector (east u, north v) points to"""
    return math.degrees(math.atan2(u, v)) % 360.0


def inside_domain(spec, q):
    pl = isa_pressure_hpa_textbook(q['alt']) if q['alt'] <= 25000 else math.nan
    return (min(spec['ps']) <= pl <= max(spec['ps']) and min(spec['lats']) <= q['lat'] <= max(spec['lats'])
            and min(spec['lons']) <= q['lon'] <= max(spec['lons']))


def margin_from_boundary(spec, q):
    """relative distance of the pressure level from the level range ends (ISA formula differences are ~1e-12)"""
    if q['alt'] > 25000 or math.isnan(q['alt']):
        return 1.0
    pl = isa_pressure_hpa_textbook(q['alt'])
    return min(abs(pl - min(spec['ps'])), abs(pl - max(spec['ps']))) / pl


GS_RTOL, GS_ATOL = 1e-9, 1e-7


def clauses(ctx, world, queries, res, fields, variant_of):
    """property clauses on the implementation's output.  variant_of[i] in {'as_is','intended','both','neither'} says which
    model variant the implementation matched on query i (used only to attribute failures to the open finding)."""

    def fail(cl, i, detail, swapped_can_explain=True):
        q = queries[i]
        fid = FINDING if (swapped_can_explain and variant_of[i] == 'as_is') else None
        if fid is not None and fid in ctx.open_findings:
            # the swapped decomposition is stateless: the single query (plus its rotation partner) reproduces it;
            # keep the records small (thousands of them in a thorough run)
            n_known = len(ctx.known_hits.get(fid, []))
            if n_known >= 40:
                case = {'kind': 'ref', 'note': 'same finding, see earlier records'}
            elif 'pair' in q:
                case = {'kind': 'world', 'world': world, 'queries': [dict(queries[q['pair']]), dict(q, pair=0)]}
            else:
                case = {'kind': 'world', 'world': world, 'queries': [dict(q)]}
        else:
            # the Weather object is stateful (file / hour caches): the replayable input is the query sequence up to here
            case = {'kind': 'world', 'world': world, 'queries': [dict(x) for x in queries[:i + 1]], 'focus': i}
        ctx.clause_fail(cl, case, finding=fid, detail=detail)

    for i, (q, r) in enumerate(zip(queries, res)):
        if q['date'] == MISSING_DATE:
            ctx.count('missing_day_query' + (':repeat' if q.get('tag') == 'missing_day_repeat' else ''))
            if 'ok' in r:
                fail('outside_domain_refused', i, f"a query for a day without a weather file was answered ({r['ok']!r}) "
                                                  f"{'when repeated' if q.get('tag') == 'missing_day_repeat' else ''}", False)
            elif r['err'] != 'refused':
                fail('no_internal_error', i, f'{r}', False)
            continue
        spec = world[q['date']]
        f = fields[q['date']]
        bad_input = any(math.isnan(q[k]) for k in ('alt', 'lat', 'lon'))
        ins = (not bad_input) and inside_domain(spec, q)
        if 'err' in r:
            if r['err'] != 'refused':
                fail('no_internal_error', i, f'{r}', False)
            elif ins and margin_from_boundary(spec, q) > 1e-9:
                fail('inside_domain_answered', i, 'point inside the data domain refused', False)
            continue
        gs = r['ok']
        if (not ins) and (bad_input or q['alt'] > 25000 or margin_from_boundary(spec, q) > 1e-9):
            fail('outside_domain_refused', i, f'point outside the weather data domain answered {gs!r}', False)
            continue
        if not ins:
            continue
        tas = q['tas']
        h = 0 if not f['has_time'] else int(q['hour'])
        wmax = float(np.max(np.hypot(f['u'][h], f['v'][h])))
        # between_bounds with the largest node wind speed (the interpolated wind cannot be faster)
        if not (gs <= abs(tas) + wmax + GS_ATOL + GS_RTOL * gs and gs >= abs(tas) - wmax - GS_ATOL - GS_RTOL * gs and gs >= 0):
            fail('between_bounds', i, f'gs {gs!r} not within tas {tas!r} -/+ max wind {wmax!r}', False)
        if spec['kind'] == 'uniform':
            u = spec['u'] + spec.get('du_per_hour', 0.0) * h
            v = spec['v'] + spec.get('dv_per_hour', 0.0) * h
            W = math.hypot(u, v)
            lo, hi = abs(abs(tas) - W), abs(tas) + W
            if not (lo - GS_ATOL - GS_RTOL * hi <= gs <= hi + GS_ATOL + GS_RTOL * hi):
                fail('between_bounds', i, f'gs {gs!r} outside [|tas-W|, tas+W] = [{lo!r}, {hi!r}]', False)
            tag = q.get('tag')
            if W == 0.0 and not close(gs, abs(tas), GS_RTOL, GS_ATOL):
                fail('zero_wind_is_tas', i, f'no wind, tas {tas!r}, gs {gs!r}', False)
            if tag == 'tail' and not close(gs, tas + W, GS_RTOL, GS_ATOL):
                fail('tailwind_adds', i, f"heading {q['hdg']!r} deg, wind (u={u!r}, v={v!r}) blows along it: expected {tas + W!r}, got {gs!r}")
            if tag == 'head' and not close(gs, abs(tas - W), GS_RTOL, GS_ATOL):
                fail('headwind_subtracts', i, f"heading {q['hdg']!r} deg, wind (u={u!r}, v={v!r}) blows against it: expected {abs(tas - W)!r}, got {gs!r}")
            if tag == 'exact':
                hr = math.radians(q['hdg'])
                ex = math.hypot(tas * math.sin(hr) + u, tas * math.cos(hr) + v)
                if not close(gs, ex, GS_RTOL, GS_ATOL):
                    fail('vector_sum', i, f"heading {q['hdg']!r}, tas {tas!r}, wind (u={u!r}, v={v!r}): |airspeed vector + wind| = {ex!r}, got {gs!r}")
            if tag == 'rot' and 'pair' in q and 'ok' in res[q['pair']]:
                g0 = res[q['pair']]['ok']
                if not close(gs, g0, GS_RTOL, GS_ATOL):
                    fail('rotation_invariant', i, f"heading and wind rotated together by {q['phi']!r} deg: {g0!r} became {gs!r}")
        if tas == 0.0 and q.get('tag') in ('probe', 'node'):
            # gs is the interpolated wind speed itself
            uu, vv = f['u'][h], f['v'][h]
            if spec['kind'] == 'linear':
                pl = isa_pressure_hpa_textbook(q['alt'])
                a, b = spec['cu'], spec['cv']
                eu = a[0] + a[1] * pl + a[2] * q['lat'] + a[3] * q['lon'] + spec.get('du_per_hour', 0.0) * h
                ev = b[0] + b[1] * pl + b[2] * q['lat'] + b[3] * q['lon'] + spec.get('dv_per_hour', 0.0) * h
                if not close(gs, math.hypot(eu, ev), 1e-7, 1e-6):
                    fail('wind_is_trilinear_at_isa_pressure', i, f'linear field: wind speed {math.hypot(eu, ev)!r} expected at the point, got {gs!r}', False)
            if spec['kind'] == 'random' and spec.get('v_zero') and spec['lo'] >= 0:
                pl = isa_pressure_hpa_textbook(q['alt'])

                def cell(ax, x):
                    ax = np.asarray(ax)
                    sel = [k for k in range(len(ax))]
                    below = [k for k in sel if ax[k] <= x]
                    above = [k for k in sel if ax[k] >= x]
                    kb = max(below, key=lambda k: ax[k])
                    ka = min(above, key=lambda k: ax[k])
                    return sorted({kb, ka})

                # widen the pressure cell by one node each side: the two ISA formulas may round differently at a node
                kp = cell(f['ps'], pl)
                if min(abs(f['ps'] - pl) / pl) < 1e-9:
                    kp = list(range(len(f['ps'])))
                vals = uu[np.ix_(kp, cell(f['lats'], q['lat']), cell(f['lons'], q['lon']))]
                if not (vals.min() - 1e-9 <= gs <= vals.max() + 1e-9):
                    fail('interp_within_corner_values', i, f'interpolated wind {gs!r} outside the surrounding node values [{float(vals.min())!r}, {float(vals.max())!r}]', False)
            if q.get('tag') == 'node':
                kp, kla, klo = q['node']
                ex = math.hypot(uu[kp, kla, klo], vv[kp, kla, klo])
                # only lat/lon are exact nodes (pressure comes through the ISA function), so the probe uses a p-independent field
                if spec.get('p_independent') and not close(gs, ex, 1e-9, 1e-9):
                    fail('interp_reproduces_nodes', i, f'at a grid node the wind is {ex!r}, got {gs!r}', False)


# --------------------------------------------------------------------------- model comparison
def compare(ctx, world, queries, res, fields):
    """returns variant_of list; registers divergences"""
    ops, owners = [], []
    for date in world:
        idx = [i for i, q in enumerate(queries) if q['date'] == date]
        if idx:
            ops.append(field_to_op(fields[date], [queries[i] for i in idx]))
            owners.append(idx)
    outs = ctx.driver.outs(ops)
    variant_of = ['both'] * len(queries)
    for idx, out in zip(owners, outs):
        for i, m in zip(idx, out):
            r, q = res[i], queries[i]
            case = {'kind': 'world', 'world': world, 'queries': [dict(x) for x in queries[:i + 1]], 'focus': i}
            ma, mi = m['as_is'], m['intended']
            if 'err' in r:
                if r['err'] != 'refused' or 'err' not in ma:
                    # tie suspect: pressure level within an ulp of the level range end
                    if r['err'] == 'refused' and margin_from_boundary(world[q['date']], q) < 1e-12:
                        ctx.tie_suspects += 1
                        continue
                    ctx.diverge('Weather.get_ground_speed refusal', case, f'impl {r} model {ma}')
                    variant_of[i] = 'neither'
                continue
            if 'err' in ma:
                if margin_from_boundary(world[q['date']], q) < 1e-12:
                    ctx.tie_suspects += 1
                    continue
                ctx.diverge('Weather.get_ground_speed refusal', case, f'impl {r} model refuses ({ma})')
                variant_of[i] = 'neither'
                continue
            a, b = u2f(ma['ok']), u2f(mi['ok'])
            ca, cb = close(r['ok'], a, 1e-9, 1e-9), close(r['ok'], b, 1e-9, 1e-9)
            variant_of[i] = 'both' if (ca and cb) else 'as_is' if ca else 'intended' if cb else 'neither'
            if not (ca or cb):
                ctx.diverge('Weather.get_ground_speed value', case,
                            f"impl {r['ok']!r}; model as-is {a!r}, intended {b!r}; wind seen by the model {[u2f(x) for x in m['wind']] if m['wind'] else None}")
    return variant_of


# --------------------------------------------------------------------------- generators
def gen_axes(rng):
    npl = int(rng.integers(3, 7))
    start = int(rng.integers(0, len(P_LEVELS) - npl + 1))
    ps = P_LEVELS[start:start + npl]
    nla, nlo = int(rng.integers(2, 6)), int(rng.integers(2, 7))
    la0 = float(rng.integers(-80, 60))
    lo0 = float(rng.integers(-170, 140))
    dla = float(rng.choice([0.25, 0.5, 1.0, 2.5]))
    dlo = float(rng.choice([0.25, 0.5, 1.0, 2.5]))
    lats = [la0 + dla * k for k in range(nla)]
    if rng.random() < 0.2:
        # ERA5's native 0..360 longitude convention, often a regional file straddling the antimeridian (…178, 180, 182…):
        # the domain is what the file's axis says it is; points far from it are outside whatever the convention (seed C16_4)
        lo0 = float(rng.choice([180.0 - dlo * (nlo // 2), 181.0, 200.0, 340.0, 180.0 - dlo * (nlo - 1)]))
    lons = [lo0 + dlo * k for k in range(nlo)]
    if rng.random() < 0.6:
        lats = lats[::-1]  # ERA5 order
    if rng.random() < 0.3:
        ps = ps[::-1]
    if rng.random() < 0.15:
        lons = lons[::-1]
    return ps, lats, lons


def gen_world(rng, kind):
    ps, lats, lons = gen_axes(rng)
    base = {'ps': ps, 'lats': lats, 'lons': lons}
    w = {}
    if kind == 'uniform':
        ht = bool(rng.random() < 0.5)
        sp = float(rng.choice([0.0, 5.0, 30.0, 80.0, 150.0, 260.0]))
        ang = float(rng.uniform(0, 360))
        u, v = sp * math.sin(math.radians(ang)), sp * math.cos(math.radians(ang))
        if rng.random() < 0.3:  # cardinal winds
            u, v = [(sp, 0.0), (-sp, 0.0), (0.0, sp), (0.0, -sp)][int(rng.integers(0, 4))]
        phi = float(rng.choice([90.0, 180.0, 37.0, float(rng.uniform(0, 360))]))
        u2, v2 = rot_cw(u, v, phi)
        hr = {'du_per_hour': 0.5, 'dv_per_hour': -0.25} if ht and rng.random() < 0.5 else {}
        w[DATES[0]] = dict(base, kind='uniform', has_time=ht, u=u, v=v, **hr)
        w[DATES[1]] = dict(base, kind='uniform', has_time=bool(rng.random() < 0.5), u=u2, v=v2, phi=phi)
    elif kind == 'linear':
        for d in DATES:
            if d != DATES[0] and rng.random() < 0.5:
                # the second daily file covers another domain (other pressure levels / latitudes / longitudes)
                ps2, lats2, lons2 = gen_axes(rng)
                base = {'ps': ps2, 'lats': lats2, 'lons': lons2}
            w[d] = dict(base, kind='linear', has_time=bool(rng.random() < 0.4),
                        cu=[float(rng.uniform(-20, 20)), float(rng.uniform(-0.05, 0.05)), float(rng.uniform(-1, 1)), float(rng.uniform(-1, 1))],
                        cv=[float(rng.uniform(-20, 20)), float(rng.uniform(-0.05, 0.05)), float(rng.uniform(-1, 1)), float(rng.uniform(-1, 1))],
                        du_per_hour=float(rng.choice([0.0, 1.5])))
            if rng.random() < 0.4:
                w[d]['cu'][1] = 0.0
                w[d]['cv'][1] = 0.0
                w[d]['p_independent'] = True
    else:
        for d in DATES:
            if d != DATES[0] and rng.random() < 0.5:
                ps2, lats2, lons2 = gen_axes(rng)
                base = {'ps': ps2, 'lats': lats2, 'lons': lons2}
            vz = bool(rng.random() < 0.5)
            w[d] = dict(base, kind='random', has_time=bool(rng.random() < 0.4), seed=int(rng.integers(0, 2 ** 31)),
                        lo=(0.0 if vz else -60.0), hi=60.0, v_zero=vz)
    return w


def alt_for_levels(rng, ps, inside=True):
    lo, hi = min(ps), max(ps)
    for _ in range(200):
        alt = float(rng.uniform(-300, 17000))
        pl = isa_pressure_hpa_textbook(alt)
        ok = lo * (1 + 1e-6) < pl < hi * (1 - 1e-6)
        if ok == inside and (inside or not (lo * (1 - 1e-6) <= pl <= hi * (1 + 1e-6))):
            return alt
    return 5000.0


def gen_queries(rng, world, n):
    qs = []
    for _ in range(n):
        date = DATES[int(rng.integers(0, 2))]
        spec = world[date]
        la_lo, la_hi = min(spec['lats']), max(spec['lats'])
        lo_lo, lo_hi = min(spec['lons']), max(spec['lons'])
        q = {'date': date, 'hour': int(rng.integers(0, 24)), 'minute': int(rng.choice([0, 0, 30])),
             'lat': float(rng.uniform(la_lo, la_hi)), 'lon': float(rng.uniform(lo_lo, lo_hi)),
             'alt': alt_for_levels(rng, spec['ps']), 'tas': float(rng.choice([0.0, 60.0, 150.0, 200.0, 251.5, float(rng.uniform(1, 300))])),
             'hdg': float(rng.uniform(0, 360)), 'via': 'point' if rng.random() < 0.5 else 'arg', 'other_az': float(rng.uniform(0, 360))}
        if qs and rng.random() < 0.04:
            # a day whose file does not exist (refused), and — on the same Weather object — exactly the same query again
            qm = dict(q, date=MISSING_DATE, tag='missing_day')
            qs.append(qm)
            if rng.random() < 0.7:
                qs.append(dict(qm, tag='missing_day_repeat'))
            continue
        other = world[DATES[1] if date == DATES[0] else DATES[0]]
        if (other['lats'] != spec['lats'] or other['lons'] != spec['lons'] or other['ps'] != spec['ps']) and rng.random() < 0.25:
            # a point chosen inside the OTHER day's domain (it may be inside or outside this day's): what counts is the file of the day asked for
            q['lat'] = float(rng.uniform(min(other['lats']), max(other['lats'])))
            q['lon'] = float(rng.uniform(min(other['lons']), max(other['lons'])))
            q['alt'] = alt_for_levels(rng, other['ps'])
            q['tas'] = 0.0
            q['tag'] = 'probe'
            qs.append(q)
            continue
        if qs and rng.random() < 0.18:
            # the same point and altitude as an earlier query of this Weather object, same day, another hour
            # (and sometimes another day): the answer must depend on the time asked for, not on what was asked before
            prev = qs[int(rng.integers(0, len(qs)))]
            if all(isinstance(prev[k], float) and not math.isnan(prev[k]) for k in ('lat', 'lon', 'alt')):
                q.update(lat=prev['lat'], lon=prev['lon'], alt=prev['alt'],
                         date=prev['date'] if rng.random() < 0.8 else q['date'])
                if q['date'] == prev['date']:
                    q['hour'] = int((prev['hour'] + int(rng.integers(1, 24))) % 24)
                q['tas'] = float(rng.choice([0.0, prev['tas']]))
                q['tag'] = 'probe' if q['tas'] == 0.0 else 'revisit'
                qs.append(q)
                continue
        r = rng.random()
        if r < 0.10:
            q['hdg'] = float(rng.choice([0.0, 90.0, 180.0, 270.0, 360.0, 45.0, -90.0, 450.0]))
            if q['hdg'] in (0.0,):
                q['via'] = 'arg'  # explicit azimuth 0.0 must not fall back to the point's azimuth
        elif r < 0.16:  # outside the domain
            k = int(rng.integers(0, 7))
            if k == 0:
                q['lat'] = la_hi + float(rng.choice([1e-9, 0.3, 40.0]))
            elif k == 1:
                q['lat'] = la_lo - float(rng.choice([1e-9, 0.3, 40.0]))
            elif k == 2:
                q['lon'] = lo_hi + float(rng.choice([1e-9, 0.3, 40.0]))
            elif k == 3:
                q['lon'] = lo_lo - float(rng.choice([1e-9, 0.3, 40.0]))
            elif k == 4:
                q['alt'] = alt_for_levels(rng, spec['ps'], inside=False)
            elif k == 5:
                q['alt'] = float(rng.choice([25000.5, 30000.0, 26000.0]))
            else:
                q[['lat', 'lon', 'alt'][int(rng.integers(0, 3))]] = math.nan
        elif r < 0.24:  # exact nodes / boundary
            kla, klo = int(rng.integers(0, len(spec['lats']))), int(rng.integers(0, len(spec['lons'])))
            q['lat'], q['lon'] = spec['lats'][kla], spec['lons'][klo]
            q['tas'] = 0.0
            q['tag'] = 'node'
            q['node'] = [0, kla, klo]
        elif r < 0.34:
            q['tas'] = 0.0
            q['tag'] = 'probe'
        elif r < 0.40:  # around the tropopause
            if min(spec['ps']) < 226.0 < max(spec['ps']):
                q['alt'] = float(rng.choice([11000.0, math.nextafter(11000.0, 0), math.nextafter(11000.0, 1e9), 10999.0, 11001.0, 12500.0]))
        if spec['kind'] == 'uniform' and 'tag' not in q:
            h = q['hour'] if spec['has_time'] else 0
            u = spec['u'] + spec.get('du_per_hour', 0.0) * h
            v = spec['v'] + spec.get('dv_per_hour', 0.0) * h
            r2 = rng.random()
            if math.hypot(u, v) > 0 and r2 < 0.3:
                q['hdg'] = heading_of(u, v)
                q['tag'] = 'tail'
            elif math.hypot(u, v) > 0 and r2 < 0.55:
                q['hdg'] = (heading_of(u, v) + 180.0) % 360.0
                q['tag'] = 'head'
            elif r2 < 0.8 and 'phi' in world[DATES[1]] and not world[DATES[0]].get('du_per_hour'):
                # rotated pair: same point/tas on date 0 with heading h, on date 1 with heading h + phi
                q['date'] = DATES[0]
                q['tag'] = 'exact'
                q2 = dict(q, date=DATES[1], hdg=q['hdg'] + world[DATES[1]]['phi'], tag='rot', phi=world[DATES[1]]['phi'], pair=len(qs))
                qs.append(q)
                qs.append(q2)
                continue
            else:
                q['tag'] = 'exact'
        qs.append(q)
    return qs


# --------------------------------------------------------------------------- evaluation
def evaluate(ctx, env, world, queries, register=True):
    before = len(ctx.violations) + len(ctx.divergences)
    res, fields = run_world_impl(env, world, queries)
    variant_of = compare(ctx, world, queries, res, fields)
    clauses(ctx, world, queries, res, fields, variant_of)
    if register:
        for q, r, vo in zip(queries, res, variant_of):
            if q['date'] == MISSING_DATE:
                continue
            spec = world[q['date']]
            ctx.count(('refused' if 'err' in r else 'ok') + ':' + spec['kind'] + (':time' if spec['has_time'] else ':notime'))
            ctx.count('variant:' + vo)
            if q.get('tag'):
                ctx.count('tag:' + q['tag'])
            key = hashlib.sha1((json.dumps(spec, sort_keys=True) + json.dumps({k: str(v) for k, v in q.items()}, sort_keys=True)).encode()).hexdigest()
            ctx.case(key, nontrivial=('ok' in r and (q['tas'] != 0 or spec['kind'] != 'uniform' or spec.get('u') or spec.get('v'))),
                     sample={'field': spec['kind'], 'q': {k: q[k] for k in ('date', 'hour', 'lat', 'lon', 'alt', 'tas', 'hdg')}, 'impl': r})
    return variant_of, len(ctx.violations) + len(ctx.divergences) - before


def _load_case(path):
    data = json.loads(Path(path).read_text())
    if 'first' in data and isinstance(data['first'], dict) and 'case' in data['first']:
        return data['first']['case']
    if data.get('divergences'):
        return data['divergences'][0]['case']
    if 'witness' in data:
        return data['witness']
    return data.get('case', data)


def replay(ctx, path):
    _merge_fragment(ctx)
    env = Env()
    try:
        case = _load_case(path)
        if case.get('kind') == 'plevel':
            from AEIC.utils.standard_atmosphere import pressure_at_altitude_isa_bada4

            a = float(case['alt'])
            pi = float(pressure_at_altitude_isa_bada4(a)) / 100.0
            (out,) = ctx.driver.outs([{'op': 'wind.plevel', 'alts': [f2u(a)]}])
            ok = close(pi, isa_pressure_hpa_textbook(a), 1e-9) and 'ok' in out[0] and close(pi, u2f(out[0]['ok']), 1e-12)
            print(f"[{PID}] replay: altitude {a!r} m -> implementation {pi!r} hPa, ICAO standard atmosphere {isa_pressure_hpa_textbook(a)!r} hPa, model {out[0]}: "
                  + ('ok' if ok else 'isa_pressure_level FAILS on the implementation'))
            return 0 if ok else 1
        if case.get('kind') != 'world':
            print(f'[{PID}] replay: nothing executable in {path}')
            return 0
        qs = [dict(q) for q in case['queries']]
        _, n = evaluate(ctx, env, case['world'], qs, register=False)
        for v in ctx.violations:
            print(f"[{PID}] replay: clause {v['clause']} FAILS on the implementation: {v['detail']}")
        for fid, hits in ctx.known_hits.items():
            for v in hits:
                print(f"[{PID}] replay: clause {v['clause']} FAILS on the implementation (open finding {fid}): {v['detail']}")
        for d in ctx.divergences:
            print(f"[{PID}] replay: implementation differs from the model at {d['correspondence']}: {d['detail']}")
        bad = n + sum(len(h) for h in ctx.known_hits.values())
        if bad == 0:
            print(f'[{PID}] replay: implementation satisfies all clauses and agrees with a model variant on {path}')
        return 1 if bad else 0
    finally:
        env.close()


def main(ctx):
    _merge_fragment(ctx)
    ctx.proofs()
    env = Env()
    try:
        rng = ctx.rng
        all_variants = []
        d = CORPUS_DIR / PID
        if d.is_dir():
            for p in sorted(d.glob('*.json')):
                case = _load_case(p)
                vo, _ = evaluate(ctx, env, case['world'], [dict(q) for q in case['queries']])
                all_variants += vo
                ctx.count('corpus')
        # pressure-level function on its own (both ISA branches, boundary, refusal)
        alts = [0.0, -100.0, 11000.0, math.nextafter(11000.0, 0), math.nextafter(11000.0, 1e9), 25000.0, math.nextafter(25000.0, 1e9), 9144.0]
        alts += [float(x) for x in rng.uniform(-500, 25000, ctx.scale(300, 5000))]
        from AEIC.utils.standard_atmosphere import pressure_at_altitude_isa_bada4

        (out,) = ctx.driver.outs([{'op': 'wind.plevel', 'alts': [f2u(a) for a in alts]}])
        for a, m in zip(alts, out):
            try:
                pi = float(pressure_at_altitude_isa_bada4(a)) / 100.0
            except ValueError:
                pi = None
            if (pi is None) != ('err' in m) or (pi is not None and not close(pi, u2f(m['ok']), 1e-12)):
                ctx.diverge('pressure_at_altitude_isa_bada4', {'kind': 'plevel', 'alt': a}, f'impl {pi!r} model {m}')
            if pi is not None and not close(pi, isa_pressure_hpa_textbook(a), 1e-9):
                ctx.clause_fail('isa_pressure_level', {'kind': 'plevel', 'alt': a}, detail=f'impl {pi!r} hPa, ICAO standard atmosphere {isa_pressure_hpa_textbook(a)!r} hPa')
            ctx.count('plevel')
        n_worlds = ctx.scale(30, 500)
        n_q = ctx.scale(50, 70)
        kinds = ['uniform', 'uniform', 'uniform', 'linear', 'random', 'random']
        for k in range(n_worlds):
            world = gen_world(rng, kinds[k % len(kinds)])
            qs = gen_queries(rng, world, n_q)
            vo, _ = evaluate(ctx, env, world, qs)
            all_variants += vo
            if len(ctx.violations) > 50:
                break
        if ctx.divergences and not ctx.violations:
            # widened search: the worlds on which model and implementation disagree, with many more (clause-tagged) queries
            from harness.common import make_rng

            r2 = make_rng(PID, ctx.seed, 'widened')
            seen = []
            for dv in ctx.divergences:
                w = dv['case'].get('world')
                if w is not None and w not in seen:
                    seen.append(w)
            n_before = len(ctx.divergences)
            for w in seen[:4]:
                evaluate(ctx, env, w, gen_queries(r2, w, 120), register=False)
                if ctx.violations:
                    break
            for _ in range(4):
                if ctx.violations:
                    break
                w = gen_world(r2, 'uniform')
                evaluate(ctx, env, w, gen_queries(r2, w, 80), register=False)
            ctx.extra['widened_search'] = {'worlds': len(seen[:4]) + 4, 'found_failing_input': bool(ctx.violations)}
            del ctx.divergences[n_before + 50:]
        from harness import kernels

        kernels.check_sym(ctx, files={'weather.py'})
        kernels.check(ctx, files={'utils/standard_atmosphere.py'}, n=40)
        na, ni = all_variants.count('as_is'), all_variants.count('intended')
        ctx.extra['variant_counts'] = {v: all_variants.count(v) for v in ('as_is', 'intended', 'both', 'neither')}
        if na and ni:
            ctx.diverge('consistent heading decomposition', {'kind': 'summary'},
                        f'implementation matches ONLY the as-is variant on {na} queries and ONLY the intended variant on {ni}')
        ctx.notes.append('implementation follows the ' + ('as-is (cos/sin swapped)' if na and not ni else 'intended' if ni and not na else 'undetermined') + ' heading decomposition')
        return ctx.finish(RULE, TRUSTED, ASSUME)
    finally:
        env.close()
