"""Shared comparison loop for the store state machine (C07, C08, C10): impl vs Lean model vs Lean spec."""
from __future__ import annotations

import json
from pathlib import Path

from harness.common import CORPUS_DIR
from harness.store_impl import RealStore, fresh_dir, rm_dir, run_impl, run_model, shrink_ops

OP_CLASS = {
    'C07': {'create', 'open_read', 'open_append', 'close', 'add', 'get', 'len', 'iter', 'sync', 'save'},
    'C08': {'get_flight', 'add'},
    'C10': {'add', 'get', 'len', 'iter', 'close', 'open_read', 'open_append', 'get_flight', 'sync', 'save'},
}


def run_impl_parallel(histories: list[list[dict]]):
    """Run every history on its own fresh real store; forked worker processes (each store lives in one process/thread)."""
    import multiprocessing as mp
    import os

    n = min(8, os.cpu_count() or 1)
    if len(histories) < 16 or n < 2 or os.environ.get('VERIF_SERIAL') == '1':
        return [run_impl(h) for h in histories]
    ctxmp = mp.get_context('fork')
    with ctxmp.Pool(n) as pool:
        return pool.map(run_impl, histories, chunksize=4)


def load_corpus(pid: str) -> list[list[dict]]:
    res = []
    d = CORPUS_DIR / pid
    if d.exists():
        for p in sorted(d.glob('*.json')):
            j = json.loads(p.read_text())
            if 'ops' in j:
                res.append(j['ops'])
    return res


def first_mismatch(a: list, b: list, ops: list[dict], classes: set[str]):
    for i, (x, y) in enumerate(zip(a, b)):
        if ops[i]['op'] in classes and x != y:
            return i
    return None


def check_histories(ctx, histories: list[list[dict]], classes: set[str], clause: str, is_nontrivial, tag: str = ''):
    """Runs every history on the implementation and on the model; registers divergences and clause failures."""
    sizing = RealStore(Path('/nonexistent'))
    model = run_model(ctx, sizing, histories)
    impl_results = run_impl_parallel(histories)
    for ops, m, (impl_outs, impl_keys) in zip(histories, model, impl_results):
        ctx.case(json.dumps(ops, sort_keys=True), nontrivial=is_nontrivial(ops, impl_outs),
                 sample={'ops': ops[:12], 'impl': impl_outs[:12]})
        for o in ops:
            ctx.count('op:' + o['op'])
        for r in impl_outs:
            if r.startswith('err:') or r == 'no_session':
                ctx.count('out:' + r)
        # 1. property clause: implementation vs abstract spec
        i = first_mismatch(impl_outs, m['spec'], ops, classes)
        if i is not None and len(ctx.violations) >= 3:
            ctx.clause_fail(clause, {'ops': ops, 'impl_outs': impl_outs, 'spec_outs': m['spec'], 'first_bad_op': i},
                            detail=f'op #{i} {ops[i]}: implementation returned {impl_outs[i]}, specification requires {m["spec"][i]} (not shrunk)')
            continue
        if i is not None:
            def fails(cand, _classes=classes):
                io, _ = run_impl(cand, with_keys=False)
                mm = run_model(ctx, sizing, [cand])[0]
                return first_mismatch(io, mm['spec'], cand, _classes) is not None

            small = shrink_ops(ops, fails)
            io, _ = run_impl(small, with_keys=False)
            mm = run_model(ctx, sizing, [small])[0]
            j = first_mismatch(io, mm['spec'], small, classes)
            ctx.clause_fail(clause, {'ops': small, 'impl_outs': io, 'spec_outs': mm['spec'], 'first_bad_op': j},
                            detail=f'op #{j} {small[j] if j is not None else None}: implementation returned '
                                   f'{io[j] if j is not None else None}, the list/dictionary specification requires '
                                   f'{mm["spec"][j] if j is not None else None}')
            continue
        # 2. correspondence: implementation vs model (outputs, then cache key sets)
        i = first_mismatch(impl_outs, m['outs'], ops, {o['op'] for o in ops})
        if i is not None:
            ctx.diverge(f'store model vs implementation outputs{tag}', {'ops': ops, 'impl': impl_outs, 'model': m['outs']},
                        detail=f'op #{i} {ops[i]}: impl {impl_outs[i]} model {m["outs"][i]}')
            continue
        # cache contents are internal state: the outputs above are what ties the model to the code. A difference in the
        # set of cached indices alone (outputs equal on the whole history) is recorded as a diagnostic of the model's
        # eviction bookkeeping, not as a broken correspondence — a different but correct caching policy is not an alarm.
        for i, (ik, mk) in enumerate(zip(impl_keys, m['keys'])):
            if ik is not None and ik != sorted(mk):
                ctx.count('diagnostic:cache_key_sets_differ')
                diag = ctx.extra.setdefault('cache_key_diagnostics', [])
                if len(diag) < 3:
                    diag.append({'ops': ops[: i + 1], 'impl_keys': ik, 'model_keys': sorted(mk)})
                break
        else:
            ctx.count('diagnostic:cache_key_sets_equal')
